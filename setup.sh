#!/bin/sh
# Builds the checker from files on disk only (offline).
set -e
cd "$(dirname "$0")"
export GOFLAGS=-mod=mod GOPROXY=off GOSUMDB=off GOTOOLCHAIN=local GOWORK=off
mkdir -p bin work evidence replay
(cd checker && go build -o ../bin/jtverif ./cmd/jtverif)
echo "jtverif built"
