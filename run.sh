#!/bin/sh
# usage: ./run.sh <property id> [quick|thorough]
# Rebuilds the checker (cached), then decides the property from /repo's current working tree.
# thorough: larger analysis budgets + build-tagged sources, and a self-test of the check against the
# property's own seeded changes (scratch worktree outside /repo and /verif, removed afterwards; the
# self-test is recorded in the evidence and never changes the exit code).
cd "$(dirname "$0")" || exit 2
export GOFLAGS=-mod=mod GOPROXY=off GOSUMDB=off GOTOOLCHAIN=local GOWORK=off
mkdir -p bin work evidence replay
(cd checker && go build -o ../bin/jtverif ./cmd/jtverif) || { echo "VIOLATION property=$1 replay=/verif/replay/build-failed"; exit 1; }
tier="${2:-${VERIF_TIER:-quick}}"
if [ "$tier" != "thorough" ]; then
  exec bin/jtverif check "$1" --tier "$tier"
fi
bin/jtverif check "$1" --tier thorough
rc=$?
# ---- self-test against the property's seeded changes
res=""
for d in seeded/"$1"-*; do
  [ -f "$d/patch.diff" ] || continue
  id=$(basename "$d")
  W=$(mktemp -d /tmp/jtverif-selftest.XXXXXX); V=$(mktemp -d /tmp/jtverif-selftest-v.XXXXXX)
  rmdir "$W"
  if git -C /repo worktree add -q --detach "$W" HEAD 2>/dev/null; then
    # carry the working tree's uncommitted state over, then the seeded change
    git -C /repo diff HEAD | git -C "$W" apply 2>/dev/null
    if git -C "$W" apply "$PWD/$d/patch.diff" 2>/dev/null; then
      cp -r spec "$V/spec"; cp known_findings.json "$V/"
      if bin/jtverif check "$1" --tier quick --repo "$W" --verif "$V" >/dev/null 2>&1; then r=missed; else r=detected; fi
    else
      r=patch-does-not-apply
    fi
    git -C /repo worktree remove --force "$W" 2>/dev/null
  else
    r=no-worktree
  fi
  rm -rf "$W" "$V"
  echo "SELFTEST property=$1 change=$id $r"
  res="$res $id=$r"
done
python3 - "$1" "$res" <<'PY'
import json,sys
pid,res=sys.argv[1],sys.argv[2].split()
p='evidence/%s.json'%pid
try:
    e=json.load(open(p))
    e.setdefault('coverage',{})['selftest_seeded_changes']={k:v for k,v in (x.split('=',1) for x in res)}
    json.dump(e,open(p,'w'),indent=1,ensure_ascii=False)
except Exception as ex:
    print('selftest: evidence not updated:',ex)
PY
exit $rc
