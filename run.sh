#!/bin/sh
# usage: ./run.sh <property id> [quick|thorough]
# Rebuilds the checker (cached), then decides the property from /repo's current working tree.
cd "$(dirname "$0")" || exit 2
export GOFLAGS=-mod=mod GOPROXY=off GOSUMDB=off GOTOOLCHAIN=local GOWORK=off
mkdir -p bin work evidence replay
(cd checker && go build -o ../bin/jtverif ./cmd/jtverif) || { echo "VIOLATION property=$1 replay=/verif/replay/build-failed"; exit 1; }
tier="${2:-${VERIF_TIER:-quick}}"
exec bin/jtverif check "$1" --tier "$tier"
