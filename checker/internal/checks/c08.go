package checks

import (
	"fmt"
	"go/token"
	"go/types"
	"os"
	"sort"
	"strconv"
	"strings"

	"golang.org/x/tools/go/ssa"

	"jtverif/internal/absint"
	"jtverif/internal/report"
)

func init() {
	register(&Check{ID: "C08", Level: "other", Run: runC08})
}

type additionSpec struct {
	Lens        []int64                      `json:"lens"`
	Fields      map[string]string            `json:"fields"`
	FieldsByLen map[string]map[string]string `json:"fields_by_len"`
}

type locationSpec struct {
	Base         LayoutSpec                `json:"base"`
	Flags        map[string]map[string]int `json:"flags"`
	FlagsIgnored map[string][]string       `json:"flags_ignored_fields"`
	Additions    map[string]additionSpec   `json:"additions"`
	UnknownProbe int64                     `json:"unknown_id_probe"`
}

// relRender renders v with byte reads expressed relative to the start of window w.
func relRender(a *absint.Analyzer, v absint.Term, w *absint.Slice) string {
	if iv, ok := v.(absint.Int); ok {
		if at := iv.L.SingleAtom(); at != nil && (at.Op == "rd") && len(at.Args) == 3 {
			if off, ok := at.Args[1].(absint.Int); ok {
				rel := off.L.Sub(w.Off)
				width := at.Args[2].(absint.Int).L.C
				if rel.IsConst() && strings.Contains(at.Args[0].TKey(), fmt.Sprintf("b%d", w.Base.ID)) {
					if width == 1 {
						return fmt.Sprintf("u8(@%d)", rel.C)
					}
					return fmt.Sprintf("u%dbe(@%d)", width*8, rel.C)
				}
			}
		}
	}
	return a.Render(v)
}

// flatten struct term into path->term
func flattenStruct(t absint.Term, prefix string, out map[string]absint.Term) {
	s, ok := t.(*absint.Struct)
	if !ok {
		out[strings.TrimSuffix(prefix, ".")] = t
		return
	}
	st, ok := s.Typ.Underlying().(*types.Struct)
	if !ok {
		return
	}
	for i := 0; i < st.NumFields() && i < len(s.Fields); i++ {
		flattenStruct(s.Fields[i], prefix+st.Field(i).Name()+".", out)
	}
}

func runC08(c *Ctx) {
	c.E1Rules()
	c.E1Assumptions()
	R := c.R
	R.Rules["E3.field"] = "the 28-byte base block: every field equals the standard's big-endian / BCD reading at the standard offset (spec/location.json)"
	R.Rules["E3.minlen"] = "the base block decoder succeeds only with at least 28 bytes"
	R.Rules["E3.window"] = "each carrier (0x0200, each 0x0704 item, 0x0801) hands the base-block decoder exactly the bytes the standard assigns to it"
	R.Rules["E6.flag"] = "each alarm / status / signal flag is set to true exactly under a test of its own bit of the decoded word (semantic extraction from the string-index, mask and shift idioms), per the standard's tables"
	R.Rules["E6.flag-form"] = "every store of a boolean constant in a flag decoder is guarded by one recognisable single-bit test"
	R.Rules["E3.addition-len"] = "for each standard additional-information ID the set of lengths the TLV walker accepts equals the standard's admissible lengths"
	R.Rules["E3.addition-field"] = "for each standard ID and admissible length each value is read at the standard's offset inside the item"
	R.Rules["E3.addition-unknown"] = "an item with a non-standard ID is kept verbatim (Data is the item's bytes, no typed field is set)"
	var spec locationSpec
	if !c.loadSpec("location.json", &spec) {
		return
	}
	// ---- base block
	base := c.P.Method("protocol/model", "T0x0200LocationItem", "parse")
	if base == nil {
		R.Fatal("anchor (*T0x0200LocationItem).parse not found")
		return
	}
	var recv, bodyArg absint.Term
	nFlagWord := 0
	R.Rules["E6.flag-word"] = "each flag decoder of the base block is handed the word it details: AlarmSignDetails.parse receives the decoded AlarmSign, StatusSignDetails.parse the decoded StatusSign (E6.flag shows that each flag tests its own bit of the word it is given; this rule shows it is given the right word)"
	res := c.RunE1([]*ssa.Function{base}, false, func(a *absint.Analyzer, fn *ssa.Function, st *absint.State, args []absint.Term) {
		a.TrackObj(st, args[0], fn.Params[0].Type())
		recv, bodyArg = args[0], args[1]
		recvT := fn.Params[0].Type()
		// each flag decoder is given the word it details: <X>Details.parse(…) receives the value of the item's field <X>
		a.OnCall = func(a *absint.Analyzer, st *absint.State, site ssa.CallInstruction, callee *ssa.Function, cargs []absint.Term) {
			if callee.Signature.Recv() == nil || len(cargs) != 2 {
				return
			}
			tn, isN := derefNamed(callee.Signature.Recv().Type())
			if !isN || !strings.HasSuffix(tn, "SignDetails") {
				return
			}
			word := strings.TrimSuffix(tn, "Details")
			fv, _ := a.LoadField(st, recv, recvT, word)
			fi, okF := fv.(absint.Int)
			ai, okA := cargs[1].(absint.Int)
			ok := okF && okA && st.Entails(eqC(ai.L, fi.L))
			d := ""
			if !ok {
				d = fmt.Sprintf("%s.%s is given %s, not the value of the item's field %s (%s): the flags are expanded from the wrong word", tn, callee.Name(), a.Render(cargs[1]), word, a.Render(fv))
			}
			nFlagWord++
			a.Oblige("E6.flag-word", fn, site.(ssa.Instruction), tn, ok, d)
		}
	})
	c.AddE1(res, false)
	if nFlagWord < 2 {
		R.Fatal("E6.flag-word: only %d flag-decoder calls seen in the base block decoder (confirmed by hand: alarm and status)", nFlagWord)
	}
	r := res[0]
	locs := fieldLocs(r.A, recv.(*absint.Ptr))
	lr := layoutResult{}
	body := bodyArg.(*absint.Slice)
	succ := func(ri absint.RetInfo) bool { _, ok := ri.Val.(absint.NilT); return ok }
	cov := c.checkLayout(lr, shortFn(base), r.A, r.Rets, succ, locs, &spec.Base, &body.Len)
	if !cov["any"] {
		R.Add("E3.field", shortFn(base)+" / (no successful return)", c.P.RelPos(base.Pos()), report.Undecided, "")
	}
	lr.flush(c, c.P.RelPos(base.Pos()))

	// ---- carriers: the window handed to the base-block decoder
	carriers := map[string]string{"T0x0200": "bytes(jtMsg.Body@0+len:len(*jtMsg.Body))", "T0x0801": "bytes(jtMsg.Body@8+28)", "T0x0704": "item"}
	var entries []*ssa.Function
	for tn := range carriers {
		f := c.P.Method("protocol/model", tn, "Parse")
		if f == nil {
			R.Fatal("carrier %s.Parse not found", tn)
			continue
		}
		entries = append(entries, f)
	}
	sort.Slice(entries, func(i, j int) bool { return entries[i].String() < entries[j].String() })
	type winObs struct {
		carrier string
		render  string
		ok      bool
		detail  string
	}
	obs := map[string][]winObs{}
	addObs := map[string][]winObs{}
	addParse := c.P.Method("protocol/model", "T0x0200AdditionDetails", "parse")
	addCarriers := map[string]string{"T0x0200": "bytes(jtMsg.Body@28+(len:len(*jtMsg.Body)-28))"}
	itemObs, itemBad := 0, ""
	carrierJT := map[*ssa.Function]absint.Term{}
	cres := c.RunE1(entries, false, func(a *absint.Analyzer, fn *ssa.Function, st *absint.State, args []absint.Term) {
		preJTMsg(a, fn, st, args)
		c.mu.Lock()
		carrierJT[fn] = args[1]
		c.mu.Unlock()
		carrier := fn.Signature.Recv().Type().(*types.Pointer).Elem().(*types.Named).Obj().Name()
		if carrier == "T0x0704" {
			a.OnAppend = func(f *ssa.Function, site ssa.Instruction, st *absint.State, dst *absint.Slice, src absint.Term) {
				if os.Getenv("JTVERIF_DEBUGC08") != "" {
					fmt.Printf("APPENDRAW f=%s same=%v src=%T\n", f.Name(), f == fn, src)
				}
				if f != fn {
					return
				}
				ss, ok := src.(*absint.Slice)
				if os.Getenv("JTVERIF_DEBUGC08") != "" {
					n := -1
					if ok {
						n = len(ss.Base.Elems)
					}
					fmt.Printf("APPENDHOOK ok=%v elems=%d\n", ok, n)
				}
				if !ok || len(ss.Base.Elems) != 1 || ss.Base.Elems[0] == nil {
					return
				}
				what, carried := absint.LoopCarried(ss.Base.Elems[0])
				if os.Getenv("JTVERIF_DEBUGC08") != "" {
					flat := map[string]absint.Term{}
					flattenStruct(ss.Base.Elems[0], "", flat)
					fmt.Printf("APPEND Additions=%s carried=%v trace=%v\n", flat["T0x0200AdditionDetails.Additions"].TKey(), carried, st.Trace)
				}
				c.mu.Lock()
				itemObs++
				if carried {
					itemBad = fmt.Sprintf("the item appended at %s contains %s, a value left over from an earlier loop iteration", c.P.RelPos(site.Pos()), what)
				}
				c.mu.Unlock()
			}
		}
		a.OnCall = func(a *absint.Analyzer, st *absint.State, site ssa.CallInstruction, callee *ssa.Function, cargs []absint.Term) {
			if callee == addParse && addParse != nil && len(cargs) == 2 {
				// the additional-information items of this carrier: exactly the bytes behind its 28-byte base block
				w, ok := cargs[1].(*absint.Slice)
				if !ok {
					return
				}
				o := winObs{carrier: carrier, render: a.Render(w)}
				switch carrier {
				case "T0x0704":
					// body[start+30 : start+2+Len] with Len = u16be(body@start): length Len-28, offset 30 behind the length field
					o.detail = "the items of a batch entry are the Len-28 bytes behind its base block (up to the end of that entry, not of the batch)"
					for _, t := range w.Len.Ts {
						if t.Coef == 1 && t.A.Op == "rd" && len(t.A.Args) == 3 {
							off := t.A.Args[1].(absint.Int).L
							width := t.A.Args[2].(absint.Int).L.C
							rest := w.Len.Sub(absint.AtomLin(t.A))
							d := w.Off.Sub(off)
							o.ok = width == 2 && rest.IsConst() && rest.C == -28 && d.IsConst() && d.C == 30
						}
					}
				default:
					o.ok = o.render == addCarriers[carrier]
					o.detail = "expected " + addCarriers[carrier]
				}
				c.mu.Lock()
				addObs[carrier] = append(addObs[carrier], o)
				c.mu.Unlock()
				return
			}
			if callee != base || len(cargs) != 2 {
				return
			}
			w, ok := cargs[1].(*absint.Slice)
			if !ok {
				return
			}
			o := winObs{carrier: carrier, render: a.Render(w)}
			switch carrier {
			case "T0x0704":
				// window = body[start+2 : start+2+Len] with Len = u16be(body@start)
				if at := w.Len.SingleAtom(); at != nil && at.Op == "rd" && len(at.Args) == 3 {
					off := at.Args[1].(absint.Int).L
					width := at.Args[2].(absint.Int).L.C
					o.ok = width == 2 && w.Off.Sub(off).IsConst() && w.Off.Sub(off).C == 2
				}
				o.detail = "each item must be the Len bytes that follow its 2-byte length field"
			default:
				o.ok = o.render == carriers[carrier]
				o.detail = "expected " + carriers[carrier]
			}
			c.mu.Lock()
			obs[carrier] = append(obs[carrier], o)
			c.mu.Unlock()
		}
	})
	c.AddE1(cres, false)
	// a carrier that holds nothing but its fixed part and the 28-byte base block is a legal report: it is decoded, not rejected
	R.Rules["E3.accept-min"] = "each carrier accepts the shortest body the standard allows - 28 bytes for 0x0200 (base block, no additional information), 36 bytes for 0x0801 (8-byte head, base block, empty multimedia package): a successful return is feasible at that length"
	for _, r := range cres {
		carrier := r.Fn.Signature.Recv().Type().(*types.Pointer).Elem().(*types.Named).Obj().Name()
		min := map[string]int64{"T0x0200": 28, "T0x0801": 36}[carrier]
		if min == 0 {
			continue
		}
		okMin, nSucc := false, 0
		for _, ret := range r.Rets {
			if _, isNil := ret.Val.(absint.NilT); !isNil {
				continue
			}
			nSucc++
			bt := findField(r.A, ret.St, carrierJT[r.Fn], r.Fn.Params[1].Type(), []string{"Body"})
			if bs, isS := bt.(*absint.Slice); isS && ret.St.Feasible(absint.Con{L: bs.Len.AddC(-min), Rel: absint.EQ}) {
				okMin = true
			}
		}
		st, d := report.Discharged, ""
		if !okMin {
			st, d = report.Violated, fmt.Sprintf("no successful return of %s.Parse is possible for a body of %d bytes, the shortest the standard allows (%d successful returns examined): the location in such a report is never decoded", carrier, min, nSucc)
		}
		R.Add("E3.accept-min", fmt.Sprintf("%s.Parse / accepts the %d-byte minimal body", carrier, min), c.P.RelPos(r.Fn.Pos()), st, d)
	}
	R.Require("E3.accept-min", 2, "")
	for carrier := range carriers {
		os := obs[carrier]
		if len(os) == 0 {
			R.Add("E3.window", carrier+".Parse / base block window", "", report.Violated, "the carrier never calls the base-block decoder")
			continue
		}
		st, d := report.Discharged, ""
		for _, o := range os {
			if !o.ok {
				st = report.Violated
				d = fmt.Sprintf("%s hands the base-block decoder %s; %s", carrier, o.render, o.detail)
			}
		}
		R.Add("E3.window", carrier+".Parse / base block window", "", st, d)
	}

	for _, carrier := range []string{"T0x0200", "T0x0704"} {
		os := addObs[carrier]
		if len(os) == 0 {
			R.Add("E3.window", carrier+".Parse / additional-information window", "", report.Violated, "the carrier never calls the additional-information decoder")
			continue
		}
		st, d := report.Discharged, ""
		for _, o := range os {
			if !o.ok {
				st = report.Violated
				d = fmt.Sprintf("%s hands the additional-information decoder %s; %s", carrier, o.render, o.detail)
			}
		}
		R.Add("E3.window", carrier+".Parse / additional-information window", "", st, d)
	}

	R.Rules["E3.item-own-bytes"] = "every item appended by the 0x0704 batch decoder is built from that item's bytes only: no field carries a value from an earlier loop iteration"
	switch {
	case itemObs == 0:
		R.Add("E3.item-own-bytes", "T0x0704.Parse / appended item", "", report.Undecided, "no append of a decoded item was observed")
	case itemBad != "":
		R.Add("E3.item-own-bytes", "T0x0704.Parse / appended item", "", report.Violated, itemBad)
	default:
		R.Add("E3.item-own-bytes", "T0x0704.Parse / appended item", "", report.Discharged, "")
	}
	// ---- flag tables
	names := make([]string, 0, len(spec.Flags))
	for n := range spec.Flags {
		names = append(names, n)
	}
	sort.Strings(names)
	all := map[string]*ssa.Function{}
	for _, f := range c.RepoFuncs("protocol/model") {
		all[shortFn(f)] = f
	}
	for _, n := range names {
		fn := all[n]
		if fn == nil && !strings.HasSuffix(n, ").parse") {
			// a helper that does not use its receiver may have become a plain function: found by its (unique) name
			fn = c.NamedFunc("protocol/model", n[strings.LastIndex(n, ".")+1:])
		}
		if fn == nil {
			R.Fatal("flag decoder %s not found", n)
			continue
		}
		rows, problems := c.flagTable(fn)
		ignored := map[string]bool{}
		for _, f := range spec.FlagsIgnored[n] {
			ignored[f] = true
		}
		for _, p := range problems {
			skip := false
			for f := range ignored {
				if strings.Contains(p, " to "+f+" ") || strings.Contains(p, "guarding "+f+" ") {
					skip = true
				}
			}
			if !skip {
				stp := report.Undecided
				if strings.Contains(p, ": VIOLATED ") {
					stp, p = report.Violated, strings.Replace(p, ": VIOLATED ", ": ", 1)
				}
				R.Add("E6.flag-form", n+" / "+p, c.P.RelPos(fn.Pos()), stp, p)
			}
		}
		got := map[string][]FlagRow{}
		for _, row := range rows {
			got[row.Field] = append(got[row.Field], row)
		}
		want := spec.Flags[n]
		for field, bit := range want {
			rs := got[field]
			st, d := report.Discharged, ""
			switch {
			case len(rs) == 0:
				st, d = report.Violated, fmt.Sprintf("flag %s is never set by %s; the standard assigns it bit %d", field, n, bit)
			case len(rs) > 1:
				st, d = report.Violated, fmt.Sprintf("flag %s is set at %d places", field, len(rs))
			case rs[0].Bit != bit || !rs[0].Positive:
				st, d = report.Violated, fmt.Sprintf("flag %s is controlled by bit %d (positive=%v) at %s; the standard assigns it bit %d", field, rs[0].Bit, rs[0].Positive, c.P.RelPos(rs[0].Pos), bit)
			}
			R.Add("E6.flag", n+" / "+field, c.P.RelPos(fn.Pos()), st, d)
		}
		for field, rs := range got {
			if _, ok := want[field]; !ok && !ignored[field] {
				R.Add("E6.flag", n+" / "+field+" (not in the standard's table)", c.P.RelPos(rs[0].Pos), report.Violated, "the decoder sets a flag the table does not know")
			}
		}
		// all rows read the same word
		srcs := map[string]bool{}
		for _, row := range rows {
			srcs[row.Src] = true
		}
		st, d := report.Discharged, ""
		if len(srcs) > 1 {
			st, d = report.Violated, fmt.Sprintf("the flags of %s are decoded from %d different values", n, len(srcs))
		}
		R.Add("E6.flag-form", n+" / one decoded word", c.P.RelPos(fn.Pos()), st, d)
	}

	// ---- additional-information items
	tlv := c.P.Method("protocol/model", "T0x0200AdditionDetails", "parse")
	if tlv == nil {
		R.Fatal("anchor (*T0x0200AdditionDetails).parse not found")
		return
	}
	lr2 := layoutResult{}
	lensSeen := map[int64]map[int64]bool{}
	unknownSeen := false
	tres := c.RunE1([]*ssa.Function{tlv}, false, func(a *absint.Analyzer, fn *ssa.Function, st *absint.State, args []absint.Term) {
		a.K = 256
		// default configuration: no custom content function
		if !a.StoreField(st, args[0], fn.Params[0].Type(), "CustomAdditionContentFunc", absint.Nil(nil)) {
			c.R.Fatal("T0x0200AdditionDetails.CustomAdditionContentFunc not found")
		}
		a.OnMapUpdate = func(f *ssa.Function, ins *ssa.MapUpdate, st *absint.State, m, k, v absint.Term) {
			if f != tlv {
				return
			}
			kv, ok := k.(absint.Int)
			if !ok {
				return
			}
			flat := map[string]absint.Term{}
			flattenStruct(v, "", flat)
			lenT, _ := flat["Len"].(absint.Int)
			data, _ := flat["Content.Data"].(*absint.Slice)
			if data == nil {
				lr2.set("E3.addition-field", shortFn(tlv)+" / Content.Data", false, "the stored item has no Data window")
				return
			}
			ids := make([]string, 0, len(spec.Additions))
			for id := range spec.Additions {
				ids = append(ids, id)
			}
			sort.Strings(ids)
			for _, ids := range ids {
				id, _ := strconv.ParseInt(ids, 10, 64)
				if !st.Feasible(absint.Con{L: kv.L.AddC(-id), Rel: absint.EQ}) {
					continue
				}
				S := st.Clone()
				S.AssumeEQ(kv.L.AddC(-id))
				sp := spec.Additions[ids]
				c.mu.Lock()
				if lensSeen[id] == nil {
					lensSeen[id] = map[int64]bool{}
				}
				for n := int64(0); n < 256; n++ {
					if S.Feasible(absint.Con{L: lenT.L.AddC(-n), Rel: absint.EQ}) {
						lensSeen[id][n] = true
					}
				}
				c.mu.Unlock()
				for _, n := range sp.Lens {
					if !S.Feasible(absint.Con{L: lenT.L.AddC(-n), Rel: absint.EQ}) {
						continue
					}
					S2 := S.Clone()
					S2.AssumeEQ(lenT.L.AddC(-n))
					fields := map[string]string{}
					for f, e := range sp.Fields {
						fields[f] = e
					}
					for f, e := range sp.FieldsByLen[strconv.FormatInt(n, 10)] {
						fields[f] = e
					}
					for f, exp := range fields {
						got := "<absent>"
						if t, ok := flat["Content."+f]; ok {
							got = relRender(a, t, data)
						}
						okF := false
						for _, alt := range strings.Split(exp, "|") {
							if got == alt {
								okF = true
							}
						}
						// a value guarded by a content test may legitimately be the zero value on the other branch
						c.mu.Lock()
						lr2.set("E3.addition-field", fmt.Sprintf("%s / id 0x%02x len %d / %s", shortFn(tlv), id, n, f), okF || got == "0",
							fmt.Sprintf("item 0x%02x (length %d), field %s: the standard prescribes %s inside the item, the code computes %s", id, n, f, exp, got))
						if okF {
							lr2.set("E3.addition-field", fmt.Sprintf("%s / id 0x%02x len %d / %s is read on some path", shortFn(tlv), id, n, f), true, "")
						}
						c.mu.Unlock()
					}
					// the item window itself
					wOK := data.Len.Equal(lenT.L) || S2.Entails(absint.Con{L: data.Len.Sub(lenT.L), Rel: absint.EQ})
					c.mu.Lock()
					lr2.set("E3.addition-field", fmt.Sprintf("%s / id 0x%02x len %d / Data window", shortFn(tlv), id, n), wOK, "Content.Data is not the item's bytes")
					c.mu.Unlock()
				}
			}
			// unknown ID
			if st.Feasible(absint.Con{L: kv.L.AddC(-spec.UnknownProbe), Rel: absint.EQ}) {
				S := st.Clone()
				S.AssumeEQ(kv.L.AddC(-spec.UnknownProbe))
				okU := data.Len.Equal(lenT.L) || S.Entails(absint.Con{L: data.Len.Sub(lenT.L), Rel: absint.EQ})
				for f, t := range flat {
					if !strings.HasPrefix(f, "Content.") || f == "Content.Data" {
						continue
					}
					switch x := t.(type) {
					case absint.Int:
						if !x.L.IsConst() || x.L.C != 0 {
							// fields may be non-zero only on paths where the ID is a standard one
							if S.Feasible(absint.Con{L: x.L.AddC(-1), Rel: absint.GE}) && !x.L.IsConst() {
								okU = false
							}
						}
					}
				}
				c.mu.Lock()
				unknownSeen = true
				lr2.set("E3.addition-unknown", shortFn(tlv)+" / unknown ID keeps Data verbatim and sets no typed field", okU, "for a non-standard ID the stored content is not just the raw bytes")
				c.mu.Unlock()
			}
		}
	})
	c.AddE1(tres, false)
	for ids, sp := range spec.Additions {
		id, _ := strconv.ParseInt(ids, 10, 64)
		seen := lensSeen[id]
		var got []int64
		for n := range seen {
			got = append(got, n)
		}
		sort.Slice(got, func(i, j int) bool { return got[i] < got[j] })
		want := append([]int64(nil), sp.Lens...)
		sort.Slice(want, func(i, j int) bool { return want[i] < want[j] })
		same := len(got) == len(want)
		for i := range got {
			if i < len(want) && got[i] != want[i] {
				same = false
			}
		}
		d := ""
		if !same {
			gs := fmt.Sprint(got)
			if len(got) > 12 {
				gs = fmt.Sprintf("%v… (%d lengths)", got[:12], len(got))
			}
			d = fmt.Sprintf("item 0x%02x: the walker stores it for lengths %s, the standard admits %v", id, gs, want)
		}
		lr2.set("E3.addition-len", fmt.Sprintf("%s / id 0x%02x", shortFn(tlv), id), same, d)
	}
	if !unknownSeen {
		lr2.set("E3.addition-unknown", shortFn(tlv)+" / unknown ID keeps Data verbatim and sets no typed field", false, "no path stores an item with a non-standard ID")
	}
	lr2.flush(c, c.P.RelPos(tlv.Pos()))
	R.Require("E3.field", 8, "")
	R.Require("E3.window", 5, "")
	R.Require("E6.flag", 32+21+15+2+7, "")
	R.Require("E3.addition-len", 14, "")
	R.Require("E3.addition-field", 20, "")
	R.Rules["S.time-digits"] = "the time of a location report is rendered by utils.BCD2Time, which moves the BCD digits into the text without interpreting them (it calls nothing from time / strconv): the year is 20YY for every two-digit YY, and values that are not calendar dates are shown as they are"
	c.bcdTimeHelpersRule("S.time-digits", []string{"BCD2Time"})
	R.Require("S.time-digits", 1, "")
	c.tyrePressureRule()
	c.narrowArith(func(fn *ssa.Function) bool {
		f := c.P.RelPos(fn.Pos())
		return strings.Contains(f, "0x0200") || strings.Contains(f, "0x0704")
	}, 3, false)
	R.Explain = "Decided for all bodies: the base-block decoder reads each field at the standard's offset/width/byte order (symbolic extraction vs spec/location.json) and needs 28 bytes; each carrier passes it the right window; " +
		"every alarm, status, extended-signal, IO and 苏标 vehicle-status flag is set exactly under a test of its own bit (semantic extraction, idiom independent); " +
		"for each standard additional-information ID the accepted lengths equal the admissible ones and each value is read at the standard's offset inside the item; unknown IDs are kept verbatim. " +
		"Not decided: BCD digit rendering, 'false exactly when the bit is clear' on a reused receiver (C03's clause), the two-bit cargo field."
}

// tyrePressureRule: additional-information item 0x05 carries one pressure byte per tyre; the decoder keeps the
// non-zero ones under the tyre's index. Decided structurally on the decoding loop: (1) the loop leaves only at its
// head (no early exit: a zero byte does not end the scan), (2) the map update stores the element at the loop index
// under that index, (3) the only test that lets an element skip the update compares that element with a constant and
// lets every value 1..255 through.
func (c *Ctx) tyrePressureRule() {
	R := c.R
	R.Rules["S.tyre-pressure"] = "item 0x05 (tyre pressures): the decoding loop visits every byte of the item (it is left only at its head), stores byte k under tyre k, and skips exactly the zero bytes"
	var fn *ssa.Function
	for _, f := range c.RepoFuncs("protocol/model") {
		if f.Parent() != nil || f.Signature.Results().Len() != 1 {
			continue
		}
		if n, ok := f.Signature.Results().At(0).Type().(*types.Named); ok && n.Obj().Name() == "AdditionTirePressure" {
			for _, prm := range f.Params {
				if sl, isSl := prm.Type().Underlying().(*types.Slice); isSl {
					if bt, isB := sl.Elem().Underlying().(*types.Basic); isB && bt.Kind() == types.Uint8 {
						fn = f
					}
				}
			}
		}
	}
	if fn == nil {
		R.Fatal("anchor: no function of protocol/model builds an AdditionTirePressure from a byte slice")
		return
	}
	name := shortFn(fn)
	var upd *ssa.MapUpdate
	nUpd := 0
	for _, b := range fn.Blocks {
		for _, ins := range b.Instrs {
			if u, ok := ins.(*ssa.MapUpdate); ok {
				upd = u
				nUpd++
			}
		}
	}
	if nUpd != 1 {
		R.Add("S.tyre-pressure", name+" / one store per tyre", c.P.RelPos(fn.Pos()), report.Undecided, fmt.Sprintf("%d map updates (expected one inside the loop over the item)", nUpd))
		return
	}
	var loop map[*ssa.BasicBlock]bool
	var head *ssa.BasicBlock
	for _, u := range fn.Blocks {
		for _, h := range u.Succs {
			if h.Dominates(u) {
				for _, l := range naturalLoops(fn) {
					if l[h] && l[u] && l[upd.Block()] && (loop == nil || len(l) < len(loop)) {
						loop, head = l, h
					}
				}
			}
		}
	}
	if loop == nil {
		R.Add("S.tyre-pressure", name+" / loop over the item", c.P.RelPos(fn.Pos()), report.Violated, "the store is not inside a loop")
		return
	}
	// (1) exits
	st, d := report.Discharged, ""
	for b := range loop {
		for _, s := range b.Succs {
			if !loop[s] && b != head {
				st, d = report.Violated, "the loop is left at "+c.P.RelPos(b.Instrs[len(b.Instrs)-1].Pos())+" before the end of the item (an early exit): tyres behind that byte are not decoded"
				if p := b.Instrs[len(b.Instrs)-1].Pos(); !p.IsValid() && len(b.Instrs) > 1 {
					d = "the loop has an exit other than its head (an early exit on some byte): tyres behind that byte are not decoded"
				}
			}
		}
	}
	R.Add("S.tyre-pressure", name+" / the loop ends only at the end of the item", c.P.RelPos(fn.Pos()), st, d)
	// (2) key = index, value = element at index
	elemOf := func(v ssa.Value) (*ssa.IndexAddr, bool) {
		for {
			switch x := v.(type) {
			case *ssa.Convert:
				v = x.X
				continue
			case *ssa.ChangeType:
				v = x.X
				continue
			case *ssa.UnOp:
				ia, ok := x.X.(*ssa.IndexAddr)
				return ia, ok
			}
			return nil, false
		}
	}
	strip := func(v ssa.Value) ssa.Value {
		for {
			switch x := v.(type) {
			case *ssa.Convert:
				v = x.X
				continue
			case *ssa.ChangeType:
				v = x.X
				continue
			}
			return v
		}
	}
	ia, isEl := elemOf(upd.Value)
	st, d = report.Discharged, ""
	if !isEl || strip(ia.Index) != strip(upd.Key) {
		st, d = report.Violated, "the stored value is not the item's byte at the index it is stored under"
	} else if ii, isI := strip(ia.Index).(ssa.Instruction); !isI || !loop[ii.Block()] {
		st, d = report.Violated, "the index is not computed inside the loop (not the loop counter)"
	}
	R.Add("S.tyre-pressure", name+" / byte k is stored under tyre k", c.P.RelPos(upd.Pos()), st, d)
	// (3) the guards between loop head and the update
	st, d = report.Discharged, ""
	for b := range loop {
		iff, isIf := b.Instrs[len(b.Instrs)-1].(*ssa.If)
		if !isIf || b == head {
			continue
		}
		cmp, isCmp := iff.Cond.(*ssa.BinOp)
		if !isCmp {
			st, d = report.Undecided, "a condition inside the loop is not a comparison"
			continue
		}
		x, y := cmp.X, cmp.Y
		k, isK := constInt(y)
		left := true
		if !isK {
			k, isK = constInt(x)
			x, left = y, false
		}
		ia2, isEl2 := elemOf(x)
		if !isK || !isEl2 || (isEl && ia2.X != ia.X) {
			st, d = report.Undecided, "a condition inside the loop does not compare the current byte with a constant ("+c.P.RelPos(iff.Cond.Pos())+")"
			continue
		}
		// which successor reaches the update
		reach := func(from *ssa.BasicBlock) bool {
			seen := map[*ssa.BasicBlock]bool{head: true}
			var w func(z *ssa.BasicBlock) bool
			w = func(z *ssa.BasicBlock) bool {
				if z == upd.Block() {
					return true
				}
				if seen[z] || !loop[z] {
					return false
				}
				seen[z] = true
				for _, s := range z.Succs {
					if w(s) {
						return true
					}
				}
				return false
			}
			return w(from)
		}
		t, e := reach(b.Succs[0]), reach(b.Succs[1])
		if t == e {
			continue
		}
		for _, v := range []int64{1, 2, 127, 128, 255} {
			a, bb := v, k
			if !left {
				a, bb = k, v
			}
			var res bool
			switch cmp.Op {
			case token.EQL:
				res = a == bb
			case token.NEQ:
				res = a != bb
			case token.LSS:
				res = a < bb
			case token.LEQ:
				res = a <= bb
			case token.GTR:
				res = a > bb
			case token.GEQ:
				res = a >= bb
			}
			if res != t {
				st, d = report.Violated, fmt.Sprintf("a tyre whose byte is %d is not stored (test at %s)", v, c.P.RelPos(iff.Cond.Pos()))
			}
		}
	}
	R.Add("S.tyre-pressure", name+" / exactly the zero bytes are skipped", c.P.RelPos(fn.Pos()), st, d)
	R.Require("S.tyre-pressure", 3, "")
}
