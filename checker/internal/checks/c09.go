package checks

import (
	"fmt"
	"go/token"
	"go/types"
	"sort"
	"strings"

	"golang.org/x/tools/go/ssa"

	"jtverif/internal/absint"
	"jtverif/internal/report"
)

func init() {
	register(&Check{ID: "C09", Level: "other", Run: runC09})
}

// useAfterSend: after `ch <- v` no instruction reachable without passing v's definition uses v
// (the sender gave the object away).
func (c *Ctx) useAfterSend(fn *ssa.Function) (sends int, bad []string) {
	for _, b := range fn.Blocks {
		for idx, ins := range b.Instrs {
			s, ok := ins.(*ssa.Send)
			if !ok {
				continue
			}
			if _, isPtr := s.X.Type().Underlying().(*types.Pointer); !isPtr {
				continue
			}
			sends++
			v := s.X
			defIns, _ := v.(ssa.Instruction)
			uses := func(i ssa.Instruction) bool {
				var ops []*ssa.Value
				for _, op := range i.Operands(ops) {
					if *op == v {
						return true
					}
				}
				return false
			}
			seen := map[*ssa.BasicBlock]bool{}
			var scan func(blk *ssa.BasicBlock, from int) string
			scan = func(blk *ssa.BasicBlock, from int) string {
				for k := from; k < len(blk.Instrs); k++ {
					i := blk.Instrs[k]
					if i == defIns {
						return ""
					}
					if _, isDbg := i.(*ssa.DebugRef); isDbg {
						continue
					}
					if uses(i) {
						return c.P.RelPos(i.Pos())
					}
				}
				for _, su := range blk.Succs {
					if seen[su] {
						continue
					}
					seen[su] = true
					if r := scan(su, 0); r != "" {
						return r
					}
				}
				return ""
			}
			if where := scan(b, idx+1); where != "" {
				bad = append(bad, fmt.Sprintf("%s is used at %s after it was sent at %s", v.Name(), where, c.P.RelPos(s.Pos())))
			}
		}
	}
	return
}

func (c *Ctx) e4Service() bool {
	c.E1Rules()
	c.E1Assumptions()
	R := c.R
	R.Rules["E4.alias"] = "no byte slice of a delivered message (raw frame, body, BCD phone) may share a backing array with a buffer that is overwritten in place later: the buffer handed to Read on every loop iteration, or a pending buffer that is truncated to its start and appended to again"
	R.Rules["E5.use-after-send"] = "the reader does not touch a *Message after sending it to the writer"
	R.Rules["S.header-immutable"] = "the identifying header fields of a decoded message (ID, phone, serial, package total/number) are stored only by the frame decoder"
	sNew := c.P.Func("service", "newConnection")
	sReader := c.P.Method("service", "connection", "reader")
	newMsg := c.P.Func("service", "newTerminalMessage")
	if sNew == nil || sReader == nil || newMsg == nil {
		R.Fatal("anchors service.newConnection / connection.reader / newTerminalMessage not found")
		return false
	}
	type obs struct {
		what string
		s    *absint.Slice
		pos  string
		fn   string
		a    *absint.Analyzer // the analyzer that produced s: base ids are only meaningful within it
	}
	var observations []obs
	type freshOb struct {
		key, pos string
		ok       bool
		d        string
	}
	var freshObs []freshOb
	// The reader hands parse() a window of the buffer it passes to Read on every iteration:
	// checked structurally here, then parse() is analysed with that parameter marked as reused.
	parse := c.P.Method("service", "packageParse", "parse")
	if parse == nil {
		R.Fatal("anchor (*packageParse).parse not found")
		return false
	}
	{
		okFlow, d := false, "the reader never calls parse with a window of its Read buffer"
		for _, rf := range c.familyOf(sReader) {
			for _, b := range rf.Blocks {
				for _, ins := range b.Instrs {
					call, ok := ins.(*ssa.Call)
					if !ok || call.Call.StaticCallee() != parse {
						continue
					}
					// followed through the parameters of helpers the read loop may be split into
					for _, av := range c.resolveParam(call.Call.Args[1], "service") {
						for _, o := range c.origins(av, nil, nil) {
							if o.Kind == "alloc" {
								// the same allocation must be an argument of Read
								okFlow = true
								d = ""
							}
						}
					}
				}
			}
		}
		st := report.Discharged
		if !okFlow {
			st = report.Violated
		}
		R.Add("E4.alias", shortFn(sReader)+" / parse receives a window of the Read buffer (premise)", c.P.RelPos(sReader.Pos()), st, d)
	}
	unpack := c.P.Method("service", "packageParse", "unpack")
	complete := c.P.Method("service", "packageParse", "completePack")
	suppl := c.P.Method("service", "packageParse", "supplementarySubPackage")
	if unpack == nil || complete == nil || suppl == nil {
		R.Fatal("anchors unpack / completePack / supplementarySubPackage not found")
		return false
	}
	{
		// parse forwards its parameter unchanged to unpack
		okFwd := false
		for _, b := range parse.Blocks {
			for _, ins := range b.Instrs {
				if call, ok := ins.(*ssa.Call); ok && call.Call.StaticCallee() == unpack && len(call.Call.Args) == 2 && call.Call.Args[1] == parse.Params[1] {
					okFwd = true
				}
			}
		}
		st, d := report.Discharged, ""
		if !okFwd {
			st, d = report.Violated, "parse does not hand its data parameter to unpack unchanged"
		}
		R.Add("E4.alias", shortFn(parse)+" / data is forwarded to unpack (premise)", c.P.RelPos(parse.Pos()), st, d)
	}
	paired := map[string]string{".packageParse#timeoutRecord": ".packageParse#subcontractingRecord"}
	results := c.RunE1([]*ssa.Function{unpack, complete, suppl}, true, func(a *absint.Analyzer, fn *ssa.Function, st *absint.State, args []absint.Term) {
		a.PairedMaps = paired // lemma established by C05/C10
		home := pkgOf(parse)
		a.Opaque = func(f *ssa.Function) bool {
			pk := pkgOf(f)
			if pk == nil || pk == home {
				return false
			}
			p := pk.Pkg.Path()
			// the frame decoder decides what a message's slices alias: analyse it in context
			if strings.HasSuffix(p, "protocol/jt808") || strings.HasSuffix(p, "protocol/utils") || strings.HasSuffix(p, "shared/consts") {
				return false
			}
			return true
		}
		if fn == unpack {
			if ds, ok := args[1].(*absint.Slice); ok {
				a.MarkReused(ds, "the connection's Read buffer (parameter data of unpack; overwritten by the next read)")
			}
		}
		a.OnCall = func(a *absint.Analyzer, st *absint.State, site ssa.CallInstruction, callee *ssa.Function, args []absint.Term) {
			if callee != newMsg || len(args) != 2 {
				return
			}
			pos := c.P.RelPos(site.Pos())
			caller := shortFn(site.Parent()) + " / " + c.constructOf(site.Parent(), site)
			c.mu.Lock()
			defer c.mu.Unlock()
			if s, ok := args[1].(*absint.Slice); ok {
				observations = append(observations, obs{"raw frame bytes (TerminalData)", s, pos, caller, a})
			}
			jt := args[0]
			pt := newMsg.Params[0].Type()
			// a frame taken from the stream is decoded into a message object (and header) allocated for that frame:
			// an object kept across frames is rewritten by the next Decode while handlers and the writer still hold it
			if fn == unpack { // any call depth below unpack (the decode may sit in a helper)
				okF, dF := false, "the decoded message handed to newTerminalMessage is not a pointer the analysis can identify"
				if jp, isP := jt.(*absint.Ptr); isP && jp.Obj != nil {
					okF, dF = jp.Obj.Fresh, ""
					if !okF {
						dF = fmt.Sprintf("the message object (%s) is not allocated for this frame: it outlives the call (a field or a pooled object), so decoding the next frame rewrites the ID, phone, serial, package numbers and body slice of a message that was already delivered", jp.Obj.Desc)
					} else if hp, isHP := findField(a, st, jt, pt, []string{"Header"}).(*absint.Ptr); isHP && hp.Obj != nil && !hp.Obj.Fresh {
						okF, dF = false, fmt.Sprintf("the header object (%s) of the decoded message is not allocated for this frame", hp.Obj.Desc)
					}
				}
				freshObs = append(freshObs, freshOb{caller, pos, okF, dF})
			}
			if b, ok := findField(a, st, jt, pt, []string{"Body"}).(*absint.Slice); ok {
				observations = append(observations, obs{"Body", b, pos, caller, a})
			}
			if ph, ok := findField(a, st, jt, pt, []string{"Header", "*", "bcdTerminalPhoneNo"}).(*absint.Slice); ok {
				observations = append(observations, obs{"BCD phone (used to address replies)", ph, pos, caller, a})
			}
		}
	})
	// every entry is analysed by its own analyzer with its own numbering of buffers: an observation is judged against the
	// reuse marks of the analyzer that produced it (merging the tables would let unrelated ids collide)
	rr := results[0]
	for _, r2 := range results {
		for _, u := range dedupe(r2.Undecided) {
			R.Add("E1.undecided", shortFn(r2.Fn)+" / "+u, "", report.Undecided, u)
		}
	}
	a := rr.A
	agg := map[string]string{}
	okKeys := map[string]bool{}
	for _, o := range observations {
		key := fmt.Sprintf("%s / %s", o.fn, o.what)
		okKeys[key] = true
		for id, b := range absint.AliasClosure(o.s.Base) {
			if why, reused := o.a.Reused[id]; reused {
				agg[key] = fmt.Sprintf("%s of the message created at %s shares its backing array with %s: %s", o.what, o.pos, b.Desc, why)
			}
		}
	}
	{
		R.Rules["E4.fresh-message"] = "every frame taken from the stream is decoded into a JTMessage and Header allocated for that frame (not an object kept in the parser, the connection or a pool): a delivered message's ID, phone, serial and package numbers are not rewritten by the decoding of later frames"
		agg := map[string]freshOb{}
		for _, f := range freshObs {
			if cur, seen := agg[f.key]; !seen || (cur.ok && !f.ok) {
				agg[f.key] = f
			}
		}
		var ks []string
		for k := range agg {
			ks = append(ks, k)
		}
		sort.Strings(ks)
		for _, k := range ks {
			st := report.Discharged
			if !agg[k].ok {
				st = report.Violated
			}
			R.Add("E4.fresh-message", k, agg[k].pos, st, agg[k].d)
		}
		R.Require("E4.fresh-message", 1, "")
	}
	keys := make([]string, 0, len(okKeys))
	for k := range okKeys {
		keys = append(keys, k)
	}
	sort.Strings(keys)
	for _, k := range keys {
		if d, bad := agg[k]; bad {
			R.Add("E4.alias", k, "", report.Violated, d)
		} else {
			R.Add("E4.alias", k, "", report.Discharged, "")
		}
	}
	var reasons []string
	for _, r2 := range results {
		for _, w := range r2.A.Reused {
			reasons = append(reasons, w)
		}
	}
	sort.Strings(reasons)
	R.Notes["reused_buffers"] = dedupe(reasons)
	if len(a.Reused) == 0 {
		R.Fatal("no reused buffer was identified in the reader role (the Read buffer must be one)")
	}
	return true
}

func runC09(c *Ctx) {
	R := c.R
	if !c.e4Service() {
		return
	}
	c.messagePerFrame("S.message-per-frame")
	sReader := c.P.Method("service", "connection", "reader")
	// use after send
	for _, fn := range []*ssa.Function{sReader} {
		// the reader and the helpers of the package its loop body is split into
		n := 0
		var bad []string
		for _, rf := range c.familyOf(fn) {
			n2, bad2 := c.useAfterSend(rf)
			n += n2
			bad = append(bad, bad2...)
		}
		st, d := report.Discharged, ""
		if len(bad) > 0 {
			st, d = report.Violated, strings.Join(bad, "; ")
		}
		R.Add("E5.use-after-send", shortFn(fn)+" / pointer sends of the read loop", c.P.RelPos(fn.Pos()), st, d)
		if n == 0 {
			R.Fatal("no pointer send found in %s (anchor)", shortFn(fn))
		}
	}
	// identifying header fields are written only by the decoder
	idFields := map[string]bool{"ID": true, "TerminalPhoneNo": true, "SerialNumber": true, "SubPackageSum": true, "SubPackageNo": true, "bcdTerminalPhoneNo": true, "ProtocolVersion": true}
	nStores := 0
	for _, rel := range []string{"protocol/jt808", "service", "attachment", "protocol/model"} {
		for _, fn := range c.RepoFuncs(rel) {
			for _, b := range fn.Blocks {
				for _, ins := range b.Instrs {
					st, ok := ins.(*ssa.Store)
					if !ok {
						continue
					}
					// a whole-struct assignment through a pointer (*h = *other) rewrites every identifying field at once
					if pt, isP := st.Addr.Type().Underlying().(*types.Pointer); isP {
						if nm, isN := pt.Elem().(*types.Named); isN && nm.Obj().Name() == "Header" && nm.Obj().Pkg() != nil && strings.HasSuffix(nm.Obj().Pkg().Path(), "protocol/jt808") {
							if _, isLocal := st.Addr.(*ssa.Alloc); !isLocal {
								nStores++
								R.Add("S.header-immutable", fmt.Sprintf("%s / whole-struct store to a Header / %s", shortFn(fn), c.constructOf(fn, st)), c.P.RelPos(st.Pos()), report.Violated,
									fmt.Sprintf("%s overwrites a whole Header through a pointer: if that header belongs to a message that was already delivered (the first fragment kept for a transfer, a session's header), its ID, phone, serial and package numbers change under the holder", shortFn(fn)))
							}
							continue
						}
					}
					fa, ok := st.Addr.(*ssa.FieldAddr)
					if !ok {
						continue
					}
					named, ok := fa.X.Type().Underlying().(*types.Pointer).Elem().(*types.Named)
					if !ok || named.Obj().Name() != "Header" || !strings.HasSuffix(named.Obj().Pkg().Path(), "protocol/jt808") {
						continue
					}
					f := named.Underlying().(*types.Struct).Field(fa.Field).Name()
					if !idFields[f] {
						continue
					}
					nStores++
					okS := fn.Name() == "decode" && strings.HasSuffix(pkgOf(fn).Pkg.Path(), "protocol/jt808")
					stt, d := report.Discharged, ""
					if !okS {
						stt, d = report.Violated, fmt.Sprintf("%s stores Header.%s of a message that may already have been delivered", shortFn(fn), f)
					}
					R.Add("S.header-immutable", fmt.Sprintf("%s / store to Header.%s", shortFn(fn), f), c.P.RelPos(st.Pos()), stt, d)
				}
			}
		}
	}
	if nStores < 5 {
		R.Fatal("only %d stores to identifying header fields found (the decoder alone has more)", nStores)
	}
	// ---- stored sub-package parts are the Body slices of delivered messages: nobody may write into them
	{
		R.Rules["E4.stored-parts"] = "the part table of a sub-packaged transfer keeps the Body slices of messages that were handed to callbacks (no copy); therefore no code may write bytes in place into a slice taken from that table (clear, copy, element store, Read, append with such a slice as the operand that is grown)"
		kept := ""
		for _, fn := range c.RepoFuncs("service") {
			for _, b := range fn.Blocks {
				for _, ins := range b.Instrs {
					st, ok := ins.(*ssa.Store)
					if !ok {
						continue
					}
					ia, isIA := st.Addr.(*ssa.IndexAddr)
					if !isIA {
						continue
					}
					toTable := false
					for _, o := range c.origins(ia.X, nil, nil) {
						if o.Kind == "field" && strings.HasSuffix(o.Name, ".subcontractingRecord") {
							toTable = true
						}
					}
					if !toTable {
						continue
					}
					for _, o := range c.origins(st.Val, nil, nil) {
						if o.Kind == "field" && strings.HasSuffix(o.Name, ".Body") {
							kept = c.P.RelPos(st.Pos())
						}
					}
				}
			}
		}
		if kept == "" {
			R.Add("E4.stored-parts", "premise: the part table stores message bodies without copying", "", report.Discharged, "not the case on this tree (parts are copied or not kept): nothing to protect")
		} else {
			R.Add("E4.stored-parts", "premise: the part table stores message bodies without copying", kept, report.Discharged, "")
			n := 0
			for _, fn := range c.RepoFuncs("service") {
				for _, b := range fn.Blocks {
					for _, ins := range b.Instrs {
						var target ssa.Value
						what := ""
						switch x := ins.(type) {
						case *ssa.Call:
							if bi, isB := x.Call.Value.(*ssa.Builtin); isB {
								switch bi.Name() {
								case "clear":
									if _, isSl := x.Call.Args[0].Type().Underlying().(*types.Slice); isSl {
										target, what = x.Call.Args[0], "clear"
									}
								case "copy":
									target, what = x.Call.Args[0], "copy into"
								case "append":
									// append writes into the spare capacity behind its first operand when the operand has room:
									// behind a Body slice lie the checksum and the closing delimiter of the delivered raw frame
									if k, isK := x.Call.Args[0].(*ssa.Const); !isK || !k.IsNil() {
										target, what = x.Call.Args[0], "append to (in-place growth into the spare capacity behind)"
									}
								}
							} else if nm, _ := callMethodName(x); nm == "Read" && len(x.Call.Args) > 0 {
								target, what = x.Call.Args[len(x.Call.Args)-1], "Read into"
							}
						case *ssa.Store:
							if ia, isIA := x.Addr.(*ssa.IndexAddr); isIA {
								target, what = ia.X, "element store into"
							}
						}
						if target == nil {
							continue
						}
						sl, isSl := target.Type().Underlying().(*types.Slice)
						if !isSl {
							continue
						}
						if bt, isB := sl.Elem().Underlying().(*types.Basic); !isB || bt.Kind() != types.Uint8 {
							continue // only writes of bytes
						}
						n++
						for _, o := range c.origins(target, nil, nil) {
							if o.Kind == "field" && strings.HasSuffix(o.Name, ".subcontractingRecord") {
								R.Add("E4.stored-parts", fmt.Sprintf("%s / %s", shortFn(fn), c.constructOf(fn, ins)), c.P.RelPos(ins.Pos()), report.Violated,
									fmt.Sprintf("%s a slice taken from the part table (%s): these are the Body slices of messages already delivered to callbacks (stored uncopied at %s), so the content of delivered messages changes", what, o.String(), kept))
							}
						}
					}
				}
			}
			R.Add("E4.stored-parts", fmt.Sprintf("no in-place byte write reaches the part table (%d in-place writes of byte slices examined)", n), "", report.Discharged, "")
			R.Notes["in_place_byte_writes_examined"] = n
		}
	}
	// ---- nothing grows a byte slice that belongs to a message in place
	{
		R.Rules["E4.no-grow"] = "no append (builtin, binary.Append*) has a byte slice held in a message object - Header.bcdTerminalPhoneNo, JTMessage.Body, the raw-frame and platform-data fields of Message - as the operand it grows: such a slice is a window of the delivered frame, and growing it writes over the frame bytes behind it (the serial number behind the BCD phone, the checksum behind the body)"
		owners := map[string]bool{"Header": true, "JTMessage": true, "Message": true}
		n, nBad := 0, 0
		for _, rel := range []string{"protocol/jt808", "service", "attachment", "terminal"} {
			for _, fn := range c.RepoFuncs(rel) {
				for _, b := range fn.Blocks {
					for _, ins := range b.Instrs {
						call, isC := ins.(*ssa.Call)
						if !isC || len(call.Call.Args) == 0 {
							continue
						}
						grow := -1
						if bi, isB := call.Call.Value.(*ssa.Builtin); isB && bi.Name() == "append" {
							grow = 0
						} else if sc := call.Call.StaticCallee(); sc != nil && strings.HasPrefix(sc.Name(), "AppendUint") && sc.Pkg != nil && sc.Pkg.Pkg.Path() == "encoding/binary" {
							grow = len(call.Call.Args) - 2
						}
						if grow < 0 || grow >= len(call.Call.Args) {
							continue
						}
						g := call.Call.Args[grow]
						sl, isSl := g.Type().Underlying().(*types.Slice)
						if !isSl {
							continue
						}
						if bt, isBt := sl.Elem().Underlying().(*types.Basic); !isBt || bt.Kind() != types.Uint8 {
							continue
						}
						n++
						// through re-slices of the field (x.f[:k] still shares the array; x.f[:0:0] and [:k:k] do not grow in place)
						v := g
						capped := false
						for {
							if s2, ok := v.(*ssa.Slice); ok {
								if s2.Max != nil {
									capped = true
								}
								v = s2.X
								continue
							}
							break
						}
						owner, field, isF := fieldLoad(v)
						if !isF || capped {
							continue
						}
						if !owners[owner] && !(owner == "" && (field == "TerminalData" || field == "PlatformData")) {
							continue
						}
						nBad++
						R.Add("E4.no-grow", fmt.Sprintf("%s / %s", shortFn(fn), c.constructOf(fn, call)), c.P.RelPos(call.Pos()), report.Violated,
							fmt.Sprintf("%s.%s is grown in place: it is a window of the frame the message was decoded from (or of a buffer handed to callbacks), so the bytes behind it in that frame are overwritten", owner, field))
					}
				}
			}
		}
		if nBad == 0 {
			R.Add("E4.no-grow", fmt.Sprintf("no append grows a message's byte slice in place (%d appends to byte slices examined)", n), "", report.Discharged, "")
		}
		R.Notes["byte_appends_examined"] = n
		if n < 10 {
			R.Fatal("E4.no-grow: only %d appends to byte slices found (anchor)", n)
		}
	}
	c.replyOwnHeader()
	R.Require("E4.alias", 4, "")
	R.Explain = "May-alias analysis on top of the abstract interpreter's buffer identities: every message the reader role creates (fast path, buffered path, re-request frames, reassembled messages) is checked at creation: its raw bytes, body and BCD phone must not share a backing array " +
		"(through sub-slicing, bytes.Trim, append's possible in-place growth, joins and loop generalisation) with the Read buffer or with a pending buffer that is truncated and refilled. Plus: no use of a message after it is sent to the writer; identifying header fields are stored only by the decoder. " +
		"Not decided: writes into delivered buffers through containers whose elements are not tracked (e.g. wiping stored sub-package bodies at close), mutation of reply-related header scalars by the writer."
}

// messagePerFrame (shared by C04 and C09): every Message the parser builds wraps a JTMessage of its own - created for
// that frame, inside the loop that extracts frames - or the JTMessage of the message being processed (reassembly).
func (c *Ctx) messagePerFrame(rule string) {
	R := c.R
	R.Rules[rule] = "every message the parser builds from the stream wraps a JTMessage created for that one frame (allocated inside the loop that extracts frames, directly or by a constructor / helper), or - in reassembly - the JTMessage of the message being processed: frames coalesced in one read do not share a decoded header and body"
	newMsg := c.P.Func("service", "newTerminalMessage")
	if newMsg == nil {
		R.Fatal("anchor service.newTerminalMessage not found")
		return
	}
	n := 0
	for _, fn := range c.RepoFuncs("service") {
		for _, b := range fn.Blocks {
			for _, ins := range b.Instrs {
				call, isC := ins.(*ssa.Call)
				if !isC || call.Call.StaticCallee() != newMsg || len(call.Call.Args) != 2 {
					continue
				}
				n++
				var decide func(v ssa.Value, use ssa.Instruction, depth int) (bool, string)
				decide = func(v ssa.Value, use ssa.Instruction, depth int) (bool, string) {
					ok, why := c.freshPerEvaluation(v, use)
					if ok {
						return true, ""
					}
					// the JTMessage of a *Message parameter (the message being processed)
					if root, path := loadPath(v); root != nil && len(path) > 0 && path[len(path)-1] == "JTMessage" {
						if _, isParam := root.(*ssa.Parameter); isParam && len(path) == 1 {
							return true, ""
						}
					}
					// a constructor helper that receives the JTMessage as a parameter: decided at its call sites
					if prm, isP := v.(*ssa.Parameter); isP && depth < 2 {
						f := prm.Parent()
						idx := -1
						for i, q := range f.Params {
							if q == prm {
								idx = i
							}
						}
						sites := 0
						for _, g := range c.RepoFuncs("service") {
							for _, b2 := range g.Blocks {
								for _, i2 := range b2.Instrs {
									ci, isCI := i2.(ssa.CallInstruction)
									if !isCI || ci.Common().StaticCallee() != f || idx >= len(ci.Common().Args) {
										continue
									}
									sites++
									if ok2, why2 := decide(ci.Common().Args[idx], i2, depth+1); !ok2 {
										return false, why2
									}
								}
							}
						}
						if sites > 0 {
							return true, ""
						}
					}
					return false, why
				}
				ok, why := decide(call.Call.Args[0], call, 0)
				st := report.Discharged
				if !ok {
					st = report.Violated
				}
				R.Add(rule, shortFn(fn)+" / "+c.constructOf(fn, call), c.P.RelPos(call.Pos()), st, why)
			}
		}
	}
	if n < 3 {
		R.Fatal("%s: only %d newTerminalMessage call sites found in service (confirmed by hand: 4)", rule, n)
	}
}

// replyOwnHeader: "replies are computed from the bytes of the message they belong to" - in every function of the
// service package that is handed a *Message and frames bytes with Header.Encode, the header that is encoded is
// reached from that message (msg.JTMessage.Header, directly, through a copy, or through a helper that is itself handed
// the message), not from the connection, a package variable or a captured variable.
func (c *Ctx) replyOwnHeader() {
	R := c.R
	rule := "S.reply-own-header"
	R.Rules[rule] = "in every function of the service package that receives a *Message and frames bytes with Header.Encode, the encoded header is loaded from that message (directly, through a local copy, or through a package helper that is handed the message): a reply carries the phone, version and serial of the message it answers, not those of another message kept in the connection"
	isMsgParam := func(v ssa.Value) bool {
		p, ok := v.(*ssa.Parameter)
		if !ok {
			return false
		}
		t := p.Type()
		if pt, isP := t.(*types.Pointer); isP {
			t = pt.Elem()
		}
		n, isN := t.(*types.Named)
		return isN && n.Obj().Name() == "Message" && n.Obj().Pkg() != nil && strings.HasSuffix(n.Obj().Pkg().Path(), "/service")
	}
	var trace func(v ssa.Value, seen map[ssa.Value]bool, depth int) string
	trace = func(v ssa.Value, seen map[ssa.Value]bool, depth int) string {
		if seen[v] || depth > 12 {
			return ""
		}
		seen[v] = true
		switch x := v.(type) {
		case *ssa.Parameter:
			if isMsgParam(x) {
				return ""
			}
			return fmt.Sprintf("parameter %s (%s) of %s", x.Name(), x.Type(), shortFn(x.Parent()))
		case *ssa.UnOp:
			if x.Op == token.MUL {
				if al, isAl := x.X.(*ssa.Alloc); isAl {
					return trace(al, seen, depth+1)
				}
				if fa, isFA := x.X.(*ssa.FieldAddr); isFA {
					if why := trace(fa.X, seen, depth+1); why != "" {
						_, name, _ := fieldNameOfAddr(fa)
						return "field " + name + " of " + why
					}
					return ""
				}
				return trace(x.X, seen, depth+1)
			}
		case *ssa.FieldAddr:
			return trace(x.X, seen, depth+1)
		case *ssa.Phi:
			for _, e := range x.Edges {
				if why := trace(e, seen, depth+1); why != "" {
					return why
				}
			}
			return ""
		case *ssa.Alloc:
			n := 0
			for _, ref := range *x.Referrers() {
				if st, isSt := ref.(*ssa.Store); isSt && st.Addr == x {
					n++
					if why := trace(st.Val, seen, depth+1); why != "" {
						return why
					}
				}
			}
			if n == 0 {
				return "a local that is never assigned from the message"
			}
			return ""
		case *ssa.Call:
			if sc := x.Call.StaticCallee(); sc != nil && len(sc.Blocks) > 0 && strings.HasSuffix(sc.Pkg.Pkg.Path(), "/service") {
				for _, b := range sc.Blocks {
					if ret, isR := b.Instrs[len(b.Instrs)-1].(*ssa.Return); isR {
						for _, rv := range ret.Results {
							if _, isPtr := rv.Type().Underlying().(*types.Pointer); !isPtr {
								continue
							}
							if why := trace(rv, seen, depth+1); why != "" {
								return why + " (returned by " + shortFn(sc) + ")"
							}
						}
					}
				}
				return ""
			}
			return "the result of " + calleeName(&x.Call)
		case *ssa.Global:
			return "package variable " + x.Name()
		case *ssa.FreeVar:
			return "captured variable " + x.Name()
		case *ssa.ChangeType:
			return trace(x.X, seen, depth+1)
		}
		return fmt.Sprintf("%T %s", v, v.Name())
	}
	n := 0
	hasMsgParam := func(fn *ssa.Function) bool {
		for _, p := range fn.Params {
			if isMsgParam(p) {
				return true
			}
		}
		return false
	}
	decide := func(fn *ssa.Function, at *ssa.Call, hdr ssa.Value) {
		n++
		st, d := report.Discharged, ""
		if why := trace(hdr, map[ssa.Value]bool{}, 0); why != "" {
			st, d = report.Violated, "the header encoded here is "+why+", not the header of the message this function was handed: the reply carries another message's phone / version / serial"
		}
		R.Add(rule, shortFn(fn)+" / "+c.constructOf(fn, at), c.P.RelPos(at.Pos()), st, d)
	}
	svcFns := c.RepoFuncs("service")
	for _, fn := range svcFns {
		for _, b := range fn.Blocks {
			for _, ins := range b.Instrs {
				call, isC := ins.(*ssa.Call)
				if !isC {
					continue
				}
				sc := call.Call.StaticCallee()
				if sc == nil || sc.Name() != "Encode" || !strings.Contains(sc.String(), "jt808.Header") || len(call.Call.Args) == 0 {
					continue
				}
				if hasMsgParam(fn) {
					decide(fn, call, call.Call.Args[0])
					continue
				}
				// a framing helper that is handed the header: the obligation moves to the callers that were handed a message
				hp, isP := call.Call.Args[0].(*ssa.Parameter)
				if !isP {
					continue
				}
				pi := -1
				for k, p := range fn.Params {
					if p == hp {
						pi = k
					}
				}
				for _, g := range svcFns {
					if !hasMsgParam(g) {
						continue
					}
					for _, gb := range g.Blocks {
						for _, gi := range gb.Instrs {
							if gc, isGC := gi.(*ssa.Call); isGC && gc.Call.StaticCallee() == fn && pi >= 0 && pi < len(gc.Call.Args) {
								decide(g, gc, gc.Call.Args[pi])
							}
						}
					}
				}
			}
		}
	}
	if n < 2 {
		R.Fatal("%s: only %d Header.Encode calls in service functions that receive a *Message (confirmed by hand: defaultReplyEvent, subPackReplyEvent)", rule, n)
	}
	R.Require(rule, 2, "")
}
