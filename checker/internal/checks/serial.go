package checks

import (
	"fmt"
	"go/types"
	"strings"

	"golang.org/x/tools/go/ssa"

	"jtverif/internal/absint"
	"jtverif/internal/report"
)

// unwrap16 rewrites a linear term into one that is congruent to it modulo 65536 by opening wrap-around atoms
// (conv/add/sub whose type is at least 16 bits wide: their modulus is a multiple of 65536).
func unwrap16(l absint.Lin, depth int) absint.Lin {
	if depth > 6 {
		return l
	}
	out := absint.Const(l.C)
	for _, t := range l.Ts {
		at := t.A
		wide := !at.HasHi || at.Hi >= 65535
		var inner absint.Lin
		opened := false
		if wide {
			switch at.Op {
			case "conv":
				if x, ok := at.Args[0].(absint.Int); ok && len(at.Args) == 1 {
					inner, opened = unwrap16(x.L, depth+1), true
				}
			case "add", "sub":
				if len(at.Args) == 2 {
					x, ok1 := at.Args[0].(absint.Int)
					y, ok2 := at.Args[1].(absint.Int)
					if ok1 && ok2 {
						if at.Op == "add" {
							inner = unwrap16(x.L, depth+1).Add(unwrap16(y.L, depth+1))
						} else {
							inner = unwrap16(x.L, depth+1).Sub(unwrap16(y.L, depth+1))
						}
						opened = true
					}
				}
			}
		}
		if !opened {
			inner = absint.AtomLin(at)
		}
		out = out.Add(inner.Scale(t.Coef))
	}
	return out
}

// congruent16: x ≡ y (mod 65536) is entailed by st (decided through a bounded search for the multiple).
func congruent16(st *absint.State, x, y absint.Lin) bool {
	d := unwrap16(x, 0).Sub(unwrap16(y, 0))
	for _, k := range []int64{0, 1, -1, 2, -2} {
		if st.Entails(absint.Con{L: d.AddC(65536 * k), Rel: absint.EQ}) {
			return true
		}
	}
	return false
}

// serialSequenceRule: the platform serial generator yields n, n+1, n+2, … modulo 65536.
//
//	(1) who writes the counter: exactly one function of the service package (the generator);
//	(2) the generator, interpreted abstractly with the counter as a plain cell holding n: on every return path the
//	    result is congruent to n and the cell afterwards is congruent to n+1 (mod 65536). When that needs the counter to
//	    stay inside 0..65535 (an explicit reset instead of the type's wrap-around), this range is proven inductive
//	    (zero initial value, preserved by every path) and used as the entry assumption.
func (c *Ctx) serialSequenceRule(rule string) {
	R := c.R
	R.Rules[rule] = "platform serials of a connection form the sequence n, n+1, n+2, … modulo 65536 (wrapping after 65535): only one function writes connection.platformSerialNumber, and on each of its paths the returned serial is congruent to the counter's value and the counter advances by exactly 1 modulo 65536"
	const field = "platformSerialNumber"
	writers := map[*ssa.Function]string{}
	nUse := 0
	bad := ""
	for _, fn := range c.RepoFuncs("service") {
		for _, b := range fn.Blocks {
			for _, ins := range b.Instrs {
				fa, isFA := ins.(*ssa.FieldAddr)
				if !isFA {
					continue
				}
				n, isN := derefNamed(fa.X.Type())
				if !isN || n != "connection" {
					continue
				}
				st := fa.X.Type().Underlying().(*types.Pointer).Elem().Underlying().(*types.Struct)
				if st.Field(fa.Field).Name() != field {
					continue
				}
				for _, ref := range *fa.Referrers() {
					switch x := ref.(type) {
					case *ssa.DebugRef:
					case *ssa.UnOp: // plain load
						nUse++
					case *ssa.Store:
						nUse++
						if x.Addr == ssa.Value(fa) {
							if _, isConst := x.Val.(*ssa.Const); isConst {
								if al, isAl := fa.X.(*ssa.Alloc); isAl && al.Parent() == fn {
									continue // constructor initialisation of a fresh object
								}
							}
							writers[fn] = c.P.RelPos(x.Pos())
						} else {
							bad = "the address of the serial counter is stored at " + c.P.RelPos(x.Pos())
						}
					case *ssa.Call:
						nUse++
						name := calleeName(&x.Call)
						m := name[strings.LastIndex(name, ".")+1:]
						switch {
						case !strings.HasPrefix(name, "(*sync/atomic."):
							bad = fmt.Sprintf("the address of the serial counter is passed to %s at %s", name, c.P.RelPos(x.Pos()))
						case m == "Load":
						default:
							writers[fn] = c.P.RelPos(x.Pos())
						}
					default:
						nUse++
						bad = fmt.Sprintf("the address of the serial counter escapes through %T at %s", ref, c.P.RelPos(ref.Pos()))
					}
				}
			}
		}
	}
	if nUse == 0 {
		R.Fatal("anchor connection.%s: no access found", field)
		return
	}
	var gen *ssa.Function
	{
		ok, d := bad == "" && len(writers) == 1, bad
		var names []string
		for f, pos := range writers {
			names = append(names, shortFn(f)+" ("+pos+")")
			gen = f
		}
		if bad == "" && len(writers) != 1 {
			d = fmt.Sprintf("the serial counter is written by %d functions: %s", len(writers), strings.Join(dedupe(names), ", "))
		}
		st := report.Discharged
		if !ok {
			st = report.Violated
		}
		R.Add(rule, "connection."+field+" / written by exactly one function (the generator)", "", st, d)
		if len(writers) != 1 {
			return
		}
	}
	type pathRes struct {
		retOK, nextOK, rangeOK bool
		d                      string
	}
	run := func(assumeRange bool) (res []pathRes, und []string) {
		var cell *absint.Ptr
		var et types.Type
		var n0 absint.Lin
		rs := c.RunE1([]*ssa.Function{gen}, true, func(a *absint.Analyzer, fn *ssa.Function, st *absint.State, args []absint.Term) {
			a.AtomicCells = true
			fp, fpt := a.FieldPtr(args[0], fn.Params[0].Type(), field)
			if fp == nil {
				return
			}
			ft := fpt.Underlying().(*types.Pointer).Elem()
			if isIntType(ft) {
				cell, et = fp, ft
			} else {
				cell, et = a.AtomicCell(fp, fpt)
			}
			if cell == nil {
				return
			}
			v, _ := a.LoadDeref(st, cell, et).(absint.Int)
			n0 = v.L
			if assumeRange {
				absint.AssumeRange(st, v, 0, 65535)
			}
		})
		r := rs[0]
		und = r.Undecided
		for _, o := range r.Obls {
			if !o.OK {
				und = append(und, o.Rule+" "+r.A.Key(o))
			}
		}
		if cell == nil {
			return nil, append(und, "the counter field is neither an integer nor a sync/atomic integer")
		}
		for _, ret := range r.Rets {
			pr := pathRes{}
			rv, okR := ret.Val.(absint.Int)
			nv, okN := r.A.LoadDeref(ret.St, cell, et).(absint.Int)
			if !okR || !okN {
				pr.d = "result or counter is not an integer term"
				res = append(res, pr)
				continue
			}
			pr.retOK = congruent16(ret.St, rv.L, n0)
			pr.nextOK = congruent16(ret.St, nv.L, n0.AddC(1))
			pr.rangeOK = ret.St.Entails(absint.Con{L: nv.L, Rel: absint.GE}) && ret.St.Entails(absint.Con{L: absint.Const(65535).Sub(nv.L), Rel: absint.GE})
			pr.d = fmt.Sprintf("on a path of %s the counter goes from n to %s and the serial returned is %s", shortFn(gen), r.A.Render(nv), r.A.Render(rv))
			res = append(res, pr)
		}
		return
	}
	verdict := func(res []pathRes, needRange bool) (bool, string) {
		if len(res) == 0 {
			return false, "no return path analysed"
		}
		for _, p := range res {
			switch {
			case !p.retOK:
				return false, p.d + ": the serial is not the counter's value (mod 65536)"
			case !p.nextOK:
				return false, p.d + ": the counter does not advance by exactly 1 modulo 65536 (a serial is skipped or repeated at the wrap)"
			case needRange && !p.rangeOK:
				return false, p.d + ": the counter can leave 0..65535, which the wrap test relies on"
			}
		}
		return true, ""
	}
	res, und := run(false)
	ok, d := verdict(res, false)
	mode := "free-running counter (the type's wrap-around)"
	if !ok {
		res2, und2 := run(true)
		if ok2, _ := verdict(res2, true); ok2 {
			ok, d, und = true, "", und2
			mode = "counter kept in 0..65535 (inductive: zero initial value, preserved on every path)"
		}
	}
	for _, u := range dedupe(und) {
		R.Add("E1.undecided", shortFn(gen)+" / "+u, "", report.Undecided, u)
	}
	st := report.Discharged
	if !ok {
		st = report.Violated
	}
	R.Add(rule, shortFn(gen)+" / returns n and advances to n+1 (mod 65536) on every path", c.P.RelPos(gen.Pos()), st, d)
	R.Notes["serial_generator"] = shortFn(gen) + ": " + mode
}

func isIntType(t types.Type) bool {
	b, ok := t.Underlying().(*types.Basic)
	return ok && b.Info()&types.IsInteger != 0
}
