package checks

import (
	"fmt"
	"sort"
	"strings"

	"jtverif/internal/absint"
	"jtverif/internal/report"
)

// LayoutSpec is an independent table (written from the standard) of what each output field
// of a decoder must be, in the rendering language of absint.Render.
type LayoutSpec struct {
	Source     string            `json:"source"`
	Common     map[string]string `json:"common"`
	Partitions []LayoutPartition `json:"partitions"`
}

type LayoutPartition struct {
	Name   string            `json:"name"`
	When   map[string]int64  `json:"when"`
	MinLen int64             `json:"min_len"`
	Fields map[string]string `json:"fields"`
}

type layoutAgg struct {
	st     report.Status
	detail string
}

type layoutResult map[string]*layoutAgg

func (lr layoutResult) set(rule, key string, ok bool, detail string) {
	st := report.Discharged
	if !ok {
		st = report.Violated
	}
	k := rule + "|" + key
	if cur, seen := lr[k]; !seen || st > cur.st {
		lr[k] = &layoutAgg{st, detail}
	}
}

func (lr layoutResult) flush(c *Ctx, pos string) {
	keys := make([]string, 0, len(lr))
	for k := range lr {
		keys = append(keys, k)
	}
	sort.Strings(keys)
	for _, k := range keys {
		parts := strings.SplitN(k, "|", 2)
		c.R.Add(parts[0], parts[1], pos, lr[k].st, lr[k].detail)
	}
}

// fieldValue returns the rendering of a named output field in a return state.
func fieldValue(a *absint.Analyzer, st *absint.State, locs map[string]absint.Loc, name string) (absint.Term, string) {
	l, ok := locs[name]
	if !ok {
		return nil, "<never written>"
	}
	v, ok := absint.HeapValue(st, l)
	if !ok {
		return nil, "<unwritten>"
	}
	return v, a.Render(v)
}

// partitionFeasible: can the selector fields take the partition's values on this path?
func partitionFeasible(a *absint.Analyzer, st *absint.State, locs map[string]absint.Loc, when map[string]int64) bool {
	for f, val := range when {
		v, _ := fieldValue(a, st, locs, f)
		iv, ok := v.(absint.Int)
		if !ok {
			return true // cannot exclude
		}
		if !st.Feasible(absint.Con{L: iv.L.AddC(-val), Rel: absint.EQ}) {
			return false
		}
	}
	return true
}

// checkLayout compares every successful return state with the spec, per admissible partition.
func (c *Ctx) checkLayout(lr layoutResult, fname string, a *absint.Analyzer, rets []absint.RetInfo, success func(absint.RetInfo) bool,
	locs map[string]absint.Loc, spec *LayoutSpec, inputLen *absint.Lin) (covered map[string]bool) {
	covered = map[string]bool{}
	for _, ret := range rets {
		if !success(ret) {
			continue
		}
		trace := strings.Join(ret.St.Trace, " → ")
		for name, exp := range spec.Common {
			_, got := fieldValue(a, ret.St, locs, name)
			lr.set("E3.field", fname+" / "+name, got == exp, fmt.Sprintf("field %s: the standard prescribes %s, the code computes %s (path %s)", name, exp, got, trace))
		}
		parts := spec.Partitions
		for _, p := range parts {
			if !partitionFeasible(a, ret.St, locs, p.When) {
				continue
			}
			covered[p.Name] = true
			for name, exp := range p.Fields {
				_, got := fieldValue(a, ret.St, locs, name)
				lr.set("E3.field", fmt.Sprintf("%s / %s [%s]", fname, name, p.Name), got == exp,
					fmt.Sprintf("%s, field %s: the standard prescribes %s, the code computes %s (path %s)", p.Name, name, exp, got, trace))
			}
			if inputLen != nil && p.MinLen > 0 {
				ok := ret.St.Entails(absint.Con{L: inputLen.AddC(-p.MinLen), Rel: absint.GE})
				lr.set("E3.minlen", fmt.Sprintf("%s / success needs %d bytes [%s]", fname, p.MinLen, p.Name), ok,
					fmt.Sprintf("%s: a successful return is reachable with fewer than %d input bytes (path %s)", p.Name, p.MinLen, trace))
			}
		}
	}
	return covered
}
