// Package checks holds one driver per property; each decides its clauses from /repo's
// current source using the engines (absint = E1, and the smaller rule packages).
package checks

import (
	"fmt"
	"go/types"
	"os"
	"sort"
	"strings"
	"sync"
	"time"

	"golang.org/x/tools/go/ssa"

	"jtverif/internal/absint"
	"jtverif/internal/load"
	"jtverif/internal/report"
)

type Ctx struct {
	P        *load.Program
	R        *report.Run
	Tier     string
	mu       sync.Mutex
	namer    *absint.Analyzer
	maxSteps int
	cw       *connWriteSummary
}

// Check is a property driver.
type Check struct {
	ID    string
	Level string
	Tags  []string
	Run   func(c *Ctx)
}

var Registry = map[string]*Check{}

func register(c *Check) { Registry[c.ID] = c }

// ---- enumeration helpers ----------------------------------------------------------------

// RepoFuncs returns every function with a body in the given repo-relative package
// (methods, package functions, closures), sorted.
func (c *Ctx) RepoFuncs(rel string) []*ssa.Function {
	sp := c.P.Pkg(rel)
	if sp == nil {
		return nil
	}
	seen := map[*ssa.Function]bool{}
	var out []*ssa.Function
	var visit func(f *ssa.Function)
	visit = func(f *ssa.Function) {
		if f == nil || seen[f] || f.Blocks == nil {
			return
		}
		seen[f] = true
		out = append(out, f)
		for _, an := range f.AnonFuncs {
			visit(an)
		}
	}
	for _, m := range sp.Members {
		switch v := m.(type) {
		case *ssa.Function:
			visit(v)
		case *ssa.Type:
			for _, t := range []types.Type{v.Type(), types.NewPointer(v.Type())} {
				ms := c.P.SSA.MethodSets.MethodSet(t)
				for i := 0; i < ms.Len(); i++ {
					f := c.P.SSA.MethodValue(ms.At(i))
					if f != nil && f.Synthetic == "" {
						visit(f)
					}
				}
			}
		}
	}
	sort.Slice(out, func(i, j int) bool { return out[i].String() < out[j].String() })
	return out
}

// MethodsNamed returns the declared (non-synthetic) methods called name on types of pkg.
func (c *Ctx) MethodsNamed(rel, name string) []*ssa.Function {
	var out []*ssa.Function
	for _, f := range c.RepoFuncs(rel) {
		if f.Name() == name && f.Signature.Recv() != nil && f.Parent() == nil {
			out = append(out, f)
		}
	}
	return out
}

// Impls: repo types implementing an interface type.
func (c *Ctx) Impls(iface types.Type) []types.Type {
	it, ok := iface.Underlying().(*types.Interface)
	if !ok || it.NumMethods() == 0 {
		return nil
	}
	var out []types.Type
	for _, pk := range c.P.Pkgs {
		if !strings.HasPrefix(pk.PkgPath, load.ModPrefix) {
			continue
		}
		sc := pk.Types.Scope()
		for _, n := range sc.Names() {
			tn, ok := sc.Lookup(n).(*types.TypeName)
			if !ok || tn.IsAlias() {
				continue
			}
			nt, ok := tn.Type().(*types.Named)
			if !ok || nt.TypeParams().Len() > 0 {
				continue
			}
			if _, isI := nt.Underlying().(*types.Interface); isI {
				continue
			}
			if types.Implements(nt, it) {
				out = append(out, nt)
			} else if pt := types.NewPointer(nt); types.Implements(pt, it) {
				out = append(out, pt)
			}
		}
	}
	return out
}

func pkgOf(f *ssa.Function) *ssa.Package {
	for g := f; g != nil; g = g.Parent() {
		if g.Package() != nil {
			return g.Package()
		}
		if o := g.Origin(); o != nil && o.Package() != nil {
			return o.Package()
		}
		if obj := g.Object(); obj != nil && obj.Pkg() != nil {
			if sp := g.Prog.Package(obj.Pkg()); sp != nil {
				return sp
			}
		}
	}
	return nil
}

// NewE1 builds an analyzer for entries of package home: callees in other repo packages are
// opaque (verified as entries of their own package's checks), dynamic dispatch explores
// repo implementations.
func (c *Ctx) NewE1(home *ssa.Package, opaqueCross bool) *absint.Analyzer {
	a := absint.New(c.P)
	a.Impls = c.Impls
	// The deciding budget is the deterministic instruction count (MaxSteps, per entry). The wall-clock deadline is
	// only a safety net against a hang: a verdict must not depend on how loaded the machine is.
	a.Deadline = time.Now().Add(30 * time.Minute)
	if c.Tier == "thorough" {
		a.K = 96
		a.MaxDepth = 18
		a.MaxSteps = 120_000_000
		a.Deadline = time.Now().Add(60 * time.Minute)
	}
	if opaqueCross {
		a.Opaque = func(f *ssa.Function) bool {
			pk := pkgOf(f)
			if pk == nil || pk == home {
				return false
			}
			// small helpers are always analysed in their caller's context
			if strings.HasSuffix(pk.Pkg.Path(), "protocol/utils") || strings.HasSuffix(pk.Pkg.Path(), "shared/consts") {
				return false
			}
			return true
		}
	}
	a.PureHelpers = map[string]bool{
		load.ModPrefix + "protocol/utils.BCD2Time": true,
		load.ModPrefix + "protocol/utils.Bcd2Dec":  true,
		load.ModPrefix + "protocol/utils.GBK2UTF8": true,
		load.ModPrefix + "protocol/utils.UTF82GBK": true,
	}
	return a
}

// E1Result of one entry.
type E1Result struct {
	Fn        *ssa.Function
	Obls      []*absint.Obl
	Rets      []absint.RetInfo
	A         *absint.Analyzer
	Undecided []string
	Wall      float64
	Recv      absint.Term // first argument of the entry (receiver), if any
}

// Pre prepares the entry state; nil means arbitrary arguments.
type Pre func(a *absint.Analyzer, fn *ssa.Function, st *absint.State, args []absint.Term)

// RunE1 analyses the entries in parallel (one analyzer each).
func (c *Ctx) RunE1(entries []*ssa.Function, opaqueCross bool, pre Pre) []*E1Result {
	res := make([]*E1Result, len(entries))
	var wg sync.WaitGroup
	sem := make(chan struct{}, 12)
	for i, fn := range entries {
		wg.Add(1)
		go func(i int, fn *ssa.Function) {
			defer wg.Done()
			sem <- struct{}{}
			defer func() { <-sem }()
			t0 := time.Now()
			a := c.NewE1(pkgOf(fn), opaqueCross)
			r := &E1Result{Fn: fn, A: a}
			func() {
				defer func() {
					if p := recover(); p != nil {
						r.Undecided = append(r.Undecided, fmt.Sprintf("analyser panic in %s: %v", fn, p))
					}
				}()
				st := absint.NewState()
				var args []absint.Term
				for _, p := range fn.Params {
					args = append(args, a.Unknown(p.Type(), p.Name(), st))
				}
				if len(args) > 0 {
					r.Recv = args[0]
				}
				if pre != nil {
					pre(a, fn, st, args)
				}
				var binds []absint.Term
				for _, fv := range fn.FreeVars {
					binds = append(binds, a.Unknown(fv.Type(), fv.Name(), st))
				}
				obls, rets := a.RunEntry(fn, st, args, binds)
				r.Obls = obls
				r.Rets = absint.Rets(rets)
			}()
			r.Undecided = append(r.Undecided, a.Undecided...)
			r.Wall = time.Since(t0).Seconds()
			if os.Getenv("JTVERIF_STEPS") != "" {
				fmt.Printf("STEPS %-70s %9d  %.1fs undecided=%d\n", shortFn(fn), a.StepsUsed, r.Wall, len(r.Undecided))
			}
			c.mu.Lock()
			if a.StepsUsed > c.maxSteps {
				c.maxSteps = a.StepsUsed
				c.R.Notes["e1_max_steps_of_an_entry"] = fmt.Sprintf("%d of %d (%s)", a.StepsUsed, a.MaxSteps, shortFn(fn))
			}
			c.mu.Unlock()
			res[i] = r
		}(i, fn)
	}
	wg.Wait()
	return res
}

// AddE1 records E1 obligations into the report under the given rule prefix filter.
// infoOnly marks them informational.
func (c *Ctx) AddE1(results []*E1Result, infoOnly bool) (nObl int) {
	for _, r := range results {
		for _, o := range r.Obls {
			key := r.A.Key(o)
			st := report.Discharged
			detail := ""
			if !o.OK {
				st = report.Violated
				detail = "entry: " + shortFn(r.Fn) + "\ncall path: " + o.Ctx + "\n" + o.Detail
			}
			pos := c.P.RelPos(o.Instr.Pos())
			if infoOnly {
				c.R.AddInfo(o.Rule, key, pos, st, detail)
			} else {
				c.R.Add(o.Rule, key, pos, st, detail)
			}
			nObl++
		}
		for _, u := range dedupe(r.Undecided) {
			if infoOnly {
				c.R.AddInfo("E1.undecided", shortFn(r.Fn)+" / "+u, "", report.Undecided, u)
			} else {
				c.R.Add("E1.undecided", shortFn(r.Fn)+" / "+u, "", report.Undecided, u)
			}
		}
	}
	return
}

func dedupe(xs []string) []string {
	seen := map[string]bool{}
	var out []string
	for _, x := range xs {
		if !seen[x] {
			seen[x] = true
			out = append(out, x)
		}
	}
	return out
}

func shortFn(f *ssa.Function) string {
	return strings.ReplaceAll(f.String(), load.ModPrefix, "")
}

// E1Rules registers the rule texts.
func (c *Ctx) E1Rules() {
	r := c.R.Rules
	r["E1.index"] = "every index expression satisfies 0 <= i < len on every path (abstract interpretation, linear constraints)"
	r["E1.slice"] = "every slice expression satisfies 0 <= lo <= hi <= len(s) (len, not cap: no byte beyond the slice may be read)"
	r["E1.precond"] = "modelled library precondition holds (binary.BigEndian.UintN needs N/8 bytes, strings.Repeat count >= 0)"
	r["E1.slice2array"] = "slice to array conversion has len >= N"
	r["E1.nil"] = "no dereference of a value that may be nil (nil constants, map lookups of possibly absent keys)"
	r["E1.nilmap"] = "no assignment to an entry of a nil map"
	r["E1.div"] = "divisor is non-zero"
	r["E1.make"] = "make sizes are non-negative and cap >= len"
	r["E1.panic"] = "no explicit panic is reachable"
	r["E1.typeassert"] = "type assertions without comma-ok cannot fail"
	r["E1.progress"] = "a loop whose guard compares a loop-carried integer with a loop-invariant bound (for i < n, for i > 0) moves that integer towards the bound by at least 1 on every path back to its head (no input makes the loop spin); loops with other guards get no obligation"
	r["E1.rangefunc"] = "a range-over-func iterator never calls its yield function again after the loop body asked it to stop (the compiler's loop-state check `yield function called after range loop exit` is unreachable)"
	r["E1.undecided"] = "the analyser finished within its budgets and met no unsupported construct"
}

func (c *Ctx) E1Assumptions() {
	c.R.Assume = append(c.R.Assume,
		"amd64: int is 64 bit; int/int64/uint64 arithmetic on lengths and small counters does not overflow",
		"entry parameters and pointer fields of unknown objects are non-nil; byte contents, lengths and all receiver fields are arbitrary",
		"library functions without a model are total, return unconstrained values and do not modify memory reachable from their arguments (listed under coverage.assumed_total)",
		"user callbacks (function-typed option fields, interface values implemented outside the repository) are total and do not mutate or retain their arguments",
		"compiler-generated range-over-func bookkeeping panics other than `yield called after loop exit` (which is decided: E1.rangefunc) are exempt",
		"error-typed package variables assigned once in their initialiser from errors.New are non-nil (checked per variable)",
	)
}

// constructOf names a source construct (expression text + occurrence index), line-independent.
func (c *Ctx) constructOf(fn *ssa.Function, ins ssa.Instruction) string {
	c.mu.Lock()
	if c.namer == nil {
		c.namer = absint.New(c.P)
	}
	n := c.namer
	c.mu.Unlock()
	return n.Construct(fn, ins)
}

// NamedFunc resolves an anchor by name inside a package whether it is a method (of any type) or a free function:
// the only source function of that name in the package. A maintainer moving a helper between "method" and "function"
// keeps the anchor.
func (c *Ctx) NamedFunc(rel, name string) *ssa.Function {
	var found []*ssa.Function
	for _, f := range c.RepoFuncs(rel) {
		if f.Name() == name && f.Parent() == nil && f.Synthetic == "" {
			found = append(found, f)
		}
	}
	if len(found) == 1 {
		return found[0]
	}
	return nil
}

// acceptLoopFunc: the function of a package that contains the Accept call of its server (wherever Run keeps it).
func (c *Ctx) acceptLoopFunc(rel string) *ssa.Function {
	var found []*ssa.Function
	for _, f := range c.RepoFuncs(rel) {
		for _, b := range f.Blocks {
			for _, ins := range b.Instrs {
				if call, ok := ins.(*ssa.Call); ok {
					m := ""
					if call.Call.IsInvoke() {
						m = call.Call.Method.Name()
					} else if sc := call.Call.StaticCallee(); sc != nil {
						m = sc.Name()
					}
					if (m == "Accept" || m == "AcceptTCP") && (len(found) == 0 || found[len(found)-1] != f) {
						found = append(found, f)
					}
				}
			}
		}
	}
	if len(found) == 1 {
		return found[0]
	}
	return nil
}
