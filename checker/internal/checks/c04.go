package checks

import (
	"fmt"
	"go/token"
	"go/types"

	"golang.org/x/tools/go/ssa"

	"jtverif/internal/absint"
	"jtverif/internal/report"
)

func init() {
	register(&Check{ID: "C04", Level: "other", Run: runC04})
}

// loadIndex: v is a load of X[idx] (slice element); returns the slice value and the index.
func loadIndex(a *absint.Analyzer, st *absint.State, v ssa.Value) (*absint.Slice, absint.Lin, bool) {
	v = stripConv(v)
	var x, idx ssa.Value
	switch u := v.(type) {
	case *ssa.UnOp:
		ia, ok := u.X.(*ssa.IndexAddr)
		if !ok || u.Op != token.MUL {
			return nil, absint.Lin{}, false
		}
		x, idx = ia.X, ia.Index
	case *ssa.Index:
		x, idx = u.X, u.Index
	default:
		return nil, absint.Lin{}, false
	}
	xs, ok := a.Val(st, x).(*absint.Slice)
	if !ok {
		return nil, absint.Lin{}, false
	}
	iv, ok := a.Val(st, idx).(absint.Int)
	if !ok {
		return nil, absint.Lin{}, false
	}
	return xs, iv.L, true
}

func runC04(c *Ctx) {
	c.E1Rules()
	c.E1Assumptions()
	R := c.R
	R.Rules["S.no-read-dependence"] = "once the bytes of the current read have been appended to the pending buffer, nothing in the extraction loop depends on the read itself (its length, its content): what is extracted is a function of the concatenated stream only"
	R.Rules["T.append-all"] = "every call that does not take the single-frame fast path appends the whole read to the pending buffer, exactly once, before extracting"
	R.Rules["T.frame"] = "every frame handed to the decoder on the buffered path is the shortest delimited prefix of the pending buffer: it starts at the buffer's first byte, that byte and its last byte are 0x7e, and no byte in between is (ghost scan pointer related to the scanning loop's counter by the inferred invariant)"
	R.Rules["T.rest"] = "after a frame has been taken (delivered or rejected) the pending buffer is exactly the bytes that followed it: same end, start advanced by the frame's length; it is reset to empty only when the frame was the whole buffer"
	R.Rules["T.stop"] = "extraction stops without error only when the pending buffer holds no complete frame: fewer than three bytes, no leading delimiter, or no further delimiter up to its end (so a message is available as soon as its closing delimiter has arrived)"
	R.Rules["S.fastpath"] = "the fast path is taken only with an empty pending buffer, hands the whole read to the decoder as one frame, leaves the buffer untouched, and its single-frame test is exact: the read ends with a delimiter and the second delimiter of the read is its last byte (closure: counts 0x7e, true at the second)"
	R.Rules["S.every-read"] = "every Read that returned at least one byte reaches the extractor: each test of the byte count that stands between the Read and the parse call sends every n >= 1 towards the parse call"
	R.Rules["S.reader-window"] = "the reader hands the extractor exactly the bytes the last Read returned (buffer[:n])"
	un := c.P.Method("service", "packageParse", "unpack")
	if un == nil {
		R.Fatal("anchor packageParse.unpack not found")
		return
	}
	name := shortFn(un)
	dataP := un.Params[1]
	c.resultPerCall(un)
	// ---- S.no-read-dependence (SSA taint of the read parameter after the append-store)
	var appStore *ssa.Store
	for _, b := range un.Blocks {
		for _, ins := range b.Instrs {
			st, ok := ins.(*ssa.Store)
			if !ok {
				continue
			}
			if fa, isFA := st.Addr.(*ssa.FieldAddr); isFA {
				s := fa.X.Type().Underlying().(*types.Pointer).Elem().Underlying().(*types.Struct)
				if s.Field(fa.Field).Name() != "historyData" {
					continue
				}
				if app, isApp := isBuiltinCall(instrOf(st.Val), "append"); isApp && len(app.Call.Args) == 2 && app.Call.Args[1] == ssa.Value(dataP) {
					if appStore != nil {
						R.Add("T.append-all", name+" / one append of the read", c.P.RelPos(st.Pos()), report.Violated, "the read is appended to the pending buffer at more than one place")
					}
					appStore = st
				}
			}
		}
	}
	if appStore == nil {
		R.Fatal("%s: no `historyData = append(historyData, data...)` found (anchor)", name)
		return
	}
	{
		// blocks / instructions executed after the append-store
		after := map[ssa.Instruction]bool{}
		seen := map[*ssa.BasicBlock]bool{}
		var walk func(b *ssa.BasicBlock, from int)
		walk = func(b *ssa.BasicBlock, from int) {
			for k := from; k < len(b.Instrs); k++ {
				after[b.Instrs[k]] = true
			}
			for _, s := range b.Succs {
				if !seen[s] {
					seen[s] = true
					walk(s, 0)
				}
			}
		}
		walk(appStore.Block(), instrIndex(appStore)+1)
		tainted := map[ssa.Value]bool{dataP: true}
		changed := true
		for changed {
			changed = false
			for _, b := range un.Blocks {
				for _, ins := range b.Instrs {
					v, isV := ins.(ssa.Value)
					if !isV || tainted[v] {
						continue
					}
					switch x := ins.(type) {
					case *ssa.Call:
						if bi, isB := x.Call.Value.(*ssa.Builtin); isB && (bi.Name() == "len" || bi.Name() == "cap") && tainted[x.Call.Args[0]] {
							tainted[v], changed = true, true
						}
					case *ssa.BinOp, *ssa.UnOp, *ssa.Convert, *ssa.Slice, *ssa.IndexAddr, *ssa.Phi, *ssa.ChangeType:
						var ops []*ssa.Value
						for _, op := range ins.Operands(ops) {
							if *op != nil && tainted[*op] {
								tainted[v], changed = true, true
							}
						}
					}
				}
			}
		}
		var bad []string
		for ins := range after {
			var ops []*ssa.Value
			for _, op := range ins.Operands(ops) {
				if *op != nil && tainted[*op] {
					if _, isDbg := ins.(*ssa.DebugRef); !isDbg {
						bad = append(bad, fmt.Sprintf("%s at %s", c.constructOf(un, ins), c.P.RelPos(ins.Pos())))
					}
				}
			}
		}
		st, d := report.Discharged, ""
		if len(bad) > 0 {
			st, d = report.Violated, fmt.Sprintf("after the read has been appended, the extraction still looks at the read itself (%v): the same stream cut into different reads is extracted differently", dedupe(bad))
		}
		R.Add("S.no-read-dependence", name, c.P.RelPos(appStore.Pos()), st, d)
	}
	// ---- E1 with ghosts
	var recv absint.Term
	var recvT types.Type
	var data *absint.Slice
	var gC, gFL, gApp, gStores *ssa.Phi
	res := c.RunE1([]*ssa.Function{un}, true, func(a *absint.Analyzer, f *ssa.Function, st *absint.State, args []absint.Term) {
		recv, recvT = args[0], f.Params[0].Type()
		data, _ = args[1].(*absint.Slice)
		if data == nil {
			return
		}
		gC, gFL, gApp, gStores = a.NewGhost("scan"), a.NewGhost("framelen"), a.NewGhost("appended"), a.NewGhost("stores")
		absint.SetGhost(st, gC, absint.Const(1))
		absint.SetGhost(st, gFL, absint.Const(0))
		absint.SetGhost(st, gApp, absint.Const(0))
		absint.SetGhost(st, gStores, absint.Const(0))
		hist := func(st *absint.State) *absint.Slice {
			h, _ := a.LoadField(st, recv, recvT, "historyData")
			hs, _ := h.(*absint.Slice)
			return hs
		}
		gh := func(st *absint.State, g *ssa.Phi) absint.Lin { l, _ := absint.Ghost(st, g); return l }
		// flags are kept as constants: after a loop head they come back as invariant atoms
		canon := func(st *absint.State) {
			for _, g := range []*ssa.Phi{gApp, gStores} {
				l := gh(st, g)
				if l.IsConst() {
					continue
				}
				for k := int64(0); k <= 1; k++ {
					if st.Entails(absint.Con{L: l.AddC(-k), Rel: absint.EQ}) {
						absint.SetGhost(st, g, absint.Const(k))
					}
				}
			}
		}
		isOne := func(st *absint.State, g *ssa.Phi) bool {
			return st.Entails(absint.Con{L: gh(st, g).AddC(-1), Rel: absint.EQ})
		}
		byteIs := func(st *absint.State, s *absint.Slice, pos absint.Lin, k int64) bool {
			b := a.ByteAt(st, s, pos)
			return st.Entails(absint.Con{L: b.AddC(-k), Rel: absint.EQ})
		}
		byteIsNot := func(st *absint.State, s *absint.Slice, pos absint.Lin, k int64) bool {
			b := a.ByteAt(st, s, pos)
			return !st.Feasible(absint.Con{L: b.AddC(-k), Rel: absint.EQ})
		}
		sameBuf := func(st *absint.State, x, h *absint.Slice) bool {
			return x != nil && h != nil && x.Base == h.Base && st.Entails(eqC(x.Off, h.Off))
		}
		a.OnStore = func(f2 *ssa.Function, ins *ssa.Store, st *absint.State, old, val absint.Term) {
			fa, isFA := ins.Addr.(*ssa.FieldAddr)
			if f2 != un || !isFA {
				return
			}
			canon(st)
			s := fa.X.Type().Underlying().(*types.Pointer).Elem().Underlying().(*types.Struct)
			if s.Field(fa.Field).Name() != "historyData" {
				return
			}
			os, _ := old.(*absint.Slice)
			vs, _ := val.(*absint.Slice)
			if ins == appStore {
				ok := vs != nil && os != nil && vs.Base.Op == "append" && vs.Base.From != nil && vs.Base.From.Base == os.Base && vs.Base.From.Off.Equal(os.Off) && vs.Base.From.Len.Equal(os.Len) &&
					vs.Base.From2 != nil && vs.Base.From2.Base == data.Base && vs.Base.From2.Off.Equal(data.Off) && vs.Base.From2.Len.Equal(data.Len) &&
					st.Entails(absint.Con{L: gh(st, gApp), Rel: absint.EQ})
				a.Oblige("T.append-all", un, ins, "the whole read is appended to the whole pending buffer, once", ok, "the value stored is not append(pending buffer, whole read)")
				absint.SetGhost(st, gApp, absint.Const(1))
				absint.SetGhost(st, gC, absint.Const(1))
				return
			}
			fl := gh(st, gFL)
			ok := false
			d := "the new pending buffer is not a suffix of the old one"
			if os != nil && vs != nil {
				if vs.Base == os.Base && st.Entails(eqC(vs.Off.Add(vs.Len), os.Off.Add(os.Len))) {
					if st.Entails(eqC(vs.Off, os.Off.Add(fl))) {
						ok = true
					} else {
						d = fmt.Sprintf("after a frame of length %s was taken, the pending buffer starts %s bytes further on (it must start exactly behind the frame: bytes of the next frame are dropped or re-scanned)", fl, vs.Off.Sub(os.Off))
					}
				}
				if !ok && st.Entails(absint.Con{L: vs.Len, Rel: absint.EQ}) {
					if st.Entails(eqC(os.Len, fl)) {
						ok = true
					} else {
						d = fmt.Sprintf("the pending buffer is emptied after a frame of length %s although it held %s bytes: the bytes behind the frame (the beginning of the next frame) are thrown away", fl, os.Len)
					}
				}
			}
			a.Oblige("T.rest", un, ins, "pending buffer = bytes behind the frame just taken", ok, d)
			absint.SetGhost(st, gC, absint.Const(1))
			absint.SetGhost(st, gFL, absint.Const(0))
			absint.SetGhost(st, gStores, absint.Const(1))
		}
		a.OnExternal = func(f2 *ssa.Function, site ssa.Instruction, nm string, st *absint.State, args []absint.Term) {
			// the copy that becomes the frame: in the parser itself or in a helper it calls with the window
			if nm != "bytes.Clone" {
				return
			}
			_ = f2
			canon(st)
			s, _ := args[0].(*absint.Slice)
			h := hist(st)
			if s != nil && s.Base == data.Base {
				ok := s.Off.Equal(data.Off) && s.Len.Equal(data.Len) && h != nil && st.Entails(absint.Con{L: h.Len, Rel: absint.EQ}) &&
					st.Entails(absint.Con{L: gh(st, gApp), Rel: absint.EQ}) && st.Entails(absint.Con{L: gh(st, gStores), Rel: absint.EQ})
				a.Oblige("S.fastpath", un, site, "whole read as one frame, only with an empty pending buffer", ok, "the fast path copies the read as a frame although the pending buffer is not known to be empty / not the whole read")
				return
			}
			if !sameBuf(st, s, h) {
				a.Oblige("T.frame", un, site, "frame is the shortest delimited prefix of the pending buffer", false, "the frame handed to the decoder does not start at the first byte of the pending buffer")
				return
			}
			L := s.Len
			if tdDebug {
				fmt.Printf("C04 clone: app=%s scan=%s L=%s hist.len=%s app1=%v\n%s\n", gh(st, gApp), gh(st, gC), L, h.Len, st.Entails(absint.Con{L: gh(st, gApp).AddC(-1), Rel: absint.EQ}), st.Describe(gh(st, gApp), gh(st, gC)))
			}
			ok, d := true, ""
			switch {
			case !st.Entails(absint.Con{L: gh(st, gApp).AddC(-1), Rel: absint.EQ}):
				ok, d = false, "a frame is taken from the pending buffer before the read was appended"
			case !byteIs(st, h, absint.Const(0), 0x7e):
				ok, d = false, "the frame's first byte is not known to be the delimiter"
			case !byteIs(st, h, L.AddC(-1), 0x7e):
				ok, d = false, fmt.Sprintf("the frame's last byte (position %s) is not known to be the delimiter", L.AddC(-1))
			case !st.Entails(leC(L.AddC(-1), gh(st, gC))):
				ok, d = false, fmt.Sprintf("the frame ends at %s but only [1, %s) has been scanned free of delimiters: several frames could be merged into one", L.AddC(-1), gh(st, gC))
			case !st.Entails(leC(absint.Const(2), L)):
				ok, d = false, "a frame shorter than two bytes"
			}
			a.Oblige("T.frame", un, site, "frame is the shortest delimited prefix of the pending buffer", ok, d)
			absint.SetGhost(st, gFL, L)
		}
		a.OnBranch = func(f2 *ssa.Function, iff *ssa.If, taken bool, st *absint.State) {
			if f2 != un {
				return
			}
			canon(st)
			cond := iff.Cond
			for {
				u, ok := cond.(*ssa.UnOp)
				if !ok || u.Op != token.NOT {
					break
				}
				cond, taken = u.X, !taken
			}
			x, ok := cond.(*ssa.BinOp)
			if !ok {
				return
			}
			// a library search for the delimiter in a suffix of the pending buffer: bytes.IndexByte(pending[k:], 0x7e)
			// compared with a constant. From the branch state: found at r -> [k, k+r) is free of delimiters and byte
			// k+r is one; not found -> the whole suffix is free of delimiters.
			for _, opd := range []ssa.Value{x.X, x.Y} {
				call, isC := opd.(*ssa.Call)
				if !isC || call.Call.StaticCallee() == nil || len(call.Call.Args) != 2 {
					continue
				}
				if n := call.Call.StaticCallee().String(); n != "bytes.IndexByte" && n != "bytes.IndexRune" {
					continue
				}
				if kk, isK := constInt(call.Call.Args[1]); !isK || kk != 0x7e {
					continue
				}
				xs, isS := a.Val(st, call.Call.Args[0]).(*absint.Slice)
				h := hist(st)
				rv, isI := a.Val(st, call).(absint.Int)
				if !isS || !isI || h == nil || xs.Base != h.Base || !st.Entails(eqC(xs.Off.Add(xs.Len), h.Off.Add(h.Len))) {
					continue
				}
				k0 := xs.Off.Sub(h.Off) // start of the searched suffix inside the pending buffer
				cur := gh(st, gC)
				if !st.Entails(leC(k0, cur)) || !st.Entails(absint.Con{L: k0, Rel: absint.GE}) {
					continue // the part before the suffix has not been scanned
				}
				switch {
				case st.Entails(absint.Con{L: rv.L, Rel: absint.GE}): // found
					pos := k0.Add(rv.L)
					absint.SetGhost(st, gC, pos)
					st.AssumeEQ(a.ByteAt(st, h, pos).AddC(-0x7e))
				case st.Entails(leC(rv.L, absint.Const(-1))): // not found
					absint.SetGhost(st, gC, h.Len)
				}
				return
			}
			if x.Op != token.EQL && x.Op != token.NEQ {
				return
			}
			bv, kv := x.X, x.Y
			if _, isK := constInt(bv); isK {
				bv, kv = kv, bv
			}
			k, isK := constInt(kv)
			if !isK || k != 0x7e {
				return
			}
			xs, idx, ok := loadIndex(a, st, bv)
			if !ok || !sameBuf(st, xs, hist(st)) {
				return
			}
			cur := gh(st, gC)
			if tdDebug {
				fmt.Printf("C04 branch %s taken=%v idx=%s scan=%s eq=%v\n", c.P.RelPos(iff.Cond.Pos()), taken, idx, cur, st.Entails(eqC(cur, idx)))
			}
			if st.Entails(eqC(cur, idx)) {
				absint.SetGhost(st, gC, idx)
				differs := (x.Op == token.EQL && !taken) || (x.Op == token.NEQ && taken)
				if differs {
					absint.SetGhost(st, gC, idx.AddC(1))
				}
			}
		}
		a.OnRet = func(f2 *ssa.Function, ret *ssa.Return, st *absint.State, val absint.Term) {
			if f2 != un {
				return
			}
			canon(st)
			tu, ok := val.(*absint.Tuple)
			if !ok || len(tu.Elems) != 2 {
				return
			}
			if _, isNil := tu.Elems[1].(absint.NilT); !isNil {
				return // decoding failed: the reader gives the connection up
			}
			if !isOne(st, gApp) {
				// fast path: nothing stored, nothing appended
				okF := st.Entails(absint.Con{L: gh(st, gApp), Rel: absint.EQ}) && st.Entails(absint.Con{L: gh(st, gStores), Rel: absint.EQ})
				a.Oblige("S.fastpath", un, ret, "the pending buffer is left untouched", okF, "a successful return that neither appended the read nor left the pending buffer untouched")
				return
			}
			h := hist(st)
			okS := h != nil && (st.Entails(leC(h.Len, absint.Const(2))) || byteIsNot(st, h, absint.Const(0), 0x7e) || st.Entails(leC(h.Len, gh(st, gC))))
			d := ""
			if !okS && h != nil {
				d = fmt.Sprintf("extraction stops although the pending buffer (%s bytes, scanned up to %s) may hold a complete frame: the message is delayed until some later read, or for ever", h.Len, gh(st, gC))
			}
			a.Oblige("T.stop", un, ret, fmt.Sprintf("return #%d: no complete frame is left in the pending buffer", returnOrdinal(un, ret)), okS, d)
		}
	})
	c.AddE1(res, false)
	// ---- the fast path's single-frame test
	{
		ok, d := false, "no bytes.IndexFunc(read, closure) == len(read)-1 test found on the fast path"
		for _, b := range un.Blocks {
			iff, isIf := b.Instrs[len(b.Instrs)-1].(*ssa.If)
			if !isIf {
				continue
			}
			cmp, isCmp := iff.Cond.(*ssa.BinOp)
			if !isCmp || cmp.Op != token.EQL {
				continue
			}
			call, isCall := cmp.X.(*ssa.Call)
			other := cmp.Y
			if !isCall {
				call, isCall = cmp.Y.(*ssa.Call)
				other = cmp.X
			}
			if !isCall || call.Call.StaticCallee() == nil || call.Call.StaticCallee().String() != "bytes.IndexFunc" || call.Call.Args[0] != ssa.Value(dataP) {
				continue
			}
			// other == len(data) - 1
			okLen := false
			if sub, isSub := other.(*ssa.BinOp); isSub && sub.Op == token.SUB {
				if one, isOne := constInt(sub.Y); isOne && one == 1 {
					if ln, isLn := isBuiltinCall(instrOf(sub.X), "len"); isLn && ln.Call.Args[0] == ssa.Value(dataP) {
						okLen = true
					}
				}
			}
			mc, isMC := call.Call.Args[1].(*ssa.MakeClosure)
			if !okLen || !isMC {
				d = "the fast path does not compare the index of the second delimiter with len(read)-1"
				continue
			}
			ok, d = c.countingClosure(mc)
		}
		st := report.Discharged
		if !ok {
			st = report.Violated
		}
		R.Add("S.fastpath", name+" / single-frame test is exact", c.P.RelPos(un.Pos()), st, d)
	}
	// ---- reader window
	{
		reader := c.P.Method("service", "connection", "reader")
		ok, d := false, "the reader does not call parse with buffer[:n] of the preceding Read"
		if reader != nil {
			for _, rf := range c.familyOf(reader) {
				for _, b := range rf.Blocks {
					for _, ins := range b.Instrs {
						call, isC := ins.(*ssa.Call)
						if !isC || call.Call.StaticCallee() == nil || call.Call.StaticCallee().Name() != "parse" {
							continue
						}
						// the window, followed through the parameters of helpers the read loop was split into
						var sl *ssa.Slice
						isSl := false
						for _, av := range c.resolveParam(call.Call.Args[1], "service") {
							if s2, ok2 := av.(*ssa.Slice); ok2 {
								sl, isSl = s2, true
							}
						}
						if !isSl || sl.Low != nil {
							d = "parse is not given buffer[:n]"
							continue
						}
						ex, isEx := sl.High.(*ssa.Extract)
						if !isEx || ex.Index != 0 {
							continue
						}
						rd, isRd := ex.Tuple.(*ssa.Call)
						rdName := ""
						if isRd {
							rdName, _ = callMethodName(rd)
						}
						if !isRd || rdName != "Read" || !sameBufferValue(rd.Call.Args[len(rd.Call.Args)-1], sl.X) {
							d = "the window handed to parse is not the buffer the Read filled"
							continue
						}
						ok, d = true, ""
					}
				}
			}
		}
		st := report.Discharged
		if !ok {
			st = report.Violated
		}
		R.Add("S.reader-window", "connection.reader", "", st, d)
	}
	c.everyReadParsed()
	c.dispatchAll()
	R.Require("T.frame", 1, "")
	R.Require("T.rest", 3, "")
	R.Require("T.stop", 2, "")
	R.Require("T.append-all", 1, "")
	R.Require("S.fastpath", 3, "")
	c.messagePerFrame("S.message-per-frame")
	R.Explain = "Segmentation independence is decided structurally: the buffered path appends the whole read and from then on never looks at the read again, so its result is a function of (pending bytes ++ read); the extraction loop is proved (abstract interpretation with a ghost scan pointer and inferred loop invariants) to take exactly the shortest delimited prefix each time, to leave exactly the bytes behind it, and to stop only when no complete frame is left; the fast path is taken only with an empty buffer for a read that is exactly one delimited frame. " +
		"Together these make the extracted sequence a function of the concatenated byte stream for streams of valid frames. Not decided: behaviour on garbage between frames (the buffered path waits, the fast path fails), and the decoder itself (C02)."
}

func returnOrdinal(fn *ssa.Function, ret *ssa.Return) int {
	n := 0
	for _, b := range fn.Blocks {
		if r, ok := b.Instrs[len(b.Instrs)-1].(*ssa.Return); ok {
			n++
			if r == ret {
				return n
			}
		}
	}
	return 0
}

// sameBufferValue: the two values are the same slice value: identical, or loads of the same variable that is assigned once.
func sameBufferValue(x, y ssa.Value) bool {
	if x == y {
		return true
	}
	lx, okx := x.(*ssa.UnOp)
	ly, oky := y.(*ssa.UnOp)
	if !okx || !oky || lx.X != ly.X {
		return false
	}
	al, isAl := lx.X.(*ssa.Alloc)
	if !isAl {
		return false
	}
	n := 0
	for _, ref := range *al.Referrers() {
		if st, isSt := ref.(*ssa.Store); isSt && st.Addr == ssa.Value(al) {
			n++
		}
	}
	return n == 1
}

// countingClosure: the closure passed to IndexFunc increments its captured counter exactly when the rune is 0x7e
// and reports true exactly when the counter (after the update) equals 2.
func (c *Ctx) countingClosure(mc *ssa.MakeClosure) (bool, string) {
	fn := mc.Fn.(*ssa.Function)
	if len(mc.Bindings) != 1 || len(fn.Params) != 1 {
		return false, "the closure of the fast-path test does not have the counting shape (one captured counter)"
	}
	// the counter starts at 0
	al, isAl := mc.Bindings[0].(*ssa.Alloc)
	if !isAl {
		return false, "captured counter not a local variable"
	}
	zero := false
	nStores := 0
	for _, ref := range *al.Referrers() {
		if st, isSt := ref.(*ssa.Store); isSt && st.Addr == ssa.Value(al) {
			nStores++
			if k, isK := constInt(st.Val); isK && k == 0 {
				zero = true
			}
		}
	}
	if !zero || nStores != 1 {
		return false, "the counter of the fast-path test does not start at 0"
	}
	a := c.NewE1(pkgOf(fn), true)
	st := absint.NewState()
	r := a.Unknown(fn.Params[0].Type(), "r", st)
	cnt := a.Unknown(fn.FreeVars[0].Type(), "count", st)
	cp, isP := cnt.(*absint.Ptr)
	if !isP {
		return false, "counter pointer not modelled"
	}
	intT := fn.FreeVars[0].Type().Underlying().(*types.Pointer).Elem()
	old := a.Unknown(intT, "count0", st)
	a.StoreDeref(st, cp, old, intT)
	ok, d := true, ""
	nRet := 0
	a.OnRet = func(f2 *ssa.Function, ret *ssa.Return, st *absint.State, val absint.Term) {
		nRet++
		ri, _ := r.(absint.Int)
		oi, _ := old.(absint.Int)
		nv, _ := a.LoadDeref(st, cp, intT).(absint.Int)
		is7e := st.Entails(absint.Con{L: ri.L.AddC(-0x7e), Rel: absint.EQ})
		not7e := !st.Feasible(absint.Con{L: ri.L.AddC(-0x7e), Rel: absint.EQ})
		switch {
		case is7e && st.Entails(eqC(nv.L, oi.L.AddC(1))):
		case not7e && st.Entails(eqC(nv.L, oi.L)):
		default:
			ok, d = false, "the closure does not count exactly the delimiter bytes"
		}
		// result ⇔ new counter == 2
		b, isB := val.(*absint.Bool)
		if !isB {
			ok, d = false, "closure result not a comparison"
			return
		}
		ts, fs := st.Clone(), st.Clone()
		_ = fs
		want := absint.Con{L: nv.L.AddC(-2), Rel: absint.EQ}
		if !a.BoolEquivalent(ts, b, want) {
			ok, d = false, "the closure is not true exactly at the second delimiter (counter == 2)"
		}
	}
	a.RunEntry(fn, st, []absint.Term{r}, []absint.Term{cnt})
	if nRet == 0 {
		return false, "closure has no return"
	}
	return ok, d
}

// everyReadParsed: between the Read and the call that hands the window to the extractor, every branch that decides whether
// the extractor is reached and that looks at the byte count must let every count >= 1 through (a test such as n > 1
// drops one-byte reads: a lone delimiter disappears from the stream).
func (c *Ctx) everyReadParsed() {
	R := c.R
	reader := c.P.Method("service", "connection", "reader")
	if reader == nil {
		R.Fatal("anchor connection.reader not found")
		return
	}
	fam := map[*ssa.Function]bool{}
	for _, f := range c.familyOf(reader) {
		fam[f] = true
	}
	nReads := 0
	for f := range fam {
		for _, b := range f.Blocks {
			for _, ins := range b.Instrs {
				rd, isC := ins.(*ssa.Call)
				if !isC {
					continue
				}
				if name, _ := callMethodName(rd); name != "Read" {
					continue
				}
				var n ssa.Value
				for _, ref := range *rd.Referrers() {
					if ex, isEx := ref.(*ssa.Extract); isEx && ex.Index == 0 {
						n = ex
					}
				}
				// blocks that hand the window on
				targets := map[*ssa.BasicBlock]bool{}
				for _, b2 := range f.Blocks {
					for _, i2 := range b2.Instrs {
						if call, ok := i2.(*ssa.Call); ok {
							if sc := call.Call.StaticCallee(); sc != nil && (sc.Name() == "parse" && c.P.IsRepoPkg(sc.Pkg) || fam[sc] && sc != f) {
								targets[b2] = true
							}
						}
					}
				}
				if len(targets) == 0 {
					continue
				}
				nReads++
				key := shortFn(f) + " / every read of one byte or more is parsed"
				if n == nil {
					R.Add("S.every-read", key, c.P.RelPos(rd.Pos()), report.Violated, "the byte count of the Read is not used")
					continue
				}
				reach := func(from *ssa.BasicBlock) bool {
					seen := map[*ssa.BasicBlock]bool{b: true}
					var walk func(x *ssa.BasicBlock) bool
					walk = func(x *ssa.BasicBlock) bool {
						if targets[x] {
							return true
						}
						if seen[x] {
							return false
						}
						seen[x] = true
						for _, s := range x.Succs {
							if walk(s) {
								return true
							}
						}
						return false
					}
					return walk(from)
				}
				// gates: conditional branches reachable from the Read from which one side reaches the hand-over and the other does not
				st, d := report.Discharged, ""
				gates := 0
				seen := map[*ssa.BasicBlock]bool{}
				var visit func(x *ssa.BasicBlock)
				visit = func(x *ssa.BasicBlock) {
					if seen[x] {
						return
					}
					seen[x] = true
					if iff, isIf := x.Instrs[len(x.Instrs)-1].(*ssa.If); isIf && len(x.Succs) == 2 && !targets[x] {
						t, e := reach(x.Succs[0]), reach(x.Succs[1])
						if t != e {
							if cmp, isCmp := iff.Cond.(*ssa.BinOp); isCmp && (cmp.X == n || cmp.Y == n) {
								gates++
								k, isK := constInt(cmp.Y)
								nLeft := true
								if cmp.Y == n {
									k, isK = constInt(cmp.X)
									nLeft = false
								}
								if !isK {
									st, d = report.Undecided, "the byte count is compared with a value that is not a constant at "+c.P.RelPos(iff.Cond.Pos())
								} else {
									for _, v := range []int64{1, 2, 3, 1 << 20} {
										a, bb := v, k
										if !nLeft {
											a, bb = k, v
										}
										var res bool
										switch cmp.Op {
										case token.GTR:
											res = a > bb
										case token.GEQ:
											res = a >= bb
										case token.LSS:
											res = a < bb
										case token.LEQ:
											res = a <= bb
										case token.EQL:
											res = a == bb
										case token.NEQ:
											res = a != bb
										}
										if res != t {
											st, d = report.Violated, fmt.Sprintf("a Read that returned %d byte(s) does not reach the extractor (test at %s): the bytes are dropped from the stream", v, c.P.RelPos(iff.Cond.Pos()))
											break
										}
									}
								}
							}
						}
					}
					if targets[x] {
						return
					}
					for _, s := range x.Succs {
						if s != b {
							visit(s)
						}
					}
				}
				for _, s := range b.Succs {
					visit(s)
				}
				if len(b.Succs) == 0 || targets[b] {
					// straight-line: nothing stands between
				}
				R.Add("S.every-read", key, c.P.RelPos(rd.Pos()), st, d)
				R.Notes["reader_gates_on_byte_count"] = gates
			}
		}
	}
	if nReads == 0 {
		R.Fatal("S.every-read: no Read followed by a hand-over to the extractor found in the reader family")
	}
	R.Require("S.every-read", 1, "")
}

// dispatchAll: the frames of one read are handed on one by one; a frame that is not supported, is a re-request or is
// refused may skip the rest of *its own* handling, but the loop over the batch is left early only when the connection
// ends (a return). Leaving it with `break` drops the remaining frames of a coalesced read, so the number of messages
// depends on how the stream was cut into reads.
func (c *Ctx) dispatchAll() {
	R := c.R
	R.Rules["S.dispatch-all"] = "the reader's loop over the messages extracted from one read is left before its end only on paths that end the connection (no path from such an exit leads back to the next Read): every frame of a coalesced read is dispatched"
	reader := c.P.Method("service", "connection", "reader")
	if reader == nil {
		R.Fatal("anchor connection.reader not found")
		return
	}
	n := 0
	fam := c.familyOf(reader)
	// functions of the family that hand a message to the writer, directly or through other family members
	dispatches := map[*ssa.Function]bool{}
	for changed := true; changed; {
		changed = false
		for _, f := range fam {
			if dispatches[f] {
				continue
			}
			for _, b := range f.Blocks {
				for _, ins := range b.Instrs {
					if s, isS := ins.(*ssa.Send); isS {
						if _, fld, ok := fieldLoad(s.Chan); ok && fld == "msgChan" {
							dispatches[f] = true
						}
					}
					if call, isC := ins.(*ssa.Call); isC {
						if sc := call.Call.StaticCallee(); sc != nil && dispatches[sc] {
							dispatches[f] = true
						}
					}
				}
			}
			if dispatches[f] {
				changed = true
			}
		}
	}
	isHandOver := func(ins ssa.Instruction) bool {
		if s, isS := ins.(*ssa.Send); isS {
			_, fld, ok := fieldLoad(s.Chan)
			return ok && fld == "msgChan"
		}
		if call, isC := ins.(*ssa.Call); isC {
			if sc := call.Call.StaticCallee(); sc != nil && dispatches[sc] {
				return true
			}
		}
		return false
	}
	// a helper that holds the loop over the batch but not the Read: leaving the loop early must not end where finishing
	// the loop ends (the caller then goes on to the next Read as if the batch had been dispatched)
	for _, f := range fam {
		hasRead := false
		for _, b := range f.Blocks {
			for _, ins := range b.Instrs {
				if call, isC := ins.(*ssa.Call); isC {
					if nm, _ := callMethodName(call); nm == "Read" {
						hasRead = true
					}
				}
			}
		}
		if hasRead || f == reader {
			continue
		}
		loops := loopsByHeader(f)
		for _, b := range f.Blocks {
			for _, ins := range b.Instrs {
				if !isHandOver(ins) {
					continue
				}
				var batch map[*ssa.BasicBlock]bool
				var head *ssa.BasicBlock
				for h, l := range loops {
					if l[b] && (batch == nil || len(l) < len(batch)) {
						batch, head = l, h
					}
				}
				if batch == nil {
					continue
				}
				n++
				returnsFrom := func(from *ssa.BasicBlock) map[*ssa.BasicBlock]bool {
					out := map[*ssa.BasicBlock]bool{}
					seen := map[*ssa.BasicBlock]bool{from: true}
					work := []*ssa.BasicBlock{from}
					for len(work) > 0 {
						x := work[len(work)-1]
						work = work[:len(work)-1]
						if _, isR := x.Instrs[len(x.Instrs)-1].(*ssa.Return); isR {
							out[x] = true
						}
						for _, su := range x.Succs {
							if !seen[su] && !batch[su] {
								seen[su] = true
								work = append(work, su)
							}
						}
					}
					return out
				}
				normal := map[*ssa.BasicBlock]bool{}
				for _, su := range head.Succs {
					if !batch[su] {
						for r := range returnsFrom(su) {
							normal[r] = true
						}
					}
				}
				st, d := report.Discharged, ""
				for lb := range batch {
					if lb == head {
						continue
					}
					for _, su := range lb.Succs {
						if batch[su] {
							continue
						}
						for r := range returnsFrom(su) {
							if normal[r] {
								pos := c.P.RelPos(lb.Instrs[len(lb.Instrs)-1].Pos())
								for k := len(lb.Instrs) - 1; k >= 0 && pos == "?"; k-- {
									pos = c.P.RelPos(lb.Instrs[k].Pos())
								}
								st, d = report.Violated, "the loop over the messages of one read is left early near "+pos+" and the helper returns as it does after the whole batch: the remaining frames of a coalesced read are dropped (how many messages a stream yields then depends on its segmentation)"
							}
						}
					}
				}
				R.Add("S.dispatch-all", shortFn(f)+" / "+c.constructOf(f, ins), c.P.RelPos(ins.Pos()), st, d)
			}
		}
	}
	for _, f := range fam {
		var readBlocks []*ssa.BasicBlock
		for _, b := range f.Blocks {
			for _, ins := range b.Instrs {
				if call, isC := ins.(*ssa.Call); isC {
					if nm, _ := callMethodName(call); nm == "Read" {
						readBlocks = append(readBlocks, b)
					}
				}
			}
		}
		if len(readBlocks) == 0 {
			continue
		}
		loops := loopsByHeader(f)
		for _, b := range f.Blocks {
			for _, ins := range b.Instrs {
				if !isHandOver(ins) {
					continue
				}
				s := ins
				// the innermost loop around the hand-over that does not contain the Read: the loop over the batch
				var batch map[*ssa.BasicBlock]bool
				var head *ssa.BasicBlock
				for h, l := range loops {
					if !l[b] {
						continue
					}
					hasRead := false
					for _, rb := range readBlocks {
						if l[rb] {
							hasRead = true
						}
					}
					if !hasRead && (batch == nil || len(l) < len(batch)) {
						batch, head = l, h
					}
				}
				if batch == nil {
					continue
				}
				n++
				reachesRead := func(from *ssa.BasicBlock) bool {
					seen := map[*ssa.BasicBlock]bool{}
					var w func(x *ssa.BasicBlock) bool
					w = func(x *ssa.BasicBlock) bool {
						if seen[x] {
							return false
						}
						seen[x] = true
						for _, rb := range readBlocks {
							if x == rb {
								return true
							}
						}
						for _, su := range x.Succs {
							if w(su) {
								return true
							}
						}
						return false
					}
					return w(from)
				}
				st, d := report.Discharged, ""
				for lb := range batch {
					if lb == head {
						continue
					}
					for _, su := range lb.Succs {
						if !batch[su] && reachesRead(su) {
							pos := c.P.RelPos(lb.Instrs[len(lb.Instrs)-1].Pos())
							for k := len(lb.Instrs) - 1; k >= 0 && pos == "?"; k-- {
								pos = c.P.RelPos(lb.Instrs[k].Pos())
							}
							st, d = report.Violated, "the loop over the messages of one read is left early near "+pos+" and the reader goes on to the next Read: the remaining frames of a coalesced read are dropped (how many messages a stream yields then depends on its segmentation)"
						}
					}
				}
				R.Add("S.dispatch-all", shortFn(f)+" / "+c.constructOf(f, s), c.P.RelPos(s.Pos()), st, d)
			}
		}
	}
	if n == 0 {
		R.Fatal("S.dispatch-all: no loop around the hand-over to the writer found in the reader family (anchor)")
	}
	R.Require("S.dispatch-all", 1, "")
}

// resultPerCall: "each frame yields exactly one message" - the list the extractor returns is built by that call: nil, a
// list made in the call, or appends to such a list (through package helpers). A list kept in the parser between calls
// hands the messages of an earlier read out again unless every exit resets it.
func (c *Ctx) resultPerCall(un *ssa.Function) {
	R := c.R
	rule := "S.result-per-call"
	R.Rules[rule] = "every list of messages the extractor returns is built in that call (nil, made in the call, appended to such a list - through package helpers too), not loaded from the parser or another object that outlives the call: a message extracted by one read is not handed out again by the next"
	var trace func(v ssa.Value, seen map[ssa.Value]bool, depth int) string
	trace = func(v ssa.Value, seen map[ssa.Value]bool, depth int) string {
		if seen[v] || depth > 14 {
			return ""
		}
		seen[v] = true
		switch x := v.(type) {
		case *ssa.Const:
			return ""
		case *ssa.MakeSlice:
			return ""
		case *ssa.Phi:
			for _, e := range x.Edges {
				if why := trace(e, seen, depth+1); why != "" {
					return why
				}
			}
			return ""
		case *ssa.Slice:
			if al, isAl := x.X.(*ssa.Alloc); isAl {
				_ = al // varargs array
				return ""
			}
			return trace(x.X, seen, depth+1)
		case *ssa.Call:
			if bi, ok := x.Call.Value.(*ssa.Builtin); ok && bi.Name() == "append" {
				return trace(x.Call.Args[0], seen, depth+1)
			}
			if sc := x.Call.StaticCallee(); sc != nil && len(sc.Blocks) > 0 && c.P.IsRepoFunc(sc) {
				for _, b := range sc.Blocks {
					if ret, isR := b.Instrs[len(b.Instrs)-1].(*ssa.Return); isR {
						for _, rv := range ret.Results {
							if _, isSl := rv.Type().Underlying().(*types.Slice); !isSl {
								continue
							}
							if why := trace(rv, seen, depth+1); why != "" {
								return why + " (returned by " + shortFn(sc) + ")"
							}
						}
					}
				}
				return ""
			}
			return "the result of " + calleeName(&x.Call)
		case *ssa.Extract:
			return trace(x.Tuple, seen, depth+1)
		case *ssa.UnOp:
			if x.Op == token.MUL {
				if al, isAl := x.X.(*ssa.Alloc); isAl {
					for _, ref := range *al.Referrers() {
						if st, isSt := ref.(*ssa.Store); isSt && st.Addr == al {
							if why := trace(st.Val, seen, depth+1); why != "" {
								return why
							}
						}
					}
					return ""
				}
				if fa, isFA := x.X.(*ssa.FieldAddr); isFA {
					_, fname, _ := fieldNameOfAddr(fa)
					// a re-used list is sound when it is taken and emptied in one go: the load is followed, in its block, by a
					// store of an empty slice (f[:0] / nil) into the same field
					blk := x.Block()
					after := false
					for _, i2 := range blk.Instrs {
						if i2 == ssa.Instruction(x) {
							after = true
							continue
						}
						st, isSt := i2.(*ssa.Store)
						if !after || !isSt {
							continue
						}
						fa2, isFA2 := st.Addr.(*ssa.FieldAddr)
						if !isFA2 || fa2.Field != fa.Field || fa2.X != fa.X {
							continue
						}
						if cv, isC := st.Val.(*ssa.Const); isC && cv.Value == nil {
							return ""
						}
						if sl, isSl := st.Val.(*ssa.Slice); isSl && sl.High != nil {
							if hc, isHC := sl.High.(*ssa.Const); isHC && hc.Value != nil && hc.Int64() == 0 {
								return ""
							}
						}
					}
					return "loaded from the field " + fname + ", which outlives the call, and the field is not emptied where it is taken"
				}
				if g, isG := x.X.(*ssa.Global); isG {
					return "loaded from the package variable " + g.Name()
				}
			}
		case *ssa.Parameter:
			return "the parameter " + x.Name()
		}
		return fmt.Sprintf("%T", v)
	}
	n := 0
	for _, b := range un.Blocks {
		ret, isR := b.Instrs[len(b.Instrs)-1].(*ssa.Return)
		if !isR {
			continue
		}
		for _, rv := range ret.Results {
			sl, isSl := rv.Type().Underlying().(*types.Slice)
			if !isSl {
				continue
			}
			if _, isPtr := sl.Elem().Underlying().(*types.Pointer); !isPtr {
				continue
			}
			n++
			st, d := report.Discharged, ""
			if why := trace(rv, map[ssa.Value]bool{}, 0); why != "" {
				st, d = report.Violated, "the returned list is "+why+": the messages of this read are returned again by the next call - one frame, several messages"
			}
			R.Add(rule, fmt.Sprintf("%s / return #%d", shortFn(un), n), c.P.RelPos(ret.Pos()), st, d)
		}
	}
	if n == 0 {
		R.Fatal("%s: the extractor returns no list of messages (anchor)", rule)
	}
	R.Require(rule, 1, "")
}
