package checks

import (
	"encoding/json"
	"fmt"
	"go/token"
	"go/types"
	"os"
	"path/filepath"
	"sort"
	"strings"

	"golang.org/x/tools/go/ssa"

	"jtverif/internal/absint"
	"jtverif/internal/report"
)

func init() {
	register(&Check{ID: "C17", Level: "proof", Run: runC17})
}

type jt1078Spec struct {
	Common     map[string]string `json:"common"`
	Partitions []struct {
		DataTypes []int64           `json:"data_types"`
		HeadEnd   int64             `json:"head_end"`
		Fields    map[string]string `json:"fields"`
	} `json:"partitions"`
	Marker    string            `json:"marker"`
	MinPrefix int64             `json:"min_prefix"`
	Errors    map[string]string `json:"errors"`
}

func (c *Ctx) loadSpec(name string, v interface{}) bool {
	data, err := os.ReadFile(filepath.Join(c.R.Verif, "spec", name))
	if err != nil {
		c.R.Fatal("spec %s: %v", name, err)
		return false
	}
	if err := json.Unmarshal(data, v); err != nil {
		c.R.Fatal("spec %s: %v", name, err)
		return false
	}
	return true
}

// fieldLocs maps pretty field paths of the receiver to heap locations.
func fieldLocs(a *absint.Analyzer, recv *absint.Ptr) map[string]absint.Loc {
	out := map[string]absint.Loc{}
	for l := range a.Stored {
		if l.Obj == recv.Obj.ID {
			out[absint.PrettyLoc(l)] = l
		}
	}
	return out
}

func runC17(c *Ctx) {
	c.E1Rules()
	c.E1Assumptions()
	R := c.R
	R.Rules["E3.field"] = "on every successful return, for every data type the path admits, each header field holds exactly the standard's reading of the input bytes (symbolic value extracted by abstract interpretation, compared with spec/jt1078.json)"
	R.Rules["E3.consume"] = "on success Body is data[headEnd:headEnd+L] and the remainder is data[headEnd+L:] (nil when empty): exactly one packet is consumed"
	R.Rules["E3.classify"] = "too-short errors are returned only when the data is shorter than the packet it starts, the unqualified error only for >= 16 bytes not starting with 01cd, and success only for a complete packet starting with 01cd"
	R.Rules["E3.cover"] = "every data type 0..15 has a successful path"
	R.Rules["E2.field"] = "history independence of Packet.Decode (see C03)"
	R.Rules["E2.branch"] = "history independence of Packet.Decode (see C03)"
	var spec jt1078Spec
	if !c.loadSpec("jt1078.json", &spec) {
		return
	}
	fn := c.P.Method("protocol/jt1078", "Packet", "Decode")
	if fn == nil {
		R.Fatal("anchor (*jt1078.Packet).Decode not found")
		return
	}
	var recv, dataArg absint.Term
	results := c.RunE1([]*ssa.Function{fn}, false, func(a *absint.Analyzer, fn *ssa.Function, st *absint.State, args []absint.Term) {
		a.TrackObj(st, args[0], fn.Params[0].Type())
		recv, dataArg = args[0], args[1]
	})
	r := results[0]
	c.AddE1(results, false)
	c.e2Evaluate(r, recv)
	a := r.A
	rp := recv.(*absint.Ptr)
	data := dataArg.(*absint.Slice)
	locs := fieldLocs(a, rp)
	fname := shortFn(fn)
	want := func(v int64) (map[string]string, int64) {
		for _, p := range spec.Partitions {
			for _, d := range p.DataTypes {
				if d == v {
					return p.Fields, p.HeadEnd
				}
			}
		}
		return nil, 0
	}
	covered := map[int64]bool{}
	nSucc, nErr := 0, 0
	fieldRes := map[string]report.Status{}
	fieldDetail := map[string]string{}
	setF := func(k string, ok bool, detail string) {
		st := report.Discharged
		if !ok {
			st = report.Violated
		}
		if cur, seen := fieldRes[k]; !seen || st > cur {
			fieldRes[k] = st
			fieldDetail[k] = detail
		}
	}
	markerFact := func(st *absint.State) (val bool, known bool) {
		for k, v := range a.BoolFactsRendered(st) {
			if strings.HasPrefix(k, "streq(") && strings.Contains(k, fmt.Sprintf("%q", spec.Marker)) && strings.Contains(k, "str(bytes(data@0+4))") {
				return v, true
			}
		}
		return false, false
	}
	dtLoc, okDT := locs["DataType"]
	if !okDT {
		R.Fatal("Packet.DataType is never written by Decode")
		return
	}
	feasibleTypes := func(st *absint.State) []int64 {
		var out []int64
		v, ok := absint.HeapValue(st, dtLoc)
		iv, isInt := v.(absint.Int)
		if !ok || !isInt {
			return nil
		}
		for t := int64(0); t < 16; t++ {
			if st.Feasible(absint.Con{L: iv.L.AddC(-t), Rel: absint.EQ}) {
				out = append(out, t)
			}
		}
		return out
	}
	lenData := data.Len
	for _, ret := range r.Rets {
		tu, ok := ret.Val.(*absint.Tuple)
		if !ok || len(tu.Elems) != 2 {
			R.Add("E3.classify", fname+" / return shape", "", report.Undecided, "return value is not a (remain, err) pair: "+a.Render(ret.Val))
			continue
		}
		errR := a.Render(tu.Elems[1])
		trace := strings.Join(ret.St.Trace, " → ")
		switch {
		case errR == "nil":
			nSucc++
			types := feasibleTypes(ret.St)
			if len(types) == 0 {
				R.Add("E3.field", fname+" / DataType", "", report.Undecided, "cannot evaluate DataType on a success path: "+trace)
				continue
			}
			// marker must have matched
			if mv, known := markerFact(ret.St); !known || !mv {
				setF("E3.classify|"+fname+" / success requires marker "+spec.Marker, false, "a successful return is reachable without the 01cd comparison having succeeded; path "+trace)
			} else {
				setF("E3.classify|"+fname+" / success requires marker "+spec.Marker, true, "")
			}
			for name, exp := range spec.Common {
				got := "<unwritten>"
				if l, ok := locs[name]; ok {
					if v, ok := absint.HeapValue(ret.St, l); ok {
						got = a.Render(v)
					}
				}
				setF("E3.field|"+fname+" / "+name, got == exp, fmt.Sprintf("field %s: standard says %s, code computes %s (path %s)", name, exp, got, trace))
			}
			for _, t := range types {
				covered[t] = true
				wf, headEnd := want(t)
				if wf == nil {
					continue
				}
				for name, exp := range wf {
					got := "<unwritten>"
					if l, ok := locs[name]; ok {
						if v, ok := absint.HeapValue(ret.St, l); ok {
							got = a.Render(v)
						}
					}
					setF(fmt.Sprintf("E3.field|%s / %s [data type %d]", fname, name, t), got == exp,
						fmt.Sprintf("data type %d, field %s: standard says %s, code computes %s (path %s)", t, name, exp, got, trace))
				}
				// consumption: remainder = data[headEnd+L:], nil iff empty; success entails len >= headEnd+L
				var bodyLen absint.Lin
				if l, ok := locs["Body"]; ok {
					if v, ok := absint.HeapValue(ret.St, l); ok {
						if bs, ok := v.(*absint.Slice); ok {
							bodyLen = bs.Len
						}
					}
				}
				need := bodyLen.AddC(headEnd)
				okLen := ret.St.Entails(absint.Con{L: lenData.Sub(need), Rel: absint.GE})
				setF(fmt.Sprintf("E3.classify|%s / success entails complete packet [data type %d]", fname, t), okLen,
					fmt.Sprintf("data type %d: success reachable without len(data) >= %d + DataBodyLen (path %s)", t, headEnd, trace))
				okRem := false
				remDesc := a.Render(tu.Elems[0])
				switch rem := tu.Elems[0].(type) {
				case absint.NilT:
					okRem = ret.St.Entails(absint.Con{L: lenData.Sub(need), Rel: absint.EQ})
				case *absint.Slice:
					if rem.Nil {
						okRem = ret.St.Entails(absint.Con{L: lenData.Sub(need), Rel: absint.EQ})
					} else {
						okRem = rem.Base == data.Base && rem.Off.Equal(data.Off.Add(need)) && rem.Len.Equal(lenData.Sub(need)) &&
							ret.St.Entails(absint.Con{L: lenData.Sub(need).AddC(-1), Rel: absint.GE})
					}
				}
				setF(fmt.Sprintf("E3.consume|%s / remainder [data type %d]", fname, t), okRem,
					fmt.Sprintf("data type %d: remainder is %s, expected data[%d+L:] (nil exactly when empty) (path %s)", t, remDesc, headEnd, trace))
			}
		default:
			nErr++
			kind := ""
			for k, name := range spec.Errors {
				if strings.Contains(errR, name) {
					kind = k
				}
			}
			switch kind {
			case "too_short_header":
				// len < 16, or len < headEnd(t) for every admitted type
				ok := ret.St.Entails(absint.Con{L: absint.Const(spec.MinPrefix - 1).Sub(lenData), Rel: absint.GE})
				if !ok {
					// 16 bytes or more: only a packet that starts with the marker can be "too short"; anything else is unqualified
					if mv, known := markerFact(ret.St); !known || !mv {
						setF("E3.classify|"+fname+" / header-too-short for >= 16 bytes only after the marker matched", false,
							"ErrHeaderLength2Short is returned for data of 16 bytes or more on a path where the 01cd marker has not been found to match: garbage is reported as a truncated packet instead of unqualified data; path "+trace)
					} else {
						setF("E3.classify|"+fname+" / header-too-short for >= 16 bytes only after the marker matched", true, "")
					}
					types := feasibleTypes(ret.St)
					ok = len(types) > 0
					for _, t := range types {
						_, he := want(t)
						if !ret.St.Entails(absint.Con{L: absint.Const(he - 1).Sub(lenData), Rel: absint.GE}) {
							ok = false
						}
					}
				}
				setF("E3.classify|"+fname+" / header-too-short only when shorter than the header", ok,
					"ErrHeaderLength2Short returned although the data may hold the whole header of its type; path "+trace)
			case "too_short_body":
				types := feasibleTypes(ret.St)
				ok := len(types) > 0
				for _, t := range types {
					wf, he := want(t)
					_ = wf
					// DataBodyLen at this return
					var L absint.Lin
					if l, okk := locs["DataBodyLen"]; okk {
						if v, okk := absint.HeapValue(ret.St, l); okk {
							if iv, okk := v.(absint.Int); okk {
								L = iv.L
							}
						}
					}
					// len(data) - headEnd < L
					if !ret.St.Entails(absint.Con{L: L.AddC(he - 1).Sub(lenData), Rel: absint.GE}) {
						ok = false
					}
				}
				setF("E3.classify|"+fname+" / body-too-short only when payload incomplete", ok,
					"ErrBodyLength2Short returned although the payload may be complete; path "+trace)
			case "unqualified":
				mv, known := markerFact(ret.St)
				ok := known && !mv && ret.St.Entails(absint.Con{L: lenData.AddC(-spec.MinPrefix), Rel: absint.GE})
				setF("E3.classify|"+fname+" / unqualified only for >=16 bytes without marker", ok,
					"ErrUnqualifiedData returned on a path where the marker comparison did not fail or the data is shorter than 16; path "+trace)
			default:
				setF("E3.classify|"+fname+" / error kind "+errR, false, "unclassified error return "+errR+"; path "+trace)
			}
		}
	}
	keys := make([]string, 0, len(fieldRes))
	for k := range fieldRes {
		keys = append(keys, k)
	}
	sort.Strings(keys)
	for _, k := range keys {
		parts := strings.SplitN(k, "|", 2)
		R.Add(parts[0], parts[1], c.P.RelPos(fn.Pos()), fieldRes[k], fieldDetail[k])
	}
	for t := int64(0); t < 16; t++ {
		st := report.Discharged
		d := ""
		if !covered[t] {
			st = report.Violated
			d = fmt.Sprintf("no successful path admits data type %d", t)
		}
		R.Add("E3.cover", fmt.Sprintf("%s / data type %d", fname, t), c.P.RelPos(fn.Pos()), st, d)
	}
	R.Notes["success_returns"] = nSucc
	R.Notes["error_returns"] = nErr
	R.Require("E3.field", 12+15, "")
	R.Require("E3.consume", 16, "")
	R.Require("E3.classify", 16+4, "")
	R.Require("E3.cover", 16, "")
	R.Require("E1.slice", 8, "")
	// the SIM is compared above as Bcd2Dec(data[8:14]) with the helper kept symbolic: the helper's own contract
	c.bcd2decRule()
	R.Require("E3.digits", 2, "")
	c.sentinelsDistinct("protocol/jt1078", "E6.sentinels", 3)
	R.Explain = "Packet.Decode is interpreted abstractly once for arbitrary data and an arbitrary (reused) Packet. For every return state the symbolic value of each header field, the body window and the remainder are extracted and compared with the table written from JT/T 1078 table 19, separately for each data type the path condition admits (0..15); error returns are checked against the length/marker conditions under which the standard allows them; plus E1 bounds and E2 history independence; the digit helper behind the SIM field is shown to drop nothing but leading zeros. All obligations are decided for all inputs at once."
}

// sentinelsDistinct: E3.classify decides which error *variable* each return hands back; that says "too short is
// reported as too short, unqualified as unqualified" only if the variables hold different values. Every package-level
// error variable of the package is initialised once, from a source of its own: a call (errors.New …) no other variable
// is initialised from, or another package's variable no other variable aliases.
func (c *Ctx) sentinelsDistinct(pkg, rule string, min int) {
	R := c.R
	R.Rules[rule] = "the package-level error variables of " + pkg + " are initialised once each, from pairwise different sources (one errors.New call each, or different foreign variables): errors.Is tells the error classes apart"
	sp := c.P.SSAPkgs[pkg]
	if sp == nil {
		for k, v := range c.P.SSAPkgs {
			if strings.HasSuffix(k, pkg) {
				sp = v
			}
		}
	}
	if sp == nil {
		R.Fatal("%s: package %s not loaded", rule, pkg)
		return
	}
	type src struct {
		desc string
		key  interface{}
	}
	sources := map[*ssa.Global][]src{}
	for _, m := range sp.Members {
		fn, isF := m.(*ssa.Function)
		if !isF {
			continue
		}
		fns := append([]*ssa.Function{fn}, fn.AnonFuncs...)
		for _, f := range fns {
			for _, b := range f.Blocks {
				for _, ins := range b.Instrs {
					st, isSt := ins.(*ssa.Store)
					if !isSt {
						continue
					}
					g, isG := st.Addr.(*ssa.Global)
					if !isG || g.Pkg != sp || !types.Identical(g.Type().(*types.Pointer).Elem(), types.Universe.Lookup("error").Type()) {
						continue
					}
					v := st.Val
					for {
						if mi, ok := v.(*ssa.MakeInterface); ok {
							v = mi.X
							continue
						}
						if ct, ok := v.(*ssa.ChangeInterface); ok {
							v = ct.X
							continue
						}
						break
					}
					switch x := v.(type) {
					case *ssa.Call:
						sources[g] = append(sources[g], src{"the call " + calleeName(&x.Call) + " at " + c.P.RelPos(x.Pos()), x})
					case *ssa.UnOp:
						if og, ok := x.X.(*ssa.Global); ok && x.Op == token.MUL {
							sources[g] = append(sources[g], src{"variable " + og.String(), og})
						} else {
							sources[g] = append(sources[g], src{"a computed value", x})
						}
					default:
						sources[g] = append(sources[g], src{fmt.Sprintf("%T", v), v})
					}
				}
			}
		}
	}
	var gs []*ssa.Global
	for g := range sources {
		gs = append(gs, g)
	}
	sort.Slice(gs, func(i, j int) bool { return gs[i].Name() < gs[j].Name() })
	owner := map[interface{}]*ssa.Global{}
	for _, g := range gs {
		st, d := report.Discharged, ""
		if len(sources[g]) != 1 {
			st, d = report.Violated, fmt.Sprintf("%s is assigned at %d places", g.Name(), len(sources[g]))
		} else if o, dup := owner[sources[g][0].key]; dup {
			st, d = report.Violated, fmt.Sprintf("%s and %s are both initialised from %s: the two error classes are one value, errors.Is cannot tell them apart", o.Name(), g.Name(), sources[g][0].desc)
		} else {
			owner[sources[g][0].key] = g
		}
		R.Add(rule, pkg+"."+g.Name(), c.P.RelPos(g.Pos()), st, d)
	}
	if len(gs) < min {
		R.Fatal("%s: only %d package-level error variables found in %s (anchor: %d)", rule, len(gs), pkg, min)
	}
	R.Require(rule, min, "")
}
