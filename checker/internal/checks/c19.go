package checks

import (
	"fmt"
	"go/constant"
	"go/token"
	"strings"

	"golang.org/x/tools/go/ssa"

	"go/types"

	"jtverif/internal/absint"
	"jtverif/internal/report"
)

func init() {
	register(&Check{ID: "C19", Level: "other", Run: runC19})
}

var fileSinks = map[string]int{ // callee -> index of the path argument
	"os.WriteFile": 0, "os.MkdirAll": 0, "os.Mkdir": 0, "os.OpenFile": 0, "os.Create": 0, "os.CreateTemp": 0,
	"os.Rename": 1, "os.Symlink": 1, "os.Link": 1, "io/ioutil.WriteFile": 0,
}

// guardedAgainst: is block b reachable only when v != c ?  (v == c tests whose false edge dominates b,
// or v != c tests whose true edge dominates b)
func guardedAgainst(fn *ssa.Function, v ssa.Value, c string, b *ssa.BasicBlock) bool {
	for _, blk := range fn.Blocks {
		iff, ok := blk.Instrs[len(blk.Instrs)-1].(*ssa.If)
		if !ok {
			continue
		}
		bo, ok := iff.Cond.(*ssa.BinOp)
		if !ok || (bo.Op != token.EQL && bo.Op != token.NEQ) {
			continue
		}
		x, y := bo.X, bo.Y
		if _, isC := x.(*ssa.Const); isC {
			x, y = y, x
		}
		k, isC := y.(*ssa.Const)
		if x != v || !isC || k.Value == nil || k.Value.Kind() != constant.String || constant.StringVal(k.Value) != c {
			continue
		}
		safe := blk.Succs[1]
		if bo.Op == token.NEQ {
			safe = blk.Succs[0]
		}
		if safe.Dominates(b) && len(safe.Preds) == 1 {
			return true
		}
		// safe successor shared by a chain of tests (a || b || c): accept when every predecessor of
		// `safe` is the false edge of a test in the same chain – approximated by dominance of blk over b
		// together with b not being reachable from the unsafe successor without passing `safe`
		if safe.Dominates(b) {
			return true
		}
	}
	return false
}

func runC19(c *Ctx) {
	c.E1Rules()
	R := c.R
	e1Decided := c.c19ByInterpretation()
	R.Rules["E7.path"] = "every path handed to a file-creating call in the attachment server is built only from constants, the terminal's BCD phone number, and announced names reduced by filepath.Base (with '.', '..' and the separator rejected before the call), and starts in the terminal's own directory ./<phone> (both ends of a rename; the directory argument of CreateTemp)"
	R.Rules["E7.sinks"] = "the file-creating calls of the attachment package are found (anchor)"
	passThrough := map[string]bool{"fmt.Sprintf": true, "path/filepath.Join": true, "path.Join": true, "strings.Join": true, "filepath.Join": true, "fmt.Sprint": true}
	stopAt := map[string]bool{"path/filepath.Base": true, "path.Base": true, "filepath.Base": true}
	nSinks := 0
	for _, fn := range c.RepoFuncs("attachment") {
		for _, b := range fn.Blocks {
			for _, ins := range b.Instrs {
				call, ok := ins.(*ssa.Call)
				if !ok {
					continue
				}
				sc := call.Call.StaticCallee()
				if sc == nil {
					continue
				}
				idx, isSink := fileSinks[sc.String()]
				if !isSink || idx >= len(call.Call.Args) {
					continue
				}
				nSinks++
				key := fmt.Sprintf("%s / %s", shortFn(fn), c.constructOf(fn, call))
				pos := c.P.RelPos(call.Pos())
				if v, done := e1Decided[call]; done {
					// decided by abstract interpretation from the package's entry points (arguments followed through helpers)
					if v == "" {
						R.Add("E7.path", key, pos, report.Discharged, "")
					} else {
						R.Add("E7.path", key, pos, report.Violated, "the path argument of "+sc.String()+" contains: "+v)
					}
					continue
				}
				var bad []string
				var notes []string
				for _, o := range c.origins(call.Call.Args[idx], passThrough, stopAt) {
					switch {
					case o.Kind == "const":
						if strings.Contains(o.Name, "..") {
							bad = append(bad, "constant path component "+o.Name)
						}
					case o.Kind == "call" && stopAt[o.Name[strings.LastIndex(o.Name, "/")+1:]] || o.Kind == "call" && stopAt[o.Name]:
						// Base(name): must be guarded against ".", ".." and the separator
						for _, k := range []string{".", "..", "/"} {
							if !guardedAgainst(fn, o.Val, k, b) {
								bad = append(bad, fmt.Sprintf("the base name may be %q when the file is created (no dominating rejection)", k))
							}
						}
						notes = append(notes, "Base(...)")
					case o.Kind == "field" && strings.HasSuffix(o.Name, "Header.TerminalPhoneNo"):
						notes = append(notes, "BCD phone")
					default:
						bad = append(bad, "unsanitised component "+o.String())
					}
				}
				if len(bad) > 0 {
					R.Add("E7.path", key, pos, report.Violated, "the path argument of "+sc.String()+" contains: "+strings.Join(bad, "; "))
				} else {
					R.Add("E7.path", key, pos, report.Discharged, "")
				}
			}
		}
	}
	R.Add("E7.sinks", fmt.Sprintf("attachment / %d file-creating call sites", nSinks), "", report.Discharged, "")
	R.Notes["sinks"] = nSinks
	R.Require("E7.path", 3, "")
	c.sessionMessageFresh("S.own-header")
	R.Assume = append(R.Assume,
		"Header.TerminalPhoneNo is the Bcd2Dec rendering of BCD bytes: alphabet [0-9a-f], no separators (panic freedom and layout of Bcd2Dec are C02/C03's subject)",
		"filepath.Base returns the last path element: no separator inside, never empty",
		"only the default FileEventer of the repository is examined; custom implementations are the user's")
	R.Explain = "Def-use closure (through φ, conversions, Sprintf/Join arguments and returned values of repo functions) of the path argument of every file-creating call in the attachment package; " +
		"each component must be a constant, the BCD phone number, or filepath.Base of a name with '.', '..' and the separator rejected on every path to the call. Symlink races are not decided."
}

// c19ByInterpretation decides the sinks by abstract interpretation: every function of the attachment package that
// can reach a file-creating call and has no caller inside the package is interpreted with arbitrary arguments; at each
// sink the symbolic path is taken apart (constants, Sprintf / Join / concatenation operands, Base(name) results) and
// each component must be a constant without "..", the BCD phone of the last terminal message, or a filepath.Base result
// that the path to the call has compared with ".", ".." and "/" and found different. Returns, per sink call, "" (held)
// or the reason; sinks not reached by any interpreted entry are absent (the def-use rule below decides them).
func (c *Ctx) c19ByInterpretation() map[*ssa.Call]string {
	out := map[*ssa.Call]string{}
	fns := c.RepoFuncs("attachment")
	inPkg := map[*ssa.Function]bool{}
	for _, f := range fns {
		inPkg[f] = true
	}
	callees := map[*ssa.Function][]*ssa.Function{}
	hasCaller := map[*ssa.Function]bool{}
	direct := map[*ssa.Function]bool{}
	for _, f := range fns {
		for _, b := range f.Blocks {
			for _, ins := range b.Instrs {
				ci, ok := ins.(ssa.CallInstruction)
				if !ok {
					continue
				}
				sc := ci.Common().StaticCallee()
				if sc == nil {
					if mc, isMC := ci.Common().Value.(*ssa.MakeClosure); isMC {
						sc, _ = mc.Fn.(*ssa.Function)
					}
				}
				if sc == nil {
					continue
				}
				if _, isSink := fileSinks[sc.String()]; isSink {
					direct[f] = true
				}
				if inPkg[sc] {
					callees[f] = append(callees[f], sc)
					hasCaller[sc] = true
				}
			}
		}
		for _, an := range f.AnonFuncs {
			callees[f] = append(callees[f], an)
			hasCaller[an] = true
		}
	}
	reach := map[*ssa.Function]bool{}
	var reaches func(f *ssa.Function, seen map[*ssa.Function]bool) bool
	reaches = func(f *ssa.Function, seen map[*ssa.Function]bool) bool {
		if direct[f] {
			return true
		}
		if seen[f] {
			return false
		}
		seen[f] = true
		for _, g := range callees[f] {
			if reaches(g, seen) {
				return true
			}
		}
		return false
	}
	var entries []*ssa.Function
	for _, f := range fns {
		if f.Parent() == nil && !hasCaller[f] && reaches(f, map[*ssa.Function]bool{}) {
			entries = append(entries, f)
			reach[f] = true
		}
	}
	if len(entries) == 0 {
		return out
	}
	var names []string
	for _, e := range entries {
		names = append(names, shortFn(e))
	}
	c.R.Notes["interpreted_entries"] = names
	type verdict struct{ bad []string }
	acc := map[*ssa.Call]*verdict{}
	res := c.RunE1(entries, true, func(a *absint.Analyzer, fn *ssa.Function, st *absint.State, args []absint.Term) {
		a.NoExternalImpl = func(t types.Type) bool { return true }
		var classify func(st *absint.State, t absint.Term, depth int) []string
		classify = func(st *absint.State, t absint.Term, depth int) []string {
			if ifc, isI := t.(*absint.Iface); isI {
				t = ifc.Val
			}
			s, isS := t.(*absint.Slice)
			if !isS || depth > 6 {
				return []string{"a component that is not a string the analysis can take apart (" + a.Render(t) + ")"}
			}
			b := s.Base
			switch {
			case b.Str != nil:
				if strings.Contains(*b.Str, "..") {
					return []string{"constant path component " + *b.Str}
				}
				return nil
			case strings.HasPrefix(b.Op, "sprintf:"):
				var bad []string
				if strings.Contains(strings.TrimPrefix(b.Op, "sprintf:"), "..") {
					bad = append(bad, "format string with ..")
				}
				for _, e := range b.Elems {
					bad = append(bad, classify(st, e, depth+1)...)
				}
				return bad
			case b.Op == "concat" && b.From != nil && b.From2 != nil:
				return append(classify(st, b.From, depth+1), classify(st, b.From2, depth+1)...)
			case b.Op == "call:path/filepath.Join" || b.Op == "call:path.Join":
				var bad []string
				for _, e := range b.Elems {
					bad = append(bad, classify(st, e, depth+1)...)
				}
				return bad
			case b.Op == "call:path/filepath.Base" || b.Op == "call:path.Base":
				var bad []string
				for _, k := range []string{".", "..", "/"} {
					if !a.KnownNotEqualStr(st, s, k) {
						bad = append(bad, fmt.Sprintf("the base name may be %q when the file is created (not rejected on this path)", k))
					}
				}
				return bad
			}
			// the BCD phone: a string loaded from a field named TerminalPhoneNo of a jt808 header
			if strings.HasSuffix(b.Desc, "Header.TerminalPhoneNo") && b.Op == "" && !b.Fresh {
				return nil
			}
			return []string{"unsanitised component " + b.Desc}
		}
		// rooted: the path starts with "./<phone>" - the terminal's own directory under the working directory. The leaves
		// of the path term are taken in order (format pieces and arguments of Sprintf, operands of +, elements of Join);
		// after an optional leading "./" or "." the first leaf must be the BCD phone, followed by nothing or a separator.
		type leaf struct {
			k string // constant text, or ""
			t absint.Term
		}
		var leaves func(t absint.Term, depth int) ([]leaf, bool)
		leaves = func(t absint.Term, depth int) ([]leaf, bool) {
			if ifc, isI := t.(*absint.Iface); isI {
				t = ifc.Val
			}
			s, isS := t.(*absint.Slice)
			if !isS || depth > 6 {
				return nil, false
			}
			b := s.Base
			switch {
			case b.Str != nil:
				return []leaf{{k: *b.Str}}, true
			case strings.HasPrefix(b.Op, "sprintf:"):
				format := strings.TrimPrefix(b.Op, "sprintf:")
				var out []leaf
				ai := 0
				for len(format) > 0 {
					i := strings.Index(format, "%")
					if i < 0 {
						out = append(out, leaf{k: format})
						break
					}
					if i > 0 {
						out = append(out, leaf{k: format[:i]})
					}
					if i+1 >= len(format) || (format[i+1] != 's' && format[i+1] != 'v') || ai >= len(b.Elems) {
						return nil, false
					}
					sub, ok := leaves(b.Elems[ai], depth+1)
					if !ok {
						return nil, false
					}
					out = append(out, sub...)
					ai++
					format = format[i+2:]
				}
				return out, true
			case b.Op == "concat" && b.From != nil && b.From2 != nil:
				l1, ok1 := leaves(b.From, depth+1)
				l2, ok2 := leaves(b.From2, depth+1)
				return append(l1, l2...), ok1 && ok2
			case b.Op == "call:path/filepath.Join" || b.Op == "call:path.Join":
				var out []leaf
				for i, e := range b.Elems {
					sub, ok := leaves(e, depth+1)
					if !ok {
						return nil, false
					}
					if i > 0 {
						out = append(out, leaf{k: "/"})
					}
					out = append(out, sub...)
				}
				return out, true
			}
			return []leaf{{t: s}}, true
		}
		isPhone := func(t absint.Term) bool {
			s, isS := t.(*absint.Slice)
			return isS && strings.HasSuffix(s.Base.Desc, "Header.TerminalPhoneNo") && s.Base.Op == "" && !s.Base.Fresh
		}
		rooted := func(st *absint.State, t absint.Term) []string {
			ls, ok := leaves(t, 0)
			if !ok || len(ls) == 0 {
				return []string{"a path whose beginning the analysis cannot take apart (" + a.Render(t) + "): not known to lie in the terminal's directory"}
			}
			i := 0
			// leading "./" or "." (+ separator)
			if ls[0].t == nil && (ls[0].k == "./" || ls[0].k == ".") {
				i = 1
				if ls[0].k == "." && i < len(ls) && ls[i].t == nil && ls[i].k == "/" {
					i++
				}
			}
			if i >= len(ls) || ls[i].t == nil || !isPhone(ls[i].t) {
				first := "the empty string"
				if len(ls) > 0 && ls[0].t == nil && ls[0].k != "" {
					first = fmt.Sprintf("the constant %q", ls[0].k)
				} else if len(ls) > 0 && ls[0].t != nil {
					first = a.Render(ls[0].t)
				}
				return []string{"the path does not start in the terminal's own directory ./<phone> (it starts with " + first + "; an empty directory argument of os.CreateTemp means the system temp directory)"}
			}
			if i+1 < len(ls) {
				if nx := ls[i+1]; nx.t != nil || !strings.HasPrefix(nx.k, "/") {
					return []string{"the phone number is followed by something other than a separator: the directory is not exactly ./<phone>"}
				}
			}
			return nil
		}
		a.OnExternal = func(f2 *ssa.Function, site ssa.Instruction, name string, st *absint.State, eargs []absint.Term) {
			idx, isSink := fileSinks[name]
			call, isCall := site.(*ssa.Call)
			if !isSink || !isCall || idx >= len(eargs) {
				return
			}
			bad := classify(st, eargs[idx], 0)
			bad = append(bad, rooted(st, eargs[idx])...)
			if name == "os.Rename" && len(eargs) > 0 {
				// both ends of a rename lie in the terminal directory
				bad = append(bad, classify(st, eargs[0], 0)...)
				bad = append(bad, rooted(st, eargs[0])...)
			}
			c.mu.Lock()
			v := acc[call]
			if v == nil {
				v = &verdict{}
				acc[call] = v
			}
			v.bad = append(v.bad, bad...)
			c.mu.Unlock()
		}
	})
	for _, r := range res {
		for _, u := range dedupe(r.Undecided) {
			c.R.Add("E1.undecided", shortFn(r.Fn)+" / "+u, "", report.Undecided, u)
		}
	}
	for call, v := range acc {
		out[call] = strings.Join(dedupe(v.bad), "; ")
	}
	return out
}

// sessionMessageFresh: the terminal directory is named after Header.TerminalPhoneNo of the session's most recent control
// message, read when the session ends. That header must belong to this session for as long as the session keeps it:
// every JTMessage the attachment package decodes a control frame into is an object created for that frame (an
// allocation or a constructor call, inside every loop around the decode) - not one taken from a pool, a package-level
// variable or a field that other sessions (or later frames after a release) decode into as well.
func (c *Ctx) sessionMessageFresh(rule string) {
	R := c.R
	R.Rules[rule] = "every JTMessage the attachment server decodes a control frame into is created for that frame (allocation / constructor, not a pool, a package variable or a reused field): the header a session keeps - from which the terminal directory is named at the end - cannot be overwritten by another session's frames"
	n := 0
	for _, fn := range c.RepoFuncs("attachment") {
		for _, b := range fn.Blocks {
			for _, ins := range b.Instrs {
				call, isC := ins.(*ssa.Call)
				if !isC {
					continue
				}
				sc := call.Call.StaticCallee()
				if sc == nil || sc.Name() != "Decode" || !strings.Contains(sc.String(), "JTMessage") || len(call.Call.Args) == 0 {
					continue
				}
				n++
				ok, why := c.freshPerEvaluation(call.Call.Args[0], call)
				st := report.Discharged
				if !ok {
					st = report.Violated
					why = "the frame is decoded into an object that is not created for it: " + why + " - the session's RecentTerminalMessage can be rewritten with another terminal's phone number before the files are stored"
				} else {
					why = ""
				}
				R.Add(rule, fmt.Sprintf("%s / %s", shortFn(fn), c.constructOf(fn, call)), c.P.RelPos(call.Pos()), st, why)
			}
		}
	}
	if n == 0 {
		R.Fatal("%s: no call of JTMessage.Decode in the attachment package (anchor)", rule)
	}
	R.Require(rule, 1, "")
}
