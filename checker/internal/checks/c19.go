package checks

import (
	"fmt"
	"go/constant"
	"go/token"
	"strings"

	"golang.org/x/tools/go/ssa"

	"jtverif/internal/report"
)

func init() {
	register(&Check{ID: "C19", Level: "other", Run: runC19})
}

var fileSinks = map[string]int{ // callee -> index of the path argument
	"os.WriteFile": 0, "os.MkdirAll": 0, "os.Mkdir": 0, "os.OpenFile": 0, "os.Create": 0, "os.CreateTemp": 0,
	"os.Rename": 1, "os.Symlink": 1, "os.Link": 1, "io/ioutil.WriteFile": 0,
}

// guardedAgainst: is block b reachable only when v != c ?  (v == c tests whose false edge dominates b,
// or v != c tests whose true edge dominates b)
func guardedAgainst(fn *ssa.Function, v ssa.Value, c string, b *ssa.BasicBlock) bool {
	for _, blk := range fn.Blocks {
		iff, ok := blk.Instrs[len(blk.Instrs)-1].(*ssa.If)
		if !ok {
			continue
		}
		bo, ok := iff.Cond.(*ssa.BinOp)
		if !ok || (bo.Op != token.EQL && bo.Op != token.NEQ) {
			continue
		}
		x, y := bo.X, bo.Y
		if _, isC := x.(*ssa.Const); isC {
			x, y = y, x
		}
		k, isC := y.(*ssa.Const)
		if x != v || !isC || k.Value == nil || k.Value.Kind() != constant.String || constant.StringVal(k.Value) != c {
			continue
		}
		safe := blk.Succs[1]
		if bo.Op == token.NEQ {
			safe = blk.Succs[0]
		}
		if safe.Dominates(b) && len(safe.Preds) == 1 {
			return true
		}
		// safe successor shared by a chain of tests (a || b || c): accept when every predecessor of
		// `safe` is the false edge of a test in the same chain – approximated by dominance of blk over b
		// together with b not being reachable from the unsafe successor without passing `safe`
		if safe.Dominates(b) {
			return true
		}
	}
	return false
}

func runC19(c *Ctx) {
	R := c.R
	R.Rules["E7.path"] = "every path handed to a file-creating call in the attachment server is built only from constants, the terminal's BCD phone number, and announced names reduced by filepath.Base (with '.', '..' and the separator rejected before the call)"
	R.Rules["E7.sinks"] = "the file-creating calls of the attachment package are found (anchor)"
	passThrough := map[string]bool{"fmt.Sprintf": true, "path/filepath.Join": true, "path.Join": true, "strings.Join": true, "filepath.Join": true, "fmt.Sprint": true}
	stopAt := map[string]bool{"path/filepath.Base": true, "path.Base": true, "filepath.Base": true}
	nSinks := 0
	for _, fn := range c.RepoFuncs("attachment") {
		for _, b := range fn.Blocks {
			for _, ins := range b.Instrs {
				call, ok := ins.(*ssa.Call)
				if !ok {
					continue
				}
				sc := call.Call.StaticCallee()
				if sc == nil {
					continue
				}
				idx, isSink := fileSinks[sc.String()]
				if !isSink || idx >= len(call.Call.Args) {
					continue
				}
				nSinks++
				key := fmt.Sprintf("%s / %s", shortFn(fn), c.constructOf(fn, call))
				pos := c.P.RelPos(call.Pos())
				var bad []string
				var notes []string
				for _, o := range c.origins(call.Call.Args[idx], passThrough, stopAt) {
					switch {
					case o.Kind == "const":
						if strings.Contains(o.Name, "..") {
							bad = append(bad, "constant path component "+o.Name)
						}
					case o.Kind == "call" && stopAt[o.Name[strings.LastIndex(o.Name, "/")+1:]] || o.Kind == "call" && stopAt[o.Name]:
						// Base(name): must be guarded against ".", ".." and the separator
						for _, k := range []string{".", "..", "/"} {
							if !guardedAgainst(fn, o.Val, k, b) {
								bad = append(bad, fmt.Sprintf("the base name may be %q when the file is created (no dominating rejection)", k))
							}
						}
						notes = append(notes, "Base(...)")
					case o.Kind == "field" && strings.HasSuffix(o.Name, "Header.TerminalPhoneNo"):
						notes = append(notes, "BCD phone")
					default:
						bad = append(bad, "unsanitised component "+o.String())
					}
				}
				if len(bad) > 0 {
					R.Add("E7.path", key, pos, report.Violated, "the path argument of "+sc.String()+" contains: "+strings.Join(bad, "; "))
				} else {
					R.Add("E7.path", key, pos, report.Discharged, "")
				}
			}
		}
	}
	R.Add("E7.sinks", fmt.Sprintf("attachment / %d file-creating call sites", nSinks), "", report.Discharged, "")
	R.Notes["sinks"] = nSinks
	R.Require("E7.path", 3, "")
	R.Assume = append(R.Assume,
		"Header.TerminalPhoneNo is the Bcd2Dec rendering of BCD bytes: alphabet [0-9a-f], no separators (panic freedom and layout of Bcd2Dec are C02/C03's subject)",
		"filepath.Base returns the last path element: no separator inside, never empty",
		"only the default FileEventer of the repository is examined; custom implementations are the user's")
	R.Explain = "Def-use closure (through φ, conversions, Sprintf/Join arguments and returned values of repo functions) of the path argument of every file-creating call in the attachment package; " +
		"each component must be a constant, the BCD phone number, or filepath.Base of a name with '.', '..' and the separator rejected on every path to the call. Symlink races are not decided."
}
