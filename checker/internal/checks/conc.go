package checks

import (
	"fmt"
	"go/token"
	"go/types"
	"os"
	"sort"
	"strings"

	"golang.org/x/tools/go/callgraph"
	"golang.org/x/tools/go/ssa"
)

// Engine E5: goroutine roles, field ownership, channel discipline (call graph + CFG rules).

type roleInfo struct {
	// roles[f] = set of role names from which f is reachable
	roles map[*ssa.Function]map[string]bool
	// closures sent on a channel run in the receiver's role
	sentClosures map[*ssa.Function]string
}

// chanFieldOf: v is a load of x.<field> where the field has channel type; returns owner type and field.
func fieldLoad(v ssa.Value) (owner string, field string, ok bool) {
	u, isU := v.(*ssa.UnOp)
	if !isU {
		return "", "", false
	}
	fa, isFA := u.X.(*ssa.FieldAddr)
	if !isFA {
		return "", "", false
	}
	pt, isP := fa.X.Type().Underlying().(*types.Pointer)
	if !isP {
		return "", "", false
	}
	named, isN := pt.Elem().(*types.Named)
	if !isN {
		return "", "", false
	}
	st := named.Underlying().(*types.Struct)
	return named.Obj().Name(), st.Field(fa.Field).Name(), true
}

// serviceRoles computes the roles of the service package.
func (c *Ctx) serviceRoles() *roleInfo {
	ri := &roleInfo{roles: map[*ssa.Function]map[string]bool{}, sentClosures: map[*ssa.Function]string{}}
	cg := c.P.CallGraph()
	svc := c.RepoFuncs("service")
	inSvc := map[*ssa.Function]bool{}
	for _, f := range svc {
		inSvc[f] = true
	}
	// operations sent on sessionManager.operationFuncChan (function literals, bound methods; directly or through a
	// submit helper) execute in the manager role
	for _, f := range svc {
		for _, g := range c.opsSentOn(f, "operationFuncChan") {
			ri.sentClosures[g] = "manager"
		}
	}
	roots := map[string][]*ssa.Function{}
	add := func(role string, f *ssa.Function) {
		if f != nil {
			roots[role] = append(roots[role], f)
		}
	}
	add("reader", c.P.Method("service", "connection", "reader"))
	add("writer", c.P.Method("service", "connection", "write"))
	add("manager", c.P.Method("service", "sessionManager", "run"))
	add("accept", c.P.Method("service", "GoJT808", "Run"))
	add("caller", c.P.Method("service", "GoJT808", "SendActiveMessage"))
	for f, role := range ri.sentClosures {
		add(role, f)
	}
	// go statements with closures inside the service package: each its own role
	for _, f := range svc {
		for _, b := range f.Blocks {
			for _, ins := range b.Instrs {
				if g, ok := ins.(*ssa.Go); ok {
					if mc, ok := g.Call.Value.(*ssa.MakeClosure); ok {
						add("go:"+shortFn(mc.Fn.(*ssa.Function)), mc.Fn.(*ssa.Function))
					} else if sc := g.Call.StaticCallee(); sc != nil && inSvc[sc] && sc.Name() != "Start" && sc.Name() != "reader" && sc.Name() != "write" && sc.Name() != "run" {
						// a named function / method started as a goroutine of its own (e.g. the timeout wait)
						add("go:"+shortFn(sc), sc)
					}
				}
			}
		}
	}
	for role, rs := range roots {
		seen := map[*ssa.Function]bool{}
		var visit func(f *ssa.Function)
		visit = func(f *ssa.Function) {
			if f == nil || seen[f] || !inSvc[f] {
				return
			}
			// a closure that is sent to another role does not run in the sender's role
			if r2, sent := ri.sentClosures[f]; sent && r2 != role {
				return
			}
			seen[f] = true
			if ri.roles[f] == nil {
				ri.roles[f] = map[string]bool{}
			}
			ri.roles[f][role] = true
			if n := cg.Nodes[f]; n != nil {
				for _, e := range n.Out {
					if _, isGo := e.Site.(*ssa.Go); isGo {
						continue // the callee runs in its own role
					}
					visit(e.Callee.Func)
				}
			}
			// function values handed to a call as arguments (c.once.Do(c.shutdown), sort.Slice(x, less)) run in the caller's
			// goroutine: bound methods and plain functions of the package are followed like closures
			for _, b := range f.Blocks {
				for _, ins := range b.Instrs {
					ci, isCI := ins.(ssa.CallInstruction)
					if !isCI {
						continue
					}
					if _, isGo := ins.(*ssa.Go); isGo {
						continue
					}
					// only library callees: a function of the repository that receives a function value may store it for
					// another goroutine (newConnection(..., manager.join, manager.leave)); the call graph follows those
					if sc := ci.Common().StaticCallee(); sc == nil || c.P.IsRepoFunc(sc) {
						continue
					}
					for _, arg := range ci.Common().Args {
						if _, isFn := arg.Type().Underlying().(*types.Signature); !isFn {
							continue
						}
						if g := funcOfValue(arg); g != nil && inSvc[g] {
							if _, sent := ri.sentClosures[g]; !sent {
								if os.Getenv("JTVERIF_DEBUGROLES") != "" {
									fmt.Println("ROLE-CB", role, shortFn(f), "->", shortFn(g), c.P.RelPos(ins.Pos()))
								}
								visit(g)
							}
						}
					}
				}
			}
			// closures created here and called here (defer func(){}(), immediately invoked) are reached via call edges;
			// closures merely created (e.g. passed to sync.Once.Do) are reached through the external callee: add them
			for _, an := range f.AnonFuncs {
				if _, sent := ri.sentClosures[an]; sent {
					continue
				}
				isGo := false
				for _, b := range f.Blocks {
					for _, ins := range b.Instrs {
						if g, ok := ins.(*ssa.Go); ok {
							if mc, ok := g.Call.Value.(*ssa.MakeClosure); ok && mc.Fn == an {
								isGo = true
							}
						}
					}
				}
				if !isGo {
					visit(an)
				}
			}
		}
		for _, f := range rs {
			visit(f)
		}
	}
	return ri
}

func rolesOf(ri *roleInfo, f *ssa.Function) []string {
	var out []string
	for r := range ri.roles[f] {
		out = append(out, r)
	}
	sort.Strings(out)
	return out
}

type fieldAccess struct {
	fn    *ssa.Function
	write bool
	pos   string
	kind  string
}

func isSyncType(t types.Type) bool {
	s := t.String()
	if strings.HasPrefix(s, "sync.") || strings.HasPrefix(s, "sync/atomic.") || strings.HasPrefix(s, "*sync.") {
		return true
	}
	switch t.Underlying().(type) {
	case *types.Chan:
		return true
	}
	return false
}

// fieldAccesses collects reads and writes of the fields of the named struct types of a package.
// Writes include map updates / deletes / clears of map-typed fields and element stores of slice-typed fields.
func (c *Ctx) fieldAccesses(pkgRel string, typeNames map[string]bool) map[string][]fieldAccess {
	out := map[string][]fieldAccess{}
	for _, fn := range c.RepoFuncs(pkgRel) {
		for _, b := range fn.Blocks {
			for _, ins := range b.Instrs {
				fa, ok := ins.(*ssa.FieldAddr)
				if !ok {
					continue
				}
				named, ok := fa.X.Type().Underlying().(*types.Pointer).Elem().(*types.Named)
				if !ok || !typeNames[named.Obj().Name()] {
					continue
				}
				st := named.Underlying().(*types.Struct)
				key := named.Obj().Name() + "." + st.Field(fa.Field).Name()
				// fresh object being constructed in this function (composite literal)
				if al, isAlloc := fa.X.(*ssa.Alloc); isAlloc && al.Parent() == fn {
					continue
				}
				for _, ref := range *fa.Referrers() {
					switch r := ref.(type) {
					case *ssa.Store:
						if r.Addr == fa {
							out[key] = append(out[key], fieldAccess{fn, true, c.P.RelPos(r.Pos()), "store"})
						}
					case *ssa.UnOp:
						out[key] = append(out[key], fieldAccess{fn, false, c.P.RelPos(r.Pos()), "load"})
						// writes through the loaded map / slice value
						for _, r2 := range *r.Referrers() {
							switch x := r2.(type) {
							case *ssa.MapUpdate:
								if x.Map == r {
									out[key] = append(out[key], fieldAccess{fn, true, c.P.RelPos(x.Pos()), "map update"})
								}
							case *ssa.Call:
								if bi, isB := x.Call.Value.(*ssa.Builtin); isB && (bi.Name() == "delete" || bi.Name() == "clear") && len(x.Call.Args) > 0 && x.Call.Args[0] == r {
									out[key] = append(out[key], fieldAccess{fn, true, c.P.RelPos(x.Pos()), bi.Name()})
								}
							}
						}
					case *ssa.Call:
						// address passed to a call (method with pointer receiver on the field, e.g. sync.Once.Do, atomic ops)
						out[key] = append(out[key], fieldAccess{fn, !isSyncType(st.Field(fa.Field).Type()), c.P.RelPos(r.Pos()), "address passed to " + calleeName(&r.Call)})
					}
				}
			}
		}
	}
	return out
}

// dominatesAllOther: instruction x dominates every other call/close/send in fn (x is executed first).
func firstEffect(fn *ssa.Function, isX func(ssa.Instruction) bool, isEffect func(ssa.Instruction) bool) (found bool, violator ssa.Instruction) {
	var xBlock *ssa.BasicBlock
	xIdx := -1
	for _, b := range fn.Blocks {
		for i, ins := range b.Instrs {
			if isX(ins) {
				xBlock, xIdx = b, i
			}
		}
	}
	if xBlock == nil {
		return false, nil
	}
	for _, b := range fn.Blocks {
		for i, ins := range b.Instrs {
			if !isEffect(ins) || (b == xBlock && i == xIdx) {
				continue
			}
			if b == xBlock {
				if i < xIdx {
					return true, ins
				}
				continue
			}
			if !xBlock.Dominates(b) {
				return true, ins
			}
		}
	}
	return true, nil
}

// mustPass: every path from the entry of fn to a return passes through an instruction satisfying pred.
func mustPass(fn *ssa.Function, pred func(ssa.Instruction) bool) bool {
	if len(fn.Blocks) == 0 {
		return false
	}
	has := map[*ssa.BasicBlock]bool{}
	for _, b := range fn.Blocks {
		for _, ins := range b.Instrs {
			if pred(ins) {
				has[b] = true
			}
		}
	}
	// search for a path entry→return avoiding blocks in `has`
	seen := map[*ssa.BasicBlock]bool{}
	var dfs func(b *ssa.BasicBlock) bool
	dfs = func(b *ssa.BasicBlock) bool {
		if has[b] || seen[b] {
			return false
		}
		seen[b] = true
		if _, isRet := b.Instrs[len(b.Instrs)-1].(*ssa.Return); isRet {
			return true
		}
		for _, s := range b.Succs {
			if dfs(s) {
				return true
			}
		}
		return false
	}
	return !dfs(fn.Blocks[0])
}

func edgeDesc(e *callgraph.Edge) string {
	return fmt.Sprintf("%s → %s", shortFn(e.Caller.Func), shortFn(e.Callee.Func))
}

func stripChangeType(v ssa.Value) ssa.Value {
	for {
		if ct, ok := v.(*ssa.ChangeType); ok {
			v = ct.X
			continue
		}
		return v
	}
}

// chanFieldsOf resolves a channel value to the struct fields (owner, field) it may have been loaded from, following
// conversions, φ-nodes, parameters (to the arguments of every call / go / defer site of the function in the package)
// and free variables (to the bindings of the closure).
func (c *Ctx) chanFieldsOf(v ssa.Value, pkgFuncs []*ssa.Function) [][2]string {
	var out [][2]string
	seen := map[ssa.Value]bool{}
	var walk func(v ssa.Value, depth int)
	walk = func(v ssa.Value, depth int) {
		if v == nil || seen[v] || depth > 6 {
			return
		}
		seen[v] = true
		if owner, f, ok := fieldLoad(v); ok {
			out = append(out, [2]string{owner, f})
			return
		}
		switch x := v.(type) {
		case *ssa.ChangeType:
			walk(x.X, depth)
		case *ssa.Convert:
			walk(x.X, depth)
		case *ssa.MakeInterface:
			walk(x.X, depth)
		case *ssa.Phi:
			for _, e := range x.Edges {
				walk(e, depth)
			}
		case *ssa.UnOp:
			if al, isAl := x.X.(*ssa.Alloc); isAl {
				for _, ref := range *al.Referrers() {
					if s, isS := ref.(*ssa.Store); isS && s.Addr == ssa.Value(al) {
						walk(s.Val, depth)
					}
				}
			}
			if fv, isFV := x.X.(*ssa.FreeVar); isFV {
				walk(fv, depth)
			}
		case *ssa.Parameter:
			fn := x.Parent()
			idx := -1
			for i, p := range fn.Params {
				if p == x {
					idx = i
				}
			}
			for _, g := range pkgFuncs {
				for _, b := range g.Blocks {
					for _, ins := range b.Instrs {
						ci, isCI := ins.(ssa.CallInstruction)
						if !isCI {
							continue
						}
						cc := ci.Common()
						var callee *ssa.Function
						switch cv := cc.Value.(type) {
						case *ssa.Function:
							callee = cv
						case *ssa.MakeClosure:
							callee, _ = cv.Fn.(*ssa.Function)
						}
						if callee != fn || cc.IsInvoke() || idx >= len(cc.Args) {
							continue
						}
						walk(cc.Args[idx], depth+1)
					}
				}
			}
		case *ssa.FreeVar:
			fn := x.Parent()
			idx := -1
			for i, p := range fn.FreeVars {
				if p == x {
					idx = i
				}
			}
			if par := fn.Parent(); par != nil && idx >= 0 {
				for _, b := range par.Blocks {
					for _, ins := range b.Instrs {
						if mc, isMC := ins.(*ssa.MakeClosure); isMC && mc.Fn == ssa.Value(fn) && idx < len(mc.Bindings) {
							walk(mc.Bindings[idx], depth+1)
						}
					}
				}
			}
		}
	}
	walk(v, 0)
	return out
}

// connWriteSummary: which service functions are mere wrappers of the socket write (they write a parameter to the
// connection and neither draw a serial nor encode a header), so that a call to them counts as the write itself.
type connWriteSummary struct {
	wrappers map[*ssa.Function]int // wrapper → index of the parameter that is written
}

func (c *Ctx) connWrites() *connWriteSummary {
	if c.cw != nil {
		return c.cw
	}
	w := &connWriteSummary{wrappers: map[*ssa.Function]int{}}
	fns := c.RepoFuncs("service")
	for round := 0; round < 3; round++ {
		changed := false
		for _, fn := range fns {
			if _, done := w.wrappers[fn]; done {
				continue
			}
			var datas []ssa.Value
			other := false
			for _, b := range fn.Blocks {
				for _, ins := range b.Instrs {
					if d, ok := w.site(ins); ok {
						datas = append(datas, d)
					}
					if call, isC := ins.(*ssa.Call); isC {
						if sc := call.Call.StaticCallee(); sc != nil && (sc.Name() == "curSeq" || (sc.Name() == "Encode" && strings.Contains(sc.String(), "jt808.Header"))) {
							other = true
						}
					}
				}
			}
			if len(datas) != 1 || other {
				continue
			}
			if prm, isP := datas[0].(*ssa.Parameter); isP {
				for i, q := range fn.Params {
					if q == prm {
						w.wrappers[fn] = i
						changed = true
					}
				}
			}
		}
		if !changed {
			break
		}
	}
	c.cw = w
	return w
}

// site: ins writes bytes to the connection, directly (net.Conn.Write) or through a wrapper; data = the bytes written.
func (w *connWriteSummary) site(ins ssa.Instruction) (data ssa.Value, ok bool) {
	call, isC := ins.(*ssa.Call)
	if !isC {
		return nil, false
	}
	if isConnWrite(ins) {
		return call.Call.Args[len(call.Call.Args)-1], true
	}
	if sc := call.Call.StaticCallee(); sc != nil {
		if i, isW := w.wrappers[sc]; isW && i < len(call.Call.Args) {
			return call.Call.Args[i], true
		}
	}
	return nil, false
}

func (w *connWriteSummary) is(ins ssa.Instruction) bool { _, ok := w.site(ins); return ok }

// handOver summarises, per function of a package, which pointer parameters it may send on a channel (directly or
// through a callee that does), and whether that only happens on paths that return true.
type handOver struct {
	onlyWhenTrue bool
	via          string
}

func (c *Ctx) handOverSummaries(fns []*ssa.Function) map[*ssa.Function]map[int]handOver {
	sum := map[*ssa.Function]map[int]handOver{}
	paramIdx := func(fn *ssa.Function, v ssa.Value) int {
		for i, p := range fn.Params {
			if ssa.Value(p) == v {
				return i
			}
		}
		return -1
	}
	returnsTrueAfter := func(fn *ssa.Function, from ssa.Instruction) bool {
		if fn.Signature.Results().Len() != 1 {
			return false
		}
		if b, ok := fn.Signature.Results().At(0).Type().Underlying().(*types.Basic); !ok || b.Kind() != types.Bool {
			return false
		}
		seen := map[*ssa.BasicBlock]bool{}
		okAll, any := true, false
		var walk func(b *ssa.BasicBlock)
		walk = func(b *ssa.BasicBlock) {
			if seen[b] {
				return
			}
			seen[b] = true
			if ret, isR := b.Instrs[len(b.Instrs)-1].(*ssa.Return); isR {
				any = true
				k, isK := ret.Results[0].(*ssa.Const)
				if !isK || k.Value == nil || k.Value.String() != "true" {
					okAll = false
				}
			}
			for _, s := range b.Succs {
				walk(s)
			}
		}
		// the block of `from` itself (its tail) and everything reachable
		walk(from.Block())
		return okAll && any
	}
	for round := 0; round < 4; round++ {
		changed := false
		for _, fn := range fns {
			for _, b := range fn.Blocks {
				for _, ins := range b.Instrs {
					var sent ssa.Value
					via := ""
					switch x := ins.(type) {
					case *ssa.Send:
						sent, via = x.X, "send at "+c.P.RelPos(x.Pos())
					case *ssa.Call:
						if sc := x.Call.StaticCallee(); sc != nil {
							for j, h := range sum[sc] {
								if j < len(x.Call.Args) {
									if i := paramIdx(fn, x.Call.Args[j]); i >= 0 {
										if _, isPtr := fn.Params[i].Type().Underlying().(*types.Pointer); isPtr {
											only := returnsTrueAfter(fn, ins)
											if sum[fn] == nil {
												sum[fn] = map[int]handOver{}
											}
											if old, had := sum[fn][i]; !had || (old.onlyWhenTrue && !only) {
												sum[fn][i] = handOver{only, shortFn(sc) + " → " + h.via}
												changed = true
											}
										}
									}
								}
							}
						}
						continue
					default:
						continue
					}
					i := paramIdx(fn, sent)
					if i < 0 {
						continue
					}
					if _, isPtr := fn.Params[i].Type().Underlying().(*types.Pointer); !isPtr {
						continue
					}
					only := returnsTrueAfter(fn, ins)
					if sum[fn] == nil {
						sum[fn] = map[int]handOver{}
					}
					if old, had := sum[fn][i]; !had || (old.onlyWhenTrue && !only) {
						sum[fn][i] = handOver{only, via}
						changed = true
					}
				}
			}
		}
		if !changed {
			break
		}
	}
	return sum
}

// useAfterHandOver: in fn, a pointer passed to a callee that may send it on a channel is not used afterwards (when the
// callee sends only on paths returning true: not used on the branch where the call's result is true).
func (c *Ctx) useAfterHandOver(fn *ssa.Function, sum map[*ssa.Function]map[int]handOver) (sites int, bad []string) {
	for _, b := range fn.Blocks {
		for idx, ins := range b.Instrs {
			call, isC := ins.(*ssa.Call)
			if !isC {
				continue
			}
			sc := call.Call.StaticCallee()
			if sc == nil || len(sum[sc]) == 0 {
				continue
			}
			for j, h := range sum[sc] {
				if j >= len(call.Call.Args) {
					continue
				}
				v := call.Call.Args[j]
				if _, isPtr := v.Type().Underlying().(*types.Pointer); !isPtr {
					continue
				}
				if _, isParam := v.(*ssa.Parameter); isParam && sum[fn] != nil {
					if _, fwd := sum[fn][paramIdxOf(fn, v)]; fwd {
						// fn itself hands the pointer on: its own callers are checked; uses inside fn still are
					}
				}
				sites++
				defIns, _ := v.(ssa.Instruction)
				uses := func(i ssa.Instruction) bool {
					var ops []*ssa.Value
					for _, op := range i.Operands(ops) {
						if *op == v {
							return true
						}
					}
					return false
				}
				seen := map[*ssa.BasicBlock]bool{}
				var scan func(blk *ssa.BasicBlock, from int) string
				scan = func(blk *ssa.BasicBlock, from int) string {
					for k := from; k < len(blk.Instrs); k++ {
						i := blk.Instrs[k]
						if i == defIns {
							return ""
						}
						if _, isDbg := i.(*ssa.DebugRef); isDbg {
							continue
						}
						if uses(i) {
							return c.P.RelPos(i.Pos())
						}
					}
					succs := blk.Succs
					if h.onlyWhenTrue {
						// the pointer was handed over only if the call returned true: follow that edge alone
						if iff, isIf := blk.Instrs[len(blk.Instrs)-1].(*ssa.If); isIf {
							cond, neg := iff.Cond, false
							for {
								u, isU := cond.(*ssa.UnOp)
								if !isU || u.Op != token.NOT {
									break
								}
								cond, neg = u.X, !neg
							}
							if cond == ssa.Value(call) {
								if neg {
									succs = blk.Succs[1:2]
								} else {
									succs = blk.Succs[0:1]
								}
							}
						}
					}
					for _, su := range succs {
						if seen[su] {
							continue
						}
						seen[su] = true
						if r := scan(su, 0); r != "" {
							return r
						}
					}
					return ""
				}
				if where := scan(b, idx+1); where != "" {
					cond := ""
					if h.onlyWhenTrue {
						cond = " (on the path where it returned true)"
					}
					bad = append(bad, fmt.Sprintf("%s is used at %s after %s may have sent it on a channel%s [%s]: the receiving goroutine owns it by then", v.Name(), where, shortFn(sc), cond, h.via))
				}
			}
		}
	}
	return
}

func paramIdxOf(fn *ssa.Function, v ssa.Value) int {
	for i, p := range fn.Params {
		if ssa.Value(p) == v {
			return i
		}
	}
	return -1
}

// naturalLoops: the loops of fn as sets of blocks (one per back edge u→h with h dominating u).
func naturalLoops(fn *ssa.Function) []map[*ssa.BasicBlock]bool {
	var out []map[*ssa.BasicBlock]bool
	for _, u := range fn.Blocks {
		for _, h := range u.Succs {
			if !h.Dominates(u) {
				continue
			}
			body := map[*ssa.BasicBlock]bool{h: true}
			work := []*ssa.BasicBlock{u}
			for len(work) > 0 {
				x := work[len(work)-1]
				work = work[:len(work)-1]
				if body[x] {
					continue
				}
				body[x] = true
				work = append(work, x.Preds...)
			}
			out = append(out, body)
		}
	}
	return out
}

// freshPerEvaluation: v, used by instruction use, designates an object created anew for every execution of use:
// an allocation / constructor call (a repo function all of whose returns are fresh allocations) that lies inside every
// loop that contains use, followed through φ and local variables. Returns the reason when it does not hold.
func (c *Ctx) freshPerEvaluation(v ssa.Value, use ssa.Instruction) (bool, string) {
	fn := use.Parent()
	loops := naturalLoops(fn)
	inEveryLoopOfUse := func(b *ssa.BasicBlock) bool {
		for _, l := range loops {
			if l[use.Block()] && !l[b] {
				return false
			}
		}
		return true
	}
	var freshRet func(f *ssa.Function, depth int) bool
	var fresh func(v ssa.Value, depth int, local bool) (bool, string)
	freshRet = func(f *ssa.Function, depth int) bool {
		if depth > 5 || len(f.Blocks) == 0 {
			return false
		}
		n := 0
		for _, b := range f.Blocks {
			if ret, isR := b.Instrs[len(b.Instrs)-1].(*ssa.Return); isR && len(ret.Results) >= 1 {
				n++
				if ok, _ := fresh(ret.Results[0], depth+1, false); !ok {
					return false
				}
			}
		}
		return n > 0
	}
	fresh = func(v ssa.Value, depth int, local bool) (bool, string) {
		if depth > 8 {
			return false, "too deep"
		}
		switch x := v.(type) {
		case *ssa.Alloc:
			if !x.Heap {
				return false, "a stack variable"
			}
			if local && !inEveryLoopOfUse(x.Block()) {
				return false, fmt.Sprintf("the object is allocated at %s, outside a loop that executes the use several times: every iteration works on the same object", c.P.RelPos(x.Pos()))
			}
			return true, ""
		case *ssa.Call:
			sc := x.Call.StaticCallee()
			if sc == nil || !c.P.IsRepoFunc(sc) || !freshRet(sc, depth+1) {
				return false, fmt.Sprintf("the result of %s is not known to be a fresh object", calleeName(&x.Call))
			}
			if local && !inEveryLoopOfUse(x.Block()) {
				return false, fmt.Sprintf("the object is created at %s, outside a loop that executes the use several times: every iteration works on the same object", c.P.RelPos(x.Pos()))
			}
			return true, ""
		case *ssa.Phi:
			for _, e := range x.Edges {
				if ok, why := fresh(e, depth+1, local); !ok {
					return false, why
				}
			}
			return len(x.Edges) > 0, ""
		case *ssa.UnOp:
			if al, isAl := x.X.(*ssa.Alloc); isAl && x.Op == token.MUL {
				n := 0
				for _, ref := range *al.Referrers() {
					if st, isSt := ref.(*ssa.Store); isSt && st.Addr == ssa.Value(al) {
						n++
						if ok, why := fresh(st.Val, depth+1, local); !ok {
							return false, why
						}
					}
				}
				if n > 0 {
					return true, ""
				}
			}
		case *ssa.ChangeType:
			return fresh(x.X, depth+1, local)
		case *ssa.MakeInterface:
			return fresh(x.X, depth+1, local)
		case *ssa.MakeChan, *ssa.MakeMap, *ssa.MakeSlice:
			if local && !inEveryLoopOfUse(x.(ssa.Instruction).Block()) {
				return false, fmt.Sprintf("the object is made at %s, outside a loop that executes the use several times: every iteration works on the same object", c.P.RelPos(x.Pos()))
			}
			return true, ""
		}
		if u, isU := v.(*ssa.UnOp); isU {
			if _, f, isF := fieldLoad(u); isF {
				return false, fmt.Sprintf("it is the field %s, shared by every caller", f)
			}
		}
		return false, fmt.Sprintf("%s is not a fresh allocation", v.String())
	}
	return fresh(v, 0, true)
}

// funcOfValue: the function a function-typed value stands for: a function literal, a plain function, or the method
// behind a bound-method value (x.m used as a value).
func funcOfValue(v ssa.Value) *ssa.Function {
	switch x := stripChangeType(v).(type) {
	case *ssa.Function:
		return unwrapBound(x)
	case *ssa.MakeClosure:
		if f, ok := x.Fn.(*ssa.Function); ok {
			return unwrapBound(f)
		}
	case *ssa.Call:
		// a constructor of the operation: a function all of whose returns hand back the same function literal
		if sc := x.Call.StaticCallee(); sc != nil && len(sc.Blocks) > 0 {
			var found *ssa.Function
			for _, b := range sc.Blocks {
				ret, isR := b.Instrs[len(b.Instrs)-1].(*ssa.Return)
				if !isR || len(ret.Results) != 1 {
					continue
				}
				if _, isCall := stripChangeType(ret.Results[0]).(*ssa.Call); isCall {
					return nil
				}
				f := funcOfValue(ret.Results[0])
				if f == nil || (found != nil && found != f) {
					return nil
				}
				found = f
			}
			return found
		}
	}
	return nil
}

func unwrapBound(f *ssa.Function) *ssa.Function {
	if f == nil || f.Synthetic == "" || !strings.Contains(f.Synthetic, "bound method") {
		return f
	}
	for _, b := range f.Blocks {
		for _, ins := range b.Instrs {
			if ci, ok := ins.(ssa.CallInstruction); ok {
				if sc := ci.Common().StaticCallee(); sc != nil {
					return sc
				}
			}
		}
	}
	return f
}

// chanSendHelpers: functions of fns that send one of their parameters on the channel field `field` (submit helpers);
// value: the parameter index.
func chanSendHelpers(fns []*ssa.Function, field string) map[*ssa.Function]int {
	out := map[*ssa.Function]int{}
	for _, f := range fns {
		for _, b := range f.Blocks {
			for _, ins := range b.Instrs {
				s, ok := ins.(*ssa.Send)
				if !ok {
					continue
				}
				if _, fl, ok := fieldLoad(s.Chan); !ok || fl != field {
					continue
				}
				if prm, isP := stripChangeType(s.X).(*ssa.Parameter); isP {
					for i, q := range f.Params {
						if q == prm {
							out[f] = i
						}
					}
				}
			}
		}
	}
	return out
}

// opsSentOn: the functions whose execution fn hands to the receiver of channel field `field`: sent directly, or
// passed to a helper that sends its parameter on that channel.
func (c *Ctx) opsSentOn(fn *ssa.Function, field string) []*ssa.Function {
	helpers := chanSendHelpers(c.RepoFuncs("service"), field)
	var out []*ssa.Function
	for _, b := range fn.Blocks {
		for _, ins := range b.Instrs {
			switch x := ins.(type) {
			case *ssa.Send:
				if _, f, ok := fieldLoad(x.Chan); ok && f == field {
					if g := funcOfValue(x.X); g != nil {
						out = append(out, g)
					}
				}
			case *ssa.Call:
				if sc := x.Call.StaticCallee(); sc != nil {
					if i, isH := helpers[sc]; isH && i < len(x.Call.Args) {
						if g := funcOfValue(x.Call.Args[i]); g != nil {
							out = append(out, g)
						}
					}
				}
			}
		}
	}
	return out
}

// resolveParam follows a value that is a parameter to the corresponding arguments at the call sites of its function
// inside the package (up to three levels); other values are returned as they are.
func (c *Ctx) resolveParam(v ssa.Value, rel string) []ssa.Value {
	var out []ssa.Value
	var walk func(v ssa.Value, depth int)
	walk = func(v ssa.Value, depth int) {
		prm, isP := v.(*ssa.Parameter)
		if !isP || depth > 3 {
			out = append(out, v)
			return
		}
		fn := prm.Parent()
		idx := -1
		for i, q := range fn.Params {
			if q == prm {
				idx = i
			}
		}
		n := 0
		for _, g := range c.RepoFuncs(rel) {
			for _, b := range g.Blocks {
				for _, ins := range b.Instrs {
					ci, ok := ins.(ssa.CallInstruction)
					if !ok {
						continue
					}
					cc := ci.Common()
					var callee *ssa.Function
					switch cv := cc.Value.(type) {
					case *ssa.Function:
						callee = cv
					case *ssa.MakeClosure:
						callee, _ = cv.Fn.(*ssa.Function)
					}
					if callee != fn || cc.IsInvoke() || idx >= len(cc.Args) {
						continue
					}
					n++
					walk(cc.Args[idx], depth+1)
				}
			}
		}
		if n == 0 {
			out = append(out, v)
		}
	}
	walk(v, 0)
	return out
}

// edgeDominates: every path to target runs over the edge from b to its i-th successor: the successor dominates target
// and is entered only over that edge (or over back edges from blocks it dominates). A join block that both arms of a
// test fall into dominates what follows without the test's outcome being known there.
func edgeDominates(b *ssa.BasicBlock, i int, target *ssa.BasicBlock) bool {
	s := b.Succs[i]
	if !s.Dominates(target) {
		return false
	}
	for _, p := range s.Preds {
		if p != b && !s.Dominates(p) {
			return false
		}
	}
	// both successors the same block: the edge says nothing
	return len(b.Succs) < 2 || b.Succs[0] != b.Succs[1]
}

// loopsByHeader: natural loops merged per header (a loop with several `continue` statements has several back edges).
func loopsByHeader(fn *ssa.Function) map[*ssa.BasicBlock]map[*ssa.BasicBlock]bool {
	out := map[*ssa.BasicBlock]map[*ssa.BasicBlock]bool{}
	for _, u := range fn.Blocks {
		for _, h := range u.Succs {
			if !h.Dominates(u) {
				continue
			}
			body := out[h]
			if body == nil {
				body = map[*ssa.BasicBlock]bool{h: true}
				out[h] = body
			}
			work := []*ssa.BasicBlock{u}
			for len(work) > 0 {
				x := work[len(work)-1]
				work = work[:len(work)-1]
				if body[x] {
					continue
				}
				body[x] = true
				work = append(work, x.Preds...)
			}
		}
	}
	return out
}
