package checks

import (
	"fmt"
	"go/constant"
	"go/token"
	"go/types"
	"sort"
	"strings"

	"golang.org/x/tools/go/ssa"

	"jtverif/internal/absint"
	"jtverif/internal/report"
)

func init() {
	register(&Check{ID: "C15", Level: "other", Run: runC15})
}

type streamSpec struct {
	Dialects map[string]struct {
		Marker  string            `json:"marker"`
		MinHead int64             `json:"min_head"`
		HeadLen string            `json:"head_len"`
		BodyLen string            `json:"body_len"`
		Fields  map[string]string `json:"fields"`
	} `json:"dialects"`
}

func fieldNameOfAddr(v ssa.Value) (owner, field string, ok bool) {
	fa, isFA := v.(*ssa.FieldAddr)
	if !isFA {
		return "", "", false
	}
	pt, isP := fa.X.Type().Underlying().(*types.Pointer)
	if !isP {
		return "", "", false
	}
	st, isS := pt.Elem().Underlying().(*types.Struct)
	if !isS {
		return "", "", false
	}
	o := ""
	if n, isN := pt.Elem().(*types.Named); isN {
		o = n.Obj().Name()
	}
	return o, st.Field(fa.Field).Name(), true
}

func runC15(c *Ctx) {
	c.E1Rules()
	c.E1Assumptions()
	R := c.R
	R.Rules["T.chunk"] = "a chunk is recorded as exactly the window [headLen, headLen+bodyLen) of the pending buffer, with headLen/bodyLen the values the dialect's header parser returned, only when the buffer holds the whole chunk; afterwards the pending buffer is exactly the bytes behind the chunk"
	R.Rules["T.account"] = "received-size accounting: a chunk adds its body length once per offset (a resent offset first takes back the length recorded for it), the length recorded per offset is the chunk's length, and the file is marked complete only where CurrentSize == FileSize holds"
	R.Rules["S.assemble"] = "the completed file is assembled from an empty body by appending the recorded chunks in ascending offset order (the keys come out of a map: a sort must dominate the loop over the same slice)"
	R.Rules["T.control-frame"] = "a control frame is taken from the pending buffer as [0, r+2) where r >= 0 is the position of the first 0x7e after the first byte; when there is none yet, nothing is consumed and the caller waits for more data; after a frame the buffer is exactly the bytes behind it"
	R.Rules["E3.stream-header"] = "each dialect's chunk header parser reads marker, file name, offset and length where the standard puts them and returns header length / body length accordingly (spec/attachment_stream.json)"
	R.Rules["S.reply"] = "the platform answers exactly the control stages (0x1210, 0x1211, 0x1212 -> init / start / complete / supplementary), once per extracted frame, with the bytes ReplyData built; chunks are not answered; the reply for command K is built by the handler whose Protocol() is K"
	R.Rules["S.read-append"] = "every Read result is appended to the pending buffer as buffer[:n], and the extraction loop never looks at the read buffer itself"
	stage := c.P.Method("attachment", "PackageProgress", "stageStreamData")
	// the control-frame extractor, by role: the method of PackageProgress that hands a prefix of the pending buffer to
	// JTMessage.Decode (a function of its own today; may be merged into its caller)
	var parseMsg *ssa.Function
	for _, f := range c.RepoFuncs("attachment") {
		if f.Parent() != nil || f.Signature.Recv() == nil {
			continue
		}
		if tn, ok := derefNamed(f.Signature.Recv().Type()); !ok || tn != "PackageProgress" {
			continue
		}
		for _, b := range f.Blocks {
			for _, ins := range b.Instrs {
				if call, ok := ins.(*ssa.Call); ok {
					if sc := call.Call.StaticCallee(); sc != nil && sc.Name() == "Decode" && strings.Contains(sc.String(), "JTMessage") {
						parseMsg = f
					}
				}
			}
		}
	}
	run := c.P.Method("attachment", "connection", "run")
	if stage == nil || parseMsg == nil || run == nil {
		R.Fatal("anchors PackageProgress.stageStreamData / parseJT808Message / connection.run not found")
		return
	}
	c.c15Chunk(stage)
	c.chunkClassification(stage)
	c.recordPerFile()
	c.c15Assemble(stage)
	c.c15ControlFrame(parseMsg)
	c.c15StreamHeaders()
	c.c15Replies(run)
	R.Require("T.chunk", 2, "")
	R.Require("T.account", 5, "")
	R.Require("S.assemble", 3, "")
	R.Require("T.control-frame", 3, "")
	R.Require("E3.stream-header", 10, "")
	R.Require("S.reply", 6, "")
	R.Explain = "Byte-exact reassembly over all chunkings and orders is not decided as a whole. Decided for all inputs: what is recorded for a chunk is exactly the header parser's window of the pending buffer and the buffer advances by exactly that chunk; the size accounting is idempotent per offset and completion is claimed only under CurrentSize == FileSize; the body is assembled from empty in ascending offset order; control frames are cut at the first closing delimiter or not at all; the dialects' header layouts; which stages are answered and by which handler. " +
		"Not decided: that the sum of per-offset lengths equals the covered byte count for overlapping chunks (chunks of a file are assumed to be a partition, as the property's quantifier says)."
}

// allocsOfParseResults: the local variables that receive the two results of the stream header parser.
func allocsOfParseResults(fn *ssa.Function) (head, body *ssa.Alloc) {
	for _, b := range fn.Blocks {
		for _, ins := range b.Instrs {
			st, ok := ins.(*ssa.Store)
			if !ok {
				continue
			}
			ex, isEx := st.Val.(*ssa.Extract)
			al, isAl := st.Addr.(*ssa.Alloc)
			if !isEx || !isAl {
				continue
			}
			call, isC := ex.Tuple.(*ssa.Call)
			if !isC || !call.Call.IsInvoke() || call.Call.Method.Name() != "Parse" {
				continue
			}
			if ex.Index == 0 {
				head = al
			} else if ex.Index == 1 {
				body = al
			}
		}
	}
	return
}

func (c *Ctx) c15Chunk(stage *ssa.Function) {
	R := c.R
	// the header parser's two results are observed where the parser returns (ghosts headLen / bodyLen), whatever
	// variables the caller keeps them in
	nParse := 0
	// the local variable holding the file's record (result of the lookup in Record)
	var packAl *ssa.Alloc
	for _, b := range stage.Blocks {
		for _, ins := range b.Instrs {
			if st, ok := ins.(*ssa.Store); ok {
				if ex, isEx := st.Val.(*ssa.Extract); isEx && ex.Index == 0 {
					if lk, isLk := ex.Tuple.(*ssa.Lookup); isLk {
						if _, f, _ := fieldLoad(lk.X); f == "Record" {
							packAl, _ = st.Addr.(*ssa.Alloc)
						}
					}
				}
			}
		}
	}
	_ = packAl
	fam := c.familyOf(stage)
	inFam := map[*ssa.Function]bool{}
	for _, f := range fam {
		inFam[f] = true
	}
	var closure *ssa.Function
	for _, an := range fam {
		if an.Parent() == nil {
			continue
		}
		for _, b := range an.Blocks {
			for _, ins := range b.Instrs {
				if st, ok := ins.(*ssa.Store); ok {
					if _, f, ok := fieldNameOfAddr(st.Addr); ok && f == "historyData" {
						closure = an
					}
				}
			}
		}
	}
	res := c.RunE1([]*ssa.Function{stage}, false, func(a *absint.Analyzer, f *ssa.Function, st *absint.State, args []absint.Term) {
		recv, recvT := args[0], f.Params[0].Type()
		// default configuration: the handlers are the repository's own implementations
		a.NoExternalImpl = func(t types.Type) bool { return true }
		gEnd, gSeen := a.NewGhost("chunkEnd"), a.NewGhost("chunkSeen")
		gLen := a.NewGhost("chunkLen")
		gRec := a.NewGhost("recLen")
		gHead, gBody := a.NewGhost("headLen"), a.NewGhost("bodyLen")
		absint.SetGhost(st, gHead, absint.Const(-1))
		absint.SetGhost(st, gBody, absint.Const(-1))
		a.OnInlined = func(f *ssa.Function, fargs []absint.Term, val absint.Term, st *absint.State) {
			if f.Name() != "Parse" || f.Signature.Recv() == nil || f.Signature.Results().Len() != 2 || len(fargs) != 2 {
				return
			}
			// the chunk header parser: called on the pending buffer, returns two ints
			tu, isT := val.(*absint.Tuple)
			if !isT || len(tu.Elems) != 2 {
				return
			}
			h0, ok0 := tu.Elems[0].(absint.Int)
			b0, ok1 := tu.Elems[1].(absint.Int)
			if !ok0 || !ok1 {
				return
			}
			nParse++
			absint.SetGhost(st, gHead, h0.L)
			absint.SetGhost(st, gBody, b0.L)
		}
		absint.SetGhost(st, gRec, absint.Const(-1))
		absint.SetGhost(st, gEnd, absint.Const(0))
		absint.SetGhost(st, gSeen, absint.Const(0))
		absint.SetGhost(st, gLen, absint.Const(0))
		gh := func(st *absint.State, g *ssa.Phi) absint.Lin { l, _ := absint.Ghost(st, g); return l }
		hist := func(st *absint.State) *absint.Slice {
			h, _ := a.LoadField(st, recv, recvT, "historyData")
			hs, _ := h.(*absint.Slice)
			return hs
		}
		a.OnMapUpdate = func(f2 *ssa.Function, ins *ssa.MapUpdate, st *absint.State, m, k, v absint.Term) {
			if !inFam[f2] {
				return
			}
			_, fld, _ := fieldLoad(ins.Map)
			switch fld {
			case "OffsetDataRecord":
				vs, _ := v.(*absint.Slice)
				h := hist(st)
				hl, bl := gh(st, gHead), gh(st, gBody)
				ok1 := st.Entails(absint.Con{L: hl, Rel: absint.GE}) || !st.Feasible(absint.Con{L: hl.AddC(1), Rel: absint.EQ})
				ok2 := ok1
				ok := vs != nil && h != nil && ok1 && ok2 && vs.Base == h.Base &&
					st.Entails(eqC(vs.Off, h.Off.Add(hl))) && st.Entails(eqC(vs.Len, bl)) && st.Entails(leC(hl.Add(bl), h.Len))
				d := ""
				if !ok && vs != nil && h != nil {
					d = fmt.Sprintf("the bytes recorded for the chunk are [%s, +%s) of the pending buffer; the header parser returned head %s / body %s and the buffer holds %s bytes", vs.Off.Sub(h.Off), vs.Len, hl, bl, h.Len)
				}
				a.Oblige("T.chunk", stage, ins, "recorded bytes = [headLen, headLen+bodyLen) of the pending buffer, which holds them", ok, d)
				if vs != nil && h != nil {
					absint.SetGhost(st, gEnd, vs.Off.Sub(h.Off).Add(vs.Len))
					absint.SetGhost(st, gLen, vs.Len)
					absint.SetGhost(st, gSeen, absint.Const(1))
				}
			case "OffsetRecord":
				// checked against the chunk length at the CurrentSize update (same path)
				if iv, ok := v.(absint.Int); ok {
					absint.SetGhost(st, gRec, iv.L)
				}
			}
		}
		nSize := 0
		a.OnStore = func(f2 *ssa.Function, ins *ssa.Store, st *absint.State, old, val absint.Term) {
			owner, fld, ok := fieldNameOfAddr(ins.Addr)
			if !ok {
				return
			}
			switch {
			case f2 == closure && fld == "historyData":
				os, _ := old.(*absint.Slice)
				vs, _ := val.(*absint.Slice)
				okR := os != nil && vs != nil && vs.Base == os.Base && st.Entails(eqC(vs.Off.Add(vs.Len), os.Off.Add(os.Len))) &&
					st.Entails(eqC(vs.Off.Sub(os.Off), gh(st, gEnd))) && st.Entails(absint.Con{L: gh(st, gSeen).AddC(-1), Rel: absint.EQ})
				d := ""
				if !okR && os != nil && vs != nil {
					d = fmt.Sprintf("after the chunk the pending buffer starts %s bytes further on; the chunk ended at %s: bytes of the next frame are dropped or re-read", vs.Off.Sub(os.Off), gh(st, gEnd))
				}
				a.Oblige("T.chunk", f2, ins, "pending buffer = bytes behind the chunk", okR, d)
			case inFam[f2] && f2 != closure && owner == "Package" && fld == "CurrentSize":
				nSize++
				ov, _ := old.(absint.Int)
				nv, _ := val.(absint.Int)
				seen := st.Entails(absint.Con{L: gh(st, gSeen).AddC(-1), Rel: absint.EQ})
				if !seen {
					// before the chunk is recorded: taking back the length recorded earlier for this offset
					okT := false
					d := "CurrentSize is changed before the chunk is recorded by something other than subtracting the length recorded earlier for the same offset"
					if bo, isBo := ins.Val.(*ssa.BinOp); isBo && bo.Op == token.SUB {
						if lk, isLk := stripConv(bo.Y).(*ssa.Extract); isLk && lk.Index == 0 {
							if look, isLook := lk.Tuple.(*ssa.Lookup); isLook && look.CommaOk {
								if _, lf, _ := fieldLoad(look.X); lf == "OffsetRecord" {
									// guarded by the ok of the same lookup
									for _, b := range ins.Parent().Blocks {
										if iff, isIf := b.Instrs[len(b.Instrs)-1].(*ssa.If); isIf {
											if ex, isEx := iff.Cond.(*ssa.Extract); isEx && ex.Tuple == lk.Tuple && ex.Index == 1 && edgeDominates(b, 0, ins.Block()) {
												okT, d = true, ""
											}
										}
									}
								}
							}
						}
					}
					_ = ov
					a.Oblige("T.account", stage, ins, "a resent offset first takes back its recorded length", okT, d)
					return
				}
				// after the chunk is recorded: CurrentSize += chunk length, and the length recorded for the offset is the same
				okA := false
				d := "CurrentSize is not increased by the chunk's body length"
				if bo, isBo := ins.Val.(*ssa.BinOp); isBo && bo.Op == token.ADD {
					if y, isI := a.Val(st, stripConv(bo.Y)).(absint.Int); isI && st.Entails(eqC(y.L, gh(st, gLen))) {
						okA, d = true, ""
					}
				}
				_ = nv
				a.Oblige("T.account", stage, ins, "CurrentSize += the chunk's body length", okA, d)
				rl := gh(st, gRec)
				okL := st.Entails(eqC(rl, gh(st, gLen)))
				a.Oblige("T.account", stage, ins, "the length recorded for the offset is the chunk's body length", okL, fmt.Sprintf("the length recorded per offset is %s but the chunk's body is %s bytes: a resend takes back a different amount than was added", rl, gh(st, gLen)))
			case inFam[f2] && fld == "ProgressStage":
				if k, isK := constInt(ins.Val); isK {
					name := c.stageName(k)
					if strings.Contains(name, "StreamDataComplete") {
						okC := completeGuarded(ins.Parent(), ins)
						a.Oblige("T.account", stage, ins, "complete only where CurrentSize == FileSize", okC, "the file is marked complete on a path where CurrentSize == FileSize is not known to hold")
					}
				}
			}
		}
	})
	c.AddE1(res, false)
	if nParse == 0 {
		R.Fatal("%s: no return of a chunk header parser (Parse(buffer) (int, int)) was observed (anchor)", shortFn(stage))
	}
	c.chunkStageRule("S.reply", stage, res[0])
	// the prescribed reply to a 0x1212: the ranges of the file it names, freshly computed (shared with C16)
	if sweep, evt := c.P.Method("attachment", "Package", "StatisticalMissSegments"), c.P.Method("attachment", "standardJT808DataHandle", "OnPackageProgressEvent"); sweep != nil && evt != nil {
		R.Rules["E3.wiring"] = "the reply to a completion message is computed for the file that message names, and the computed ranges are stored into the handler on every path that computed them (no stale list from an earlier completion); the stage becomes Supplementary exactly when ranges are missing"
		lr := layoutResult{}
		c.completionWiring(lr, sweep, evt)
		R.Rules["E3.sweep"] = "a file is reported complete only when nothing is missing: every return of the missing-range sweep has passed the comparison of the running offset with FileSize (shared with C16)"
		okTail, dTail := c.sweepTail(sweep)
		lr.set("E3.sweep", shortFn(sweep)+" / every return has passed the tail test against FileSize", okTail, dTail)
		lr.flush(c, c.P.RelPos(evt.Pos()))
		R.Require("E3.wiring", 3, "")
		R.Require("E3.sweep", 1, "")
	} else {
		R.Fatal("anchors Package.StatisticalMissSegments / standardJT808DataHandle.OnPackageProgressEvent not found")
	}
	// idempotence of the accounting: the record of an offset is overwritten only after its old length was looked up under the
	// same key and taken back
	for _, famFn := range fam {
		for _, b := range famFn.Blocks {
			for _, ins := range b.Instrs {
				mu, ok := ins.(*ssa.MapUpdate)
				if !ok {
					continue
				}
				if _, f, _ := fieldLoad(mu.Map); f != "OffsetRecord" {
					continue
				}
				okI := false
				for _, b2 := range famFn.Blocks {
					for _, i2 := range b2.Instrs {
						lk, isLk := i2.(*ssa.Lookup)
						if !isLk || !lk.CommaOk || lk.Index != mu.Key {
							continue
						}
						if _, f, _ := fieldLoad(lk.X); f != "OffsetRecord" || !b2.Dominates(b) {
							continue
						}
						for _, b3 := range famFn.Blocks {
							for _, i3 := range b3.Instrs {
								st, isSt := i3.(*ssa.Store)
								if !isSt {
									continue
								}
								if _, f, okf := fieldNameOfAddr(st.Addr); !okf || f != "CurrentSize" {
									continue
								}
								if bo, isBo := st.Val.(*ssa.BinOp); isBo && bo.Op == token.SUB {
									if ex, isEx := stripConv(bo.Y).(*ssa.Extract); isEx && ex.Tuple == ssa.Value(lk) && ex.Index == 0 {
										okI = true
									}
								}
							}
						}
					}
				}
				stt := report.Discharged
				if !okI {
					stt = report.Violated
				}
				R.Add("T.account", shortFn(stage)+" / a resent offset does not count twice", c.P.RelPos(mu.Pos()), stt, "the length recorded for an offset is overwritten without the old length being taken back from CurrentSize: a resent chunk is counted twice and a file with a missing chunk is reported complete")
			}
		}
	}
}

// completeGuarded: the store is dominated by the true edge of `CurrentSize == FileSize` (loads of the record's fields)
// and CurrentSize is not written in between.
func completeGuarded(fn *ssa.Function, at *ssa.Store) bool {
	for _, b := range fn.Blocks {
		iff, isIf := b.Instrs[len(b.Instrs)-1].(*ssa.If)
		if !isIf {
			continue
		}
		cmp, isCmp := iff.Cond.(*ssa.BinOp)
		if !isCmp || (cmp.Op != token.EQL && cmp.Op != token.NEQ) {
			continue
		}
		_, fx, okx := fieldLoad(cmp.X)
		_, fy, oky := fieldLoad(cmp.Y)
		if !okx || !oky || !((fx == "CurrentSize" && fy == "FileSize") || (fx == "FileSize" && fy == "CurrentSize")) {
			continue
		}
		// the edge on which the two are equal: true edge of ==, false edge of != (guard-clause form)
		ei := 0
		if cmp.Op == token.NEQ {
			ei = 1
		}
		then := b.Succs[ei]
		if !edgeDominates(b, ei, at.Block()) {
			continue
		}
		clean := true
		for _, b2 := range fn.Blocks {
			if !then.Dominates(b2) {
				continue
			}
			for _, ins := range b2.Instrs {
				if st, isSt := ins.(*ssa.Store); isSt && st != at {
					if _, f, ok := fieldNameOfAddr(st.Addr); ok && (f == "CurrentSize" || f == "FileSize") {
						clean = false
					}
				}
			}
		}
		if clean {
			return true
		}
	}
	return false
}

// stageName: the name of the ProgressStage constant with value k.
func (c *Ctx) stageName(k int64) string {
	p := c.P.Pkg("attachment")
	if p == nil {
		return ""
	}
	sc := p.Pkg.Scope()
	for _, n := range sc.Names() {
		if k2, ok := sc.Lookup(n).(*types.Const); ok && strings.HasPrefix(n, "ProgressStage") {
			if v, isInt := constantInt(k2); isInt && v == k {
				return n
			}
		}
	}
	return ""
}

func constantInt(k *types.Const) (int64, bool) {
	if k.Val().Kind() != constant.Int {
		return 0, false
	}
	return constant.Int64Val(k.Val())
}

// c15Assemble: body assembled from empty, in ascending offset order (SSA rules).
func (c *Ctx) c15Assemble(stage0 *ssa.Function) {
	R := c.R
	// the function of the chunk step's family that assembles the body (the step itself, or a helper it calls)
	stage := stage0
	for _, f := range c.familyOf(stage0) {
		for _, b := range f.Blocks {
			for _, ins := range b.Instrs {
				if st, ok := ins.(*ssa.Store); ok {
					if _, fld, ok := fieldNameOfAddr(st.Addr); ok && fld == "StreamBody" {
						if _, isApp := isBuiltinCall(instrOf(st.Val), "append"); isApp {
							stage = f
						}
					}
				}
			}
		}
	}
	name := shortFn(stage0)
	// the sort call and the variable it sorts
	var sorted ssa.Value
	var sortCall *ssa.Call
	for _, b := range stage.Blocks {
		for _, ins := range b.Instrs {
			call, ok := ins.(*ssa.Call)
			if !ok || call.Call.StaticCallee() == nil {
				continue
			}
			switch cn := call.Call.StaticCallee().String(); {
			case cn == "sort.Ints" || cn == "slices.Sort" || strings.HasPrefix(cn, "slices.Sort["):
				sorted, sortCall = varIdent(call.Call.Args[0]), call
			case cn == "slices.Sorted" || strings.HasPrefix(cn, "slices.Sorted["):
				// keys := slices.Sorted(maps.Keys(m)): the result is the sorted list
				sorted, sortCall = ssa.Value(call), call
				for _, ref := range *call.Referrers() {
					if st, isSt := ref.(*ssa.Store); isSt && st.Val == ssa.Value(call) {
						if al, isAl := st.Addr.(*ssa.Alloc); isAl {
							sorted = al
						}
					}
				}
			}
		}
	}
	// the loop that appends to StreamBody
	var appStore *ssa.Store
	var app *ssa.Call
	for _, b := range stage.Blocks {
		for _, ins := range b.Instrs {
			st, ok := ins.(*ssa.Store)
			if !ok {
				continue
			}
			if _, f, ok := fieldNameOfAddr(st.Addr); ok && f == "StreamBody" {
				if call, isApp := isBuiltinCall(instrOf(st.Val), "append"); isApp {
					appStore, app = st, call
				}
			}
		}
	}
	if appStore == nil {
		R.Add("S.assemble", name+" / body assembled by appending chunks", c.P.RelPos(stage.Pos()), report.Violated, "no `StreamBody = append(StreamBody, chunk...)` found")
		return
	}
	// (1) appended operand = OffsetDataRecord[key] with key = element of the sorted slice at the loop index
	ok1, d1 := false, "the appended chunk is not OffsetDataRecord[key] for the key of the sorted slice the loop visits"
	if lk, isLk := app.Call.Args[1].(*ssa.Lookup); isLk {
		if _, f, _ := fieldLoad(lk.X); f == "OffsetDataRecord" {
			if ld, isLd := lk.Index.(*ssa.UnOp); isLd {
				if ia, isIA := ld.X.(*ssa.IndexAddr); isIA && sorted != nil && varIdent(ia.X) == sorted {
					if _, asc := ascendingIndexOver(ia.Index); asc {
						ok1, d1 = true, ""
					} else {
						d1 = "the loop over the sorted offsets is not an ascending index loop from 0 with step 1"
					}
				}
			}
		}
	}
	st := report.Discharged
	if !ok1 {
		st = report.Violated
	}
	R.Add("S.assemble", name+" / chunks appended in the order of the sorted offsets", c.P.RelPos(appStore.Pos()), st, d1)
	// (2) sort dominates the loop
	ok2 := sortCall != nil && sortCall.Block().Dominates(appStore.Block()) && sortCall.Block() != appStore.Block()
	st = report.Discharged
	if !ok2 {
		st = report.Violated
	}
	R.Add("S.assemble", name+" / the offsets are sorted before the loop", c.P.RelPos(appStore.Pos()), st, "no sort of the offset list dominates the assembling loop: the chunks come out of a map in random order")
	// (3) the body is empty when the loop starts: a store of nil / empty to StreamBody dominates the loop and no other append precedes
	ok3 := false
	for _, b := range stage.Blocks {
		for _, ins := range b.Instrs {
			s2, ok := ins.(*ssa.Store)
			if !ok || s2 == appStore {
				continue
			}
			if _, f, ok := fieldNameOfAddr(s2.Addr); ok && f == "StreamBody" {
				empty := false
				if k, isK := s2.Val.(*ssa.Const); isK && k.IsNil() {
					empty = true
				}
				if sl, isSl := s2.Val.(*ssa.Slice); isSl {
					if hi, isHi := constInt(sl.High); isHi && hi == 0 {
						empty = true
					}
				}
				if mk, isMk := s2.Val.(*ssa.MakeSlice); isMk { // make([]byte, 0, n)
					if l, isL := constInt(mk.Len); isL && l == 0 {
						empty = true
					}
				}
				if empty && b.Dominates(appStore.Block()) && b != appStore.Block() {
					ok3 = true
				}
			}
		}
	}
	// the appended-to value is the field's current value
	if ld, isLd := app.Call.Args[0].(*ssa.UnOp); !isLd {
		ok3 = false
	} else if _, f, ok := fieldNameOfAddr(ld.X); !ok || f != "StreamBody" {
		ok3 = false
	}
	st = report.Discharged
	if !ok3 {
		st = report.Violated
	}
	R.Add("S.assemble", name+" / the body is emptied before it is assembled", c.P.RelPos(appStore.Pos()), st, "the chunks are appended to whatever an earlier completion assembled: a chunk resent after completion makes the file complete again and doubles its content")
	// (4) the recorded chunks stay recorded: a chunk resent after completion re-runs the assembly, which reads all of them
	{
		var bad []string
		n := 0
		for _, fn := range c.RepoFuncs("attachment") {
			for _, b := range fn.Blocks {
				for _, ins := range b.Instrs {
					switch x := ins.(type) {
					case *ssa.Call:
						if bi, isB := x.Call.Value.(*ssa.Builtin); isB && (bi.Name() == "delete" || bi.Name() == "clear") && len(x.Call.Args) >= 1 {
							if _, f, isF := fieldLoad(x.Call.Args[0]); isF && (f == "OffsetDataRecord" || f == "OffsetRecord") {
								bad = append(bad, fmt.Sprintf("%s(%s) at %s", bi.Name(), f, c.P.RelPos(x.Pos())))
							}
						}
					case *ssa.Store:
						if _, f, isF := fieldNameOfAddr(x.Addr); isF && (f == "OffsetDataRecord" || f == "OffsetRecord") {
							n++
							// only the construction of a Package (composite literal) may set the maps
							if fa, isFA := x.Addr.(*ssa.FieldAddr); isFA {
								if al, isAl := fa.X.(*ssa.Alloc); !isAl || al.Parent() != fn {
									bad = append(bad, fmt.Sprintf("%s replaced at %s", f, c.P.RelPos(x.Pos())))
								}
							}
						}
					}
				}
			}
		}
		st := report.Discharged
		d := ""
		if len(bad) > 0 || n == 0 {
			st = report.Violated
			d = fmt.Sprintf("recorded chunks are removed or the record tables replaced outside the construction of a file's record (%v; %d constructions): an assembly that runs again - a chunk resent after completion - no longer sees every chunk, and the completed file is rebuilt from a part of it", bad, n)
		}
		R.Add("S.assemble", "Package.OffsetDataRecord / recorded chunks are never removed", "", st, d)
	}
}

// c15ControlFrame: frame = [0, r+2) for the first-delimiter search result r >= 0.
func (c *Ctx) c15ControlFrame(fn *ssa.Function) {
	var dec *ssa.Call
	for _, b := range fn.Blocks {
		for _, ins := range b.Instrs {
			if call, ok := ins.(*ssa.Call); ok {
				if sc := call.Call.StaticCallee(); sc != nil && sc.Name() == "Decode" && strings.Contains(sc.String(), "JTMessage") {
					dec = call
				}
			}
		}
	}
	if dec == nil {
		c.R.Fatal("%s: no JTMessage.Decode call (anchor)", shortFn(fn))
		return
	}
	res := c.RunE1([]*ssa.Function{fn}, true, func(a *absint.Analyzer, f *ssa.Function, st *absint.State, args []absint.Term) {
		recv, recvT := args[0], f.Params[0].Type()
		gR, gHave, gFrame := a.NewGhost("searchResult"), a.NewGhost("searched"), a.NewGhost("frameLen")
		absint.SetGhost(st, gR, absint.Const(-2))
		absint.SetGhost(st, gHave, absint.Const(0))
		absint.SetGhost(st, gFrame, absint.Const(-1))
		gh := func(st *absint.State, g *ssa.Phi) absint.Lin { l, _ := absint.Ghost(st, g); return l }
		hist := func(st *absint.State) *absint.Slice {
			h, _ := a.LoadField(st, recv, recvT, "historyData")
			hs, _ := h.(*absint.Slice)
			return hs
		}
		a.OnExternalResult = func(f2 *ssa.Function, site ssa.Instruction, name string, st *absint.State, args []absint.Term, val absint.Term) {
			if f2 != fn {
				return
			}
			if name != "bytes.IndexFunc" && name != "bytes.IndexByte" {
				return
			}
			s, _ := args[0].(*absint.Slice)
			h := hist(st)
			call := site.(*ssa.Call)
			// the search covers the pending buffer from its second byte to its end, for the delimiter
			ok := s != nil && h != nil && s.Base == h.Base && st.Entails(eqC(s.Off, h.Off.AddC(1))) && st.Entails(eqC(s.Len, h.Len.AddC(-1)))
			d := "the search for the closing delimiter does not cover the pending buffer from its second byte to its end"
			if ok {
				switch name {
				case "bytes.IndexByte":
					if k, isK := constInt(call.Call.Args[1]); !isK || k != 0x7e {
						ok, d = false, "the byte searched for is not the delimiter 0x7e"
					}
				case "bytes.IndexFunc":
					okc := false
					var cf *ssa.Function
					switch x := call.Call.Args[1].(type) {
					case *ssa.MakeClosure:
						cf, _ = x.Fn.(*ssa.Function)
					case *ssa.Function:
						cf = x
					}
					if cf != nil && len(cf.Blocks) == 1 {
						if ret, isRet := cf.Blocks[0].Instrs[len(cf.Blocks[0].Instrs)-1].(*ssa.Return); isRet {
							if cmp, isCmp := ret.Results[0].(*ssa.BinOp); isCmp && cmp.Op == token.EQL && cmp.X == ssa.Value(cf.Params[0]) {
								if k, isK := constInt(cmp.Y); isK && k == 0x7e {
									okc = true
								}
							}
						}
					}
					if !okc {
						ok, d = false, "the predicate of the search is not `r == 0x7e`"
					}
				}
			}
			a.Oblige("T.control-frame", fn, site, "search for the first closing delimiter over buffer[1:]", ok, d)
			if iv, isI := val.(absint.Int); isI {
				absint.SetGhost(st, gR, iv.L)
				absint.SetGhost(st, gHave, absint.Const(1))
			}
		}
		a.OnCall = func(a2 *absint.Analyzer, st *absint.State, site ssa.CallInstruction, callee *ssa.Function, cargs []absint.Term) {
			if site != ssa.CallInstruction(dec) {
				return
			}
			s, _ := cargs[1].(*absint.Slice)
			h := hist(st)
			r := gh(st, gR)
			ok := s != nil && h != nil && s.Base == h.Base && st.Entails(eqC(s.Off, h.Off)) &&
				st.Entails(absint.Con{L: gh(st, gHave).AddC(-1), Rel: absint.EQ}) &&
				st.Entails(absint.Con{L: r, Rel: absint.GE}) && st.Entails(eqC(s.Len, r.AddC(2)))
			d := ""
			if !ok && s != nil {
				d = fmt.Sprintf("the decoder is given %s bytes of the pending buffer on a path where the search result r = %s is not known to be >= 0 with length r+2: with no closing delimiter yet, a truncated frame is decoded and the session aborted instead of waiting for more data", s.Len, r)
			}
			a.Oblige("T.control-frame", fn, dec, "decoded frame = buffer[0 : r+2] with r >= 0", ok, d)
			if s != nil {
				absint.SetGhost(st, gFrame, s.Len)
			}
		}
		a.OnStore = func(f2 *ssa.Function, ins *ssa.Store, st *absint.State, old, val absint.Term) {
			if f2 != fn {
				return
			}
			if _, fld, ok := fieldNameOfAddr(ins.Addr); !ok || fld != "historyData" {
				return
			}
			os, _ := old.(*absint.Slice)
			vs, _ := val.(*absint.Slice)
			ok := os != nil && vs != nil && vs.Base == os.Base && st.Entails(eqC(vs.Off.Add(vs.Len), os.Off.Add(os.Len))) && st.Entails(eqC(vs.Off.Sub(os.Off), gh(st, gFrame)))
			a.Oblige("T.control-frame", fn, ins, "pending buffer = bytes behind the frame", ok, "after a control frame the pending buffer is not exactly the bytes that followed it")
		}
		a.OnRet = func(f2 *ssa.Function, ret *ssa.Return, st *absint.State, val absint.Term) {
			if f2 != fn {
				return
			}
			// a return without a decoded frame must be the wait-for-more-data error and must leave the buffer alone: covered by
			// the store rule (no store without a frame) and by the error provenance below
			tu, ok := val.(*absint.Tuple)
			if !ok || len(tu.Elems) != 2 {
				return
			}
			if st.Entails(absint.Con{L: gh(st, gFrame).AddC(1), Rel: absint.EQ}) {
				// no frame decoded on this path
				okE := false
				if u, isU := tu.Elems[1].(*absint.Unknown); isU {
					for _, e := range u.Errs {
						if strings.HasSuffix(e, "ErrInsufficientDataLen") && len(u.Errs) == 1 {
							okE = true
						}
					}
				}
				a.Oblige("T.control-frame", fn, ret, fmt.Sprintf("return #%d: without a complete frame the caller is told to wait", returnOrdinal(fn, ret)), okE, "a return that decoded no frame does not report ErrInsufficientDataLen (the reader would abort the session instead of waiting for the rest of the frame)")
			}
		}
	})
	c.AddE1(res, false)
}

// c15StreamHeaders: the dialects' chunk header parsers against the standard's layout.
func (c *Ctx) c15StreamHeaders() {
	R := c.R
	var spec streamSpec
	if !c.loadSpec("attachment_stream.json", &spec) {
		return
	}
	names := make([]string, 0, len(spec.Dialects))
	for n := range spec.Dialects {
		names = append(names, n)
	}
	sort.Strings(names)
	for _, tn := range names {
		sp := spec.Dialects[tn]
		parse := c.P.Method("attachment", tn, "Parse")
		if parse == nil {
			R.Add("E3.stream-header", tn+" / Parse", "", report.Violated, "no Parse method for this dialect's stream handler")
			continue
		}
		a := c.NewE1(pkgOf(parse), false)
		st := absint.NewState()
		recv := a.Unknown(parse.Params[0].Type(), "s", st)
		data := a.Unknown(parse.Params[1].Type(), "data", st)
		_, rets := a.RunEntry(parse, st, []absint.Term{recv, data}, nil)
		rs := absint.Rets(rets)
		if len(rs) == 0 {
			R.Add("E3.stream-header", tn+" / Parse", c.P.RelPos(parse.Pos()), report.Violated, "no return state")
			continue
		}
		for _, r := range rs {
			tu, _ := r.Val.(*absint.Tuple)
			add := func(what, got, want string) {
				stt, d := report.Discharged, ""
				// trimming and the []byte→string conversion commute: strings.Trim(string(b), c) == string(bytes.Trim(b, c))
				canon := func(x string) string { return strings.ReplaceAll(x, "Trim(str(", "str(Trim(") }
				if canon(got) != canon(want) {
					stt, d = report.Violated, fmt.Sprintf("%s is %s; the standard's layout gives %s", what, got, want)
				}
				R.Add("E3.stream-header", tn+" / "+what, c.P.RelPos(parse.Pos()), stt, d)
			}
			if tu != nil && len(tu.Elems) == 2 {
				add("header length", a.Render(tu.Elems[0]), sp.HeadLen)
				add("body length", a.Render(tu.Elems[1]), sp.BodyLen)
			} else {
				R.Add("E3.stream-header", tn+" / results", c.P.RelPos(parse.Pos()), report.Violated, "Parse does not return (headLen, bodyLen)")
			}
			fields := make([]string, 0, len(sp.Fields))
			for f := range sp.Fields {
				fields = append(fields, f)
			}
			sort.Strings(fields)
			for _, f := range fields {
				v := findField(a, r.St, recv, parse.Params[0].Type(), []string{f})
				if v == nil {
					if bp, bt := a.FieldPtr(recv, parse.Params[0].Type(), "baseStreamDataHandle"); bp != nil {
						v = findField(a, r.St, bp, bt, []string{f})
					}
				}
				add("field "+f, a.Render(v), sp.Fields[f])
				// what the accessors hand out (promoted through the embedded base handler) must be the same value
				if tn == "heiBiaoStreamDataHandle" && (f == "FileName" || f == "DataOffset" || f == "DataLen") {
					if bp, bt := a.FieldPtr(recv, parse.Params[0].Type(), "baseStreamDataHandle"); bp != nil {
						bv := findField(a, r.St, bp, bt, []string{f})
						add("accessor value "+f, a.Render(bv), sp.Fields[f])
					}
				}
			}
		}
		// the marker test and the minimum header length
		if hs := c.P.Method("attachment", tn, "HasStreamData"); hs != nil {
			if hs.Synthetic != "" {
				// promoted through the embedded base handler: look at the method it forwards to
				for _, b := range hs.Blocks {
					for _, ins := range b.Instrs {
						if call, isC := ins.(*ssa.Call); isC && call.Call.StaticCallee() != nil && call.Call.StaticCallee().Name() == "HasStreamData" {
							hs = call.Call.StaticCallee()
						}
					}
				}
			}
			// semantic: HasStreamData(data) is true exactly when data begins with the 4 marker bytes. Interpreted for an
			// arbitrary buffer; accepted forms: the result of bytes.HasPrefix(data, marker) itself, or constant results
			// on paths whose condition pins the length and the big-endian reading of data[0:4] (any equivalent test)
			ok := true
			why := ""
			var marker int64
			fmt.Sscanf(sp.Marker, "%x", &marker)
			var data *absint.Slice
			hres := c.RunE1([]*ssa.Function{hs}, false, func(a *absint.Analyzer, f *ssa.Function, st *absint.State, args []absint.Term) {
				data, _ = args[1].(*absint.Slice)
			})
			nRet := 0
			for _, hr := range hres {
				for _, ret := range hr.Rets {
					nRet++
					bv, isB := ret.Val.(*absint.Bool)
					if !isB || data == nil {
						ok, why = false, "the result of HasStreamData is not a boolean the analysis can read"
						continue
					}
					u32 := hr.A.ReadUint(ret.St, data, absint.Const(0), 4, false)
					switch hr.A.Render(bv) {
					case "true":
						if !(ret.St.Entails(absint.Con{L: data.Len.AddC(-4), Rel: absint.GE}) && ret.St.Entails(absint.Con{L: u32.AddC(-marker), Rel: absint.EQ})) {
							ok, why = false, "HasStreamData answers true on a path where the buffer is not known to begin with the marker"
						}
					case "false":
						s2 := ret.St.Clone()
						s2.AssumeGE(data.Len.AddC(-4))
						if s2.Feasible(absint.Con{L: u32.AddC(-marker), Rel: absint.EQ}) && ret.St.Feasible(absint.Con{L: data.Len.AddC(-4), Rel: absint.GE}) {
							ok, why = false, "HasStreamData answers false on a path where the buffer may begin with the marker"
						}
					default:
						// a comparison result returned as such: u32be(data[0:4]) == marker on a path that knows len >= 4
						if ret.St.Entails(absint.Con{L: data.Len.AddC(-4), Rel: absint.GE}) && hr.A.BoolEquivalent(ret.St, bv, absint.Con{L: u32.AddC(-marker), Rel: absint.EQ}) {
							continue
						}
						src := hr.A.BoolSource(bv)
						good := src != nil && src.Fn == "bytes.HasPrefix" && src.X != nil && src.Y != nil && src.X.Base == data.Base && src.X.Off.Equal(data.Off) && src.X.Len.Equal(data.Len)
						if good {
							// the prefix operand: four constant bytes equal to the marker
							good = ret.St.Entails(absint.Con{L: src.Y.Len.AddC(-4), Rel: absint.EQ})
							elems, haveElems := constBytes(src.Y.Base.Elems)
							for i := int64(0); good && i < 4; i++ {
								want := (marker >> uint(8*(3-i))) & 0xff
								if haveElems && src.Y.Off.IsConst() && int(src.Y.Off.C+i) < len(elems) {
									good = elems[src.Y.Off.C+i] == want
									continue
								}
								bt := hr.A.ByteAt(ret.St, src.Y, absint.Const(i))
								if !ret.St.Entails(absint.Con{L: bt.AddC(-want), Rel: absint.EQ}) {
									good = false
								}
							}
						}
						if !good {
							ok, why = false, "the chunk test is neither bytes.HasPrefix(buffer, "+sp.Marker+") nor an equivalent test of the first four bytes: "+hr.A.Render(bv)
						}
					}
				}
			}
			if nRet == 0 {
				ok, why = false, "no return of HasStreamData analysed"
			}
			stt := report.Discharged
			if !ok {
				stt = report.Violated
			}
			_ = why
			R.Add("E3.stream-header", tn+" / chunk marker tested as a prefix of the pending buffer", c.P.RelPos(hs.Pos()), stt, why+" (a control frame or chunk body containing the marker elsewhere would be taken for a chunk, or a chunk would not be recognised)")
		}
	}
}

// constByteSlice: v is a []byte composite literal of constants.
func constByteSlice(v ssa.Value) ([]byte, bool) {
	sl, ok := v.(*ssa.Slice)
	if !ok {
		return nil, false
	}
	al, ok := sl.X.(*ssa.Alloc)
	if !ok {
		return nil, false
	}
	at, ok := al.Type().Underlying().(*types.Pointer).Elem().Underlying().(*types.Array)
	if !ok {
		return nil, false
	}
	out := make([]byte, at.Len())
	n := 0
	for _, ref := range *al.Referrers() {
		if ia, isIA := ref.(*ssa.IndexAddr); isIA {
			k, isK := constInt(ia.Index)
			if !isK {
				return nil, false
			}
			for _, r2 := range *ia.Referrers() {
				if st, isSt := r2.(*ssa.Store); isSt && st.Addr == ia {
					b, isB := constInt(st.Val)
					if !isB || int(k) >= len(out) {
						return nil, false
					}
					out[k] = byte(b)
					n++
				}
			}
		}
	}
	return out, n == len(out)
}

// c15Replies: which stages are answered, once per extracted frame, by which handler.
func (c *Ctx) c15Replies(run *ssa.Function) {
	R := c.R
	// (1) hasJT808Reply is true exactly for the control stages
	if hr := c.P.Method("attachment", "PackageProgress", "hasJT808Reply"); hr != nil {
		want := map[string]bool{"ProgressStageInit": true, "ProgressStageStart": true, "ProgressStageComplete": true, "ProgressStageSupplementary": true,
			"ProgressStageStreamData": false, "ProgressStageStreamDataComplete": false}
		keys := make([]string, 0, len(want))
		for k := range want {
			keys = append(keys, k)
		}
		sort.Strings(keys)
		for _, k := range keys {
			v, okc := c.constOf("attachment", k)
			if !okc {
				R.Add("S.reply", "hasJT808Reply / "+k, "", report.Violated, "stage constant not found")
				continue
			}
			a := c.NewE1(pkgOf(hr), false)
			st := absint.NewState()
			recv := a.Unknown(hr.Params[0].Type(), "p", st)
			a.StoreField(st, recv, hr.Params[0].Type(), "ProgressStage", absint.Int{L: absint.Const(v)})
			_, rets := a.RunEntry(hr, st, []absint.Term{recv}, nil)
			got := map[string]bool{}
			for _, r := range absint.Rets(rets) {
				got[a.Render(r.Val)] = true
			}
			stt, d := report.Discharged, ""
			if len(got) != 1 || !got[fmt.Sprint(want[k])] {
				stt, d = report.Violated, fmt.Sprintf("hasJT808Reply() for stage %s is %v, expected %v", k, got, want[k])
			}
			R.Add("S.reply", "hasJT808Reply / "+k, c.P.RelPos(hr.Pos()), stt, d)
		}
	} else {
		R.Fatal("anchor PackageProgress.hasJT808Reply not found")
	}
	// (2) the write in the read loop: data of ReplyData, under hasJT808Reply, one write. The write may sit in the
	//     loop body itself or in a helper of the package that the loop body calls (the call then stands for the write).
	type wsite struct {
		fn   *ssa.Function   // function containing the socket write
		call *ssa.Call       // the Write
		at   ssa.Instruction // the instruction in the loop body that stands for it (the write itself or the helper call)
		in   *ssa.Function   // loop-body function containing `at`
	}
	var sites []wsite
	loopFns := append([]*ssa.Function{run}, run.AnonFuncs...)
	writesOf := func(fn *ssa.Function) []*ssa.Call {
		var out []*ssa.Call
		for _, b := range fn.Blocks {
			for _, ins := range b.Instrs {
				if call, ok := ins.(*ssa.Call); ok {
					if n, _ := callMethodName(call); n == "Write" && call.Call.IsInvoke() {
						out = append(out, call)
					}
				}
			}
		}
		return out
	}
	for _, fn := range loopFns {
		for _, w := range writesOf(fn) {
			sites = append(sites, wsite{fn, w, w, fn})
		}
		for _, b := range fn.Blocks {
			for _, ins := range b.Instrs {
				call, isC := ins.(*ssa.Call)
				if !isC {
					continue
				}
				sc := call.Call.StaticCallee()
				if sc == nil || !c.P.IsRepoFunc(sc) || pkgOf(sc) != pkgOf(run) || sc == run {
					continue
				}
				for _, w := range writesOf(sc) {
					sites = append(sites, wsite{sc, w, call, fn})
				}
			}
		}
	}
	ok, d := len(sites) == 1, fmt.Sprintf("%d socket writes in the connection loop (expected one)", len(sites))
	if ok {
		w := sites[0]
		ok, d = false, "the bytes written are not the result of ReplyData()"
		arg := w.call.Call.Args[0]
		if ex, isEx := arg.(*ssa.Extract); isEx && ex.Index == 0 {
			if n, _ := callMethodName(ex.Tuple); n == "ReplyData" {
				ok, d = true, ""
			}
		}
		if ok {
			guard := false
			for _, b := range w.in.Blocks {
				if iff, isIf := b.Instrs[len(b.Instrs)-1].(*ssa.If); isIf {
					if n, _ := callMethodName(iff.Cond); n == "hasJT808Reply" && b.Succs[0].Dominates(w.at.Block()) && len(b.Succs[0].Preds) == 1 {
						guard = true
					}
				}
			}
			if !guard {
				ok, d = false, "the reply is not written under hasJT808Reply()"
			}
		}
	}
	st := report.Discharged
	if !ok {
		st = report.Violated
	}
	R.Add("S.reply", shortFn(run)+" / one write per extracted control frame, of ReplyData()'s bytes, under hasJT808Reply()", c.P.RelPos(run.Pos()), st, d)
	// (3) dispatch: in Parse and ReplyData of the data handler, case K uses the handler whose Protocol() is K
	nDisp := 0
	var dispFns []*ssa.Function
	if ap := c.P.Pkg("attachment"); ap != nil {
		if tn, ok := ap.Pkg.Scope().Lookup("BaseJT808DataHandler").(*types.TypeName); ok {
			if named, ok := tn.Type().(*types.Named); ok {
				for i := 0; i < named.NumMethods(); i++ {
					m := named.Method(i)
					if m.Name() == "Parse" || m.Name() == "ReplyData" {
						if fn := c.P.SSA.FuncValue(m); fn != nil && fn.Blocks != nil {
							dispFns = append(dispFns, fn)
						}
					}
				}
			}
		}
	}
	for _, fn := range dispFns {
		for _, b := range fn.Blocks {
			iff, isIf := b.Instrs[len(b.Instrs)-1].(*ssa.If)
			if !isIf {
				continue
			}
			cmp, isCmp := iff.Cond.(*ssa.BinOp)
			if !isCmp || cmp.Op != token.EQL {
				continue
			}
			k, isK := constInt(cmp.Y)
			if !isK || k < 0x1000 {
				continue
			}
			// handler fields used in the case block (until the next test / return)
			then := b.Succs[0]
			for _, ins := range then.Instrs {
				fa, isFA := ins.(*ssa.FieldAddr)
				if !isFA {
					continue
				}
				_, fld, _ := fieldNameOfAddr(fa)
				if !strings.HasPrefix(fld, "T0x") {
					continue
				}
				ft := fa.Type().Underlying().(*types.Pointer).Elem()
				if _, isTP := ft.(*types.TypeParam); isTP {
					// generic body: the field's type in the instantiation the default handler embeds
					ft = c.defaultHandlerFieldType(fld)
					if ft == nil {
						continue
					}
				}
				pv, okp := c.constResult(ft, "Protocol")
				nDisp++
				stt, d := report.Discharged, ""
				if !okp || pv != fmt.Sprint(k) {
					stt, d = report.Violated, fmt.Sprintf("case 0x%04x uses handler field %s whose Protocol() is %s", k, fld, pv)
				}
				R.Add("S.reply", fmt.Sprintf("%s / case 0x%04x -> %s", shortFn(fn), k, fld), c.P.RelPos(fa.Pos()), stt, d)
			}
		}
	}
	if nDisp < 4 {
		R.Fatal("only %d command-dispatch cases recognised in the attachment data handler (anchor)", nDisp)
	}
	// (4) S.read-append
	{
		ok, d := false, "the read loop does not append buffer[:n] of the preceding Read to the pending buffer"
		var readBuf ssa.Value
		for _, b := range run.Blocks {
			for _, ins := range b.Instrs {
				st, isSt := ins.(*ssa.Store)
				if !isSt {
					continue
				}
				if _, f, okf := fieldNameOfAddr(st.Addr); !okf || f != "historyData" {
					continue
				}
				app, isApp := isBuiltinCall(instrOf(st.Val), "append")
				if !isApp {
					continue
				}
				sl, isSl := app.Call.Args[1].(*ssa.Slice)
				if !isSl || sl.Low != nil {
					continue
				}
				ex, isEx := sl.High.(*ssa.Extract)
				if !isEx || ex.Index != 0 {
					continue
				}
				rd, isRd := ex.Tuple.(*ssa.Call)
				if n, _ := callMethodName(ex.Tuple); !isRd || n != "Read" {
					continue
				}
				if sameBufferValue(rd.Call.Args[len(rd.Call.Args)-1], sl.X) {
					ok, d = true, ""
					readBuf = varIdent(sl.X)
				}
			}
		}
		if ok && readBuf != nil {
			// the read buffer is used only by Read, the append and the final clear
			for _, fn := range append([]*ssa.Function{run}, run.AnonFuncs...) {
				for _, b := range fn.Blocks {
					for _, ins := range b.Instrs {
						var ops []*ssa.Value
						for _, op := range ins.Operands(ops) {
							if *op == nil || varIdent(*op) != readBuf {
								continue
							}
							switch x := ins.(type) {
							case *ssa.UnOp, *ssa.Store, *ssa.DebugRef, *ssa.MakeClosure:
							case *ssa.Slice:
							case *ssa.Call:
								n, _ := callMethodName(x)
								if n != "Read" {
									if bi, isB := x.Call.Value.(*ssa.Builtin); !isB || (bi.Name() != "clear" && bi.Name() != "append") {
										ok, d = false, fmt.Sprintf("the read buffer is also used by %s at %s", c.constructOf(fn, ins), c.P.RelPos(ins.Pos()))
									}
								}
							default:
								_ = x
							}
						}
					}
				}
			}
		}
		st := report.Discharged
		if !ok {
			st = report.Violated
		}
		R.Add("S.read-append", shortFn(run), c.P.RelPos(run.Pos()), st, d)
	}
}

// defaultHandlerFieldType: the concrete type of field `name` of the BaseJT808DataHandler instantiation embedded in standardJT808DataHandle.
func (c *Ctx) defaultHandlerFieldType(name string) types.Type {
	p := c.P.Pkg("attachment")
	if p == nil {
		return nil
	}
	obj := p.Pkg.Scope().Lookup("standardJT808DataHandle")
	if obj == nil {
		return nil
	}
	st, ok := obj.Type().Underlying().(*types.Struct)
	if !ok {
		return nil
	}
	for i := 0; i < st.NumFields(); i++ {
		if !st.Field(i).Embedded() {
			continue
		}
		es, ok := st.Field(i).Type().Underlying().(*types.Struct)
		if !ok {
			continue
		}
		for j := 0; j < es.NumFields(); j++ {
			if es.Field(j).Name() == name {
				return es.Field(j).Type()
			}
		}
	}
	return nil
}

// chunkStageRule: whether the read loop answers is decided from the progress stage alone, after every extracted item.
// So every successful return of the chunk step must leave a stage for which hasJT808Reply() is false; otherwise the
// previous control frame's reply is sent again for each chunk (stale 0x9212 while the terminal is resending).
func (c *Ctx) chunkStageRule(rule string, stage *ssa.Function, r *E1Result) {
	R := c.R
	hr := c.P.Method("attachment", "PackageProgress", "hasJT808Reply")
	if hr == nil {
		R.Fatal("anchor PackageProgress.hasJT808Reply not found")
		return
	}
	// the stages that are answered, by evaluating hasJT808Reply for every stage constant
	answered := map[int64]string{}
	for k := int64(0); k < 16; k++ {
		name := c.stageName(k)
		if name == "" {
			continue
		}
		a := c.NewE1(pkgOf(hr), false)
		st := absint.NewState()
		recv := a.Unknown(hr.Params[0].Type(), "p", st)
		a.StoreField(st, recv, hr.Params[0].Type(), "ProgressStage", absint.Int{L: absint.Const(k)})
		_, rets := a.RunEntry(hr, st, []absint.Term{recv}, nil)
		for _, rt := range absint.Rets(rets) {
			if a.Render(rt.Val) != "false" {
				answered[k] = name
			}
		}
	}
	if len(answered) == 0 {
		R.Fatal("hasJT808Reply answers no stage (anchor)")
		return
	}
	n, ok, d := 0, true, ""
	for _, ret := range r.Rets {
		if _, isNil := ret.Val.(absint.NilT); !isNil {
			if ifc, isI := ret.Val.(*absint.Iface); !isI || ifc.Val != nil {
				continue
			}
		}
		n++
		sv, _ := r.A.LoadField(ret.St, r.Recv, stage.Params[0].Type(), "ProgressStage")
		si, isInt := sv.(absint.Int)
		if !isInt {
			ok, d = false, "the stage after a chunk is not an integer term"
			continue
		}
		for k, name := range answered {
			if ret.St.Feasible(absint.Con{L: si.L.AddC(-k), Rel: absint.EQ}) {
				ok = false
				d = fmt.Sprintf("after a chunk was taken from the buffer the stage can be %s, for which hasJT808Reply() is true: the reply to the previous control frame is written again for this chunk", name)
			}
		}
	}
	st := report.Discharged
	if !ok || n == 0 {
		st = report.Violated
		if n == 0 {
			d = "no successful return of the chunk step analysed"
		}
	}
	R.Add(rule, shortFn(stage)+" / a chunk leaves a stage that is not answered", c.P.RelPos(stage.Pos()), st, d)
}

// chunkStageStandalone runs the chunk step once (default handlers) and applies chunkStageRule.
func (c *Ctx) chunkStageStandalone(rule string) {
	stage := c.P.Method("attachment", "PackageProgress", "stageStreamData")
	if stage == nil {
		c.R.Fatal("anchor PackageProgress.stageStreamData not found")
		return
	}
	res := c.RunE1([]*ssa.Function{stage}, false, func(a *absint.Analyzer, f *ssa.Function, st *absint.State, args []absint.Term) {
		a.NoExternalImpl = func(t types.Type) bool { return true }
	})
	for _, u := range dedupe(res[0].Undecided) {
		c.R.Add("E1.undecided", shortFn(stage)+" / "+u, "", report.Undecided, u)
	}
	c.chunkStageRule(rule, stage, res[0])
}

// familyOf: fn, the functions of its package it calls statically (transitively, a few levels) and their function
// literals: the code a rule about "what fn does" has to look at when the body is split into helpers.
func (c *Ctx) familyOf(fn *ssa.Function) []*ssa.Function {
	seen := map[*ssa.Function]bool{}
	var out []*ssa.Function
	var add func(f *ssa.Function, depth int)
	add = func(f *ssa.Function, depth int) {
		if f == nil || seen[f] || depth > 3 || len(f.Blocks) == 0 {
			return
		}
		seen[f] = true
		out = append(out, f)
		for _, an := range f.AnonFuncs {
			add(an, depth)
		}
		for _, b := range f.Blocks {
			for _, ins := range b.Instrs {
				if ci, ok := ins.(ssa.CallInstruction); ok {
					if sc := ci.Common().StaticCallee(); sc != nil && c.P.IsRepoFunc(sc) && pkgOf(sc) == pkgOf(fn) {
						add(sc, depth+1)
					}
				}
			}
		}
	}
	add(fn, 0)
	return out
}

// chunkClassification: the chunk step tells its caller two different things and the read loop acts on them: "this is
// not a chunk" (the control-frame parser gets the buffer) and "a chunk has started but is not complete" (wait for more
// data). Decided by following the two probe results through the control flow of the chunk step:
// every path on which the marker probe answered false ends in the not-a-chunk error, every path on which the
// minimum-header probe answered false ends in the wait error.
func (c *Ctx) chunkClassification(stage *ssa.Function) {
	R := c.R
	R.Rules["T.classify"] = "the chunk step answers 'not a chunk' exactly when the marker probe (HasStreamData) fails, and 'wait for more data' when the marker is there but the header is still incomplete (HasMinHeadLen fails): a started chunk whose header is split across reads is never handed to the control-frame parser (a 0x7e inside the partial header would be taken for a frame delimiter and abort the session)"
	type probe struct {
		method, want, other, what string
	}
	probes := []probe{
		{"HasStreamData", "_errNotStreamData", "ErrInsufficientDataLen", "the buffer does not start with the chunk marker: the not-a-chunk error"},
		{"HasMinHeadLen", "ErrInsufficientDataLen", "_errNotStreamData", "a chunk has started but its header is incomplete: the wait-for-more-data error"},
	}
	for _, pr := range probes {
		n := 0
		for _, f := range c.familyOf(stage) {
			for _, b := range f.Blocks {
				for i, ins := range b.Instrs {
					call, isC := ins.(*ssa.Call)
					if !isC || !call.Call.IsInvoke() || call.Call.Method.Name() != pr.method {
						continue
					}
					n++
					var bad []string
					nRet := 0
					type key struct {
						b, prev *ssa.BasicBlock
					}
					seen := map[key]bool{}
					var walk func(blk, prev *ssa.BasicBlock, from int, env map[ssa.Value]bool)
					walk = func(blk, prev *ssa.BasicBlock, from int, env map[ssa.Value]bool) {
						if from == 0 {
							if seen[key{blk, prev}] {
								return
							}
							seen[key{blk, prev}] = true
						}
						e2 := map[ssa.Value]bool{}
						for k, v := range env {
							e2[k] = v
						}
						env = e2
						val := func(v ssa.Value) (bool, bool) {
							if k, isK := v.(*ssa.Const); isK && k.Value != nil && k.Value.Kind() == constant.Bool {
								return constant.BoolVal(k.Value), true
							}
							x, ok := env[v]
							return x, ok
						}
						for _, i2 := range blk.Instrs[from:] {
							switch x := i2.(type) {
							case *ssa.Phi:
								for ei, p := range blk.Preds {
									if p == prev {
										if v, ok := val(x.Edges[ei]); ok {
											env[x] = v
										}
									}
								}
							case *ssa.UnOp:
								if x.Op == token.NOT {
									if v, ok := val(x.X); ok {
										env[x] = !v
									}
								}
							case *ssa.If:
								if v, ok := val(x.Cond); ok {
									if v {
										walk(blk.Succs[0], blk, 0, env)
									} else {
										walk(blk.Succs[1], blk, 0, env)
									}
								} else {
									walk(blk.Succs[0], blk, 0, env)
									walk(blk.Succs[1], blk, 0, env)
								}
								return
							case *ssa.Jump:
								walk(blk.Succs[0], blk, 0, env)
								return
							case *ssa.Return:
								nRet++
								if len(x.Results) == 0 {
									bad = append(bad, c.P.RelPos(x.Pos()))
									return
								}
								rv := x.Results[len(x.Results)-1]
								// a named / defer-spilled result: the value stored last before the return, in this block
								if ld, isLd := rv.(*ssa.UnOp); isLd {
									if cell, isAl := ld.X.(*ssa.Alloc); isAl {
										for k := len(blk.Instrs) - 1; k >= 0; k-- {
											if st, isSt := blk.Instrs[k].(*ssa.Store); isSt && st.Addr == ssa.Value(cell) {
												rv = st.Val
												break
											}
										}
									}
								}
								if !c.mentionsGlobal(rv, pr.want) || c.mentionsGlobal(rv, pr.other) {
									bad = append(bad, c.P.RelPos(x.Pos()))
								}
								return
							}
						}
					}
					walk(b, nil, i+1, map[ssa.Value]bool{call: false})
					st, d := report.Discharged, ""
					if len(bad) > 0 {
						st, d = report.Violated, fmt.Sprintf("after %s answered false the chunk step can return at %v with something other than %s", pr.method, dedupe(bad), pr.what)
					} else if nRet == 0 {
						st, d = report.Undecided, "no return reached from the probe"
					}
					R.Add("T.classify", fmt.Sprintf("%s / %s false", shortFn(f), pr.method), c.P.RelPos(call.Pos()), st, d)
				}
			}
		}
		if n == 0 {
			R.Add("T.classify", shortFn(stage)+" / "+pr.method+" probe", c.P.RelPos(stage.Pos()), report.Violated, "the chunk step does not consult "+pr.method)
		}
	}
	R.Require("T.classify", 2, "")
}
