package checks

import (
	"fmt"
	"go/types"
	"os"
	"sort"
	"strings"

	"golang.org/x/tools/go/ssa"

	"jtverif/internal/absint"
	"jtverif/internal/report"
)

func init() {
	register(&Check{ID: "C03", Level: "other", Run: runC03})
}

// decoderEntries finds the decoder entry points by role (signature + name).
func (c *Ctx) decoderEntries() (bodyParsers, extParsers, frame []*ssa.Function) {
	for _, f := range c.MethodsNamed("protocol/model", "Parse") {
		sig := f.Signature
		switch {
		case sig.Params().Len() == 1 && sig.Results().Len() == 1 && strings.HasSuffix(sig.Params().At(0).Type().String(), "jt808.JTMessage"):
			bodyParsers = append(bodyParsers, f)
		case sig.Params().Len() == 2 && sig.Results().Len() == 2:
			extParsers = append(extParsers, f)
		}
	}
	if f := c.P.Method("protocol/jt808", "JTMessage", "Decode"); f != nil {
		frame = append(frame, f)
	}
	if f := c.P.Method("protocol/jt1078", "Packet", "Decode"); f != nil {
		frame = append(frame, f)
	}
	return
}

// preJTMsg: the message handed to a body parser is what the frame decoder produces: the
// header's protocol version is one of 2011/2013/2019 (1..3).
func preJTMsg(a *absint.Analyzer, fn *ssa.Function, st *absint.State, args []absint.Term) {
	for i, p := range fn.Params {
		pt, ok := p.Type().Underlying().(*types.Pointer)
		if !ok || !strings.HasSuffix(pt.Elem().String(), "jt808.JTMessage") {
			continue
		}
		h, ht := a.LoadField(st, args[i], p.Type(), "Header")
		if h == nil {
			continue
		}
		if hp, ok := h.(*absint.Ptr); ok {
			hp.NilUnk = false
		}
		v, _ := a.LoadField(st, h, ht, "ProtocolVersion")
		absint.AssumeRange(st, v, 1, 3)
		if pr, prt := a.LoadField(st, h, ht, "Property"); pr != nil {
			if pp, ok := pr.(*absint.Ptr); ok {
				pp.NilUnk = false
			}
			_ = prt
		}
	}
}

func isSuccess(fn *ssa.Function, val absint.Term) bool {
	res := fn.Signature.Results()
	if res.Len() == 0 {
		return true
	}
	last := res.At(res.Len() - 1).Type()
	v := val
	if res.Len() > 1 {
		tu, ok := val.(*absint.Tuple)
		if !ok {
			return true
		}
		v = tu.Elems[res.Len()-1]
	}
	if types.Identical(last, types.Universe.Lookup("error").Type()) {
		switch x := v.(type) {
		case absint.NilT:
			return true
		case *absint.Unknown:
			return x.Nilness != 1
		}
		return false
	}
	if b, ok := v.(*absint.Bool); ok && b.Kind == absint.BConst {
		return b.Val
	}
	return true
}

// e2Evaluate applies the history-independence rule to one analysed decoder entry.
func (c *Ctx) e2Evaluate(r *E1Result, recv absint.Term) {
	rp, ok := recv.(*absint.Ptr)
	if !ok {
		return
	}
	c.e2EvaluateObjs(r, map[int]string{rp.Obj.ID: ""})
}

// e2EvaluateObjs: objs maps tracked object ids to a display prefix.
func (c *Ctx) e2EvaluateObjs(r *E1Result, objs map[int]string) {
	a := r.A
	fnName := shortFn(r.Fn)
	// output fields: receiver locations that some return leaves different from what the call
	// found there (a location that is only ever written back unchanged is configuration)
	changed := map[absint.Loc]bool{}
	for _, ret := range r.Rets {
		for l := range a.Stored {
			if _, tracked := objs[l.Obj]; !tracked {
				continue
			}
			if v, present := absint.HeapValue(ret.St, l); present {
				if it, ok := a.InitTerm(l); !ok || it.TKey() != v.TKey() {
					changed[l] = true
					if os.Getenv("JTVERIF_DEBUGE2") != "" && strings.Contains(l.Path, "ActiveSafetyType") {
						ik := "<none>"
						if ok {
							ik = it.TKey()
						}
						fmt.Printf("E2DBG %s %s init=%s val=%s trace=%v\n", fnName, l.Path, ik, v.TKey(), ret.St.Trace)
					}
				}
			}
		}
	}
	var stored []absint.Loc
	for l := range changed {
		stored = append(stored, l)
	}
	sort.Slice(stored, func(i, j int) bool { return stored[i].Path < stored[j].Path })
	relevant := func(srcs map[absint.Loc]bool) []string {
		var out []string
		for s := range srcs {
			if pre, tracked := objs[s.Obj]; tracked && absint.Covers(changed, s) {
				out = append(out, pre+absint.PrettyLoc(s))
			}
		}
		sort.Strings(out)
		return out
	}
	nSucc := 0
	type agg struct {
		st     report.Status
		detail string
	}
	res := map[string]*agg{}
	set := func(field string, st report.Status, detail string) {
		g, ok := res[field]
		if !ok {
			g = &agg{}
			res[field] = g
		}
		if st > g.st {
			g.st, g.detail = st, detail
		}
	}
	for _, ret := range r.Rets {
		if !isSuccess(r.Fn, ret.Val) {
			continue
		}
		nSucc++
		for _, l := range stored {
			f := objs[l.Obj] + absint.PrettyLoc(l)
			v, present := absint.HeapValue(ret.St, l)
			if !present {
				set(f, report.Violated, fmt.Sprintf("field %s is written on some paths of %s but a successful return exists on which it keeps whatever an earlier parse left (path: %s)", f, fnName, strings.Join(ret.St.Trace, " → ")))
				continue
			}
			if src := relevant(a.Sources(v)); len(src) > 0 {
				set(f, report.Violated, fmt.Sprintf("on a successful return of %s field %s holds a value derived from the receiver's previous content (%s) (path: %s)", fnName, f, strings.Join(src, ", "), strings.Join(ret.St.Trace, " → ")))
				continue
			}
			set(f, report.Discharged, "")
		}
	}
	for f, g := range res {
		c.R.Add("E2.field", fnName+" / "+f, c.P.RelPos(r.Fn.Pos()), g.st, g.detail)
	}
	// branches on stale receiver state
	seen := map[string]bool{}
	for _, tb := range a.TaintBranches {
		var srcs []string
		for _, s := range tb.Srcs {
			if pre, tracked := objs[s.Obj]; tracked && absint.Covers(changed, s) {
				srcs = append(srcs, pre+absint.PrettyLoc(s))
			}
		}
		if len(srcs) == 0 {
			continue
		}
		key := shortFn(tb.Fn) + " / " + a.Construct(tb.Fn, tb.Instr) + " / reads " + strings.Join(srcs, ",")
		if seen[key] {
			continue
		}
		seen[key] = true
		c.R.Add("E2.branch", key, c.P.RelPos(tb.Instr.Pos()), report.Violated,
			fmt.Sprintf("entry %s: control flow depends on receiver field(s) %s before this call has written them (call path %s)", fnName, strings.Join(srcs, ","), tb.Ctx))
	}
	e1Failed := false
	for _, o := range r.Obls {
		if !o.OK {
			e1Failed = true
		}
	}
	if nSucc == 0 && !e1Failed {
		c.R.Add("E2.field", fnName+" / (no successful return found)", c.P.RelPos(r.Fn.Pos()), report.Undecided, "no return state classified as success")
	}
}

func runC03(c *Ctx) {
	c.E1Rules()
	c.E1Assumptions()
	c.R.Rules["E2.field"] = "every receiver field that a decoder writes on some path is written, from this call's input only, on every successful path (no value survives from an earlier parse)"
	c.R.Rules["E2.branch"] = "no branch of a decoder depends on a receiver field the decoder itself writes before this call has written it"
	body, ext, frame := c.decoderEntries()
	c.R.Notes["entries_body_parsers"] = len(body)
	c.R.Notes["entries_extension_parsers"] = len(ext)
	c.R.Notes["entries_frame_decoders"] = len(frame)
	if len(body) < 34 {
		c.R.Fatal("only %d body parsers found (expected >= 34)", len(body))
	}
	if len(ext) < 5 {
		c.R.Fatal("only %d extension parsers found (expected >= 5)", len(ext))
	}
	if len(frame) != 2 {
		c.R.Fatal("frame decoders JTMessage.Decode / Packet.Decode not found")
	}
	var entries []*ssa.Function
	entries = append(entries, body...)
	entries = append(entries, ext...)
	entries = append(entries, frame...)
	recvs := make(map[*ssa.Function]map[int]string)
	allocSeen, allocPos, allocWhy := map[string]bool{}, map[string]string{}, map[string]string{}
	var mu = &c.mu
	results := c.RunE1(entries, false, func(a *absint.Analyzer, fn *ssa.Function, st *absint.State, args []absint.Term) {
		preJTMsg(a, fn, st, args)
		a.TrackObj(st, args[0], fn.Params[0].Type())
		objs := map[int]string{args[0].(*absint.Ptr).Obj.ID: ""}
		if fn.Name() == "Decode" && strings.HasSuffix(fn.Params[0].Type().String(), "jt808.JTMessage") {
			// the frame decoder's outputs live in *Header and *BodyProperty
			if hp := a.TrackField(st, args[0], fn.Params[0].Type(), "Header"); hp != nil {
				objs[hp.Obj.ID] = "Header."
				ht, _ := a.LoadField(st, args[0], fn.Params[0].Type(), "Header")
				_ = ht
				if _, hft := a.LoadField(st, args[0], fn.Params[0].Type(), "Header"); hft != nil {
					if pp := a.TrackField(st, hp, hft, "Property"); pp != nil {
						objs[pp.Obj.ID] = "Header.Property."
					}
				}
			}
		}
		mu.Lock()
		recvs[fn] = objs
		mu.Unlock()
		// allocation sizes: what a decoder allocates is bounded by what it was given. The input lengths: byte-slice
		// parameters and the Body of a *JTMessage parameter.
		var inputs []absint.Lin
		for i, p := range fn.Params {
			if s, isS := args[i].(*absint.Slice); isS {
				inputs = append(inputs, s.Len)
				continue
			}
			if pt, isP := p.Type().Underlying().(*types.Pointer); isP && strings.HasSuffix(pt.Elem().String(), "jt808.JTMessage") {
				if bt, _ := a.LoadField(st, args[i], p.Type(), "Body"); bt != nil {
					if bs, isS := bt.(*absint.Slice); isS {
						inputs = append(inputs, bs.Len)
					}
				}
			}
		}
		entry := fn
		a.OnMake = func(f *ssa.Function, site *ssa.MakeSlice, st *absint.State, length, capacity absint.Lin) {
			ok := capacity.IsConst() || st.Cons.UpperBoundLE(capacity, 1<<16)
			for _, in := range inputs {
				if st.Cons.EntailsGE(in.Scale(8).AddC(64).Sub(capacity)) {
					ok = true
				}
			}
			key := shortFn(entry) + " / " + c.constructOf(f, site)
			mu.Lock()
			defer mu.Unlock()
			if prev, seen := allocSeen[key]; seen && !prev {
				return // already reported as unbounded on another path
			}
			allocSeen[key] = ok
			allocPos[key] = c.P.RelPos(site.Pos())
			if !ok {
				allocWhy[key] = fmt.Sprintf("make with capacity %s: not bounded by a constant, by 65536, or by 8*len(input)+64 on this path - the size comes from a field of the input that has not been checked against the bytes present, so one short frame makes the decoder allocate (and keep) as much as the field says", a.Render(absint.Int{L: capacity}))
			}
		}
	})
	c.R.Rules["E1.alloc"] = "what a decoder allocates is bounded by what it was given: the capacity of every make in a decoder entry (helpers inlined) is a constant, at most 65536 by the range of its type, or entailed to be at most 8*len(input)+64 by the checks that precede it (a count field must be validated against the body length before it sizes an allocation)"
	for key, ok := range allocSeen {
		st := report.Discharged
		if !ok {
			st = report.Violated
		}
		c.R.Add("E1.alloc", key, allocPos[key], st, allocWhy[key])
	}
	c.R.Require("E1.alloc", 5, "")
	n := c.AddE1(results, false)
	c.R.Notes["e1_obligation_instances"] = n
	assumed := map[string]int{}
	analysed := map[string]bool{}
	for _, r := range results {
		c.e2EvaluateObjs(r, recvs[r.Fn])
		for k, v := range r.A.AssumedTotal {
			assumed[k] += v
		}
		for f := range r.A.Analysed {
			analysed[shortFn(f)] = true
		}
	}
	c.R.Notes["assumed_total"] = sortedKeys(assumed)
	c.R.Notes["functions_analysed"] = len(analysed)
	// String() methods: informational only (DESIGN C03-D)
	var strs []*ssa.Function
	for _, f := range c.MethodsNamed("protocol/model", "String") {
		strs = append(strs, f)
	}
	sres := c.RunE1(strs, false, nil)
	// Clause D. String() is interpreted with an ARBITRARY receiver, which is more than the property asks (it asks for
	// parsed values only): whatever is proven this way holds for parsed values too, so those obligations are armed.
	// Three re-slices of the value's own re-encoding are safe only for field lengths that Parse establishes; they stay
	// informational (one line of reason each).
	needsParsed := map[string]string{
		"(*protocol/model.T0x0100).String":             "re-slices its own Encode() at offsets computed from the parsed manufacturer/model/ID lengths",
		"(*protocol/model.T0x0102).String":             "re-slices its own Encode() behind AuthCodeLen, which equals len(AuthCode) only for parsed values",
		"(*protocol/model.T0x0200LocationItem).String": "re-slices its own Encode() at the fixed BCD time window, 6 bytes only for a parsed DateTime",
	}
	c.R.Rules["E1.text"] = "String() of every message type is free of index/slice/nil/conversion panics for an arbitrary receiver (a superset of the parsed values the property quantifies over), including the helpers it calls (Time2BCD, BCD2Time, Bcd2Dec, …)"
	nArmed, nInfo := 0, 0
	for _, r := range sres {
		for _, o := range r.Obls {
			key := r.A.Key(o)
			st, detail := report.Discharged, ""
			if !o.OK {
				st = report.Violated
				detail = "entry: " + shortFn(r.Fn) + "\ncall path: " + o.Ctx + "\n" + o.Detail
			}
			why, exempt := "", false
			for f, w := range needsParsed {
				if o.Rule == "E1.slice" && strings.HasPrefix(key, f+" / ") {
					why, exempt = w, true
				}
			}
			if exempt {
				nInfo++
				if detail != "" {
					detail += "\n(informational: " + why + ")"
				}
				c.R.AddInfo(o.Rule, key, c.P.RelPos(o.Instr.Pos()), st, detail)
				continue
			}
			nArmed++
			c.R.Add(o.Rule, key, c.P.RelPos(o.Instr.Pos()), st, detail)
		}
		for _, u := range dedupe(r.Undecided) {
			c.R.Add("E1.undecided", shortFn(r.Fn)+" / "+u, "", report.Undecided, u)
		}
	}
	c.R.Notes["string_methods"] = len(strs)
	c.R.Notes["string_obligation_instances_armed"] = nArmed
	c.R.Notes["string_obligation_instances_informational"] = nInfo
	if len(strs) < 40 {
		c.R.Fatal("only %d String() methods found in protocol/model (confirmed by hand: 47)", len(strs))
	}
	c.R.Require("E1.index", 60, "")
	c.R.Require("E1.slice", 150, "")
	c.R.Require("E1.precond", 60, "")
	c.R.Require("E2.field", 100, "")
	c.narrowArith(nil, 30, false)
	c.R.Explain = "Clause A (no panic, no read beyond len) by abstract interpretation of every decoder entry point with arbitrary body bytes, " +
		"arbitrary receiver contents, every dialect and version (selectors are unconstrained receiver/header fields); clause B follows from A because " +
		"re-slices are proven against len, never cap; clause C (history independence) by taint tracking of the receiver's initial contents to " +
		"successful returns and to branch conditions. clause D (String() totality) by abstract interpretation of every String() method with an arbitrary receiver, helpers included; three re-slices that are safe only for parsed field lengths are reported as informational. Termination is decided only for loops guarded by a counter compared with an invariant bound (E1.progress: the counter advances on every path back to the head); other loops are not decided."
}

func sortedKeys(m map[string]int) []string {
	var out []string
	for k := range m {
		out = append(out, k)
	}
	sort.Strings(out)
	return out
}
