package checks

import (
	"fmt"
	"go/token"
	"go/types"
	"sort"
	"strconv"
	"strings"

	"golang.org/x/tools/go/ssa"

	"jtverif/internal/absint"
	"jtverif/internal/report"
)

func init() {
	register(&Check{ID: "C06", Level: "other", Run: runC06})
}

type repliesSpec struct {
	Registry map[string]struct {
		Hex      string `json:"hex"`
		HasReply bool   `json:"has_reply"`
		Reply    *int64 `json:"reply"`
	} `json:"registry"`
}

// constResult runs a parameterless method of a model type and returns its single constant result.
func (c *Ctx) constResult(typ types.Type, method string) (string, bool) {
	var fn *ssa.Function
	ms := c.P.SSA.MethodSets.MethodSet(typ)
	for i := 0; i < ms.Len(); i++ {
		if ms.At(i).Obj().Name() == method {
			fn = c.P.SSA.MethodValue(ms.At(i))
		}
	}
	if fn == nil {
		return "", false
	}
	a := c.NewE1(pkgOf(fn), false)
	_, rets := a.DefaultEntry(fn)
	vals := map[string]bool{}
	for _, r := range absint.Rets(rets) {
		vals[a.Render(r.Val)] = true
	}
	if len(vals) != 1 {
		return fmt.Sprint(vals), false
	}
	for v := range vals {
		return v, true
	}
	return "", false
}

// pathsFromMustHit: every path from instruction `from` to a return passes an instruction satisfying pred.
func pathsFromMustHit(from ssa.Instruction, pred func(ssa.Instruction) bool) bool {
	b := from.Block()
	idx := 0
	for i, ins := range b.Instrs {
		if ins == from {
			idx = i + 1
		}
	}
	seen := map[*ssa.BasicBlock]bool{}
	var walk func(blk *ssa.BasicBlock, start int) bool // true = found a path to return without hit
	walk = func(blk *ssa.BasicBlock, start int) bool {
		for k := start; k < len(blk.Instrs); k++ {
			if pred(blk.Instrs[k]) {
				return false
			}
			if _, isRet := blk.Instrs[k].(*ssa.Return); isRet {
				return true
			}
		}
		for _, s := range blk.Succs {
			if seen[s] {
				continue
			}
			seen[s] = true
			if walk(s, 0) {
				return true
			}
		}
		return false
	}
	return !walk(b, idx)
}

func isConnWrite(ins ssa.Instruction) bool {
	call, ok := ins.(*ssa.Call)
	if !ok {
		return false
	}
	n := calleeName(&call.Call)
	return strings.HasSuffix(n, ").Write") && strings.Contains(n, "net.")
}

func runC06(c *Ctx) {
	c.E1Rules()
	c.E1Assumptions()
	R := c.R
	R.Rules["E6.reply-table"] = "for every ID of the default registry, HasReply() and ReplyProtocol() of the registered type (through embedding) equal the standard's reply table (spec/replies.json); the registry has exactly the table's IDs"
	R.Rules["E6.echo"] = "each reply body echoes the request: 0x8001 serial/ID/result (0x0102: result 0 only when the authentication code equals the phone), 0x8100 serial/result/auth code, 0x8800 the parsed multimedia ID"
	R.Rules["S.serial-per-write"] = "in every function that writes a frame, a serial drawn from the generator is followed by a write on every path, is stored into the header before Encode, and the written bytes are Encode's result for the request's own header"
	R.Rules["S.single-consumer"] = "the message channel has a single receive site, in the writer; every socket write of the service happens in the writer goroutine role"
	R.Rules["S.unsupported"] = "a message whose ID has no handler is reported and neither forwarded to the writer nor answered"
	R.Rules["S.per-connection-handlers"] = "every accepted connection gets handler objects of its own (the default handler table is created inside the accept loop): handlers parse into their receiver"
	R.Rules["S.callbacks"] = "write callbacks run after the socket write with the bytes written"
	var spec repliesSpec
	if !c.loadSpec("replies.json", &spec) {
		return
	}
	mk := c.NamedFunc("service", "createDefaultHandle")
	if mk == nil {
		R.Fatal("anchor GoJT808.createDefaultHandle not found")
		return
	}
	// ---- 1. registry → reply table
	type reg struct {
		typ types.Type
	}
	registry := map[int64]reg{}
	res := c.RunE1([]*ssa.Function{mk}, false, func(a *absint.Analyzer, fn *ssa.Function, st *absint.State, args []absint.Term) {
		a.OnMapUpdate = func(f *ssa.Function, ins *ssa.MapUpdate, st *absint.State, m, k, v absint.Term) {
			if f != mk {
				return
			}
			kv, ok := k.(absint.Int)
			if !ok || !kv.L.IsConst() {
				return
			}
			ifc, ok := v.(*absint.Iface)
			if !ok {
				return
			}
			inner, _ := a.LoadField(st, ifc.Val, ifc.Typ, "JT808Handler")
			if in, ok := inner.(*absint.Iface); ok {
				registry[kv.L.C] = reg{in.Typ}
			}
		}
	})
	c.AddE1(res, false)
	ids := make([]string, 0, len(spec.Registry))
	for id := range spec.Registry {
		ids = append(ids, id)
	}
	sort.Strings(ids)
	for _, ids := range ids {
		id, _ := strconv.ParseInt(ids, 10, 64)
		want := spec.Registry[ids]
		key := fmt.Sprintf("registry / %s", want.Hex)
		rg, ok := registry[id]
		if !ok {
			R.Add("E6.reply-table", key, c.P.RelPos(mk.Pos()), report.Violated, "the default registry has no handler for "+want.Hex)
			continue
		}
		hr, ok1 := c.constResult(rg.typ, "HasReply")
		rp, ok2 := c.constResult(rg.typ, "ReplyProtocol")
		st, d := report.Discharged, ""
		if !ok1 || !ok2 {
			st, d = report.Undecided, fmt.Sprintf("HasReply/ReplyProtocol of %s are not constants: %s / %s", rg.typ, hr, rp)
		} else {
			if hr != fmt.Sprint(want.HasReply) {
				st, d = report.Violated, fmt.Sprintf("%s (%s): HasReply() is %s, the reply table says %v", want.Hex, rg.typ, hr, want.HasReply)
			} else if want.HasReply && want.Reply != nil && rp != fmt.Sprint(*want.Reply) {
				st, d = report.Violated, fmt.Sprintf("%s (%s): ReplyProtocol() is %s, the reply table says 0x%04x", want.Hex, rg.typ, rp, *want.Reply)
			}
		}
		R.Add("E6.reply-table", key, c.P.RelPos(mk.Pos()), st, d)
	}
	for id, rg := range registry {
		if _, ok := spec.Registry[fmt.Sprint(id)]; !ok {
			R.Add("E6.reply-table", fmt.Sprintf("registry / 0x%04x (not in the table)", id), c.P.RelPos(mk.Pos()), report.Violated, fmt.Sprintf("the registry handles 0x%04x with %s; the reply table does not know it", id, rg.typ))
		}
	}
	// ---- 2. echo flows
	echo := func(typName, replyType string, check func(a *absint.Analyzer, st *absint.State, recv absint.Term, jt absint.Term, enc absint.Term, encT types.Type) (bool, string)) {
		fn := c.P.Method("protocol/model", typName, "ReplyBody")
		encFn := c.P.Method("protocol/model", replyType, "Encode")
		if fn == nil || encFn == nil {
			R.Fatal("anchors %s.ReplyBody / %s.Encode not found", typName, replyType)
			return
		}
		type obs struct {
			ok bool
			d  string
		}
		var seen []obs
		var recv, jt absint.Term
		rs := c.RunE1([]*ssa.Function{fn}, false, func(a *absint.Analyzer, f *ssa.Function, st *absint.State, args []absint.Term) {
			preJTMsg(a, f, st, args)
			recv, jt = args[0], args[1]
			a.OnCall = func(a *absint.Analyzer, st *absint.State, site ssa.CallInstruction, callee *ssa.Function, cargs []absint.Term) {
				if callee == encFn {
					ok, d := check(a, st, recv, jt, cargs[0], encFn.Params[0].Type())
					seen = append(seen, obs{ok, d})
				}
			}
		})
		c.AddE1(rs, false)
		st, d := report.Discharged, ""
		if len(seen) == 0 {
			st, d = report.Violated, typName+".ReplyBody never builds a "+replyType
		}
		for _, o := range seen {
			if !o.ok {
				st, d = report.Violated, o.d
			}
		}
		R.Add("E6.echo", shortFn(fn)+" → "+replyType, c.P.RelPos(fn.Pos()), st, d)
	}
	hdr := func(a *absint.Analyzer, st *absint.State, jt absint.Term, jtT types.Type, f string) absint.Term {
		return findField(a, st, jt, jtT, []string{"Header", "*", f})
	}
	same := func(x, y absint.Term) bool { return x != nil && y != nil && x.TKey() == y.TKey() }
	jtType := func(fn *ssa.Function) types.Type { return fn.Params[1].Type() }
	baseFn := c.P.Method("protocol/model", "BaseHandle", "ReplyBody")
	if baseFn != nil {
		echo("BaseHandle", "P0x8001", func(a *absint.Analyzer, st *absint.State, recv, jt, enc absint.Term, encT types.Type) (bool, string) {
			s := findField(a, st, enc, encT, []string{"RespondSerialNumber"})
			id := findField(a, st, enc, encT, []string{"RespondID"})
			r := findField(a, st, enc, encT, []string{"Result"})
			ok := same(s, hdr(a, st, jt, jtType(baseFn), "SerialNumber")) && same(id, hdr(a, st, jt, jtType(baseFn), "ID")) && a.Render(r) == "0"
			return ok, fmt.Sprintf("general response: serial=%s id=%s result=%s; expected the request's serial, ID and 0", a.Render(s), a.Render(id), a.Render(r))
		})
	}
	if f := c.P.Method("protocol/model", "T0x0100", "ReplyBody"); f != nil {
		echo("T0x0100", "P0x8100", func(a *absint.Analyzer, st *absint.State, recv, jt, enc absint.Term, encT types.Type) (bool, string) {
			s := findField(a, st, enc, encT, []string{"RespondSerialNumber"})
			r := findField(a, st, enc, encT, []string{"Result"})
			ac := findField(a, st, enc, encT, []string{"AuthCode"})
			ok := same(s, hdr(a, st, jt, jtType(f), "SerialNumber")) && a.Render(r) == "0" && same(ac, hdr(a, st, jt, jtType(f), "TerminalPhoneNo"))
			return ok, fmt.Sprintf("register response: serial=%s result=%s auth=%s; expected the request's serial, 0, the terminal phone", a.Render(s), a.Render(r), a.Render(ac))
		})
	}
	if f := c.P.Method("protocol/model", "T0x0102", "ReplyBody"); f != nil {
		echo("T0x0102", "P0x8001", func(a *absint.Analyzer, st *absint.State, recv, jt, enc absint.Term, encT types.Type) (bool, string) {
			s := findField(a, st, enc, encT, []string{"RespondSerialNumber"})
			id := findField(a, st, enc, encT, []string{"RespondID"})
			r := a.Render(findField(a, st, enc, encT, []string{"Result"}))
			ok := same(s, hdr(a, st, jt, jtType(f), "SerialNumber")) && same(id, hdr(a, st, jt, jtType(f), "ID"))
			// result 0 exactly on the path where phone == auth code compared equal
			eq, known := false, false
			for k, v := range a.BoolFactsRendered(st) {
				if strings.HasPrefix(k, "streq(") {
					eq, known = v, true
				}
			}
			switch r {
			case "0":
				ok = ok && known && eq
			case "1":
				ok = ok && known && !eq
			default:
				ok = false
			}
			return ok, fmt.Sprintf("authentication response: result=%s on a path where phone==authcode is %v (known=%v); serial=%s id=%s", r, eq, known, a.Render(s), a.Render(id))
		})
	}
	if f := c.P.Method("protocol/model", "T0x0801", "ReplyBody"); f != nil {
		echo("T0x0801", "P0x8800", func(a *absint.Analyzer, st *absint.State, recv, jt, enc absint.Term, encT types.Type) (bool, string) {
			m := findField(a, st, enc, encT, []string{"MultimediaID"})
			ok := a.Render(m) == "u32be(jtMsg.Body@0)"
			return ok, fmt.Sprintf("multimedia response carries %s; expected the multimedia ID parsed from the request (u32be(jtMsg.Body@0))", a.Render(m))
		})
	}
	// ---- 2b. the handlers whose reply is computed from parsed fields parse this request only: each connection keeps
	//      one handler object per message type and re-parses into it, so a field that survives from the previous
	//      request (a reset dropped on some path) makes the reply depend on the connection's history
	{
		R.Rules["E2.field"] = "every field that the parser of a reply-computing handler (own ReplyBody: 0x0100, 0x0102, 0x0801) writes on some path is written from this request on every successful path: the reply does not depend on what the same connection sent before"
		R.Rules["E2.branch"] = "no branch of such a parser depends on a field it writes itself before this call has written it"
		var entries []*ssa.Function
		for _, tn := range []string{"T0x0100", "T0x0102", "T0x0801"} {
			rb := c.P.Method("protocol/model", tn, "ReplyBody")
			ps := c.P.Method("protocol/model", tn, "Parse")
			if rb == nil || ps == nil {
				R.Fatal("anchor %s.ReplyBody / Parse not found", tn)
				continue
			}
			entries = append(entries, ps)
		}
		recvs := map[*ssa.Function]map[int]string{}
		res := c.RunE1(entries, false, func(a *absint.Analyzer, fn *ssa.Function, st *absint.State, args []absint.Term) {
			preJTMsg(a, fn, st, args)
			a.TrackObj(st, args[0], fn.Params[0].Type())
			c.mu.Lock()
			recvs[fn] = map[int]string{args[0].(*absint.Ptr).Obj.ID: ""}
			c.mu.Unlock()
		})
		for _, r := range res {
			for _, u := range dedupe(r.Undecided) {
				R.Add("E1.undecided", shortFn(r.Fn)+" / "+u, "", report.Undecided, u)
			}
			c.e2EvaluateObjs(r, recvs[r.Fn])
		}
		R.Require("E2.field", 6, "")
	}
	// ---- 3. serial per write / addressing, in every service function that writes to the socket
	curSeq := c.P.Method("service", "connection", "curSeq")
	ri := c.serviceRoles()
	cw := c.connWrites()
	{
		var ws []string
		for f := range cw.wrappers {
			ws = append(ws, shortFn(f))
		}
		sort.Strings(ws)
		R.Notes["socket_write_wrappers"] = ws
	}
	nWriters := 0
	for _, fn := range c.RepoFuncs("service") {
		if _, isWrapper := cw.wrappers[fn]; isWrapper {
			continue // a call to it is the write (summarised)
		}
		var writes, seqs, encs []*ssa.Call
		for _, b := range fn.Blocks {
			for _, ins := range b.Instrs {
				call, ok := ins.(*ssa.Call)
				if !ok {
					continue
				}
				if cw.is(ins) {
					writes = append(writes, call)
				}
				if call.Call.StaticCallee() == curSeq && curSeq != nil {
					seqs = append(seqs, call)
				}
				if sc := call.Call.StaticCallee(); sc != nil && sc.Name() == "Encode" && strings.Contains(sc.String(), "jt808.Header") {
					encs = append(encs, call)
				}
			}
		}
		if len(writes) == 0 {
			continue
		}
		nWriters++
		name := shortFn(fn)
		ok, d := true, ""
		if len(seqs) != 1 || len(encs) != 1 || len(writes) != 1 {
			ok, d = false, fmt.Sprintf("%d serial draws, %d Encode calls, %d socket writes (expected one of each)", len(seqs), len(encs), len(writes))
		} else {
			if !pathsFromMustHit(seqs[0], cw.is) {
				ok, d = false, "a path draws a platform serial and returns without writing a frame: the serial numbers on the wire get a gap"
			}
			// the serial is stored to header.PlatformSerialNumber before Encode; Encode's receiver is that header
			stored := false
			for _, ref := range *seqs[0].Referrers() {
				if st, isSt := ref.(*ssa.Store); isSt {
					if fa, isFA := st.Addr.(*ssa.FieldAddr); isFA {
						stt := fa.X.Type().Underlying().(*types.Pointer).Elem().Underlying().(*types.Struct)
						if stt.Field(fa.Field).Name() == "PlatformSerialNumber" && fa.X == encs[0].Call.Args[0] && st.Block().Dominates(encs[0].Block()) {
							stored = true
						}
					}
				}
			}
			if ok && !stored {
				ok, d = false, "the drawn serial is not stored into the PlatformSerialNumber of the header that is encoded"
			}
			// written bytes = Encode result
			if wd, _ := cw.site(writes[0]); ok && wd != ssa.Value(encs[0]) {
				ok, d = false, "the bytes written to the socket are not the result of Header.Encode"
			}
		}
		st := report.Discharged
		if !ok {
			st = report.Violated
		}
		R.Add("S.serial-per-write", name, c.P.RelPos(fn.Pos()), st, d)
		// writer role only
		roles := rolesOf(ri, fn)
		okRole := len(roles) == 1 && roles[0] == "writer"
		st = report.Discharged
		if !okRole {
			st = report.Violated
		}
		R.Add("S.single-consumer", name+" / socket write happens in the writer role only", c.P.RelPos(fn.Pos()), st, fmt.Sprintf("roles %v", roles))
		// write callback after the write, with PlatformData = written bytes
		cbAfter := false
		for _, b := range fn.Blocks {
			for _, ins := range b.Instrs {
				if call, isC := ins.(*ssa.Call); isC {
					if sc := call.Call.StaticCallee(); sc != nil && sc.Name() == "onWriteExecutionEvent" {
						if len(writes) == 1 && writes[0].Block().Dominates(b) {
							cbAfter = true
						}
					}
				}
			}
		}
		if fn.Name() != "onActiveEvent" { // commands report through the completion path
			st = report.Discharged
			if !cbAfter {
				st = report.Violated
			}
			R.Add("S.callbacks", name+" / write callback after the socket write", c.P.RelPos(fn.Pos()), st, "onWriteExecutionEvent is not called after (dominated by) the socket write")
		}
	}
	if nWriters < 3 {
		R.Fatal("only %d socket-writing functions found in service (anchor)", nWriters)
	}
	// ---- 3b. addressing: a reply is encoded with the header of the very message it answers
	R.Rules["S.addressing"] = "each reply frame is built by Header.Encode of the header of the message being answered (msg.JTMessage.Header: the sender's phone and protocol version), with ReplyID = the handler's ReplyProtocol() and body = ReplyBody of that same message; not a header kept from another message"
	for _, name := range []string{"defaultReplyEvent", "subPackReplyEvent"} {
		fn := c.P.Method("service", "connection", name)
		if fn == nil {
			R.Fatal("anchor connection.%s not found", name)
			continue
		}
		rs, msg := extractReplyShape(fn)
		ok, d := rs != nil && msg == "", msg
		if ok {
			_, isParam := rs.msgRoot.(*ssa.Parameter)
			if !isParam || len(rs.msgPath) == 0 || rs.msgPath[len(rs.msgPath)-1] != "JTMessage" {
				ok, d = false, "the header that is encoded is not the header of the message being answered (parameter msg → JTMessage → Header): a reply can carry the phone / version of another message"
			}
		}
		if ok && name == "defaultReplyEvent" {
			switch {
			case !rs.replyIDOK:
				ok, d = false, "ReplyID of the encoded header is not set from ReplyProtocol()"
			case !rs.bodyOK:
				ok, d = false, rs.bodyDetail
			}
		}
		st := report.Discharged
		if !ok {
			st = report.Violated
		}
		R.Add("S.addressing", shortFn(fn), c.P.RelPos(fn.Pos()), st, d)
	}
	R.Require("S.addressing", 2, "")
	// ---- 3c. who is answered: only messages whose handler says so, and every complete message
	R.Rules["S.answered"] = "the reply path draws no serial and writes nothing unless the handler's HasReply() is true (responses get no reply), and in the writer every complete message (hasComplete() true) reaches the reply function without any further condition"
	if dr := c.P.Method("service", "connection", "defaultReplyEvent"); dr != nil {
		ok, d := false, "defaultReplyEvent does not test HasReply()"
		var guard *ssa.BasicBlock // successor on which HasReply() is true
		for _, b := range dr.Blocks {
			iff, isIf := b.Instrs[len(b.Instrs)-1].(*ssa.If)
			if !isIf {
				continue
			}
			cond := iff.Cond
			neg := false
			for {
				u, isU := cond.(*ssa.UnOp)
				if !isU || u.Op != token.NOT {
					break
				}
				cond, neg = u.X, !neg
			}
			if n, _ := callMethodName(cond); n == "HasReply" {
				guard = b.Succs[0]
				if neg {
					guard = b.Succs[1]
				}
			}
		}
		if guard != nil {
			ok, d = true, ""
			for _, b := range dr.Blocks {
				for _, ins := range b.Instrs {
					call, isC := ins.(*ssa.Call)
					if !isC {
						continue
					}
					n, _ := callMethodName(call)
					if (n == "curSeq" || cw.is(ins)) && !(guard.Dominates(b) && len(guard.Preds) == 1) {
						ok, d = false, fmt.Sprintf("%s at %s is reached without HasReply() being true: messages that are themselves responses are answered", n, c.P.RelPos(ins.Pos()))
					}
				}
			}
		}
		st := report.Discharged
		if !ok {
			st = report.Violated
		}
		R.Add("S.answered", shortFn(dr)+" / no serial and no write unless HasReply()", c.P.RelPos(dr.Pos()), st, d)
		// … and with HasReply() true the reply is written whatever its body looks like: from the guard, every way to a return
		// runs over the socket write, except over the error edge of ReplyBody
		if guard != nil {
			isReplyBodyErr := func(v ssa.Value) bool {
				ex, isEx := v.(*ssa.Extract)
				if !isEx {
					return false
				}
				n, _ := callMethodName(ex.Tuple)
				return n == "ReplyBody" && ex.Index == 1
			}
			bad := ""
			seen := map[*ssa.BasicBlock]bool{guard: true}
			work := []*ssa.BasicBlock{guard}
			for len(work) > 0 && bad == "" {
				b := work[len(work)-1]
				work = work[:len(work)-1]
				written := false
				for _, ins := range b.Instrs {
					if cw.is(ins) {
						written = true
					}
				}
				if written {
					continue
				}
				last := b.Instrs[len(b.Instrs)-1]
				if ret, isR := last.(*ssa.Return); isR {
					bad = c.P.RelPos(ret.Pos())
					if bad == "" {
						bad = "the end of the function"
					}
					continue
				}
				skip := -1
				if iff, isIf := last.(*ssa.If); isIf {
					if bo, isBO := iff.Cond.(*ssa.BinOp); isBO && (isReplyBodyErr(bo.X) || isReplyBodyErr(bo.Y)) {
						switch bo.Op {
						case token.NEQ:
							skip = 0
						case token.EQL:
							skip = 1
						}
					}
				}
				for i, sb := range b.Succs {
					if i != skip && !seen[sb] {
						seen[sb] = true
						work = append(work, sb)
					}
				}
			}
			st, d := report.Discharged, ""
			if bad != "" {
				st, d = report.Violated, "with HasReply() true and ReplyBody successful, the return at "+bad+" is reached without writing a reply: some requests of a reply-bearing type (an empty reply body is the standard's reply to 0x1003) are never answered"
			}
			R.Add("S.answered", shortFn(dr)+" / with HasReply() true every successful ReplyBody is written", c.P.RelPos(dr.Pos()), st, d)
		}
	}
	if wf := c.P.Method("service", "connection", "write"); wf != nil {
		ok, d := false, "the writer never calls the reply function"
		var wblocks []*ssa.BasicBlock // the writer and the helpers of the package its select arms may be moved into
		for _, wf2 := range c.familyOf(wf) {
			wblocks = append(wblocks, wf2.Blocks...)
		}
		for _, b := range wblocks {
			for _, ins := range b.Instrs {
				call, isC := ins.(*ssa.Call)
				if !isC || call.Call.StaticCallee() == nil || call.Call.StaticCallee().Name() != "defaultReplyEvent" {
					continue
				}
				ok, d = false, "a complete message does not reach the reply function unconditionally (the `complete or filtering off` test is not an OR whose first operand is hasComplete())"
				// some predecessor tests hasComplete() and jumps here on true
				for _, p := range b.Preds {
					iff, isIf := p.Instrs[len(p.Instrs)-1].(*ssa.If)
					if !isIf {
						continue
					}
					if n, _ := callMethodName(iff.Cond); n == "hasComplete" && p.Succs[0] == b {
						ok, d = true, ""
					}
				}
			}
		}
		st := report.Discharged
		if !ok {
			st = report.Violated
		}
		R.Add("S.answered", shortFn(wf)+" / every complete message reaches the reply function", c.P.RelPos(wf.Pos()), st, d)
	}
	R.Require("S.answered", 3, "")
	// "complete" itself: a fragment - also the only fragment of a 1-packet transfer - is not complete, the reassembled
	// message is: otherwise one request is answered (and reported to the callbacks) twice
	c.hasCompleteContract()
	// "a sub-packaged message counts once, when complete": the count behind the completion test (rule of C05)
	c.completeCountRule()
	// ---- 4. single receive site of msgChan
	nRecv, where := 0, ""
	for _, fn := range c.RepoFuncs("service") {
		for _, b := range fn.Blocks {
			for _, ins := range b.Instrs {
				if sel, ok := ins.(*ssa.Select); ok {
					for _, s := range sel.States {
						if s.Dir == types.RecvOnly {
							if _, f, ok := fieldLoad(s.Chan); ok && f == "msgChan" {
								nRecv++
								where = shortFn(fn)
							}
						}
					}
				}
				if u, ok := ins.(*ssa.UnOp); ok && u.Op.String() == "<-" {
					if _, f, ok := fieldLoad(u.X); ok && f == "msgChan" {
						nRecv++
						where = shortFn(fn)
					}
				}
			}
		}
	}
	st := report.Discharged
	if nRecv != 1 || !strings.HasSuffix(where, ").write") {
		st = report.Violated
	}
	R.Add("S.single-consumer", "connection.msgChan / one receive site, in the writer (FIFO)", "", st, fmt.Sprintf("%d receive sites, last in %s", nRecv, where))
	// ---- unsupported IDs
	reader := c.P.Method("service", "connection", "reader")
	if reader != nil {
		ok, d := false, "no lookup of the handler table in the reader"
		var readerBlocks []*ssa.BasicBlock // the reader and the helpers of the package its loop body is split into
		for _, rf := range c.familyOf(reader) {
			readerBlocks = append(readerBlocks, rf.Blocks...)
		}
		for _, b := range readerBlocks {
			iff, isIf := b.Instrs[len(b.Instrs)-1].(*ssa.If)
			if !isIf {
				continue
			}
			// the test may be written either way round (`if ok`, `case !ok:` evaluated into a value)
			cond, missEdge := iff.Cond, 1
			for {
				u, isU := cond.(*ssa.UnOp)
				if !isU || u.Op != token.NOT {
					break
				}
				cond, missEdge = u.X, 1-missEdge
			}
			ex, isEx := cond.(*ssa.Extract)
			if !isEx || ex.Index != 1 {
				continue
			}
			lk, isLk := ex.Tuple.(*ssa.Lookup)
			if !isLk {
				continue
			}
			if _, f, isF := fieldLoad(lk.X); !isF || f != "handles" {
				continue
			}
			// miss branch: straight back to the loop without send / write
			miss := b.Succs[missEdge]
			ok, d = true, ""
			for _, ins := range miss.Instrs {
				if s, isS := ins.(*ssa.Send); isS {
					if _, f, _ := fieldLoad(s.Chan); f == "msgChan" {
						ok, d = false, "a message without handler is forwarded to the writer"
					}
				}
				if cw.is(ins) {
					ok, d = false, "a message without handler is answered"
				}
			}
			if len(miss.Succs) != 1 || !miss.Succs[0].Dominates(b) {
				// must jump back to the range loop head
				_, retBlock := miss.Instrs[len(miss.Instrs)-1].(*ssa.Return)
				if len(miss.Succs) != 1 && !(retBlock && b.Parent() != reader) { // in a helper: returning to the loop
					ok, d = false, "the no-handler branch does not simply continue with the next message"
				}
			}
		}
		st := report.Discharged
		if !ok {
			st = report.Violated
		}
		R.Add("S.unsupported", shortFn(reader)+" / no handler → reported, not forwarded, not answered", c.P.RelPos(reader.Pos()), st, d)
	}
	// ---- read callback once, before the message is handed to the writer
	if reader != nil {
		var reads []*ssa.Call
		var sendsM []*ssa.Send
		var rblocks []*ssa.BasicBlock
		for _, rf := range c.familyOf(reader) {
			if rf.Name() == "onReadExecutionEvent" {
				continue
			}
			rblocks = append(rblocks, rf.Blocks...)
		}
		for _, b := range rblocks {
			for _, ins := range b.Instrs {
				if call, isC := ins.(*ssa.Call); isC {
					if sc := call.Call.StaticCallee(); sc != nil && sc.Name() == "onReadExecutionEvent" {
						reads = append(reads, call)
					}
				}
				if s, isS := ins.(*ssa.Send); isS {
					if _, f, _ := fieldLoad(s.Chan); f == "msgChan" {
						sendsM = append(sendsM, s)
					}
				}
			}
		}
		// per path, not per site: guard-clause forms of the loop have one hand-over per branch
		ok, d := len(reads) >= 1 && len(sendsM) >= 1, fmt.Sprintf("%d read-callback calls and %d hand-overs to the writer in the reader loop (expected at least one each)", len(reads), len(sendsM))
		if ok {
			for _, sm := range sendsM {
				dom := false
				for _, rd := range reads {
					rb, sb := rd.Block(), sm.Block()
					if rb.Parent() == sb.Parent() && rb.Dominates(sb) && rb != sb {
						dom = true
					}
				}
				if !dom {
					ok, d = false, "the read callback does not precede (dominate) the hand-over of the message to the writer at "+c.P.RelPos(sm.Pos())+": a reply can be written before / without the read callback"
				}
			}
			for i, r1 := range reads {
				for j, r2 := range reads {
					if i != j && r1.Block().Parent() == r2.Block().Parent() && (r1.Block() == r2.Block() || r1.Block().Dominates(r2.Block())) {
						ok, d = false, "the read callback is called twice on one path ("+c.P.RelPos(r1.Pos())+", "+c.P.RelPos(r2.Pos())+")"
					}
				}
			}
			for i, s1 := range sendsM {
				for j, s2 := range sendsM {
					if i != j && s1.Block().Parent() == s2.Block().Parent() && (s1.Block() == s2.Block() || s1.Block().Dominates(s2.Block())) {
						ok, d = false, "the message is handed to the writer twice on one path ("+c.P.RelPos(s1.Pos())+", "+c.P.RelPos(s2.Pos())+")"
					}
				}
			}
		}
		st := report.Discharged
		if !ok {
			st = report.Violated
		}
		R.Add("S.callbacks", shortFn(reader)+" / read callback once per message, before the hand-over to the writer", c.P.RelPos(reader.Pos()), st, d)
	}
	c.perConnectionHandlers(mk)
	R.Require("E6.reply-table", 28, "")
	R.Require("E6.echo", 4, "")
	R.Require("S.serial-per-write", 3, "")
	c.serialSequenceRule("E6.serial-sequence")
	R.Require("E6.serial-sequence", 2, "")
	R.Require("S.single-consumer", 4, "")
	// a reassembled message is answered from its Body: it must be the reassembled bytes, not the last fragment's
	R.Rules["E3.reply-input"] = "the message that reassembly hands to the reply path carries the reassembled bytes as its Body (the field every ReplyBody parses), the same bytes as its raw data, and the complete flag: a sub-packaged 0x0801 / 0x0102 is answered from the whole body, not from its last fragment"
	c.completedMessageStandalone("E3.reply-input")
	R.Require("E3.reply-input", 3, "")
	c.consumedOnlyIfCompleted("S.consumed")
	R.Explain = "Structural necessary conditions of 'one correctly correlated reply per request': the registry's reply table equals the standard's; each reply body echoes the request's serial / ID / result / auth code / multimedia ID (symbolic values compared by identity); " +
		"every frame-writing function draws exactly one serial, stores it into the request's own header before Encode, writes Encode's result, and never draws a serial without writing; one consumer of the message channel, all writes in the writer role; unsupported IDs are neither forwarded nor answered; handler objects are per connection. " +
		"Counting replies over concrete histories and the 65536-wrap are not decided beyond the generator rule of C12."
}

// perConnectionHandlers: shared by C06 and C18 — every accepted connection gets handler objects of its own.
func (c *Ctx) perConnectionHandlers(mk *ssa.Function) {
	R := c.R
	R.Rules["S.per-connection-handlers"] = "every accepted connection gets handler objects of its own (the default handler table is created inside the accept loop, not copied from a shared one): handlers parse into their receiver, so shared handler objects are written by the writer goroutines of several connections"
	// ---- per-connection handler objects: the handler table given to every connection is created after its accept
	newConn := c.P.Func("service", "newConnection")
	if newConn == nil {
		R.Fatal("anchor service.newConnection not found")
	} else {
		nSites := 0
		cg := c.P.CallGraph()
		if n := cg.Nodes[newConn]; n != nil {
			for _, e := range n.In {
				site, isCall := e.Site.(*ssa.Call)
				if !isCall {
					continue
				}
				nSites++
				caller := e.Caller.Func
				var acceptBlock *ssa.BasicBlock
				for _, b := range caller.Blocks {
					for _, ins := range b.Instrs {
						if call, isC := ins.(*ssa.Call); isC {
							if sc := call.Call.StaticCallee(); sc != nil && strings.HasPrefix(sc.Name(), "Accept") {
								acceptBlock = b
							}
						}
					}
				}
				_ = acceptBlock
				ok, d := false, ""
				hv := site.Call.Args[1]
				// (1) the table is fresh per evaluation: a createDefaultHandle() result, possibly through helpers that
				//     return one and local variables; (2) every such creation happens once per accepted connection
				var creators []*ssa.Call
				var fresh func(v ssa.Value, depth int) bool
				fresh = func(v ssa.Value, depth int) bool {
					if depth > 6 {
						return false
					}
					switch x := v.(type) {
					case *ssa.Call:
						sc := x.Call.StaticCallee()
						if sc == nil {
							return false
						}
						if sc == mk {
							creators = append(creators, x)
							return true
						}
						if !c.P.IsRepoFunc(sc) || len(sc.Blocks) == 0 {
							return false
						}
						nRet := 0
						for _, b := range sc.Blocks {
							if ret, isR := b.Instrs[len(b.Instrs)-1].(*ssa.Return); isR && len(ret.Results) == 1 {
								nRet++
								if !fresh(ret.Results[0], depth+1) {
									return false
								}
							}
						}
						return nRet > 0
					case *ssa.Phi:
						for _, e := range x.Edges {
							if !fresh(e, depth+1) {
								return false
							}
						}
						return len(x.Edges) > 0
					case *ssa.UnOp:
						if al, isAl := x.X.(*ssa.Alloc); isAl {
							n := 0
							for _, ref := range *al.Referrers() {
								if st, isSt := ref.(*ssa.Store); isSt && st.Addr == ssa.Value(al) {
									n++
									if !fresh(st.Val, depth+1) {
										return false
									}
								}
							}
							return n > 0
						}
					case *ssa.ChangeType:
						return fresh(x.X, depth+1)
					}
					return false
				}
				var perAccept func(call ssa.Instruction, depth int) bool
				perAccept = func(call ssa.Instruction, depth int) bool {
					if depth > 4 {
						return false
					}
					H := call.Parent()
					var ab *ssa.BasicBlock
					for _, b := range H.Blocks {
						for _, ins := range b.Instrs {
							if c2, isC := ins.(*ssa.Call); isC {
								if sc := c2.Call.StaticCallee(); sc != nil && strings.HasPrefix(sc.Name(), "Accept") {
									ab = b
								}
							}
						}
					}
					if ab != nil {
						return ab.Dominates(call.Block())
					}
					n := cg.Nodes[H]
					if n == nil || len(n.In) == 0 {
						return false
					}
					for _, e := range n.In {
						if e.Site == nil || !perAccept(e.Site, depth+1) {
							return false
						}
					}
					return true
				}
				switch {
				case !fresh(hv, 0):
					d = fmt.Sprintf("the handler table handed to newConnection is %s, not a fresh createDefaultHandle() result (directly or through a helper that returns one): connections may share stateful handler objects", hv.String())
				default:
					ok = true
					for _, cr := range creators {
						if !perAccept(cr, 0) {
							ok = false
							d = "the default handler table is created at " + c.P.RelPos(cr.Pos()) + ", which is not executed once per accepted connection (outside the accept loop): all connections share the same stateful handler objects (they parse into their receiver)"
						}
					}
					if ok && !perAccept(site, 0) {
						ok, d = false, "newConnection is not called once per accepted connection"
					}
				}
				st := report.Discharged
				if !ok {
					st = report.Violated
				}
				R.Add("S.per-connection-handlers", shortFn(caller)+" / newConnection gets a handler table created after its accept", c.P.RelPos(site.Pos()), st, d)
			}
		}
		if nSites == 0 {
			R.Fatal("no call site of service.newConnection found (anchor)")
		}
	}
}
