package checks

import (
	"fmt"
	"os"
	"strings"

	"golang.org/x/tools/go/ssa"

	"jtverif/internal/absint"
	"jtverif/internal/load"
	"jtverif/internal/report"
)

func init() {
	register(&Check{ID: "C02", Level: "other", Run: runC02})
}

func runC02(c *Ctx) {
	c.E1Rules()
	c.E1Assumptions()
	R := c.R
	R.Rules["E3.field"] = "on every successful return of Header.decode, for each (version bit, fragment bit) the path admits, every header field equals the standard's reading of the frame bytes (spec/jt808_header.json)"
	R.Rules["E3.minlen"] = "Header.decode succeeds only when the data holds the complete header of the indicated version/fragmentation"
	R.Rules["E3.cover"] = "each of the four header layouts has a successful path"
	R.Rules["E3.reject"] = "every error return of Header.decode is justified: the data is shorter than the header the property word announces"
	R.Rules["E3.accept"] = "every successful return of JTMessage.Decode entails: both delimiters present, the checksum over the whole unescaped payload is zero, the payload is exactly header + declared body length + 1, Body is that window and VerifyCode the byte after it"
	R.Rules["E4.own-payload"] = "on every successful return of JTMessage.Decode the Body shares its backing array with no buffer that is handed back to a sync.Pool or truncated and refilled: 'the body equals what the layout prescribes for those bytes' stays true when the next frame is decoded"
	R.Rules["E2.field"] = "history independence of the header decoder (see C03)"
	R.Rules["E2.branch"] = "history independence of the header decoder (see C03)"
	var spec LayoutSpec
	if !c.loadSpec("jt808_header.json", &spec) {
		return
	}
	hdec := c.P.Method("protocol/jt808", "Header", "decode")
	dec := c.P.Method("protocol/jt808", "JTMessage", "Decode")
	unesc := c.P.Func("protocol/jt808", "unescape")
	verify := c.P.Func("protocol/utils", "CreateVerifyCode")
	if hdec == nil || dec == nil || unesc == nil || verify == nil {
		R.Fatal("anchors Header.decode / JTMessage.Decode / unescape / CreateVerifyCode not found")
		return
	}
	// ---- Header.decode: layout, minimum lengths, rejection, history independence
	var recv, dataArg absint.Term
	objs := map[int]string{}
	results := c.RunE1([]*ssa.Function{hdec}, false, func(a *absint.Analyzer, fn *ssa.Function, st *absint.State, args []absint.Term) {
		a.TrackObj(st, args[0], fn.Params[0].Type())
		objs[args[0].(*absint.Ptr).Obj.ID] = ""
		if p := a.TrackField(st, args[0], fn.Params[0].Type(), "Property"); p != nil {
			objs[p.Obj.ID] = "Property."
		}
		recv, dataArg = args[0], args[1]
	})
	r := results[0]
	c.AddE1(results, false)
	c.e2Evaluate(r, recv)
	a := r.A
	data := dataArg.(*absint.Slice)
	locs := map[string]absint.Loc{}
	for l := range a.Stored {
		if pre, ok := objs[l.Obj]; ok {
			locs[pre+absint.PrettyLoc(l)] = l
		}
	}
	fname := shortFn(hdec)
	lr := layoutResult{}
	succ := func(ri absint.RetInfo) bool { _, ok := ri.Val.(absint.NilT); return ok }
	covered := c.checkLayout(lr, fname, a, r.Rets, succ, locs, &spec, &data.Len)
	for _, p := range spec.Partitions {
		lr.set("E3.cover", fname+" / "+p.Name, covered[p.Name], "no successful path admits the layout "+p.Name)
	}
	// error returns: len < 4, or len < min_len of every admissible partition
	nErr := 0
	for _, ret := range r.Rets {
		if succ(ret) {
			continue
		}
		nErr++
		trace := strings.Join(ret.St.Trace, " → ")
		ok := ret.St.Entails(absint.Con{L: absint.Const(3).Sub(data.Len), Rel: absint.GE})
		if !ok {
			ok = true
			any := false
			for _, p := range spec.Partitions {
				if !partitionFeasible(a, ret.St, locs, p.When) {
					continue
				}
				any = true
				if !ret.St.Entails(absint.Con{L: absint.Const(p.MinLen - 1).Sub(data.Len), Rel: absint.GE}) {
					ok = false
				}
			}
			ok = ok && any
		}
		lr.set("E3.reject", fmt.Sprintf("%s / error return %s", fname, a.Render(ret.Val)), ok,
			"an error is returned although the data may hold the complete header; path "+trace)
	}
	lr.flush(c, c.P.RelPos(hdec.Pos()))
	R.Notes["header_error_returns"] = nErr

	// ---- JTMessage.Decode: acceptance conditions on every successful return
	type inl struct {
		args []absint.Term
		val  absint.Term
	}
	var unescCalls, verifyCalls []inl
	var jrecv, jdata absint.Term
	jres := c.RunE1([]*ssa.Function{dec}, false, func(a *absint.Analyzer, fn *ssa.Function, st *absint.State, args []absint.Term) {
		jrecv, jdata = args[0], args[1]
		a.K = 512 // keep the paths of unescape × header layouts apart: the conditions are per path
		a.TrackObj(st, args[0], fn.Params[0].Type())
		a.OnInlined = func(f *ssa.Function, args []absint.Term, val absint.Term, st *absint.State) {
			switch f {
			case unesc:
				unescCalls = append(unescCalls, inl{args, val})
			case verify:
				verifyCalls = append(verifyCalls, inl{args, val})
				a.ExtraRoots = append(a.ExtraRoots, val)
			}
		}
	})
	jr := jres[0]
	c.AddE1(jres, false)
	ja := jr.A
	jlocs := fieldLocs(ja, jrecv.(*absint.Ptr))
	in := jdata.(*absint.Slice)
	dname := shortFn(dec)
	lr2 := layoutResult{}
	nOK := 0
	for _, ret := range jr.Rets {
		if _, ok := ret.Val.(absint.NilT); !ok {
			continue
		}
		nOK++
		trace := strings.Join(ret.St.Trace, " → ")
		// delimiters
		first := ja.ByteAt(ret.St, in, absint.Const(0))
		last := ja.ByteAt(ret.St, in, in.Len.AddC(-1))
		okDelim := ret.St.Entails(absint.Con{L: in.Len.AddC(-3), Rel: absint.GE}) &&
			ret.St.Entails(absint.Con{L: first.AddC(-0x7e), Rel: absint.EQ}) && ret.St.Entails(absint.Con{L: last.AddC(-0x7e), Rel: absint.EQ})
		if !okDelim && os.Getenv("JTVERIF_DEBUGC02") != "" {
			fmt.Printf("DBG first=%s last=%s\nstate: %s\n", first.String(), last.String(), ret.St.Cons.String())
		}
		lr2.set("E3.accept", dname+" / delimiters", okDelim, "success reachable without data[0]==data[len-1]==0x7e and len>2; path "+trace)
		// Body window and length equation against the unescaped payload
		bodyT, _ := fieldValue(ja, ret.St, jlocs, "Body")
		body, _ := bodyT.(*absint.Slice)
		okLen, okVC, okSum := false, false, false
		if body != nil {
			for _, u := range unescCalls {
				tu, ok := u.val.(*absint.Tuple)
				if !ok {
					continue
				}
				esc, ok := tu.Elems[0].(*absint.Slice)
				if !ok || esc.Base != body.Base {
					continue
				}
				// len(escaped) == (body.Off - esc.Off) + len(body) + 1
				rel := body.Off.Sub(esc.Off)
				if ret.St.Entails(absint.Con{L: esc.Len.Sub(rel).Sub(body.Len).AddC(-1), Rel: absint.EQ}) {
					okLen = true
				}
				vcT, vcR := fieldValue(ja, ret.St, jlocs, "VerifyCode")
				_ = vcT
				want := ja.Render(absint.Int{L: ja.ByteAt(ret.St, esc, rel.Add(body.Len))})
				if vcR == want {
					okVC = true
				}
				for _, v := range verifyCalls {
					if len(v.args) != 1 {
						continue
					}
					as, ok := v.args[0].(*absint.Slice)
					if !ok || as.Base != esc.Base || !as.Off.Equal(esc.Off) || !as.Len.Equal(esc.Len) {
						continue
					}
					if iv, ok := v.val.(absint.Int); ok && ret.St.Entails(absint.Con{L: iv.L, Rel: absint.EQ}) {
						okSum = true
					}
				}
			}
		}
		// the decoded body (and with it the phone bytes, windows of the same payload) is storage of this message alone
		okOwn, whyOwn := true, ""
		if body != nil {
			for id, b := range absint.AliasClosure(body.Base) {
				if why, reused := ja.Reused[id]; reused {
					okOwn, whyOwn = false, fmt.Sprintf("the Body of a decoded message shares its backing array with %s: %s - the next frame that is decoded rewrites the fields of this one", b.Desc, why)
				}
			}
		}
		lr2.set("E4.own-payload", dname+" / the unescaped payload a message's Body and phone are windows of is not a pooled or re-used buffer", okOwn, whyOwn)
		lr2.set("E3.accept", dname+" / payload length = header + declared body + 1", okLen, "success reachable without len(unescaped) == headEnd + BodyDayaLen + 1 with Body that window; path "+trace)
		lr2.set("E3.accept", dname+" / VerifyCode is the byte after the body", okVC, "VerifyCode is not the payload byte following the body; path "+trace)
		lr2.set("E3.accept", dname+" / checksum over whole payload is zero", okSum, "success reachable without CreateVerifyCode(whole unescaped payload) == 0; path "+trace)
	}
	if nOK == 0 {
		R.Add("E3.accept", dname+" / (no successful return)", c.P.RelPos(dec.Pos()), report.Undecided, "no return classified as success")
	}
	lr2.flush(c, c.P.RelPos(dec.Pos()))
	R.Notes["decode_success_returns"] = nOK
	R.Require("E3.field", 5+4*7, "")
	R.Require("E3.minlen", 4, "")
	R.Require("E3.cover", 4, "")
	R.Require("E3.accept", 4, "")
	R.Require("E1.slice", 8, "")
	// byte-unstuffing: exactly the well-formed escape sequences are accepted, nothing is dropped
	R.Rules["T.unescape"] = "unescape implements the inverse byte-stuffing transducer on the interior of a delimited frame (7d 01 -> 7d, 7d 02 -> 7e, other bytes verbatim, a 7d as last interior byte literal), consumes the whole interior on every successful return and fails only for malformed input"
	if une := c.P.Func("protocol/jt808", "unescape"); une != nil {
		c.verifyTransducer(une, tdUnescape, "T.unescape")
	} else {
		R.Fatal("anchor jt808.unescape not found")
	}
	R.Require("T.unescape", 8, "")
	// the phone field is the header bytes rendered by utils.Bcd2Dec (the layout rule above takes that call as the standard's
	// reading): the helper itself keeps every digit except leading zeros
	c.bcd2decRule()
	R.Require("E3.digits", 2, "")
	_ = load.ModPrefix
	R.Explain = "Header.decode and JTMessage.Decode are interpreted abstractly for arbitrary input. Decided for all byte strings: (a) no panic / over-read (E1), " +
		"(b) every successful header decode computes each field exactly as the standard's layout prescribes for the version/fragment bits the path admits, needs the full header length, and every error return is justified by a short input, " +
		"(c) every successful Decode entails delimiters, zero checksum over the whole unescaped payload and the exact length equation, (d) history independence of the header decoder. " +
		"(e) unescape implements the standard's inverse byte-stuffing transducer: every successful return has consumed the whole interior, errors are returned only for a broken envelope or a 7d followed by a byte other than 01/02 inside the frame. " +
		"(f) the digit helper the phone field is rendered with (utils.Bcd2Dec) returns all digits of its argument except leading zeros. " +
		"Tolerated by design and part of the rule: a 7d that is the last interior byte (unescaped checksum of some devices) is taken literally."
}
