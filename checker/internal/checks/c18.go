package checks

import (
	"fmt"
	"go/token"
	"go/types"
	"sort"
	"strings"

	"golang.org/x/tools/go/ssa"

	"jtverif/internal/report"
)

func init() {
	register(&Check{ID: "C18", Level: "other", Run: runC18})
}

var sharedServiceTypes = map[string]bool{"connection": true, "packageParse": true, "sessionManager": true, "session": true}

func pointerLikeShared(t types.Type) bool {
	switch u := t.Underlying().(type) {
	case *types.Map, *types.Slice:
		return true
	case *types.Pointer:
		if isSyncType(u.Elem()) {
			return false
		}
		return true
	}
	return false
}

// usedAfter: is v used by an instruction of its function that can execute after `at` ?
func usedAfter(v ssa.Value, at ssa.Instruction) (bool, ssa.Instruction) {
	b := at.Block()
	idx := -1
	for i, ins := range b.Instrs {
		if ins == at {
			idx = i
		}
	}
	uses := func(i ssa.Instruction) bool {
		if _, dbg := i.(*ssa.DebugRef); dbg {
			return false
		}
		var ops []*ssa.Value
		for _, op := range i.Operands(ops) {
			if *op == v {
				return true
			}
		}
		return false
	}
	seen := map[*ssa.BasicBlock]bool{}
	var scan func(blk *ssa.BasicBlock, from int) ssa.Instruction
	scan = func(blk *ssa.BasicBlock, from int) ssa.Instruction {
		for k := from; k < len(blk.Instrs); k++ {
			if uses(blk.Instrs[k]) {
				return blk.Instrs[k]
			}
		}
		for _, s := range blk.Succs {
			if !seen[s] {
				seen[s] = true
				if r := scan(s, 0); r != nil {
					return r
				}
			}
		}
		return nil
	}
	r := scan(b, idx+1)
	return r != nil, r
}

func runC18(c *Ctx) {
	c.E1Rules()
	c.E1Assumptions()
	R := c.R
	R.Rules["E5.own"] = "a field of the connection-level structs (connection, packageParse, sessionManager, session) that is written after construction is accessed by one goroutine role only, unless its type is a channel / sync / atomic type"
	R.Rules["E5.go-capture"] = "a goroutine started per request receives only values it may own: the shared receiver (covered by E5.own), non-pointer values, or objects created for it that the spawner does not touch afterwards; never a map, slice or struct the spawner or its callers keep using"
	R.Rules["E5.use-after-send"] = "no goroutine touches a pointer after sending it on a channel (ownership hand-over of *Message / *ActiveMessage)"
	ri := c.serviceRoles()
	// ---- E5.own
	acc := c.fieldAccesses("service", sharedServiceTypes)
	fields := make([]string, 0, len(acc))
	for f := range acc {
		fields = append(fields, f)
	}
	sort.Strings(fields)
	nFields := 0
	for _, f := range fields {
		as := acc[f]
		tn := strings.SplitN(f, ".", 2)
		var ftype types.Type
		if obj := c.P.Pkg("service").Pkg.Scope().Lookup(tn[0]); obj != nil {
			st := obj.Type().Underlying().(*types.Struct)
			for i := 0; i < st.NumFields(); i++ {
				if st.Field(i).Name() == tn[1] {
					ftype = st.Field(i).Type()
				}
			}
		}
		nFields++
		if ftype != nil && isSyncType(ftype) {
			R.Add("E5.own", f+" (channel / sync / atomic type)", "", report.Discharged, "")
			continue
		}
		readers, writers := map[string]bool{}, map[string]bool{}
		var wpos []string
		for _, a := range as {
			rs := rolesOf(ri, a.fn)
			if len(rs) == 0 {
				// constructor or helper not reachable from any role (runs before the goroutines start)
				continue
			}
			for _, r := range rs {
				if a.write {
					writers[r] = true
					wpos = append(wpos, fmt.Sprintf("%s by %s at %s", a.kind, r, a.pos))
				} else {
					readers[r] = true
				}
			}
		}
		all := map[string]bool{}
		for r := range readers {
			all[r] = true
		}
		for r := range writers {
			all[r] = true
		}
		st, d := report.Discharged, ""
		if len(writers) > 0 && len(all) > 1 {
			var rs []string
			for r := range all {
				rs = append(rs, r)
			}
			sort.Strings(rs)
			st = report.Violated
			d = fmt.Sprintf("field %s is written after construction (%s) and accessed by roles %v without synchronisation", f, strings.Join(dedupe(wpos), "; "), rs)
		}
		R.Add("E5.own", f, "", st, d)
	}
	if nFields < 12 {
		R.Fatal("only %d fields of the shared structs are accessed (anchor)", nFields)
	}
	// ---- E5.go-capture
	nGo := 0
	for _, fn := range c.RepoFuncs("service") {
		for _, b := range fn.Blocks {
			for _, ins := range b.Instrs {
				g, ok := ins.(*ssa.Go)
				if !ok {
					continue
				}
				nGo++
				key := fmt.Sprintf("%s / %s", shortFn(fn), c.constructOf(fn, g))
				var vals []ssa.Value
				if mc, ok := g.Call.Value.(*ssa.MakeClosure); ok {
					vals = append(vals, mc.Bindings...)
				} else if !g.Call.IsInvoke() {
					// go x.method(): receiver is the first arg
				}
				vals = append(vals, g.Call.Args...)
				var bad []string
				for _, v := range vals {
					t := v.Type()
					// closure bindings are addresses of captured variables: look at the variable's type
					if al, isAlloc := v.(*ssa.Alloc); isAlloc {
						t = al.Type().Underlying().(*types.Pointer).Elem()
						// captured variable: is it used by the spawner after the go statement?
						if pointerLikeShared(t) || true {
							if named, ok := derefNamed(t); ok && sharedServiceTypes[named] {
								continue // the shared receiver: E5.own
							}
							if !pointerLikeShared(t) {
								// a captured non-pointer variable is still shared memory if the spawner writes it later
								if used, where := usedAfter(al, g); used {
									if _, isStore := where.(*ssa.Store); isStore {
										bad = append(bad, fmt.Sprintf("captured variable %s is written by the spawner afterwards (%s)", al.Comment, c.P.RelPos(where.Pos())))
									}
								}
								continue
							}
							// pointer-like captured variable: where does its value come from?
							fromParam := false
							for _, ref := range *al.Referrers() {
								if st, ok := ref.(*ssa.Store); ok && st.Addr == al {
									if _, isP := st.Val.(*ssa.Parameter); isP {
										fromParam = true
									}
								}
							}
							if fromParam {
								bad = append(bad, fmt.Sprintf("captured %s (%s) comes from a parameter: the caller keeps using it while the goroutine runs", al.Comment, t))
							} else if used, where := usedAfter(al, g); used {
								bad = append(bad, fmt.Sprintf("captured %s (%s) is still used by the spawner at %s", al.Comment, t, c.P.RelPos(where.Pos())))
							}
						}
						continue
					}
					if named, ok := derefNamed(t); ok && sharedServiceTypes[named] {
						continue
					}
					if !pointerLikeShared(t) {
						continue
					}
					if _, isP := v.(*ssa.Parameter); isP {
						bad = append(bad, fmt.Sprintf("argument %s (%s) is a parameter of the spawner: its caller keeps using it", v.Name(), t))
						continue
					}
					if fv, isFV := v.(*ssa.FreeVar); isFV {
						bad = append(bad, fmt.Sprintf("free variable %s (%s) of the spawner is shared with the goroutine", fv.Name(), t))
						continue
					}
					if used, where := usedAfter(v, g); used {
						bad = append(bad, fmt.Sprintf("%s (%s) handed to the goroutine is still used by the spawner at %s", v.Name(), t, c.P.RelPos(where.Pos())))
					}
				}
				st, d := report.Discharged, ""
				if len(bad) > 0 {
					st, d = report.Violated, strings.Join(bad, "; ")
				}
				R.Add("E5.go-capture", key, c.P.RelPos(g.Pos()), st, d)
			}
		}
	}
	if nGo < 4 {
		R.Fatal("only %d go statements found in service (anchor)", nGo)
	}
	c.handlerRoles(ri)
	c.headerCopiesDeep()
	// ---- frame headers are shared between a session and the first message: only the reader (before hand-over) and the
	// writer may look inside one; the manager and API callers only pass the pointer on
	{
		R.Rules["E5.header-roles"] = "a *jt808.Header (the session's header is the first message's header, which the writer stamps for every reply) is dereferenced - field access, whole-struct copy, method call - only in the reader role before hand-over and in the writer role; the session manager, API callers and timer goroutines only copy the pointer"
		isHdr := func(t types.Type) bool {
			pt, ok := t.Underlying().(*types.Pointer)
			if !ok {
				return false
			}
			n, ok := pt.Elem().(*types.Named)
			if !ok || n.Obj().Pkg() == nil || !strings.HasSuffix(n.Obj().Pkg().Path(), "protocol/jt808") {
				return false
			}
			return n.Obj().Name() == "Header" || n.Obj().Name() == "BodyProperty"
		}
		nAcc := 0
		var bad []string
		for _, fn := range c.RepoFuncs("service") {
			roles := rolesOf(ri, fn)
			foreign := []string{}
			for _, r := range roles {
				if r != "reader" && r != "writer" {
					foreign = append(foreign, r)
				}
			}
			for _, b := range fn.Blocks {
				for _, ins := range b.Instrs {
					what := ""
					switch x := ins.(type) {
					case *ssa.FieldAddr:
						if isHdr(x.X.Type()) {
							what = "field access"
						}
					case *ssa.UnOp:
						if x.Op == token.MUL && isHdr(x.X.Type()) {
							what = "copy of the whole header"
						}
					case *ssa.Call:
						if sc := x.Call.StaticCallee(); sc != nil && sc.Signature.Recv() != nil && isHdr(sc.Signature.Recv().Type()) {
							what = "call of " + sc.Name()
						}
					}
					if what == "" {
						continue
					}
					nAcc++
					if len(foreign) > 0 {
						bad = append(bad, fmt.Sprintf("%s in %s (roles %v) at %s", what, shortFn(fn), foreign, c.P.RelPos(ins.Pos())))
					}
				}
			}
		}
		st, d := report.Discharged, ""
		if len(bad) > 0 {
			st, d = report.Violated, "the frame header shared with the writer goroutine (which stamps ReplyID / PlatformSerialNumber for every reply) is read outside the reader/writer roles without synchronisation: "+strings.Join(dedupe(bad), "; ")
		}
		R.Add("E5.header-roles", "jt808.Header / dereferenced only by reader and writer", "", st, d)
		R.Notes["header_dereferences_examined"] = nAcc
		if nAcc < 5 {
			R.Fatal("only %d dereferences of jt808.Header found in service (anchor)", nAcc)
		}
	}
	// ---- handler objects are per connection (their ReplyBody/Parse write the receiver from the connection's writer goroutine)
	if mk := c.NamedFunc("service", "createDefaultHandle"); mk != nil {
		c.perConnectionHandlers(mk)
	} else {
		R.Fatal("anchor GoJT808.createDefaultHandle not found")
	}
	// ---- use after send, all functions of the package
	nSend := 0
	for _, fn := range c.RepoFuncs("service") {
		n, bad := c.useAfterSend(fn)
		if n == 0 {
			continue
		}
		nSend += n
		st, d := report.Discharged, ""
		if len(bad) > 0 {
			st, d = report.Violated, strings.Join(bad, "; ")
		}
		R.Add("E5.use-after-send", fmt.Sprintf("%s / %d pointer sends", shortFn(fn), n), c.P.RelPos(fn.Pos()), st, d)
	}
	if nSend < 5 {
		R.Fatal("only %d pointer sends found in service (anchor)", nSend)
	}
	// ---- the same across calls: a pointer given to a function that may send it on a channel is not used afterwards
	{
		svc := c.RepoFuncs("service")
		sum := c.handOverSummaries(svc)
		nH := 0
		for _, fn := range svc {
			n, bad := c.useAfterHandOver(fn, sum)
			if n == 0 {
				continue
			}
			nH += n
			st, d := report.Discharged, ""
			if len(bad) > 0 {
				st, d = report.Violated, strings.Join(dedupe(bad), "; ")
			}
			R.Add("E5.use-after-send", fmt.Sprintf("%s / pointers handed to functions that send them", shortFn(fn)), c.P.RelPos(fn.Pos()), st, d)
		}
		R.Notes["hand_over_call_sites"] = nH
		if nH < 2 {
			R.Fatal("only %d call sites that hand a pointer to a sending function were found in service (confirmed by hand: onActiveRespondEvent / onActiveCompleteEvent)", nH)
		}
	}
	// ---- E4: a reader refilling a buffer that a delivered message aliases is a race with the writer
	c.e4Service()
	roleNames := map[string]int{}
	for _, rs := range ri.roles {
		for r := range rs {
			roleNames[r]++
		}
	}
	R.Notes["roles"] = roleNames
	R.Require("E5.own", 12, "")
	R.Require("E5.go-capture", 4, "")
	R.Require("E5.use-after-send", 3, "")
	R.Require("E4.alias", 4, "")
	// the command channel is closed by the connection's teardown while the session manager may send on it: the only
	// ordering between the two is the synchronous leave that removes the session before anything is closed
	R.Rules["E5.leave"] = "leave is a synchronous round trip through the manager that deletes exactly the given key: after it returns the manager holds no reference to the connection's command channel"
	R.Rules["E5.stop-order"] = "teardown leaves the registry before anything else and runs once: the close of the command channel happens after the manager's last possible send on it (otherwise close and send race, and the send panics)"
	c.sessionRules(false)
	R.Require("E5.leave", 1, "")
	R.Require("E5.stop-order", 2, "")
	R.Explain = "May-race analysis by goroutine role (reader, writer, per-command timeout goroutine, session manager incl. the closures it executes, accept loop, API callers) over the VTA call graph: " +
		"field ownership of the connection-level structs, what each go statement hands to the new goroutine, use-after-send for every pointer sent on a channel, and the buffer alias analysis of C09. " +
		"It proves the absence of a class of unsynchronised accesses; it does not enumerate schedules. Races inside user handlers and in net/slog are out of scope; ordering through Message hand-over relies on the use-after-send rule."
}

func derefNamed(t types.Type) (string, bool) {
	if p, ok := t.Underlying().(*types.Pointer); ok {
		t = p.Elem()
	}
	if n, ok := t.(*types.Named); ok {
		return n.Obj().Name(), true
	}
	return "", false
}

// handlerRoles: the handler objects of a connection (one per command, created with the connection and attached to every
// message of that command) are worked on by the writer - Parse fills the handler's fields, ReplyBody reads them. Any
// other role may therefore call only handler methods that do not write the handler in any of the repository's
// implementations; a reader that parses message N+1 into the handler races with the writer still working on message N.
func (c *Ctx) handlerRoles(ri *roleInfo) {
	R := c.R
	rule := "E5.handler-roles"
	R.Rules[rule] = "a method of the per-connection Handler objects that writes its receiver in some implementation of the repository (Parse, and whatever else stores into the handler) is invoked in the writer role only; the reader and the other roles call only methods that leave the handler untouched"
	svc := c.P.Pkg("service")
	if svc == nil {
		R.Fatal("%s: package service not loaded", rule)
		return
	}
	obj := svc.Pkg.Scope().Lookup("Handler")
	if obj == nil {
		R.Fatal("%s: interface service.Handler not found (anchor)", rule)
		return
	}
	iface, isI := obj.Type().Underlying().(*types.Interface)
	if !isI {
		R.Fatal("%s: service.Handler is not an interface", rule)
		return
	}
	// implementations in the repository
	var impls []types.Type
	for _, pk := range c.P.Pkgs {
		sc := pk.Types.Scope()
		for _, nm := range sc.Names() {
			tn, isTN := sc.Lookup(nm).(*types.TypeName)
			if !isTN || tn.IsAlias() {
				continue
			}
			if _, isIf := tn.Type().Underlying().(*types.Interface); isIf {
				continue
			}
			if named, isN := tn.Type().(*types.Named); isN && named.TypeParams().Len() > 0 {
				continue
			}
			pt := types.NewPointer(tn.Type())
			// Handler is assembled from JT808Handler (implemented by the message types) and Eventer (added by a wrapper that
			// embeds the JT808Handler): an implementation of any part contributes its methods
			ok := types.Implements(pt, iface)
			for e := 0; e < iface.NumEmbeddeds() && !ok; e++ {
				if ei, isEI := iface.EmbeddedType(e).Underlying().(*types.Interface); isEI && ei.NumMethods() > 0 && types.Implements(pt, ei) {
					ok = true
				}
			}
			if ok {
				impls = append(impls, pt)
			}
		}
	}
	if len(impls) < 20 {
		R.Fatal("%s: only %d implementations of service.Handler found in the repository (anchor: the message types of protocol/model)", rule, len(impls))
		return
	}
	// does fn write memory reached from its parameter pi?
	memo := map[string]bool{}
	var writes func(fn *ssa.Function, pi int, depth int) bool
	writes = func(fn *ssa.Function, pi int, depth int) bool {
		if fn == nil || len(fn.Blocks) == 0 || pi >= len(fn.Params) || depth > 4 {
			return false
		}
		key := fmt.Sprintf("%s#%d", fn.String(), pi)
		if v, ok := memo[key]; ok {
			return v
		}
		memo[key] = false
		root := ssa.Value(fn.Params[pi])
		var rooted func(v ssa.Value, d int) bool
		rooted = func(v ssa.Value, d int) bool {
			if v == root {
				return true
			}
			if d > 6 {
				return false
			}
			switch x := v.(type) {
			case *ssa.FieldAddr:
				return rooted(x.X, d+1)
			case *ssa.IndexAddr:
				return rooted(x.X, d+1)
			case *ssa.UnOp:
				if x.Op == token.MUL {
					return rooted(x.X, d+1)
				}
			case *ssa.Slice:
				return rooted(x.X, d+1)
			case *ssa.ChangeType:
				return rooted(x.X, d+1)
			}
			return false
		}
		res := false
		for _, b := range fn.Blocks {
			for _, ins := range b.Instrs {
				switch x := ins.(type) {
				case *ssa.Store:
					if rooted(x.Addr, 0) {
						res = true
					}
				case *ssa.MapUpdate:
					if rooted(x.Map, 0) {
						res = true
					}
				case ssa.CallInstruction:
					if sc := x.Common().StaticCallee(); sc != nil && c.P.IsRepoFunc(sc) {
						for ai, a := range x.Common().Args {
							if _, isPtr := a.Type().Underlying().(*types.Pointer); isPtr && rooted(a, 0) && writes(sc, ai, depth+1) {
								res = true
							}
						}
					}
				}
			}
		}
		memo[key] = res
		return res
	}
	mutating := map[string]string{} // method name -> an implementation that writes its receiver
	for i := 0; i < iface.NumMethods(); i++ {
		m := iface.Method(i)
		for _, pt := range impls {
			ms := c.P.SSA.MethodSets.MethodSet(pt)
			sel := ms.Lookup(m.Pkg(), m.Name())
			if sel == nil {
				continue
			}
			if f := c.P.SSA.MethodValue(sel); f != nil && writes(f, 0, 0) {
				if _, have := mutating[m.Name()]; !have {
					mutating[m.Name()] = shortFn(f)
				}
			}
		}
	}
	if _, ok := mutating["Parse"]; !ok {
		R.Fatal("%s: no implementation of Handler.Parse writes its receiver (the rule's premise; confirmed by hand for every message type)", rule)
		return
	}
	n := 0
	for _, fn := range c.RepoFuncs("service") {
		roles := rolesOf(ri, fn)
		for _, b := range fn.Blocks {
			for _, ins := range b.Instrs {
				ci, isCI := ins.(ssa.CallInstruction)
				if !isCI || !ci.Common().IsInvoke() {
					continue
				}
				rt := ci.Common().Value.Type()
				if named, isN := rt.(*types.Named); !isN || named.Obj() != obj {
					continue
				}
				n++
				mname := ci.Common().Method.Name()
				st, d := report.Discharged, ""
				if impl, mut := mutating[mname]; mut {
					var foreign []string
					for _, r := range roles {
						if r != "writer" {
							foreign = append(foreign, r)
						}
					}
					if len(foreign) > 0 || len(roles) == 0 {
						st, d = report.Violated, fmt.Sprintf("Handler.%s writes the handler (e.g. %s) and is invoked here in role %v; the writer works on the same per-connection handler object (Parse / ReplyBody of the previous message of that command): unsynchronised write/read of the handler's fields", mname, impl, roles)
					}
				}
				R.Add(rule, shortFn(fn)+" / "+c.constructOf(fn, ins), c.P.RelPos(ins.Pos()), st, d)
			}
		}
	}
	var mm []string
	for k, v := range mutating {
		mm = append(mm, k+" ("+v+")")
	}
	sort.Strings(mm)
	R.Notes["handler_methods_that_write_the_handler"] = mm
	R.Notes["handler_implementations"] = len(impls)
	if n < 6 {
		R.Fatal("%s: only %d invocations of Handler methods found in service (anchor)", rule, n)
	}
	R.Require(rule, 6, "")
}

// headerCopiesDeep: jt808.Header holds a pointer to its BodyProperty, and Header.Encode writes the body length and the
// fragment flag through that pointer. A value copy of a header (h := *kept) that leaves the function - wrapped into a
// message that is handed to another goroutine - still shares the BodyProperty with the header it was copied from: the
// goroutine that keeps the original and the one that receives the copy both write it. Every whole-struct copy of a
// Header in the service package that escapes must have its Property replaced before it does.
func (c *Ctx) headerCopiesDeep() {
	R := c.R
	rule := "E5.header-copy"
	R.Rules[rule] = "a value copy of a jt808.Header made in the service package that escapes the function (heap object: wrapped into a message, stored, sent) gets a Property of its own before it does: two headers never share one *BodyProperty, which Header.Encode writes"
	isHeader := func(t types.Type) bool {
		n, ok := t.(*types.Named)
		return ok && n.Obj().Name() == "Header" && n.Obj().Pkg() != nil && strings.HasSuffix(n.Obj().Pkg().Path(), "protocol/jt808")
	}
	n := 0
	for _, fn := range c.RepoFuncs("service") {
		for _, b := range fn.Blocks {
			for _, ins := range b.Instrs {
				ld, isLd := ins.(*ssa.UnOp)
				if !isLd || ld.Op != token.MUL || !isHeader(ld.Type()) {
					continue
				}
				if _, fromLocal := ld.X.(*ssa.Alloc); fromLocal {
					continue
				}
				for _, ref := range *ld.Referrers() {
					st, isSt := ref.(*ssa.Store)
					if !isSt || st.Val != ssa.Value(ld) {
						continue
					}
					al, isAl := st.Addr.(*ssa.Alloc)
					if !isAl || !al.Heap {
						continue
					}
					n++
					own := false
					for _, r2 := range *al.Referrers() {
						fa, isFA := r2.(*ssa.FieldAddr)
						if !isFA {
							continue
						}
						if _, name, _ := fieldNameOfAddr(fa); name != "Property" {
							continue
						}
						for _, r3 := range *fa.Referrers() {
							if s3, isS3 := r3.(*ssa.Store); isS3 && s3.Addr == ssa.Value(fa) {
								if ok, _ := c.freshPerEvaluation(s3.Val, s3); ok {
									own = true
								}
							}
						}
					}
					stt, d := report.Discharged, ""
					if !own {
						stt, d = report.Violated, fmt.Sprintf("%s copies a Header by value at %s and lets the copy escape without giving it a BodyProperty of its own: the copy and the original share one *BodyProperty, which whoever encodes either of them writes (the reader keeps the original, the writer receives the copy)", shortFn(fn), c.P.RelPos(ld.Pos()))
					}
					R.Add(rule, shortFn(fn)+" / "+c.constructOf(fn, ld), c.P.RelPos(ld.Pos()), stt, d)
				}
			}
		}
	}
	if n == 0 {
		R.Add(rule, "service / no escaping value copy of a Header (all functions of the package examined)", "", report.Discharged, "")
	}
	R.Notes["escaping_header_copies"] = n
}
