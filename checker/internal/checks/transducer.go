package checks

import (
	"fmt"
	"go/token"
	"go/types"
	"os"
	"sort"
	"strings"

	"golang.org/x/tools/go/ssa"

	"jtverif/internal/absint"
	"jtverif/internal/report"
)

// Transducer verification (engine E1 with ghost variables).
//
// escape must implement   out = 7e · E(d0) · E(d1) · … · 7e   with E(7e)=7d 02, E(7d)=7d 01, E(b)=b otherwise;
// unescape must implement out = U(interior) for a frame 7e · interior · 7e, with U(7d 01)=7d, U(7d 02)=7e,
// U(b)=b for b != 7d, a 7d that is the last interior byte taken literally (device compatibility), and
// any other 7d xx malformed.
//
// Ghost variables, loop-carried like φ-nodes so the invariant inference relates them to the program's counters:
//   em   input position up to which the output produced so far is the image of the input
//   c7d  every byte in [em, c7d) is known to differ from 0x7d        (c7e likewise for 0x7e)
//   ph   escape only: 0 nothing written, 1 opening delimiter written, 2 closing delimiter written
// Every write to the output accumulator is an obligation: a raw copy data[a:b] needs a == em and b <= c7d (and c7e);
// a constant pair needs the input byte at em to be the special it encodes; a return needs the whole input consumed.

var tdDebug = os.Getenv("JTVERIF_TD") != ""

type tdMode int

const (
	tdEscape tdMode = iota
	tdUnescape
)

type tdSite struct {
	pos  string
	ok   bool
	seen int
	d    string
}

type transducer struct {
	c    *Ctx
	mode tdMode
	fn   *ssa.Function
	a    *absint.Analyzer
	data *absint.Slice
	em   *ssa.Phi
	c7d  *ssa.Phi
	c7e  *ssa.Phi
	ph   *ssa.Phi
	rule string
}

func (t *transducer) site(ins ssa.Instruction, what string) *tdSite {
	return &tdSite{ok: true}
}

func (t *transducer) flush(ins ssa.Instruction, what string, s *tdSite) {
	t.a.Oblige(t.rule, t.fn, ins, what, s.ok, s.d)
}

func (s *tdSite) fail(format string, args ...interface{}) {
	if s.ok {
		s.ok = false
		s.d = fmt.Sprintf(format, args...)
	}
}

func eqC(l absint.Lin, m absint.Lin) absint.Con { return absint.Con{L: l.Sub(m), Rel: absint.EQ} }
func leC(l absint.Lin, m absint.Lin) absint.Con { return absint.Con{L: m.Sub(l), Rel: absint.GE} }

func (t *transducer) g(st *absint.State, g *ssa.Phi) absint.Lin {
	l, _ := absint.Ghost(st, g)
	return l
}

func (t *transducer) lenL() absint.Lin { return t.data.Len }

func (t *transducer) byteIs(st *absint.State, pos absint.Lin, k int64) bool {
	b := t.a.ByteAt(st, t.data, pos)
	return st.Entails(absint.Con{L: b.AddC(-k), Rel: absint.EQ})
}

func (t *transducer) byteIsNot(st *absint.State, pos absint.Lin, k int64) bool {
	b := t.a.ByteAt(st, t.data, pos)
	return !st.Feasible(absint.Con{L: b.AddC(-k), Rel: absint.EQ})
}

func (t *transducer) phase(st *absint.State) int {
	l := t.g(st, t.ph)
	for k := int64(0); k <= 2; k++ {
		if st.Entails(absint.Con{L: l.AddC(-k), Rel: absint.EQ}) {
			return int(k)
		}
	}
	return -1
}

// bump: after the input position advanced, the clean pointers are at least em.
func (t *transducer) bump(st *absint.State) {
	em := t.g(st, t.em)
	for _, g := range []*ssa.Phi{t.c7d, t.c7e} {
		if g == nil {
			continue
		}
		if st.Entails(leC(t.g(st, g), em)) {
			absint.SetGhost(st, g, em)
		}
	}
}

func (t *transducer) isData(s *absint.Slice) bool { return s != nil && s.Base == t.data.Base }

func (t *transducer) writeConst(st *absint.State, s *tdSite, bs []int64) {
	em := t.g(st, t.em)
	switch t.mode {
	case tdEscape:
		ph := t.phase(st)
		if len(bs) == 1 && bs[0] == 0x7e {
			switch {
			case ph == 0:
				absint.SetGhost(st, t.ph, absint.Const(1))
			case ph == 1 && st.Entails(eqC(em, t.lenL())):
				absint.SetGhost(st, t.ph, absint.Const(2))
			default:
				s.fail("a raw 0x7e is written while the input is consumed up to %s of %s (phase %d): a delimiter inside the frame", em, t.lenL(), ph)
				if ph == 1 {
					absint.SetGhost(st, t.ph, absint.Const(2))
				}
			}
			return
		}
		if ph != 1 {
			s.fail("bytes % x written outside the frame body (phase %d)", bs, ph)
			return
		}
		var special int64 = -1
		if len(bs) == 2 && bs[0] == 0x7d && bs[1] == 0x02 {
			special = 0x7e
		} else if len(bs) == 2 && bs[0] == 0x7d && bs[1] == 0x01 {
			special = 0x7d
		}
		if special < 0 {
			s.fail("constant bytes % x are written; only the escape sequences 7d 02 and 7d 01 may be", bs)
			return
		}
		if !t.byteIs(st, em, special) {
			s.fail("the sequence % x is written where the input byte at position %s is not known to be 0x%02x", bs, em, special)
		}
		// (on failure the analysis continues as if the write had been the right one, so that one defect is reported once)
		absint.SetGhost(st, t.em, em.AddC(1))
		t.bump(st)
	case tdUnescape:
		if len(bs) != 1 || (bs[0] != 0x7d && bs[0] != 0x7e) {
			s.fail("constant bytes % x are written; only the recovered bytes 7d / 7e may be", bs)
			return
		}
		second := int64(1)
		if bs[0] == 0x7e {
			second = 2
		}
		if !t.byteIs(st, em, 0x7d) || !t.byteIs(st, em.AddC(1), second) {
			s.fail("0x%02x is written where the input at position %s is not known to be the pair 7d %02x", bs[0], em, second)
		}
		absint.SetGhost(st, t.em, em.AddC(2))
		t.bump(st)
	}
}

func (t *transducer) writeData(st *absint.State, s *tdSite, src *absint.Slice) {
	em := t.g(st, t.em)
	a, b := src.Off.Sub(t.data.Off), src.Off.Sub(t.data.Off).Add(src.Len)
	if !st.Entails(eqC(a, em)) {
		s.fail("input bytes [%s, %s) are copied while the output accounts for the input up to %s: bytes are skipped or duplicated", a, b, em)
	}
	switch t.mode {
	case tdEscape:
		if t.phase(st) != 1 {
			s.fail("input bytes are copied outside the frame body")
		}
		if !st.Entails(leC(b, t.g(st, t.c7d))) {
			s.fail("input bytes [%s, %s) are copied unescaped but only [.., %s) is proven free of 0x7d", a, b, t.g(st, t.c7d))
		}
		if !st.Entails(leC(b, t.g(st, t.c7e))) {
			s.fail("input bytes [%s, %s) are copied unescaped but only [.., %s) is proven free of 0x7e: a raw delimiter can appear inside the frame", a, b, t.g(st, t.c7e))
		}
	case tdUnescape:
		end := t.lenL().AddC(-1)
		if !st.Entails(leC(b, end)) {
			s.fail("the copy [%s, %s) includes the closing delimiter", a, b)
		}
		c7d := t.g(st, t.c7d)
		if !st.Entails(leC(b, c7d)) && !(st.Entails(eqC(b, end)) && st.Entails(leC(b.AddC(-1), c7d))) {
			s.fail("input bytes [%s, %s) are copied verbatim but only [.., %s) is proven free of the escape byte 0x7d", a, b, c7d)
		}
	}
	absint.SetGhost(st, t.em, b)
	t.bump(st)
}

// dataIndexOf: v is a load of data[idx]; returns idx.
func (t *transducer) dataIndexOf(st *absint.State, v ssa.Value) (absint.Lin, bool) {
	v = stripConv(v)
	// by value first: the term of v is a one-byte read of the input at some index (also when the byte has travelled
	// through a range variable, a local or a helper's parameter)
	if iv, isI := t.a.Val(st, v).(absint.Int); isI {
		if at := iv.L.SingleAtom(); at != nil {
			if b, off, w, _, ok := absint.ReadAtom(at); ok && w == 1 && b == t.data.Base {
				return off.Sub(t.data.Off), true
			}
		}
	}
	var x, idx ssa.Value
	switch u := v.(type) {
	case *ssa.UnOp:
		ia, ok := u.X.(*ssa.IndexAddr)
		if !ok || u.Op != token.MUL {
			return absint.Lin{}, false
		}
		x, idx = ia.X, ia.Index
	case *ssa.Index:
		x, idx = u.X, u.Index
	default:
		return absint.Lin{}, false
	}
	xs, ok := t.a.Val(st, x).(*absint.Slice)
	if !ok || !t.isData(xs) {
		return absint.Lin{}, false
	}
	iv, ok := t.a.Val(st, idx).(absint.Int)
	if !ok {
		return absint.Lin{}, false
	}
	return xs.Off.Sub(t.data.Off).Add(iv.L), true
}

func (t *transducer) writeVarByte(st *absint.State, s *tdSite, v ssa.Value) {
	idx, ok := t.dataIndexOf(st, v)
	if !ok {
		s.fail("a byte that is neither a constant nor an input byte is written")
		return
	}
	em := t.g(st, t.em)
	if !st.Entails(eqC(idx, em)) {
		s.fail("input byte %s is written while the output accounts for the input up to %s", idx, em)
	}
	need := []*ssa.Phi{t.c7d}
	if t.mode == tdEscape {
		if t.phase(st) != 1 {
			s.fail("input byte written outside the frame body")
		}
		need = append(need, t.c7e)
	}
	for _, g := range need {
		if !st.Entails(leC(idx.AddC(1), t.g(st, g))) {
			s.fail("input byte %s is copied verbatim without being known to differ from the special bytes", idx)
		}
	}
	absint.SetGhost(st, t.em, idx.AddC(1))
	t.bump(st)
}

func constBytes(elems []absint.Term) ([]int64, bool) {
	var out []int64
	for _, e := range elems {
		iv, ok := e.(absint.Int)
		if !ok || !iv.L.IsConst() {
			return nil, false
		}
		out = append(out, iv.L.C&0xff)
	}
	return out, len(out) > 0
}

func (t *transducer) output(st *absint.State, ins ssa.Instruction, what string, src absint.Term, srcVal ssa.Value) {
	s := t.site(ins, what)
	defer t.flush(ins, what, s)
	switch v := src.(type) {
	case *absint.Slice:
		if t.isData(v) {
			t.writeData(st, s, v)
			return
		}
		if bs, ok := constBytes(v.Base.Elems); ok && v.Off.IsConst() && v.Off.C == 0 {
			t.writeConst(st, s, bs)
			return
		}
		if len(v.Base.Elems) == 1 && srcVal != nil {
			// variadic append of one non-constant byte
			if sl, isSl := srcVal.(*ssa.Slice); isSl {
				if al, isAl := sl.X.(*ssa.Alloc); isAl {
					for _, ref := range *al.Referrers() {
						if ia, isIA := ref.(*ssa.IndexAddr); isIA {
							for _, r2 := range *ia.Referrers() {
								if sto, isSt := r2.(*ssa.Store); isSt && sto.Addr == ia {
									t.writeVarByte(st, s, sto.Val)
									return
								}
							}
						}
					}
				}
			}
		}
		s.fail("bytes of unknown content are written to the output")
	case absint.Int:
		if v.L.IsConst() {
			t.writeConst(st, s, []int64{v.L.C & 0xff})
			return
		}
		t.writeVarByte(st, s, srcVal)
	default:
		s.fail("bytes of unknown content are written to the output")
	}
}

// verifyTransducer analyses fn (escape or unescape shape: one []byte parameter) and adds its obligations under rule.
func (c *Ctx) verifyTransducer(fn *ssa.Function, mode tdMode, rule string) {
	R := c.R
	t := &transducer{c: c, mode: mode, fn: fn, rule: rule}
	res := c.RunE1([]*ssa.Function{fn}, true, func(a *absint.Analyzer, f *ssa.Function, st *absint.State, args []absint.Term) {
		t.a = a
		ds, ok := args[0].(*absint.Slice)
		if !ok {
			R.Fatal("%s: first parameter is not a byte slice", shortFn(fn))
			return
		}
		t.data = ds
		t.em, t.c7d = a.NewGhost("em"), a.NewGhost("c7d")
		start := int64(0)
		if mode == tdUnescape {
			start = 1
		} else {
			t.c7e, t.ph = a.NewGhost("c7e"), a.NewGhost("ph")
			absint.SetGhost(st, t.c7e, absint.Const(0))
			absint.SetGhost(st, t.ph, absint.Const(0))
		}
		absint.SetGhost(st, t.em, absint.Const(start))
		absint.SetGhost(st, t.c7d, absint.Const(start))
		a.OnExternal = func(f2 *ssa.Function, site ssa.Instruction, name string, st *absint.State, args []absint.Term) {
			// writes to a bytes.Buffer count at every inlining depth: a helper that is handed the output buffer writes
			// output (ignoring it would let a helper emit bytes the proof never sees)
			call, _ := site.(*ssa.Call)
			switch name {
			case "(*bytes.Buffer).Write", "(*bytes.Buffer).WriteString":
				var sv ssa.Value
				if call != nil {
					sv = call.Call.Args[1]
				}
				t.output(st, site, "write", args[1], sv)
			case "(*bytes.Buffer).WriteByte", "(*bytes.Buffer).WriteRune":
				var sv ssa.Value
				if call != nil {
					sv = call.Call.Args[1]
				}
				t.output(st, site, "write", args[1], sv)
			}
		}
		a.OnAppend = func(f2 *ssa.Function, site ssa.Instruction, st *absint.State, dst *absint.Slice, src absint.Term) {
			if f2 != fn {
				return
			}
			var sv ssa.Value
			if call, ok := site.(*ssa.Call); ok && len(call.Call.Args) == 2 {
				sv = call.Call.Args[1]
			}
			t.output(st, site, "append", src, sv)
		}
		a.OnBranch = func(f2 *ssa.Function, iff *ssa.If, taken bool, st *absint.State) {
			// branches of inlined helpers count too: a helper may classify the byte it is handed
			cond := iff.Cond
			if tdDebug {
				fmt.Printf("TD branch %s taken=%v cond=%s (%T) em=%s c7d=%s\n", c.P.RelPos(iff.Cond.Pos()), taken, cond, cond, t.g(st, t.em), t.g(st, t.c7d))
			}
			for {
				u, ok := cond.(*ssa.UnOp)
				if !ok || u.Op != token.NOT {
					break
				}
				cond, taken = u.X, !taken
			}
			switch x := cond.(type) {
			case *ssa.BinOp:
				// a search of the whole input for a special byte that came back negative: the byte does not occur
				// (`bytes.IndexByte(data, 0x7d) < 0`, `== -1`, the false side of `>= 0`, … - decided from the branch state)
				for _, opd := range []ssa.Value{x.X, x.Y} {
					call, isC := opd.(*ssa.Call)
					if !isC || call.Call.StaticCallee() == nil || len(call.Call.Args) != 2 {
						continue
					}
					if n := call.Call.StaticCallee().String(); n != "bytes.IndexByte" && n != "bytes.IndexRune" {
						continue
					}
					xs, ok := a.Val(st, call.Call.Args[0]).(*absint.Slice)
					if !ok || !t.isData(xs) || !st.Entails(eqC(xs.Off, t.data.Off)) || !st.Entails(eqC(xs.Len, t.data.Len)) {
						continue
					}
					k, isK := constInt(call.Call.Args[1])
					rv, isI := a.Val(st, call).(absint.Int)
					if !isK || !isI || !st.Entails(leC(rv.L, absint.Const(-1))) {
						continue
					}
					switch k {
					case 0x7d:
						absint.SetGhost(st, t.c7d, t.lenL())
					case 0x7e:
						if t.c7e != nil {
							absint.SetGhost(st, t.c7e, t.lenL())
						}
					}
					return
				}
				if x.Op != token.EQL && x.Op != token.NEQ {
					return
				}
				bv, kv := x.X, x.Y
				if _, isK := constInt(bv); isK {
					bv, kv = kv, bv
				}
				k, isK := constInt(kv)
				if !isK {
					return
				}
				idx, ok := t.dataIndexOf(st, bv)
				if !ok {
					return
				}
				// rebase ghosts that are equal to this index onto the program's own expression
				for _, g := range []*ssa.Phi{t.em, t.c7d, t.c7e} {
					if g != nil && st.Entails(eqC(t.g(st, g), idx)) {
						absint.SetGhost(st, g, idx)
					}
				}
				differs := (x.Op == token.EQL && !taken) || (x.Op == token.NEQ && taken)
				if !differs {
					return
				}
				var g *ssa.Phi
				switch k {
				case 0x7d:
					g = t.c7d
				case 0x7e:
					g = t.c7e
				}
				if g != nil && st.Entails(eqC(t.g(st, g), idx)) {
					absint.SetGhost(st, g, idx.AddC(1))
				}
			case *ssa.Call:
				sc := x.Call.StaticCallee()
				if sc == nil || len(x.Call.Args) != 2 {
					return
				}
				if n := sc.String(); n != "bytes.ContainsRune" && n != "bytes.Contains" {
					return
				}
				xs, ok := a.Val(st, x.Call.Args[0]).(*absint.Slice)
				if !ok || !t.isData(xs) || !st.Entails(eqC(xs.Off, t.data.Off)) || !st.Entails(eqC(xs.Len, t.data.Len)) {
					return
				}
				k, isK := constInt(x.Call.Args[1])
				if !isK || taken {
					return
				}
				switch k {
				case 0x7d:
					absint.SetGhost(st, t.c7d, t.lenL())
				case 0x7e:
					if t.c7e != nil {
						absint.SetGhost(st, t.c7e, t.lenL())
					}
				}
			}
		}
		a.OnRet = func(f2 *ssa.Function, ret *ssa.Return, st *absint.State, val absint.Term) {
			if f2 != fn {
				return
			}
			em := t.g(st, t.em)
			switch mode {
			case tdEscape:
				ok := t.phase(st) == 2
				a.Oblige(rule, fn, ret, "the returned frame is closed after the whole input", ok, fmt.Sprintf("the frame is returned with the input consumed up to %s of %s and phase %d (closing delimiter after the whole input expected)", em, t.lenL(), t.phase(st)))
			case tdUnescape:
				tu, ok := val.(*absint.Tuple)
				if !ok || len(tu.Elems) != 2 {
					return
				}
				if _, isNil := tu.Elems[1].(absint.NilT); isNil {
					const sub = "a successful return has consumed the whole interior"
					end := t.lenL().AddC(-1)
					if rs, isS := tu.Elems[0].(*absint.Slice); isS && t.isData(rs) {
						// the interior itself is returned
						a0, b0 := rs.Off.Sub(t.data.Off), rs.Off.Sub(t.data.Off).Add(rs.Len)
						ok := st.Entails(eqC(em, absint.Const(1))) && st.Entails(eqC(a0, absint.Const(1))) && st.Entails(eqC(b0, end)) && st.Entails(leC(b0, t.g(st, t.c7d)))
						a.Oblige(rule, fn, ret, sub, ok, fmt.Sprintf("input bytes [%s, %s) are returned verbatim but are not proven to be the whole interior free of 0x7d", a0, b0))
						return
					}
					a.Oblige(rule, fn, ret, sub, st.Entails(eqC(em, end)), fmt.Sprintf("a result is returned while the output accounts for the input only up to %s; the interior ends at %s: trailing bytes are dropped", em, end))
					return
				}
				// error return: justified by a malformed envelope or a malformed escape sequence
				n := t.lenL()
				just := st.Entails(leC(n, absint.Const(2))) || t.byteIsNot(st, absint.Const(0), 0x7e) || t.byteIsNot(st, n.AddC(-1), 0x7e)
				if !just {
					p := t.g(st, t.c7d)
					just = t.byteIs(st, p, 0x7d) && t.byteIsNot(st, p.AddC(1), 1) && t.byteIsNot(st, p.AddC(1), 2) && st.Entails(leC(p.AddC(1), n.AddC(-2)))
				}
				a.Oblige(rule, fn, ret, "an error is returned only for malformed input", just, "an error is returned on a path where the frame is not known to be malformed (envelope intact, no 7d followed by a byte other than 01/02 inside the frame)")
			}
		}
	})
	c.AddE1(res, false)
	// anchors: the rule must have produced write and return obligations
	nW, nR := 0, 0
	for _, r := range res {
		for _, o := range r.Obls {
			if o.Rule == rule {
				if _, isRet := o.Instr.(*ssa.Return); isRet {
					nR++
				} else {
					nW++
				}
			}
		}
	}
	if nW < 3 || nR < 1 {
		R.Fatal("%s: only %d output writes and %d returns observed in %s (anchor)", rule, nW, nR, shortFn(fn))
	}
	// single accumulator per return (SSA): every write that can reach a return goes to the value that return hands out
	c.singleAccumulator(fn, rule)
	_ = types.Typ
	_ = sort.Strings
}

// singleAccumulator: the output of every return is the accumulator all reaching writes went to.
func (c *Ctx) singleAccumulator(fn *ssa.Function, rule string) {
	type w struct {
		ins ssa.Instruction
		acc ssa.Value
	}
	var writes []w
	rootOf := func(v ssa.Value) ssa.Value {
		roots, _, _ := appendChain(v)
		if len(roots) == 1 {
			return roots[0]
		}
		return v
	}
	for _, b := range fn.Blocks {
		for _, ins := range b.Instrs {
			call, ok := ins.(*ssa.Call)
			if !ok {
				continue
			}
			if sc := call.Call.StaticCallee(); sc != nil && strings.HasPrefix(sc.String(), "(*bytes.Buffer).Write") {
				writes = append(writes, w{ins, call.Call.Args[0]})
			}
			if bi, isB := call.Call.Value.(*ssa.Builtin); isB && bi.Name() == "append" {
				writes = append(writes, w{ins, rootOf(call)})
			}
		}
	}
	reach := func(from, to *ssa.BasicBlock) bool {
		seen := map[*ssa.BasicBlock]bool{}
		var dfs func(b *ssa.BasicBlock) bool
		dfs = func(b *ssa.BasicBlock) bool {
			if b == to {
				return true
			}
			if seen[b] {
				return false
			}
			seen[b] = true
			for _, s := range b.Succs {
				if dfs(s) {
					return true
				}
			}
			return false
		}
		return dfs(from)
	}
	ok, d := true, ""
	n := 0
	for _, b := range fn.Blocks {
		ret, isRet := b.Instrs[len(b.Instrs)-1].(*ssa.Return)
		if !isRet || len(ret.Results) == 0 {
			continue
		}
		rv := ret.Results[0]
		if k, isK := rv.(*ssa.Const); isK && k.IsNil() {
			continue
		}
		// an error return spilled through a result local (function with defers): nothing is handed out
		if ld, isLd := rv.(*ssa.UnOp); isLd {
			if al, isAl := ld.X.(*ssa.Alloc); isAl {
				nilSpill := false
				for _, ins := range b.Instrs {
					if st, isSt := ins.(*ssa.Store); isSt && st.Addr == ssa.Value(al) {
						if k, isK := st.Val.(*ssa.Const); isK && k.IsNil() {
							nilSpill = true
						}
					}
				}
				if nilSpill {
					continue
				}
			}
		}
		n++
		var accOf func(v ssa.Value, depth int) ssa.Value
		accOf = func(v ssa.Value, depth int) ssa.Value {
			if depth > 4 {
				return v
			}
			if call, isC := v.(*ssa.Call); isC {
				if sc := call.Call.StaticCallee(); sc != nil && sc.String() == "(*bytes.Buffer).Bytes" {
					return call.Call.Args[0]
				}
				if bi, isB := call.Call.Value.(*ssa.Builtin); isB && bi.Name() == "append" {
					return rootOf(call)
				}
			}
			// a result spilled into a local because of a defer: what was stored there
			if ld, isLd := v.(*ssa.UnOp); isLd {
				if al, isAl := ld.X.(*ssa.Alloc); isAl {
					var got ssa.Value
					// prefer the store made in the returning block itself (each return spills its own value)
					for _, ins := range b.Instrs {
						if st, isSt := ins.(*ssa.Store); isSt && st.Addr == ssa.Value(al) {
							if k, isK := st.Val.(*ssa.Const); !isK || !k.IsNil() {
								return accOf(st.Val, depth+1)
							}
						}
					}
					for _, ref := range *al.Referrers() {
						if st, isSt := ref.(*ssa.Store); isSt && st.Addr == ssa.Value(al) {
							if k, isK := st.Val.(*ssa.Const); isK && k.IsNil() {
								continue
							}
							x := accOf(st.Val, depth+1)
							if got != nil && got != x {
								return v
							}
							got = x
						}
					}
					if got != nil {
						return got
					}
				}
			}
			return rootOf(v)
		}
		acc := accOf(rv, 0)
		for _, wr := range writes {
			if reach(wr.ins.Block(), b) && wr.acc != acc {
				// a slice of the input returned directly has no writes of its own
				ok, d = false, fmt.Sprintf("the write at %s goes to a different accumulator than the one returned at %s", c.P.RelPos(wr.ins.Pos()), c.P.RelPos(ret.Pos()))
			}
		}
	}
	st := report.Discharged
	if !ok || n == 0 {
		st = report.Violated
	}
	c.R.Add(rule, shortFn(fn)+" / all writes that reach a return go to the value it returns", c.P.RelPos(fn.Pos()), st, d)
}
