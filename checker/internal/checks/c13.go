package checks

import (
	"fmt"
	"go/token"
	"go/types"
	"jtverif/internal/absint"
	"sort"
	"strings"

	"golang.org/x/tools/go/ssa"

	"jtverif/internal/report"
)

func init() {
	register(&Check{ID: "C13", Level: "other", Run: runC13})
}

func runC13(c *Ctx) {
	R := c.R
	R.Rules["E5.close"] = "a channel that is closed at teardown is sent on only by the closing goroutine role; a send from another role can hit the closed channel and panic the process (a select on the stop channel before a plain send is check-then-act and does not count). Exception: the per-connection command channel, whose only sender is the session manager and whose close is preceded by the synchronous leave (premises checked)"
	R.Rules["E5.exit"] = "when the writer goroutine stops it answers every outstanding request (a loop over the outstanding-request map that sends or closes each reply channel) and drains the queued commands; otherwise their callers wait forever"
	R.Rules["E5.leave"] = "leave is a synchronous round trip through the manager that deletes exactly the given key (premise of the close exception; a skipped round trip leaves a session pointing at a closed channel)"
	R.Rules["E5.stop-order"] = "teardown leaves the registry before anything else and runs once (commands are not routed to a connection that is being torn down)"
	R.Rules["E5.timeout"] = "every command accepted by a connection gets a completion source: the write error path completes it at once, otherwise a timeout goroutine is started whenever the configured duration is >= 0 (0 means the default)"
	R.Rules["E5.confine"] = "the key→session map is created in the manager goroutine and never leaves it (premise of the rules below)"
	R.Rules["E5.insert-if-absent"] = "a join inserts only after a failed lookup of the same key and otherwise answers with the key-exists error, performing no update: a refused duplicate - whose teardown closes its own command channel and leaves with the empty key - never becomes the registry's entry for the key (the next command to the key would be sent on a closed channel and end the process)"
	R.Rules["E5.own-key"] = "a connection records a key as its own only after the join succeeded"
	R.Rules["E5.refuse"] = "the key-exists refusal ends only the refused connection"
	R.Rules["E5.route"] = "commands are routed through the same map: hit → that session's channel, miss → immediate not-exist error"
	leaveSync := c.sessionRules(true)
	ri := c.serviceRoles()
	// ---- closes and sends per channel field of connection
	type site struct {
		fn   *ssa.Function
		ins  ssa.Instruction
		role []string
	}
	closes := map[string][]site{}
	sends := map[string][]site{}
	svcFuncs := c.RepoFuncs("service")
	for _, fn := range svcFuncs {
		for _, b := range fn.Blocks {
			for _, ins := range b.Instrs {
				if call, ok := isBuiltinCall(ins, "close"); ok {
					if owner, f, ok := fieldLoad(call.Call.Args[0]); ok && owner == "connection" {
						closes[f] = append(closes[f], site{fn, ins, rolesOf(ri, fn)})
					}
				}
				// the channel of a send is resolved through parameters and closure variables to the fields it was loaded from
				if s, ok := ins.(*ssa.Send); ok {
					for _, of := range c.chanFieldsOf(s.Chan, svcFuncs) {
						if of[0] == "connection" || of[0] == "session" {
							sends[of[1]] = append(sends[of[1]], site{fn, ins, rolesOf(ri, fn)})
						}
					}
				}
				if sel, ok := ins.(*ssa.Select); ok {
					for _, stt := range sel.States {
						if stt.Dir == types.SendOnly {
							for _, of := range c.chanFieldsOf(stt.Chan, svcFuncs) {
								if of[0] == "connection" || of[0] == "session" {
									// a send inside a select that also waits on the stop channel cannot block for ever,
									// but can still hit a closed channel: treated like a plain send
									sends[of[1]] = append(sends[of[1]], site{fn, ins, rolesOf(ri, fn)})
								}
							}
						}
					}
				}
			}
		}
	}
	fields := make([]string, 0, len(closes))
	for f := range closes {
		fields = append(fields, f)
	}
	sort.Strings(fields)
	nClose := 0
	for _, f := range fields {
		closerRoles := map[string]bool{}
		for _, cl := range closes[f] {
			nClose++
			for _, r := range cl.role {
				closerRoles[r] = true
			}
		}
		if len(sends[f]) == 0 {
			R.Add("E5.close", fmt.Sprintf("connection.%s / closed at teardown, never sent on through this field", f), "", report.Discharged, "")
		}
		for _, s := range sends[f] {
			key := fmt.Sprintf("connection.%s / send in %s / %s", f, shortFn(s.fn), c.constructOf(s.fn, s.ins))
			// a send is safe only if every goroutine that may close the channel is the sender's own goroutine role:
			// with two closing roles, the send of one can meet the close of the other
			foreign := []string{}
			for _, r := range s.role {
				other := !closerRoles[r]
				for cr := range closerRoles {
					if cr != r {
						other = true
					}
				}
				if other {
					foreign = append(foreign, r)
				}
			}
			st, d := report.Discharged, ""
			if len(foreign) > 0 {
				if f == "activeMsgChan" && leaveSync {
					// exception with checked premises: sender is the manager role only, guarded by a registry hit
					onlyMgr := len(s.role) == 1 && s.role[0] == "manager"
					if !onlyMgr {
						st, d = report.Violated, fmt.Sprintf("the command channel is sent on from roles %v (only the session manager may)", s.role)
					}
				} else {
					var cr []string
					for r := range closerRoles {
						cr = append(cr, r)
					}
					sort.Strings(cr)
					st = report.Violated
					d = fmt.Sprintf("channel %s is closed by role %v (connection.stop) but sent on by role %v at %s: after the reader tears the connection down this send panics with 'send on closed channel' and takes the whole process down",
						f, cr, foreign, c.P.RelPos(s.ins.Pos()))
				}
			}
			R.Add("E5.close", key, c.P.RelPos(s.ins.Pos()), st, d)
		}
	}
	if nClose < 4 {
		R.Fatal("only %d closes of connection channels found (anchor: connection.stop closes five)", nClose)
	}
	c.closeAfterAnswer()
	// ---- no goroutine blocks on a channel that only it drains
	{
		R.Rules["E5.self-send"] = "no goroutine role performs a plain (blocking) send on a connection channel whose only receiver is that same role: once the buffer is full - other goroutines may fill it - the role waits for itself and every caller it serves hangs"
		recvRoles := map[string]map[string]bool{}
		for _, fn := range c.RepoFuncs("service") {
			for _, b := range fn.Blocks {
				for _, ins := range b.Instrs {
					var ch ssa.Value
					switch x := ins.(type) {
					case *ssa.UnOp:
						if x.Op == token.ARROW {
							ch = x.X
						}
					case *ssa.Select:
						for _, stt := range x.States {
							if stt.Dir == types.RecvOnly {
								if owner, f, ok := fieldLoad(stt.Chan); ok && (owner == "connection" || owner == "session") {
									if recvRoles[f] == nil {
										recvRoles[f] = map[string]bool{}
									}
									for _, r := range rolesOf(ri, fn) {
										recvRoles[f][r] = true
									}
								}
							}
						}
					case *ssa.Range:
						if _, isChan := x.X.Type().Underlying().(*types.Chan); isChan {
							ch = x.X
						}
					}
					if ch != nil {
						if owner, f, ok := fieldLoad(ch); ok && (owner == "connection" || owner == "session") {
							if recvRoles[f] == nil {
								recvRoles[f] = map[string]bool{}
							}
							for _, r := range rolesOf(ri, fn) {
								recvRoles[f][r] = true
							}
						}
					}
				}
			}
		}
		n := 0
		for _, f := range sortedKeysOf(sends) {
			for _, sd := range sends[f] {
				if _, plain := sd.ins.(*ssa.Send); !plain {
					continue
				}
				n++
				rr := recvRoles[f]
				self := len(rr) > 0
				for _, r := range sd.role {
					if !rr[r] || len(rr) != 1 {
						self = false
					}
				}
				st, d := report.Discharged, ""
				if self && len(sd.role) > 0 {
					st, d = report.Violated, fmt.Sprintf("role %v sends on %s at %s, and only that role receives from it: when the buffer is full the goroutine blocks on itself for ever (all SendActiveMessage callers of the connection hang)", sd.role, f, c.P.RelPos(sd.ins.Pos()))
				}
				R.Add("E5.self-send", fmt.Sprintf("connection.%s / send in %s / %s", f, shortFn(sd.fn), c.constructOf(sd.fn, sd.ins)), c.P.RelPos(sd.ins.Pos()), st, d)
			}
		}
		if n < 2 {
			R.Fatal("only %d plain sends on connection channels found (anchor)", n)
		}
	}
	// ---- writer exit
	writeFn := c.P.Method("service", "connection", "write")
	if writeFn == nil {
		R.Fatal("anchor connection.write not found")
		return
	}
	{
		// the select case on the stop channel, and the region it reaches without going back to the select
		var sel *ssa.Select
		stopIdx := -1
		for _, b := range writeFn.Blocks {
			for _, ins := range b.Instrs {
				if x, ok := ins.(*ssa.Select); ok {
					for k, stt := range x.States {
						if _, f, ok := fieldLoad(stt.Chan); ok && f == "stopChan" && stt.Dir == types.RecvOnly {
							sel, stopIdx = x, k
						}
					}
				}
			}
		}
		hasRangeAnswer, hasDrain := false, false
		drainBad := ""
		exitChecked, otherExit := false, ""
		if sel == nil {
			R.Fatal("connection.write has no select case on the stop channel (anchor)")
		} else {
			var caseBlock *ssa.BasicBlock
			for _, b := range writeFn.Blocks {
				iff, ok := b.Instrs[len(b.Instrs)-1].(*ssa.If)
				if !ok {
					continue
				}
				bo, ok := iff.Cond.(*ssa.BinOp)
				if !ok {
					continue
				}
				ex, ok := bo.X.(*ssa.Extract)
				if !ok || ex.Tuple != sel || ex.Index != 0 {
					continue
				}
				if k, ok := constInt(bo.Y); ok && int(k) == stopIdx {
					caseBlock = b.Succs[0]
				}
			}
			if caseBlock == nil {
				R.Fatal("cannot locate the stop case of connection.write's select")
			} else {
				region := map[*ssa.BasicBlock]bool{}
				var walk func(x *ssa.BasicBlock)
				walk = func(x *ssa.BasicBlock) {
					if region[x] || x == sel.Block() {
						return
					}
					region[x] = true
					for _, su := range x.Succs {
						walk(su)
					}
				}
				walk(caseBlock)
				mapRange, replySend, drainRecv := false, false, false
				// the stop arm's own blocks plus the bodies of the package helpers it calls (the arm may be a method call)
				scan := []*ssa.BasicBlock{}
				for b := range region {
					scan = append(scan, b)
					for _, ins := range b.Instrs {
						if call, isC := ins.(*ssa.Call); isC {
							if sc := call.Call.StaticCallee(); sc != nil && c.P.IsRepoFunc(sc) && pkgOf(sc) == pkgOf(writeFn) {
								for _, hf := range c.familyOf(sc) {
									scan = append(scan, hf.Blocks...)
								}
							}
						}
					}
				}
				for _, b := range scan {
					for _, ins := range b.Instrs {
						switch v := ins.(type) {
						case *ssa.Range:
							if _, isMap := v.X.Type().Underlying().(*types.Map); isMap {
								mapRange = true
							}
						case *ssa.Send:
							if _, f, ok := fieldLoad(v.Chan); ok && f == "replyChan" {
								replySend = true
							}
						case *ssa.UnOp:
							if v.Op.String() == "<-" {
								if _, f, ok := fieldLoad(v.X); ok && f == "activeMsgChan" {
									drainRecv = true
								}
							}
						case *ssa.Call:
							if bi, isB := v.Call.Value.(*ssa.Builtin); isB && bi.Name() == "close" {
								if _, f, ok := fieldLoad(v.Call.Args[0]); ok && f == "replyChan" {
									replySend = true
								}
							}
						}
					}
				}
				hasRangeAnswer = mapRange && replySend
				hasDrain = drainRecv && replySend
				// the drain goes on until the queue says it is empty: the loop around the receive is left only on the receive's
				// own ok flag (range over the closed channel) or on a select's default arm - not on a count taken beforehand
				// or recomputed while the queue shrinks
				for _, b := range scan {
					for _, ins := range b.Instrs {
						u, isU := ins.(*ssa.UnOp)
						if !isU || u.Op != token.ARROW {
							continue
						}
						if _, f, ok := fieldLoad(u.X); !ok || f != "activeMsgChan" {
							continue
						}
						var loop map[*ssa.BasicBlock]bool
						for _, l := range loopsByHeader(b.Parent()) {
							if l[b] && (loop == nil || len(l) < len(loop)) {
								loop = l
							}
						}
						if loop == nil {
							drainBad = "the receive from the command queue at " + c.P.RelPos(u.Pos()) + " is not in a loop: at most one queued command is answered"
							continue
						}
						for lb := range loop {
							leaves := false
							for _, su := range lb.Succs {
								if !loop[su] {
									leaves = true
								}
							}
							if !leaves {
								continue
							}
							okExit := false
							if iff, isIf := lb.Instrs[len(lb.Instrs)-1].(*ssa.If); isIf {
								cond := iff.Cond
								if un, isNot := cond.(*ssa.UnOp); isNot && un.Op == token.NOT {
									cond = un.X
								}
								if ex, isEx := cond.(*ssa.Extract); isEx && ex.Tuple == ssa.Value(u) && u.CommaOk && ex.Index == 1 {
									okExit = true
								}
								if bo, isBO := cond.(*ssa.BinOp); isBO {
									for _, side := range []ssa.Value{bo.X, bo.Y} {
										if ex, isEx := side.(*ssa.Extract); isEx && ex.Index == 0 {
											if _, isSel := ex.Tuple.(*ssa.Select); isSel {
												okExit = true
											}
										}
									}
								}
							}
							if !okExit {
								pos := c.P.RelPos(lb.Instrs[len(lb.Instrs)-1].Pos())
								for k := len(lb.Instrs) - 1; k >= 0 && (pos == "?" || pos == ""); k-- {
									pos = c.P.RelPos(lb.Instrs[k].Pos())
								}
								drainBad = "the loop that takes the queued commands out is left near " + pos + " on a condition other than 'the queue is closed and empty' (the receive's ok flag): a bound such as len(queue), re-evaluated while the queue shrinks, stops half way and the remaining callers wait forever"
							}
						}
					}
				}
				// every way out of the writer's loop goes through the stop arm
				seenB := map[*ssa.BasicBlock]bool{caseBlock: true}
				var esc func(x *ssa.BasicBlock)
				esc = func(x *ssa.BasicBlock) {
					if seenB[x] {
						return
					}
					seenB[x] = true
					if ret, isR := x.Instrs[len(x.Instrs)-1].(*ssa.Return); isR {
						otherExit = c.P.RelPos(ret.Pos())
					}
					for _, su := range x.Succs {
						esc(su)
					}
				}
				esc(sel.Block())
				exitChecked = true
			}
		}
		st, d := report.Discharged, ""
		if !hasRangeAnswer {
			st, d = report.Violated, "when the stop channel fires the writer clears its outstanding-request map and returns without answering the reply channels: a SendActiveMessage caller whose command was written but not yet answered (and whose timeout goroutine sees the closed stop channel and returns silently) waits forever"
		}
		R.Add("E5.exit", "connection.write / outstanding requests are answered when the writer stops", c.P.RelPos(writeFn.Pos()), st, d)
		st, d = report.Discharged, ""
		if hasDrain && drainBad != "" {
			st, d = report.Violated, drainBad
		}
		if !hasDrain {
			st, d = report.Violated, "commands already queued in the per-connection command channel when the writer stops are never taken out and answered: their callers wait forever"
		}
		R.Add("E5.exit", "connection.write / queued commands are drained and answered when the writer stops", c.P.RelPos(writeFn.Pos()), st, d)
		if exitChecked {
			st, d = report.Discharged, ""
			if otherExit != "" {
				st, d = report.Violated, "the writer can return at "+otherExit+" without passing through the stop arm (the only place that answers outstanding and queued commands): when several of its channels are ready at teardown the select may pick this arm, and the callers of SendActiveMessage wait forever"
			}
			R.Add("E5.exit", "connection.write / the stop arm is the only way out of the writer's loop", c.P.RelPos(writeFn.Pos()), st, d)
		}
	}
	{
		R.Rules["S.complete"] = "every delivery to the reply channel of a recorded request is followed by deleting the record: a stale record is answered again when the writer stops, on a channel its caller has already closed (send on closed channel takes the process down)"
		n, okDel, bad := c.replyThenDelete()
		st, d := report.Discharged, ""
		if !okDel || len(bad) > 0 {
			st, d = report.Violated, fmt.Sprintf("the reply delivered at %v is not followed by deleting the outstanding record (%d reply deliveries examined)", bad, n)
		}
		R.Add("S.complete", "service / reply delivery is followed by deleting the record", "", st, d)
	}
	c.timeoutRule()
	R.Require("E5.close", 3, "")
	R.Require("E5.exit", 3, "")
	R.Require("E5.leave", 1, "")
	R.Require("E5.stop-order", 2, "")
	// ---- the roles themselves do not panic: reader and writer of a connection, interpreted from the state the
	//      constructor establishes, for every message, command, completion and teardown order the interpretation covers
	//      (nil dereference of a message without frame, index / slice bounds, explicit panics). Shared with C10.
	{
		c.E1Rules()
		sNew := c.P.Func("service", "newConnection")
		sReader := c.P.Method("service", "connection", "reader")
		sWrite := c.P.Method("service", "connection", "write")
		if sNew == nil || sReader == nil || sWrite == nil {
			R.Fatal("anchors service.newConnection / connection.reader / connection.write not found")
		} else {
			paired := map[string]string{}
			if c.pairedMapsLemma("service", "packageParse", "subcontractingRecord", "timeoutRecord") {
				paired[".packageParse#timeoutRecord"] = ".packageParse#subcontractingRecord"
			}
			seqs := []seqEntry{{sNew, sReader, false}, {sNew, sWrite, false}}
			results := make([]*E1Result, len(seqs))
			done := make(chan int)
			for i := range seqs {
				go func(i int) {
					results[i] = c.runSeqWith(seqs[i], func(a *absint.Analyzer) { a.PairedMaps = paired })
					done <- i
				}(i)
			}
			for range seqs {
				<-done
			}
			n := c.AddE1(results, false)
			R.Notes["role_obligation_instances"] = n
			if n < 100 {
				R.Fatal("the reader / writer role analysis produced only %d obligation instances (anchor)", n)
			}
		}
	}
	R.Explain = "Channel discipline by goroutine role over the VTA call graph: who closes and who sends on each connection channel, what the writer does on its exit path, whether teardown leaves the registry first and synchronously, whether every accepted command has a completion source. " +
		"The wall-clock bound of the property is not decided. Genuine defects of the current tree (sends on activeMsgCompleteChan from the writer and the timeout goroutine while the reader closes it; no answer to outstanding/queued callers at writer exit) are recorded as known findings."
	_ = strings.Join
}

// timeoutRule: every accepted command has a completion source.
func (c *Ctx) timeoutRule() {
	R := c.R
	onActive := c.P.Method("service", "connection", "onActiveEvent")
	if onActive == nil {
		R.Fatal("anchor connection.onActiveEvent not found")
		return
	}
	{
		// the go statement must be control dependent only on `err == nil` and `OverTimeDuration >= 0`
		ok, d := false, "onActiveEvent starts no timeout goroutine"
		for _, b := range onActive.Blocks {
			for _, ins := range b.Instrs {
				g, isGo := ins.(*ssa.Go)
				if !isGo {
					continue
				}
				ok, d = true, ""
				// find dominating conditions on OverTimeDuration
				for _, b2 := range onActive.Blocks {
					iff, isIf := b2.Instrs[len(b2.Instrs)-1].(*ssa.If)
					if !isIf || !(b2.Succs[0].Dominates(g.Block()) || b2.Succs[1].Dominates(g.Block())) {
						continue
					}
					bo, isBo := iff.Cond.(*ssa.BinOp)
					if !isBo {
						continue
					}
					_, f, isF := fieldLoad(bo.X)
					if !isF || f != "OverTimeDuration" {
						continue
					}
					k, isK := constInt(bo.Y)
					if !isK {
						continue
					}
					onTrue := b2.Succs[0].Dominates(g.Block()) && len(b2.Succs[0].Preds) == 1
					if !onTrue {
						continue // the goroutine is on the else side of this test: e.g. `> 0` choosing the duration
					}
					// admitted values of OverTimeDuration on the true edge must include 0
					admitsZero := false
					switch bo.Op.String() {
					case ">=":
						admitsZero = k <= 0
					case ">":
						admitsZero = k < 0
					case "!=":
						admitsZero = k != 0
					case "==":
						admitsZero = k == 0
					case "<=":
						admitsZero = k >= 0
					case "<":
						admitsZero = k > 0
					}
					if !admitsZero {
						ok = false
						d = fmt.Sprintf("the timeout goroutine is started only under OverTimeDuration %s %d (at %s): a command with the zero duration (struct literal, JSON) is written and recorded but never times out", bo.Op, k, c.P.RelPos(iff.Pos()))
					}
				}
			}
		}
		st := report.Discharged
		if !ok {
			st = report.Violated
		}
		R.Add("E5.timeout", "connection.onActiveEvent / a timeout goroutine is started for every duration >= 0", c.P.RelPos(onActive.Pos()), st, d)
	}
	// the timer's result is delivered: the goroutine hands its message to the completion channel with a blocking send,
	// alone or in a select whose other arms only wait for the connection to stop (no default arm, no other way out)
	{
		nSend := 0
		ok, d := true, ""
		var timerFns []*ssa.Function
		for _, f0 := range c.familyOf(onActive) {
			for _, b := range f0.Blocks {
				for _, ins := range b.Instrs {
					if g, isG := ins.(*ssa.Go); isG {
						start := g.Call.StaticCallee()
						if start == nil {
							start = funcOfValue(g.Call.Value)
						}
						if start != nil && c.P.IsRepoFunc(start) {
							timerFns = append(timerFns, c.familyOf(start)...)
						}
					}
				}
			}
		}
		for _, f := range timerFns {
			for _, b := range f.Blocks {
				for _, ins := range b.Instrs {
					switch x := ins.(type) {
					case *ssa.Send:
						if _, fl, isF := fieldLoad(x.Chan); isF && fl == "activeMsgCompleteChan" {
							nSend++
						}
					case *ssa.Select:
						sends := false
						for _, stt := range x.States {
							if _, fl, isF := fieldLoad(stt.Chan); isF && fl == "activeMsgCompleteChan" && stt.Dir == types.SendOnly {
								sends = true
							}
						}
						if !sends {
							continue
						}
						nSend++
						if !x.Blocking {
							ok, d = false, "the timeout result is offered to the completion channel in a select with a default arm (at "+c.P.RelPos(x.Pos())+"): when the channel's buffer is momentarily full - several commands time out together, or the writer is busy - the result is dropped, the record stays and the caller of SendActiveMessage waits forever"
						}
						for _, stt := range x.States {
							_, fl, isF := fieldLoad(stt.Chan)
							if isF && fl == "activeMsgCompleteChan" {
								continue
							}
							if !isF || fl != "stopChan" || stt.Dir != types.RecvOnly {
								ok, d = false, "the select that delivers the timeout result has an arm other than the stop channel (at "+c.P.RelPos(x.Pos())+"): the result can be abandoned while the connection is alive"
							}
						}
					}
				}
			}
		}
		if nSend == 0 {
			ok, d = false, "the timeout goroutine never sends to the completion channel"
		}
		st := report.Discharged
		if !ok {
			st = report.Violated
		}
		R.Add("E5.timeout", "connection.onActiveEvent / the timeout result is delivered unless the connection stops", c.P.RelPos(onActive.Pos()), st, d)
	}
	// the time waited is the configured duration itself (or the constant default): by def-use, the argument of the
	// waiting primitive in the goroutine started by onActiveEvent is only the OverTimeDuration field or a constant -
	// no arithmetic, no detour through float seconds (truncation makes sub-second timeouts fire at once)
	{
		var goFns []*ssa.Function
		for _, b := range onActive.Blocks {
			for _, ins := range b.Instrs {
				if g, isGo := ins.(*ssa.Go); isGo {
					switch v := g.Call.Value.(type) {
					case *ssa.MakeClosure:
						if f, isF := v.Fn.(*ssa.Function); isF {
							goFns = append(goFns, f)
						}
					case *ssa.Function:
						goFns = append(goFns, v)
					}
				}
			}
		}
		var leaves []string
		var walk func(v ssa.Value, fn *ssa.Function, depth int)
		seen := map[ssa.Value]bool{}
		walk = func(v ssa.Value, fn *ssa.Function, depth int) {
			if v == nil || seen[v] || depth > 10 {
				return
			}
			seen[v] = true
			switch x := v.(type) {
			case *ssa.Const:
				leaves = append(leaves, "const")
			case *ssa.Phi:
				for _, e := range x.Edges {
					walk(e, fn, depth+1)
				}
			case *ssa.ChangeType:
				walk(x.X, fn, depth+1)
			case *ssa.Convert:
				if isIntType(x.Type()) && isIntType(x.X.Type()) {
					walk(x.X, fn, depth+1)
				} else {
					leaves = append(leaves, "a conversion "+x.X.Type().String()+" → "+x.Type().String()+" at "+c.P.RelPos(x.Pos()))
				}
			case *ssa.UnOp:
				switch a := x.X.(type) {
				case *ssa.FieldAddr:
					st := a.X.Type().Underlying().(*types.Pointer).Elem().Underlying().(*types.Struct)
					leaves = append(leaves, "field:"+st.Field(a.Field).Name())
				case *ssa.Alloc:
					for _, ref := range *a.Referrers() {
						if s2, isS := ref.(*ssa.Store); isS && s2.Addr == ssa.Value(a) {
							walk(s2.Val, a.Parent(), depth+1)
						}
					}
				case *ssa.FreeVar:
					walk(a, fn, depth+1)
				default:
					leaves = append(leaves, fmt.Sprintf("a load of %T", x.X))
				}
			case *ssa.FreeVar:
				f := x.Parent()
				idx := -1
				for i, fv := range f.FreeVars {
					if fv == x {
						idx = i
					}
				}
				found := false
				if par := f.Parent(); par != nil && idx >= 0 {
					for _, b := range par.Blocks {
						for _, ins := range b.Instrs {
							if mc, isMC := ins.(*ssa.MakeClosure); isMC && mc.Fn == ssa.Value(f) && idx < len(mc.Bindings) {
								found = true
								bv := mc.Bindings[idx]
								if al, isAl := bv.(*ssa.Alloc); isAl {
									// captured by reference: the values stored into the variable
									for _, ref := range *al.Referrers() {
										if s2, isS := ref.(*ssa.Store); isS && s2.Addr == ssa.Value(al) {
											walk(s2.Val, par, depth+1)
										}
									}
								} else {
									walk(bv, par, depth+1)
								}
							}
						}
					}
				}
				if !found {
					leaves = append(leaves, "an unresolved captured variable "+x.Name())
				}
			case *ssa.Parameter:
				// the corresponding argument at every call / go site of the function inside the package
				pf := x.Parent()
				idx := -1
				for i, p := range pf.Params {
					if p == x {
						idx = i
					}
				}
				nSites := 0
				for _, g := range c.RepoFuncs("service") {
					for _, b := range g.Blocks {
						for _, ins := range b.Instrs {
							ci, isCI := ins.(ssa.CallInstruction)
							if !isCI {
								continue
							}
							cc := ci.Common()
							var callee *ssa.Function
							switch cv := cc.Value.(type) {
							case *ssa.Function:
								callee = cv
							case *ssa.MakeClosure:
								callee, _ = cv.Fn.(*ssa.Function)
							}
							if callee != pf || cc.IsInvoke() || idx >= len(cc.Args) {
								continue
							}
							nSites++
							walk(cc.Args[idx], g, depth+1)
						}
					}
				}
				if nSites == 0 {
					leaves = append(leaves, "parameter "+x.Name()+" of a function without call sites in the package")
				}
			case *ssa.BinOp:
				leaves = append(leaves, "arithmetic ("+x.Op.String()+") at "+c.P.RelPos(x.Pos()))
			case *ssa.Call:
				// a helper of the package that hands back one of its arguments or a constant (choice of the default)
				if sc := x.Call.StaticCallee(); sc != nil && c.P.IsRepoFunc(sc) && pkgOf(sc) == pkgOf(onActive) && len(sc.Blocks) > 0 && sc.Signature.Results().Len() == 1 {
					for _, b := range sc.Blocks {
						if ret, isR := b.Instrs[len(b.Instrs)-1].(*ssa.Return); isR {
							walk(ret.Results[0], sc, depth+1)
						}
					}
					break
				}
				leaves = append(leaves, "the result of "+calleeName(&x.Call)+" at "+c.P.RelPos(x.Pos()))
			default:
				leaves = append(leaves, fmt.Sprintf("%T", v))
			}
		}
		nWait := 0
		for _, f := range goFns {
			for _, b := range f.Blocks {
				for _, ins := range b.Instrs {
					call, isC := ins.(*ssa.Call)
					if !isC || call.Call.StaticCallee() == nil {
						continue
					}
					switch call.Call.StaticCallee().String() {
					case "time.Sleep", "time.After", "time.NewTimer", "time.Tick", "time.NewTicker":
						nWait++
						walk(call.Call.Args[0], f, 0)
					case "time.AfterFunc":
						nWait++
						walk(call.Call.Args[0], f, 0)
					}
				}
			}
		}
		ok, d := nWait > 0, "the goroutine started by onActiveEvent waits on no timer"
		for _, l := range dedupe(leaves) {
			if l != "const" && l != "field:OverTimeDuration" {
				ok = false
				d = "the time the timeout goroutine waits is derived from " + l + ", not the configured OverTimeDuration itself (or the constant default): the caller's timeout is not the time that elapses"
			}
		}
		st := report.Discharged
		if !ok {
			st = report.Violated
		}
		R.Add("E5.timeout", "connection.onActiveEvent / the goroutine waits exactly the configured duration (or the default)", c.P.RelPos(onActive.Pos()), st, d)
	}
}

func sortedKeysOf[T any](m map[string]T) []string {
	out := make([]string, 0, len(m))
	for k := range m {
		out = append(out, k)
	}
	sort.Strings(out)
	return out
}

// closeAfterAnswer: a function that creates a channel, hands it to other goroutines and closes it itself (the per-call
// reply channel of sessionManager.write) may close it only after the answer has been taken from it: every way from
// the creation to a return runs over a plain receive from that channel. A return without the receive (a caller-side
// timer in a select, an early error return) closes a channel that the writer or the manager still answers on - their
// send panics with "send on closed channel" and the process ends.
func (c *Ctx) closeAfterAnswer() {
	R := c.R
	rule := "E5.close-after-answer"
	R.Rules[rule] = "a function of the service package that creates a channel, lets it escape to other goroutines and closes it itself (directly or deferred) receives from it - a plain receive, not one arm of a select - on every path from the creation to a return: the side that answers always finds the channel open"
	n := 0
	for _, fn := range c.RepoFuncs("service") {
		for _, b := range fn.Blocks {
			for mi, ins := range b.Instrs {
				mk, isMk := ins.(*ssa.MakeChan)
				if !isMk {
					continue
				}
				// the variable the channel lives in (captured variables are cells)
				var cell *ssa.Alloc
				for _, ref := range *mk.Referrers() {
					if st, isSt := ref.(*ssa.Store); isSt && st.Val == mk {
						if al, isAl := st.Addr.(*ssa.Alloc); isAl {
							single := true
							for _, r2 := range *al.Referrers() {
								if s2, isS2 := r2.(*ssa.Store); isS2 && s2.Addr == al && s2 != st {
									single = false
								}
							}
							if single {
								cell = al
							}
						}
					}
				}
				isCh := func(v ssa.Value) bool {
					if v == mk {
						return true
					}
					if u, ok := v.(*ssa.UnOp); ok && u.Op == token.MUL && cell != nil && u.X == cell {
						return true
					}
					return false
				}
				closed, escapes := false, false
				for _, b2 := range fn.Blocks {
					for _, i2 := range b2.Instrs {
						switch x := i2.(type) {
						case *ssa.Call:
							if bi, ok := x.Call.Value.(*ssa.Builtin); ok && bi.Name() == "close" && isCh(x.Call.Args[0]) {
								closed = true
							} else if !ok {
								// handed to a function or constructor (an operation object that carries the channel)
								for _, a := range x.Call.Args {
									if isCh(a) {
										escapes = true
									}
								}
							}
						case *ssa.Go:
							for _, a := range x.Call.Args {
								if isCh(a) {
									escapes = true
								}
							}
						case *ssa.Defer:
							if bi, ok := x.Call.Value.(*ssa.Builtin); ok && bi.Name() == "close" && isCh(x.Call.Args[0]) {
								closed = true
							}
						case *ssa.MakeClosure:
							for _, bd := range x.Bindings {
								if bd == ssa.Value(cell) && cell != nil || bd == ssa.Value(mk) {
									escapes = true
								}
							}
						case *ssa.Store:
							if isCh(x.Val) && x.Addr != ssa.Value(cell) {
								escapes = true
							}
						case *ssa.Send:
							if isCh(x.X) {
								escapes = true
							}
						}
					}
				}
				if !closed || !escapes {
					continue
				}
				n++
				recvAfter := func(blk *ssa.BasicBlock, from int) bool {
					for _, i2 := range blk.Instrs[from:] {
						if u, ok := i2.(*ssa.UnOp); ok && u.Op == token.ARROW && isCh(u.X) {
							return true
						}
					}
					return false
				}
				bad := ""
				seen := map[*ssa.BasicBlock]bool{}
				var walk func(blk *ssa.BasicBlock, from int)
				walk = func(blk *ssa.BasicBlock, from int) {
					if bad != "" || recvAfter(blk, from) {
						return
					}
					if ret, isR := blk.Instrs[len(blk.Instrs)-1].(*ssa.Return); isR {
						bad = c.P.RelPos(ret.Pos())
						if bad == "" {
							bad = "a return of " + shortFn(fn)
						}
						return
					}
					for _, sblk := range blk.Succs {
						if !seen[sblk] {
							seen[sblk] = true
							walk(sblk, 0)
						}
					}
				}
				walk(b, mi+1)
				st, d := report.Discharged, ""
				if bad != "" {
					st, d = report.Violated, fmt.Sprintf("%s closes the channel it created at %s, but the return at %s is reached without a plain receive from it: whoever still answers on that channel (the writer completing or timing out the command, the writer's teardown, the manager's not-exist answer) sends on a closed channel and the process panics", shortFn(fn), c.P.RelPos(mk.Pos()), bad)
				}
				R.Add(rule, shortFn(fn)+" / "+c.constructOf(fn, mk), c.P.RelPos(mk.Pos()), st, d)
			}
		}
	}
	if n == 0 {
		R.Fatal("%s: no function creates, shares and closes a channel (confirmed by hand: sessionManager.write's reply channel)", rule)
	}
	R.Require(rule, 1, "")
}
