package checks

import (
	"fmt"
	"go/constant"
	"go/types"
	"sort"
	"strings"

	"golang.org/x/tools/go/ssa"
)

// Origin describes where a value ultimately comes from (def-use closure over SSA, through
// φ-nodes, conversions, tuple extraction, string concatenation / formatting and the return
// values of repo functions).
type Origin struct {
	Kind string // const, call, field, param, alloc, global, other
	Name string // callee / field / parameter name
	Val  ssa.Value
	Via  []string
}

func (o Origin) String() string {
	s := o.Kind + ":" + o.Name
	if len(o.Via) > 0 {
		s += " via " + strings.Join(o.Via, "→")
	}
	return s
}

type originWalker struct {
	c     *Ctx
	seen  map[ssa.Value]bool
	out   []Origin
	depth int
	// passThrough: callees whose result is a function of their arguments (formatting, joins):
	// origins of the arguments are followed.
	passThrough map[string]bool
	// stopAt: callee names that are reported as origins even if they have bodies in the repo.
	stopAt map[string]bool
}

func (c *Ctx) origins(v ssa.Value, passThrough, stopAt map[string]bool) []Origin {
	w := &originWalker{c: c, seen: map[ssa.Value]bool{}, passThrough: passThrough, stopAt: stopAt}
	w.walk(v, nil)
	sort.Slice(w.out, func(i, j int) bool { return w.out[i].String() < w.out[j].String() })
	return w.out
}

func calleeName(call *ssa.CallCommon) string {
	if call.IsInvoke() {
		return "(" + call.Value.Type().String() + ")." + call.Method.Name()
	}
	if sc := call.StaticCallee(); sc != nil {
		return sc.String()
	}
	if b, ok := call.Value.(*ssa.Builtin); ok {
		return "builtin " + b.Name()
	}
	return "dynamic"
}

func (w *originWalker) add(o Origin) { w.out = append(w.out, o) }

func (w *originWalker) walk(v ssa.Value, via []string) {
	if v == nil || w.seen[v] || len(via) > 12 {
		return
	}
	w.seen[v] = true
	switch x := v.(type) {
	case *ssa.Const:
		name := "nil"
		if x.Value != nil {
			name = x.Value.ExactString()
			if x.Value.Kind() == constant.String {
				name = constant.StringVal(x.Value)
			}
		}
		w.add(Origin{"const", name, v, via})
	case *ssa.Phi:
		for _, e := range x.Edges {
			w.walk(e, via)
		}
	case *ssa.Convert:
		w.walk(x.X, via)
	case *ssa.ChangeType:
		w.walk(x.X, via)
	case *ssa.ChangeInterface:
		w.walk(x.X, via)
	case *ssa.MakeInterface:
		w.walk(x.X, via)
	case *ssa.Slice:
		w.walk(x.X, append(via, "slice"))
	case *ssa.Extract:
		if call, ok := x.Tuple.(*ssa.Call); ok {
			w.call(call, x.Index, via)
		} else if nx, ok := x.Tuple.(*ssa.Next); ok {
			// key / element of a range loop: comes from the ranged container
			if rg, ok := nx.Iter.(*ssa.Range); ok {
				w.walk(rg.X, append(via, "range"))
			} else {
				w.add(Origin{"other", "range element", v, via})
			}
		} else if lk, ok := x.Tuple.(*ssa.Lookup); ok {
			w.walk(lk.X, append(via, "lookup"))
		} else {
			w.add(Origin{"other", fmt.Sprintf("%T", x.Tuple), v, via})
		}
	case *ssa.Call:
		w.call(x, -1, via)
	case *ssa.BinOp:
		// string concatenation
		if isStringType(x.Type()) {
			w.walk(x.X, append(via, "concat"))
			w.walk(x.Y, append(via, "concat"))
		} else {
			w.add(Origin{"other", "binop " + x.Op.String(), v, via})
		}
	case *ssa.UnOp: // load
		switch a := x.X.(type) {
		case *ssa.FieldAddr:
			st := a.X.Type().Underlying().(*types.Pointer).Elem().Underlying().(*types.Struct)
			tn := a.X.Type().Underlying().(*types.Pointer).Elem().String()
			w.add(Origin{"field", tn[strings.LastIndex(tn, "/")+1:] + "." + st.Field(a.Field).Name(), v, via})
		case *ssa.Alloc:
			// local variable: follow stores
			found := false
			for _, ref := range *a.Referrers() {
				if s, ok := ref.(*ssa.Store); ok && s.Addr == a {
					found = true
					w.walk(s.Val, via)
				}
			}
			if !found {
				w.add(Origin{"alloc", a.Comment, v, via})
			}
		case *ssa.Global:
			w.add(Origin{"global", a.Name(), v, via})
		case *ssa.FreeVar:
			w.add(Origin{"param", "freevar " + a.Name(), v, via})
		case *ssa.IndexAddr:
			w.walk(a.X, append(via, "elem"))
		default:
			w.add(Origin{"other", fmt.Sprintf("load %T", x.X), v, via})
		}
	case *ssa.Parameter:
		w.add(Origin{"param", x.Name(), v, via})
	case *ssa.FreeVar:
		w.add(Origin{"param", "freevar " + x.Name(), v, via})
	case *ssa.Alloc:
		w.add(Origin{"alloc", x.Comment, v, via})
	case *ssa.MakeSlice:
		w.add(Origin{"alloc", "make", v, via})
	case *ssa.Lookup:
		w.walk(x.X, append(via, "lookup"))
	case *ssa.Next:
		w.add(Origin{"other", "range element", v, via})
	case *ssa.Field:
		w.walk(x.X, append(via, "field#"+fmt.Sprint(x.Field)))
	default:
		w.add(Origin{"other", fmt.Sprintf("%T", v), v, via})
	}
}

func isStringType(t types.Type) bool {
	b, ok := t.Underlying().(*types.Basic)
	return ok && b.Info()&types.IsString != 0
}

// variadicArgs returns the values stored into the variadic slice argument.
func variadicArgs(v ssa.Value) []ssa.Value {
	sl, ok := v.(*ssa.Slice)
	if !ok {
		return nil
	}
	arr, ok := sl.X.(*ssa.Alloc)
	if !ok {
		return nil
	}
	var out []ssa.Value
	for _, ref := range *arr.Referrers() {
		if ia, ok := ref.(*ssa.IndexAddr); ok {
			for _, r2 := range *ia.Referrers() {
				if st, ok := r2.(*ssa.Store); ok {
					out = append(out, st.Val)
				}
			}
		}
	}
	return out
}

func (w *originWalker) call(call *ssa.Call, resultIdx int, via []string) {
	name := calleeName(&call.Call)
	short := name[strings.LastIndex(name, "/")+1:]
	if w.stopAt[name] || w.stopAt[short] {
		w.add(Origin{"call", name, call, via})
		return
	}
	if w.passThrough[name] || w.passThrough[short] {
		for _, a := range call.Call.Args {
			if vs := variadicArgs(a); vs != nil {
				for _, x := range vs {
					w.walk(x, append(via, short))
				}
				continue
			}
			w.walk(a, append(via, short))
		}
		return
	}
	sc := call.Call.StaticCallee()
	if sc != nil && w.c.P.IsRepoFunc(sc) && len(via) < 10 {
		// follow the returned values of repo functions
		n := 0
		for _, b := range sc.Blocks {
			if ret, ok := b.Instrs[len(b.Instrs)-1].(*ssa.Return); ok {
				idx := resultIdx
				if idx < 0 {
					idx = 0
				}
				if idx < len(ret.Results) {
					n++
					w.walk(ret.Results[idx], append(via, "ret "+short))
				}
			}
		}
		if n > 0 {
			return
		}
	}
	w.add(Origin{"call", name, call, via})
}
