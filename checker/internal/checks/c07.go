package checks

import (
	"fmt"
	"go/token"
	"go/types"
	"os"
	"regexp"
	"sort"
	"strconv"
	"strings"

	"golang.org/x/tools/go/ssa"

	"jtverif/internal/absint"
	"jtverif/internal/load"
	"jtverif/internal/report"
)

var c07Debug = os.Getenv("JTVERIF_C07") != ""

type encPath struct {
	segs []absint.Seg
	ok   bool
	st   *absint.State
}

// c07Preset fixes a configuration field (active-safety dialect) of the receiver before both analyses.
type c07Preset struct {
	desc string
	path []string // field path to the configuration field
	val  int64
}

type c07Type struct {
	preset      *c07Preset
	name        string
	enc         *ssa.Function
	parse       *ssa.Function
	writer      []encPath
	reader      []map[string]string // per successful return: field -> render
	readerTerms []map[string]absint.Term
	readSt      []*absint.State
	a           *absint.Analyzer
	ra          *absint.Analyzer
}

func (c *Ctx) c07Pure(a *absint.Analyzer) {
	a.OpaquePure = map[string]int64{}
	for n, l := range map[string]int64{"String2FillingBytes": -2, "Time2BCD": 6, "BCD2Time": -1, "Bcd2Dec": -1, "GBK2UTF8": -1, "UTF82GBK": -1} {
		a.OpaquePure[load.ModPrefix+"protocol/utils."+n] = l
	}
}

// fieldRenders lists the exported (and unexported) leaf fields of the struct p points to with their renderings.
func fieldRenders(a *absint.Analyzer, st *absint.State, p absint.Term, pt types.Type, prefix string, out map[string]string, depth int, terms map[string]absint.Term) {
	pp, ok := pt.Underlying().(*types.Pointer)
	if !ok || depth > 2 {
		return
	}
	stt, ok := pp.Elem().Underlying().(*types.Struct)
	if !ok {
		return
	}
	for i := 0; i < stt.NumFields(); i++ {
		f := stt.Field(i)
		if _, isStruct := f.Type().Underlying().(*types.Struct); isStruct {
			if fp, fpt := a.FieldPtr(p, pt, f.Name()); fp != nil {
				pre := prefix + f.Name() + "."
				if f.Embedded() {
					pre = prefix
				}
				fieldRenders(a, st, fp, fpt, pre, out, depth+1, terms)
			}
			continue
		}
		v, _ := a.LoadField(st, p, pt, f.Name())
		if v == nil {
			continue
		}
		out[prefix+f.Name()] = a.Render(v)
		if terms != nil {
			terms[prefix+f.Name()] = v
		}
	}
}

func (c *Ctx) c07Extract(t *c07Type) {
	// writer
	{
		a := c.NewE1(pkgOf(t.enc), false)
		c.c07Pure(a)
		a.LogWrites = true
		st := absint.NewState()
		recv := a.Unknown(t.enc.Params[0].Type(), "t", st)
		c.c07ApplyPreset(a, st, recv, t.enc.Params[0].Type(), t.preset)
		a.NameFields(st, recv, t.enc.Params[0].Type(), "", 0)
		_, rets := a.RunEntry(t.enc, st, []absint.Term{recv}, nil)
		for _, r := range absint.Rets(rets) {
			s, _ := r.Val.(*absint.Slice)
			segs, ok := a.ByteLayout(r.St, s)
			if c07Debug && s == nil {
				fmt.Printf("   [dbg %s: return value %T %s]\n", t.name, r.Val, a.Render(r.Val))
			}
			if c07Debug && s != nil {
				fmt.Printf("   [dbg %s: log=%d base=%s op=%q fresh=%v elems=%d off=%s len=%s]\n", t.name, len(r.St.Log), s.Base.Desc, s.Base.Op, s.Base.Fresh, len(s.Base.Elems), s.Off, s.Len)
				for _, w := range r.St.Log {
					fmt.Printf("      log base=%s same=%v off=%s w=%d\n", w.Base.Desc, w.Base == s.Base, w.Off, w.Width)
				}
			}
			t.writer = append(t.writer, encPath{segs, ok && s != nil, r.St})
		}
		t.a = a
	}
	// reader
	{
		a := c.NewE1(pkgOf(t.parse), false)
		c.c07Pure(a)
		st := absint.NewState()
		var args []absint.Term
		for _, p := range t.parse.Params {
			args = append(args, a.Unknown(p.Type(), p.Name(), st))
		}
		preJTMsg(a, t.parse, st, args)
		c.c07ApplyPreset(a, st, args[0], t.parse.Params[0].Type(), t.preset)
		_, rets := a.RunEntry(t.parse, st, args, nil)
		for _, r := range absint.Rets(rets) {
			if _, isNil := r.Val.(absint.NilT); !isNil {
				continue
			}
			m := map[string]string{}
			tm := map[string]absint.Term{}
			fieldRenders(a, r.St, args[0], t.parse.Params[0].Type(), "", m, 0, tm)
			t.reader = append(t.reader, m)
			t.readerTerms = append(t.readerTerms, tm)
			t.readSt = append(t.readSt, r.St)
		}
		t.ra = a
	}
}

func (c *Ctx) c07Types() []*c07Type {
	var out []*c07Type
	sp := c.P.Pkg("protocol/model")
	if sp == nil {
		return nil
	}
	for _, m := range sp.Members {
		tp, ok := m.(*ssa.Type)
		if !ok {
			continue
		}
		if _, isStruct := tp.Type().Underlying().(*types.Struct); !isStruct {
			continue
		}
		enc := c.P.Method("protocol/model", tp.Name(), "Encode")
		parse := c.P.Method("protocol/model", tp.Name(), "Parse")
		if enc == nil || parse == nil || enc.Synthetic != "" || parse.Synthetic != "" {
			continue
		}
		if len(enc.Params) != 1 || len(parse.Params) != 2 {
			continue
		}
		out = append(out, &c07Type{name: tp.Name(), enc: enc, parse: parse})
	}
	sort.Slice(out, func(i, j int) bool { return out[i].name < out[j].name })
	return out
}

func (c *Ctx) c07Dump() {
	var all []*c07Type
	for _, t0 := range c.c07Types() {
		all = append(all, c.c07Variants(t0)...)
	}
	for _, t := range all {
		c.c07Extract(t)
		fmt.Printf("=== %s\n", t.name)
		if t.preset != nil {
			fmt.Printf("  preset %s\n", t.preset.desc)
		}
		for i, w := range t.writer {
			var parts []string
			for _, g := range w.segs {
				parts = append(parts, g.String())
			}
			fmt.Printf("  W%d ok=%v  %s\n", i, w.ok, strings.Join(parts, "  "))
		}
		dec, probs, ass, nf := c.c07Compare(t, nil)
		fmt.Printf("  COMPARE decided=%v fields=%d assumptions=%v problems=%v\n", dec, nf, ass, probs)
		for i, r := range t.reader {
			keys := make([]string, 0, len(r))
			for k := range r {
				keys = append(keys, k)
			}
			sort.Strings(keys)
			var parts []string
			for _, k := range keys {
				parts = append(parts, k+"="+r[k])
			}
			fmt.Printf("  R%d  %s\n", i, strings.Join(parts, "  "))
		}
	}
}

// C07Dump prints the extracted writer and reader layouts (debug subcommand).
func C07Dump(p *load.Program) {
	c := &Ctx{P: p, Tier: "quick"}
	c.c07Dump()
}

// ---- symbolic linear forms over field names (writer side: len(F); reader side: values of bytes already explained) ----

type symLin struct {
	ts map[string]int64
	c  int64
}

func (s symLin) String() string {
	keys := make([]string, 0, len(s.ts))
	for k, v := range s.ts {
		if v != 0 {
			keys = append(keys, k)
		}
	}
	sort.Strings(keys)
	var parts []string
	for _, k := range keys {
		if s.ts[k] == 1 {
			parts = append(parts, k)
		} else {
			parts = append(parts, fmt.Sprintf("%d*%s", s.ts[k], k))
		}
	}
	if s.c != 0 || len(parts) == 0 {
		parts = append(parts, fmt.Sprint(s.c))
	}
	return strings.Join(parts, "+")
}

func (s symLin) add(k string, coef int64) symLin {
	out := symLin{ts: map[string]int64{}, c: s.c}
	for a, b := range s.ts {
		out.ts[a] = b
	}
	out.ts[k] += coef
	return out
}

// place: where a field lives in the body and in which form.
type place struct {
	off, ln string // canonical symbolic offset / length ("" = to the end / unknown)
	form    string // u8 u16be u32be u64be raw fill gbk bcdtime
}

func (p place) String() string { return fmt.Sprintf("%s @%s+%s", p.form, p.off, p.ln) }

var segIntRe = regexpMust(`^u(8|16be|32be|64be)\(\$([A-Za-z0-9_.]+)\)$`)

// writerSym converts a writer-side Lin (constants and len atoms of named fields) to symbolic form.
func writerSym(a *absint.Analyzer, l absint.Lin) (symLin, bool) {
	out := symLin{ts: map[string]int64{}, c: l.C}
	for _, t := range l.Ts {
		n, ok := a.AtomNames[t.A]
		if !ok {
			return out, false
		}
		out.ts[n] += t.Coef
	}
	return out, true
}

type c07Place struct {
	field string
	off   symLin
	ln    symLin
	form  string
	toEnd bool
}

func (p c07Place) String() string {
	l := p.ln.String()
	if p.toEnd {
		l = "END"
	}
	return fmt.Sprintf("%s @%s+%s", p.form, p.off.String(), l)
}

var lenByteRe = regexpMust(`^u(8|16be)\((?:bits\()?\$len\(([A-Za-z0-9_.]+)\)(?:,\d+,0\))?\)$`)

// c07Compare checks one type: every place the encoder puts a field is a place the parser reads it from, with the inverse form.
func (c *Ctx) c07Compare(t *c07Type, skip map[string]string) (decided bool, problems []string, assumptions []string, nFields int) {
	for _, w := range t.writer {
		if !w.ok {
			return false, nil, nil, 0
		}
	}
	if len(t.writer) == 0 || len(t.reader) == 0 {
		return false, nil, nil, 0
	}
	// ---- writer places per path, and what each explained byte position holds
	type wconst struct {
		off, ln symLin
		desc    string
	}
	type wpath struct {
		places []c07Place
		va     map[string]string // "off|width" -> "$Field" or "len(F)"
		consts []wconst          // constant bytes the encoder writes (reserved bytes, or a field normalised away on this path)
	}
	var wpaths []wpath
	for _, w := range t.writer {
		wp := wpath{va: map[string]string{}}
		for _, g := range w.segs {
			off, ok1 := writerSym(t.a, g.Off)
			if !ok1 {
				return false, nil, nil, 0
			}
			ln, okLen := writerSym(t.a, g.Len)
			if m := segIntRe.FindStringSubmatch(g.Desc); m != nil && okLen {
				wp.places = append(wp.places, c07Place{field: m[2], off: off, ln: ln, form: "u" + m[1]})
				wp.va[off.String()+"|"+ln.String()] = "$" + m[2]
				continue
			}
			if m := lenByteRe.FindStringSubmatch(g.Desc); m != nil && okLen {
				wp.va[off.String()+"|"+ln.String()] = "len(" + m[2] + ")"
				continue
			}
			if constSegRe.MatchString(g.Desc) && okLen {
				wp.consts = append(wp.consts, wconst{off, ln, g.Desc})
				continue
			}
			form, field := "", ""
			switch {
			case strings.HasPrefix(g.Desc, "$") && !strings.ContainsAny(g.Desc, "()"):
				form, field = "raw", strings.TrimPrefix(g.Desc, "$")
			case strings.HasPrefix(g.Desc, "String2FillingBytes($") && strings.HasSuffix(g.Desc, ")"):
				form, field = "fill", strings.TrimSuffix(strings.TrimPrefix(g.Desc, "String2FillingBytes($"), ")")
			case strings.HasPrefix(g.Desc, "UTF82GBK(str($") || strings.HasPrefix(g.Desc, "UTF82GBK($"):
				form = "gbk"
				field = strings.TrimRight(strings.TrimPrefix(strings.TrimPrefix(g.Desc, "UTF82GBK(str($"), "UTF82GBK($"), ")")
			case strings.HasPrefix(g.Desc, "Time2BCD($"):
				form, field = "bcdtime", strings.TrimSuffix(strings.TrimPrefix(g.Desc, "Time2BCD($"), ")")
			default:
				return false, nil, nil, 0
			}
			pl := c07Place{field: field, off: off, ln: ln, form: form}
			if form == "gbk" {
				pl.toEnd, pl.ln = true, symLin{ts: map[string]int64{}}
			} else if !okLen {
				return false, nil, nil, 0
			}
			// padding to one's own length is no padding
			if form == "fill" && ln.String() == "len("+field+")" {
				pl.form = "raw"
			}
			wp.places = append(wp.places, pl)
		}
		wpaths = append(wpaths, wp)
	}
	lenOf := map[string]string{}   // "$G" -> "len(F)": the parser takes F's length from G
	lenConst := map[string]int64{} // "len(F)" -> N: the parser reads F with the fixed width N
	subst := func(s symLin) symLin {
		out := symLin{ts: map[string]int64{}, c: s.c}
		for k, v := range s.ts {
			if lf, ok := lenOf[k]; ok {
				k = lf
			}
			if n, ok := lenConst[k]; ok {
				out.c += n * v
				continue
			}
			out.ts[k] += v
		}
		return out
	}
	var readerSym func(va map[string]string, l absint.Lin, depth int) (symLin, bool, bool)
	readerSym = func(va map[string]string, l absint.Lin, depth int) (symLin, bool, bool) {
		out := symLin{ts: map[string]int64{}, c: l.C}
		toEnd := false
		if depth > 6 {
			return out, false, false
		}
		for _, tm := range l.Ts {
			_, off, w, _, isRd := absint.ReadAtom(tm.A)
			if !isRd {
				r := t.ra.Render(absint.Int{L: absint.AtomLin(tm.A)})
				if strings.Contains(r, "len:len(*jtMsg.Body)") && tm.Coef == 1 {
					toEnd = true
					continue
				}
				return out, false, false
			}
			so, ok, _ := readerSym(va, off, depth+1)
			if !ok {
				return out, false, false
			}
			f, known := va[subst(so).String()+"|"+fmt.Sprint(w)]
			if !known {
				return out, false, false
			}
			out.ts[f] += tm.Coef
		}
		return out, true, toEnd
	}
	type rkey struct{ w, r int }
	collect := func() map[string][]c07Place {
		out := map[string][]c07Place{}
		for _, wp := range wpaths {
			// the writer's explanation with the current substitutions applied to its offsets
			va := map[string]string{}
			for k, v := range wp.va {
				parts := strings.SplitN(k, "|", 2)
				_ = parts
				va[k] = v
			}
			for _, pl := range wp.places {
				if pl.form[0] == 'u' {
					va[subst(pl.off).String()+"|"+subst(pl.ln).String()] = "$" + pl.field
				}
			}
			for k, v := range wp.va {
				if strings.HasPrefix(v, "len(") {
					// re-key computed length bytes under substituted offsets: offsets are stored as strings; recompute from places is not possible, keep as is
					va[k] = v
				}
			}
			for ri := range t.reader {
				for f, v := range t.readerTerms[ri] {
					p, ok := c.readerPlace(t, va, v, func(va2 map[string]string, l absint.Lin, d int) (symLin, bool, bool) {
						s, ok, e := readerSym(va2, l, d)
						return subst(s), ok, e
					})
					if !ok {
						continue
					}
					p.field = f
					out[f] = append(out[f], p)
				}
			}
		}
		return out
	}
	var rplaces map[string][]c07Place
	for iter := 0; iter < 5; iter++ {
		rplaces = collect()
		changed := false
		for _, wp := range wpaths {
			for _, pl := range wp.places {
				lf := "len(" + pl.field + ")"
				if _, variable := pl.ln.ts[lf]; !variable || len(pl.ln.ts) != 1 || pl.ln.c != 0 {
					continue
				}
				if _, done := lenConst[lf]; done {
					continue
				}
				for _, rp := range append(append([]c07Place{}, rplaces[pl.field]...), rplaces[lastName(pl.field)]...) {
					if rp.off.String() != subst(pl.off).String() || rp.toEnd {
						continue
					}
					if len(rp.ln.ts) == 1 && rp.ln.c == 0 {
						for g, coef := range rp.ln.ts {
							if coef == 1 && strings.HasPrefix(g, "$") {
								if _, dup := lenOf[g]; !dup {
									lenOf[g] = lf
									changed = true
								}
							}
						}
					}
					if len(rp.ln.ts) == 0 && rp.ln.c >= 0 {
						// fixed width on the parser's side: in-domain values have exactly that length
						consistent := true
						for _, rp2 := range rplaces[pl.field] {
							if rp2.off.String() == rp.off.String() && len(rp2.ln.ts) == 0 && rp2.ln.c != rp.ln.c && !rp2.toEnd {
								consistent = false
							}
						}
						if consistent {
							lenConst[lf] = rp.ln.c
							changed = true
						}
					}
				}
			}
		}
		if !changed {
			break
		}
	}
	for g, lf := range lenOf {
		assumptions = append(assumptions, fmt.Sprintf("%s == %s", strings.TrimPrefix(g, "$"), lf))
	}
	for lf, n := range lenConst {
		assumptions = append(assumptions, fmt.Sprintf("%s == %d", lf, n))
	}
	sort.Strings(assumptions)
	// ---- compare
	seenW := map[string]bool{}
	for _, wp := range wpaths {
		for _, pl := range wp.places {
			w := pl
			w.off, w.ln = subst(pl.off), subst(pl.ln)
			key := w.field + " " + w.String()
			if seenW[key] {
				continue
			}
			seenW[key] = true
			if why, skipped := skip[t.name+"."+lastName(w.field)]; skipped {
				assumptions = append(assumptions, fmt.Sprintf("field %s not compared: %s", w.field, why))
				continue
			}
			nFields++
			have := map[string]bool{}
			for _, rp := range append(append([]c07Place{}, rplaces[w.field]...), rplaces[lastName(w.field)]...) {
				have[rp.String()] = true
			}
			if !c07Agree(w, have) {
				var hs []string
				for h := range have {
					hs = append(hs, h)
				}
				sort.Strings(hs)
				problems = append(problems, fmt.Sprintf("field %s is encoded as %s; the parser reads it as %v", w.field, w, hs))
			}
		}
	}
	// a constant written where the parser reads a field: on that path the field's value is not encoded at all
	for _, wp := range wpaths {
		for _, k := range wp.consts {
			ko, kl := subst(k.off).String(), subst(k.ln).String()
			for f, rps := range rplaces {
				for _, rp := range rps {
					if rp.off.String() == ko && rp.ln.String() == kl && !rp.toEnd {
						problems = append(problems, fmt.Sprintf("on one path the encoder writes the constant %s at @%s where the parser reads field %s: the field's value does not survive Encode followed by Parse", k.desc, ko, f))
					}
				}
			}
		}
	}
	problems = dedupe(problems)
	sort.Strings(problems)
	return true, problems, assumptions, nFields
}

var constSegRe = regexp.MustCompile(`^u(8|16be|32be|64be)\((-?[0-9]+)\)$`)

// c07Agree: some reader place is the inverse reading of the writer place.
func c07Agree(w c07Place, have map[string]bool) bool {
	at := func(form, ln string) string { return fmt.Sprintf("%s @%s+%s", form, w.off.String(), ln) }
	l := w.ln.String()
	switch w.form {
	case "u8", "u16be", "u32be", "u64be":
		return have[at(w.form, l)]
	case "raw":
		return have[at("str", l)] || have[at("bytes", l)] || have[at("str", "END")] || have[at("bytes", "END")]
	case "fill":
		// padded with NULs: the parser must cut them off again
		return have[at("strtrim", l)] || (have[at("str", l)] && have[at("strcut", "?")])
	case "gbk":
		return have[at("gbk", "END")] || have[at("gbk", l)]
	case "bcdtime":
		return have[at("bcdtime", l)]
	}
	return false
}

func lastName(f string) string {
	if i := strings.LastIndex(f, "."); i >= 0 {
		return f[i+1:]
	}
	return f
}

// readerPlace classifies what the parser reads into a field.
func (c *Ctx) readerPlace(t *c07Type, va map[string]string, v absint.Term, rs func(map[string]string, absint.Lin, int) (symLin, bool, bool)) (c07Place, bool) {
	switch x := v.(type) {
	case absint.Int:
		at := x.L.SingleAtom()
		if at == nil || x.L.C != 0 || x.L.Coef(at) != 1 {
			return c07Place{}, false
		}
		_, off, w, le, ok := absint.ReadAtom(at)
		if !ok || le {
			return c07Place{}, false
		}
		so, ok, _ := rs(va, off, 0)
		if !ok {
			return c07Place{}, false
		}
		form := map[int64]string{1: "u8", 2: "u16be", 4: "u32be", 8: "u64be"}[w]
		return c07Place{off: so, ln: symLin{ts: map[string]int64{}, c: w}, form: form}, form != ""
	case *absint.Slice:
		form := "bytes"
		s := x
	unwrap:
		for depth := 0; depth < 6; depth++ {
			b := s.Base
			switch {
			case b.Op == "conv" && b.From != nil:
				if form == "bytes" {
					form = "str"
				}
				s = b.From
			case strings.HasPrefix(b.Op, "call:") && b.From != nil:
				fn := strings.TrimPrefix(b.Op, "call:")
				switch {
				case strings.Contains(fn, "Trim"):
					form = "strtrim"
					// only trimming NULs (both ends or the right end) undoes the encoder's NUL padding without touching the value
					if b.Cut == nil || *b.Cut != "\x00" || !(strings.HasSuffix(fn, ".Trim") || strings.HasSuffix(fn, ".TrimRight")) {
						form = "strtrim[cutset " + fmt.Sprintf("%q", derefStr(b.Cut)) + " of " + fn + "]"
					}
				case strings.Contains(fn, "GBK2UTF8"):
					form = "gbk"
				case strings.Contains(fn, "BCD2Time"):
					form = "bcdtime"
				default:
					return c07Place{}, false
				}
				s = b.From
			default:
				break unwrap
			}
		}
		if !strings.Contains(s.Base.Desc, "Body") {
			return c07Place{}, false
		}
		so, ok1, _ := rs(va, s.Off, 0)
		if !ok1 {
			return c07Place{}, false
		}
		// cut at the first NUL: length is the result of an index search
		if at := s.Len.SingleAtom(); at != nil && strings.Contains(at.Desc, "IndexByte") {
			return c07Place{off: so, ln: symLin{ts: map[string]int64{"?": 1}}, form: "strcut"}, true
		}
		sl, ok2, toEnd := rs(va, s.Len, 0)
		if !ok2 {
			return c07Place{}, false
		}
		return c07Place{off: so, ln: sl, form: form, toEnd: toEnd}, true
	}
	return c07Place{}, false
}

func regexpMust(p string) *regexp.Regexp { return regexp.MustCompile(p) }

func (c *Ctx) c07ApplyPreset(a *absint.Analyzer, st *absint.State, recv absint.Term, rt types.Type, p *c07Preset) {
	if p == nil {
		return
	}
	cur, curT := recv, rt
	for i, name := range p.path {
		if i == len(p.path)-1 {
			a.StoreField(st, cur, curT, name, absint.Int{L: absint.Const(p.val)})
			return
		}
		fp, fpt := a.FieldPtr(cur, curT, name)
		if fp == nil {
			return
		}
		cur, curT = fp, fpt
	}
}

// c07ConfigField finds a field of the named configuration type (e.g. consts.ActiveSafetyType) reachable through struct values.
func c07ConfigField(t types.Type, typeName string, depth int) []string {
	st, ok := t.Underlying().(*types.Struct)
	if !ok || depth > 2 {
		return nil
	}
	for i := 0; i < st.NumFields(); i++ {
		f := st.Field(i)
		if n, isN := f.Type().(*types.Named); isN && n.Obj().Name() == typeName {
			return []string{f.Name()}
		}
		if _, isS := f.Type().Underlying().(*types.Struct); isS {
			if sub := c07ConfigField(f.Type(), typeName, depth+1); sub != nil {
				return append([]string{f.Name()}, sub...)
			}
		}
	}
	return nil
}

// c07Variants: one analysis per value of a configuration field, or a single unconstrained one.
func (c *Ctx) c07Variants(t *c07Type) []*c07Type {
	elem := t.enc.Params[0].Type().Underlying().(*types.Pointer).Elem()
	path := c07ConfigField(elem, "ActiveSafetyType", 0)
	if path == nil {
		return []*c07Type{t}
	}
	var out []*c07Type
	cp := c.P.Pkg("shared/consts")
	if cp == nil {
		return []*c07Type{t}
	}
	sc := cp.Pkg.Scope()
	for _, n := range sc.Names() {
		k, ok := sc.Lookup(n).(*types.Const)
		if !ok {
			continue
		}
		if nt, isN := k.Type().(*types.Named); !isN || nt.Obj().Name() != "ActiveSafetyType" {
			continue
		}
		v, _ := constantInt(k)
		out = append(out, &c07Type{name: t.name, enc: t.enc, parse: t.parse, preset: &c07Preset{desc: n, path: path, val: v}})
	}
	if len(out) == 0 {
		return []*c07Type{t}
	}
	return out
}

func init() {
	register(&Check{ID: "C07", Level: "other", Run: runC07})
}

func runC07(c *Ctx) {
	c.E1Rules()
	c.E1Assumptions()
	R := c.R
	R.Rules["E3.roundtrip-layout"] = "for a message type whose Encode builds its body without loops: every place (offset, width, form) where the encoder puts a field is a place where the parser reads that field from, with the inverse form (uN big-endian <-> uN read, raw bytes <-> string/bytes window, NUL-padded <-> trimmed / cut at NUL, UTF82GBK <-> GBK2UTF8 to the end, Time2BCD <-> BCD2Time over 6 bytes); offsets are compared symbolically, under the in-domain assumptions that a length field equals the length of the value it announces and that a value the parser reads with a fixed width has that width (listed per type in the evidence)"
	R.Rules["E3.roundtrip-list"] = "for a list-carrying type with fixed-size records: the encoder's loop appends one contiguous record per element, the parser's loop reads, in iteration i, every field of the element at first-record offset + stride*i + the field's offset in the record, with the inverse form and width (entailed from the parser's own loop invariants)"
	R.Rules["E3.parser-reads-written-bytes"] = "every integer field the parser reads at a constant offset lies inside bytes the encoder writes (an encoder that omits a field its parser requires cannot round-trip)"
	R.Rules["S.codec-helpers"] = "GBK2UTF8 / UTF82GBK return, on every path, what the GBK decoder / encoder produced from the whole argument (no bypass that hands back the input); String2FillingBytes returns exactly `size` bytes on every path; Time2BCD / BCD2Time transcode digits without interpreting them (they call nothing from time / strconv), so the symbolic inverse-pair treatment of BCD time fields holds for fields that are not calendar dates too"
	var decidedN, notCov int
	var notCovered []string
	var decidedNames, listNames []string
	assume := map[string][]string{}
	for _, t0 := range c.c07Types() {
		for _, t := range c.c07Variants(t0) {
			c.c07Extract(t)
			name := t.name
			if t.preset != nil {
				name += " / " + t.preset.desc
			}
			dec, probs, ass, nf := c.c07Compare(t, nil)
			// an encoder that returns nil on every path while the parser reads fields is a stub, not a two-way type
			stub := true
			for _, w := range t.writer {
				if len(w.segs) > 0 {
					stub = false
				}
			}
			readsBody := false
			for ri := range t.reader {
				for _, r := range t.reader[ri] {
					if strings.Contains(r, "jtMsg.Body@") {
						readsBody = true
					}
				}
			}
			if dec && stub && readsBody {
				notCov++
				notCovered = append(notCovered, name+" (Encode is a stub returning no body)")
				continue
			}
			if !dec {
				// list-carrying types: record layout per element
				if lr := c.c07List(t); lr.decided {
					decidedN++
					// list types are not part of the frozen coverage set: the record comparison is bound to the shape of the two
					// loops (records appended / read inline), so a helper extracted from a loop body would turn "decided" into
					// "undecided" without any change of behaviour
					listNames = append(listNames, name)
					st, d := report.Discharged, ""
					if len(lr.problems) > 0 {
						st, d = report.Violated, strings.Join(lr.problems, "; ")
					}
					R.Add("E3.roundtrip-list", fmt.Sprintf("%s / records of %d bytes from offset %d, %d fields", name, lr.stride, lr.base, len(lr.fields)), c.P.RelPos(t.enc.Pos()), st, d)
					continue
				} else if c07Debug {
					fmt.Printf("C07 list %s undecided: %s\n", name, lr.why)
				}
				notCov++
				notCovered = append(notCovered, name)
				continue
			}
			decidedN++
			if len(ass) > 0 {
				assume[name] = ass
			}
			st, d := report.Discharged, ""
			if len(probs) > 0 {
				st, d = report.Violated, strings.Join(probs, "; ")
			}
			_ = nf
			decidedNames = append(decidedNames, name)
			R.Add("E3.roundtrip-layout", name+" / field placements", c.P.RelPos(t.enc.Pos()), st, d)
			// parser reads only written bytes (constant offsets)
			var bad []string
			for ri := range t.readerTerms {
				for f, v := range t.readerTerms[ri] {
					iv, ok := v.(absint.Int)
					if !ok {
						continue
					}
					at := iv.L.SingleAtom()
					if at == nil {
						continue
					}
					_, off, w, _, isRd := absint.ReadAtom(at)
					if !isRd || !off.IsConst() || !strings.Contains(t.ra.Render(v), "jtMsg.Body@") {
						continue
					}
					covered := false
					for _, wpth := range t.writer {
						for _, g := range wpth.segs {
							if g.Off.IsConst() && g.Len.IsConst() && g.Off.C <= off.C && off.C+w <= g.Off.C+g.Len.C {
								covered = true
							}
							if !g.Len.IsConst() && g.Off.IsConst() && g.Off.C <= off.C {
								covered = true // inside / behind a variable-length part: position not comparable
							}
							if !g.Off.IsConst() {
								covered = true
							}
						}
					}
					if !covered {
						bad = append(bad, fmt.Sprintf("%s = %s", f, t.ra.Render(v)))
					}
				}
			}
			sort.Strings(bad)
			st, d = report.Discharged, ""
			if len(bad) > 0 {
				st, d = report.Violated, fmt.Sprintf("the parser reads %v but no path of the encoder writes those bytes", dedupe(bad))
			}
			R.Add("E3.parser-reads-written-bytes", name, c.P.RelPos(t.parse.Pos()), st, d)
		}
	}
	sort.Strings(notCovered)
	R.Notes["types_decided"] = decidedN
	R.Notes["types_not_covered (body built in a loop / by reflection: lists, parameter tables)"] = notCovered
	R.Notes["in_domain_assumptions"] = assume
	// the types decided on the confirmed tree are the reference: one of them dropping out of the comparison (an encoder
	// that can no longer be taken apart) is an undecided obligation, not a silent loss of coverage
	var frozen struct {
		Covered []string `json:"covered"`
	}
	wasCovered := map[string]bool{}
	if c.loadSpec("c07_covered.json", &frozen) {
		for _, n := range frozen.Covered {
			wasCovered[n] = true
		}
	}
	sort.Strings(decidedNames)
	R.Notes["types_decided_names"] = decidedNames
	sort.Strings(listNames)
	R.Notes["list_types_decided_names"] = listNames
	for _, n := range notCovered {
		if wasCovered[n] {
			R.Add("E3.roundtrip-layout", n+" / field placements", "", report.Undecided, "this type's round trip was decided on the confirmed tree (spec/c07_covered.json); its encoder or parser can no longer be taken apart by the layout extraction, so nothing is known about it now")
			continue
		}
		R.AddInfo("E3.roundtrip-layout", n+" / not covered", "", report.Undecided, "the encoder builds the body in a loop or through helpers the layout extraction does not describe; not claimed")
	}
	// ---- the types the layout comparison does not cover: field symmetry of Parse and Encode
	{
		var unc []string
		seenU := map[string]bool{}
		for _, n := range notCovered {
			base := n
			if k := strings.Index(base, " "); k > 0 {
				base = base[:k]
			}
			if !seenU[base] {
				seenU[base] = true
				unc = append(unc, base)
			}
		}
		c.c07FieldSymmetry(unc)
	}
	c.c07LayoutByContent(decidedNames)
	// ---- helper rules
	c.c07Helpers()
	c.c07NarrowArith()
	c.c07ParamTable()
	c.c07ParsersHistoryFree()
	c.c07ParamDispatch()
	R.Require("E3.roundtrip-layout", 24, "")
	R.Require("E3.parser-reads-written-bytes", 24, "")
	R.Require("S.codec-helpers", 5, "")
	R.Explain = "Round trip is decided structurally for the message types whose encoder is loop-free: the encoder's output layout is reconstructed symbolically (writes, appends, helper calls named by the receiver's fields), the parser's reading of each field likewise, and every writer placement must be a reader placement of the same field with the inverse form; active-safety dialects are analysed one by one. " +
		"Types with variable-size records (encoder loops the list comparison does not describe) are listed as not covered; the terminal-parameter table (reflection) is decided only structurally (S.param-table: records carry the fields' own ID / Len / Value); value-level facts (BCD digits, GBK tables, numeric ranges) are not decided. Related structural checks: C08 (0x0200 additions), C16 (0x9212), C03/C10 (parsers never over-read)."
}

func (c *Ctx) c07Helpers() {
	R := c.R
	for _, h := range []struct {
		name, codec string
	}{{"GBK2UTF8", "NewDecoder"}, {"UTF82GBK", "NewEncoder"}} {
		fn := c.P.Func("protocol/utils", h.name)
		if fn == nil {
			R.Add("S.codec-helpers", h.name, "", report.Violated, "helper not found")
			continue
		}
		ok, d := true, ""
		nRet := 0
		for _, b := range fn.Blocks {
			ret, isRet := b.Instrs[len(b.Instrs)-1].(*ssa.Return)
			if !isRet {
				continue
			}
			nRet++
			// the returned value must come from io.ReadAll(transform.NewReader(<reader over the parameter>, GBK.<codec>()))
			good := false
			for _, o := range c.origins(ret.Results[0], nil, map[string]bool{"io.ReadAll": true}) {
				if o.Kind == "call" && strings.HasSuffix(o.Name, "io.ReadAll") {
					good = true
				} else if o.Kind == "param" {
					ok, d = false, fmt.Sprintf("a return of %s hands back its argument unchanged (return at %s): text that is valid in both encodings is not transcoded", h.name, c.P.RelPos(ret.Pos()))
				} else if o.Kind != "const" {
					ok, d = false, fmt.Sprintf("a return of %s returns %s, not the codec's output", h.name, o.String())
				}
			}
			if !good && ok {
				ok, d = false, fmt.Sprintf("a return of %s does not return the codec's output", h.name)
			}
		}
		// the codec direction
		dir := false
		for _, b := range fn.Blocks {
			for _, ins := range b.Instrs {
				if call, isC := ins.(*ssa.Call); isC {
					if n, _ := callMethodName(call); n == h.codec {
						dir = true
					}
				}
			}
		}
		if ok && !dir {
			ok, d = false, fmt.Sprintf("%s does not use GBK.%s()", h.name, h.codec)
		}
		st := report.Discharged
		if !ok || nRet == 0 {
			st = report.Violated
		}
		R.Add("S.codec-helpers", h.name+" / single path through the codec", c.P.RelPos(fn.Pos()), st, d)
	}
	if fn := c.P.Func("protocol/utils", "String2FillingBytes"); fn != nil {
		a := c.NewE1(pkgOf(fn), false)
		st := absint.NewState()
		text := a.Unknown(fn.Params[0].Type(), "text", st)
		size := a.Unknown(fn.Params[1].Type(), "size", st)
		absint.AssumeGE0(st, size)
		_, rets := a.RunEntry(fn, st, []absint.Term{text, size}, nil)
		ok, d := true, ""
		n := 0
		for _, r := range absint.Rets(rets) {
			n++
			s, isS := r.Val.(*absint.Slice)
			sz, _ := size.(absint.Int)
			if !isS || !r.St.Entails(eqC(s.Len, sz.L)) {
				ok, d = false, "a return of String2FillingBytes is not proven to have exactly `size` bytes"
			}
		}
		stt := report.Discharged
		if !ok || n == 0 {
			stt = report.Violated
		}
		R.Add("S.codec-helpers", "String2FillingBytes / result has exactly size bytes", c.P.RelPos(fn.Pos()), stt, d)
	} else {
		R.Add("S.codec-helpers", "String2FillingBytes", "", report.Violated, "helper not found")
	}
	// the BCD time helpers are digit transcoders: the layout comparison keeps them symbolic as inverse forms of each
	// other, which holds for every 6-byte field only if neither interprets the digits (as a calendar date, as a number)
	c.bcdTimeHelpersRule("S.codec-helpers", []string{"Time2BCD", "BCD2Time"})
}

// bcdTimeHelpersRule (shared by C07 and C08): the named BCD time helpers move digits, they do not interpret them.
func (c *Ctx) bcdTimeHelpersRule(rule string, names []string) {
	R := c.R
	for _, name := range names {
		fn := c.P.Func("protocol/utils", name)
		if fn == nil {
			R.Add(rule, name, "", report.Violated, "helper not found")
			continue
		}
		ok, d := true, ""
		seen := map[*ssa.Function]bool{}
		var walk func(f *ssa.Function, depth int)
		walk = func(f *ssa.Function, depth int) {
			if seen[f] || depth > 4 {
				return
			}
			seen[f] = true
			for _, g := range append([]*ssa.Function{f}, f.AnonFuncs...) {
				for _, b := range g.Blocks {
					for _, ins := range b.Instrs {
						call, isC := ins.(ssa.CallInstruction)
						if !isC {
							continue
						}
						sc := call.Common().StaticCallee()
						if sc == nil {
							continue
						}
						if c.P.IsRepoFunc(sc) {
							walk(sc, depth+1)
							continue
						}
						pk := ""
						if sc.Pkg != nil {
							pk = sc.Pkg.Pkg.Path()
						} else if sc.Signature.Recv() != nil {
							if n, isN := derefNamedType(sc.Signature.Recv().Type()); isN && n.Obj().Pkg() != nil {
								pk = n.Obj().Pkg().Path()
							}
						}
						if pk == "time" || pk == "strconv" || pk == "math/big" {
							ok = false
							d = fmt.Sprintf("%s calls %s at %s: the digits are interpreted (calendar / number), so BCD fields that are not real dates - the all-zero 'no time condition', month 00 or 20, hour 24 - do not survive Parse followed by Encode, and a two-digit year is mapped by the library's pivot (69..99 become 19YY) instead of the protocol's 20YY", name, sc.String(), c.P.RelPos(ins.Pos()))
						}
					}
				}
			}
		}
		walk(fn, 0)
		st := report.Discharged
		if !ok {
			st = report.Violated
		}
		R.Add(rule, name+" / transcodes digits without interpreting them (no time / strconv)", c.P.RelPos(fn.Pos()), st, d)
	}
}

func derefNamedType(t types.Type) (*types.Named, bool) {
	if p, ok := t.Underlying().(*types.Pointer); ok {
		t = p.Elem()
	}
	n, ok := t.(*types.Named)
	return n, ok
}

// c07NarrowArith: in parsers, arithmetic carried out in uint8/uint16 must not feed a length comparison or a slice bound
// (the product / sum wraps modulo 256 / 65536 before it is widened).
func (c *Ctx) c07NarrowArith() { c.narrowArith(nil, 30, true) }

// narrowArith: shared by C03, C07, C08. keep == nil: all parser functions of protocol/model.
func (c *Ctx) narrowArith(keep func(fn *ssa.Function) bool, minFns int, withEncoders bool) {
	R := c.R
	R.Rules["S.narrow-arith"] = "in the body parsers and encoders, a multiplication / addition / shift carried out in uint8 or uint16 does not flow into a comparison with a length or into a slice bound or index: it wraps before it is widened, so bodies whose count field is large are rejected, mis-sliced or written over themselves although they are consistent"
	n := 0
	for _, fn := range c.RepoFuncs("protocol/model") {
		if ln := strings.ToLower(fn.Name()); !strings.HasPrefix(ln, "parse") && !(withEncoders && strings.HasPrefix(ln, "encode")) {
			continue
		}
		if keep != nil && !keep(fn) {
			continue
		}
		n++
		var bad []string
		for _, b := range fn.Blocks {
			for _, ins := range b.Instrs {
				bo, ok := ins.(*ssa.BinOp)
				if !ok {
					continue
				}
				switch bo.Op {
				case token.MUL, token.ADD, token.SHL:
				default:
					continue
				}
				bt, isB := bo.Type().Underlying().(*types.Basic)
				if !isB || (bt.Kind() != types.Uint8 && bt.Kind() != types.Uint16) {
					continue
				}
				_, cx := bo.X.(*ssa.Const)
				_, cy := bo.Y.(*ssa.Const)
				if cx && cy {
					continue
				}
				// forward closure
				seen := map[ssa.Value]bool{}
				var sink string
				var walk func(v ssa.Value, depth int)
				walk = func(v ssa.Value, depth int) {
					if seen[v] || depth > 8 || sink != "" {
						return
					}
					seen[v] = true
					refs := v.Referrers()
					if refs == nil {
						return
					}
					for _, r := range *refs {
						switch x := r.(type) {
						case *ssa.Convert:
							walk(x, depth+1)
						case *ssa.ChangeType:
							walk(x, depth+1)
						case *ssa.Phi:
							walk(x, depth+1)
						case *ssa.BinOp:
							switch x.Op {
							case token.EQL, token.NEQ, token.LSS, token.LEQ, token.GTR, token.GEQ:
								other := x.X
								if other == v {
									other = x.Y
								}
								if mentionsLen(other, 0) {
									sink = "the length test at " + c.P.RelPos(x.Pos())
								}
							case token.ADD, token.SUB, token.MUL:
								walk(x, depth+1)
							}
						case *ssa.Slice:
							if x.Low == v || x.High == v || x.Max == v {
								sink = "the slice bound at " + c.P.RelPos(x.Pos())
							}
						case *ssa.IndexAddr:
							if x.Index == v {
								sink = "the index at " + c.P.RelPos(x.Pos())
							}
						}
					}
				}
				walk(bo, 0)
				if sink != "" {
					bad = append(bad, fmt.Sprintf("%s (%s arithmetic at %s) flows into %s", c.constructOf(fn, bo), bt.Name(), c.P.RelPos(bo.Pos()), sink))
				}
			}
		}
		if len(bad) > 0 {
			R.Add("S.narrow-arith", shortFn(fn), c.P.RelPos(fn.Pos()), report.Violated, strings.Join(bad, "; "))
		} else {
			R.Add("S.narrow-arith", shortFn(fn), c.P.RelPos(fn.Pos()), report.Discharged, "")
		}
	}
	if n < minFns {
		R.Fatal("only %d parser functions found in protocol/model (anchor, expected at least %d)", n, minFns)
	}
}

func mentionsLen(v ssa.Value, depth int) bool {
	if depth > 6 {
		return false
	}
	switch x := v.(type) {
	case *ssa.Call:
		if bi, ok := x.Call.Value.(*ssa.Builtin); ok && bi.Name() == "len" {
			return true
		}
	case *ssa.BinOp:
		return mentionsLen(x.X, depth+1) || mentionsLen(x.Y, depth+1)
	case *ssa.Convert:
		return mentionsLen(x.X, depth+1)
	case *ssa.Phi:
		for _, e := range x.Edges {
			if mentionsLen(e, depth+1) {
				return true
			}
		}
	}
	return false
}

// C07ListDebug prints what the append hooks see inside encoder loops (debug).
func C07ListDebug(p *load.Program, typ string) {
	c := &Ctx{P: p, Tier: "quick"}
	enc := c.P.Method("protocol/model", typ, "Encode")
	parse := c.P.Method("protocol/model", typ, "Parse")
	a := c.NewE1(pkgOf(enc), false)
	c.c07Pure(a)
	a.LogWrites = true
	st := absint.NewState()
	recv := a.Unknown(enc.Params[0].Type(), "t", st)
	a.NameFields(st, recv, enc.Params[0].Type(), "", 0)
	a.OnAppend = func(f *ssa.Function, site ssa.Instruction, st *absint.State, dst *absint.Slice, src absint.Term) {
		segs, ok := a.ByteLayout(st, dst)
		fmt.Printf("W append %s dst.len=%s dstsegs(ok=%v)=%v src=%s\n", c.P.RelPos(site.Pos()), dst.Len, ok, segs, a.Render(src))
		if ss, isS := src.(*absint.Slice); isS {
			for _, e := range ss.Base.Elems {
				desc := ""
				if iv, isI := e.(absint.Int); isI {
					if at := iv.L.SingleAtom(); at != nil {
						desc = at.Desc + " op=" + at.Op
					}
				}
				fmt.Printf("     elem %s  key=%s desc=%q\n", a.Render(e), e.TKey(), desc)
			}
		}
	}
	a.OnExternalResult = func(f *ssa.Function, site ssa.Instruction, name string, st *absint.State, args []absint.Term, val absint.Term) {
		if strings.Contains(name, "AppendUint") {
			s, _ := val.(*absint.Slice)
			segs, ok := a.ByteLayout(st, s)
			fmt.Printf("W %s %s -> segs(ok=%v)=%v val=%s\n", name, c.P.RelPos(site.Pos()), ok, segs, a.Render(args[len(args)-1]))
		}
	}
	a.RunEntry(enc, st, []absint.Term{recv}, nil)
	// reader
	ra := c.NewE1(pkgOf(parse), false)
	c.c07Pure(ra)
	rst := absint.NewState()
	var args []absint.Term
	for _, p := range parse.Params {
		args = append(args, ra.Unknown(p.Type(), p.Name(), rst))
	}
	preJTMsg(ra, parse, rst, args)
	ra.OnAppend = func(f *ssa.Function, site ssa.Instruction, st *absint.State, dst *absint.Slice, src absint.Term) {
		fmt.Printf("R append %s src=%s\n", c.P.RelPos(site.Pos()), ra.Render(src))
		if ss, isS := src.(*absint.Slice); isS {
			for _, e := range ss.Base.Elems {
				fmt.Printf("     elem %s\n", ra.Render(e))
				for k, v := range structFields(e) {
					fmt.Printf("        .%s = %s\n", k, ra.Render(v))
				}
			}
		}
	}
	ra.RunEntry(parse, rst, args, nil)
}

func derefStr(p *string) string {
	if p == nil {
		return "?"
	}
	return *p
}

// c07ParamTable: the terminal-parameter table (0x8103 / 0x0104 bodies) is encoded by reflection over the fields of
// TerminalParamDetails, which the layout extraction cannot take apart. Decided structurally instead:
// (a) the generic record encoder ParamContent[T].encode puts the receiver's own ID into bytes 0..3, its own Len into
// byte 4 and hands its own Value to the append function, and writes nothing else into the receiver;
// (b) the table encoder hands each parameter to that record encoder exactly as the field holds it - the value of the
// type switch / map lookup, not a copy whose ID, Len or Value was rewritten on the way.
// Whether Len matches the encoded width of Value is the caller's obligation (the parser fills it from the wire).
func (c *Ctx) c07ParamTable() {
	R := c.R
	R.Rules["S.param-table"] = "terminal parameters are encoded as the parser stored them: the record encoder ParamContent[T].encode writes the receiver's ID (bytes 0..3), Len (byte 4) and hands Value to the append function; the table encoder passes every parameter to it unmodified (the length byte the parser read from the wire is the length byte written back)"
	var gens []*ssa.Function
	seenGen := map[*ssa.Function]bool{}
	table := c.P.Method("protocol/model", "TerminalParamDetails", "encode")
	if table == nil {
		R.Fatal("anchor TerminalParamDetails.encode not found")
		return
	}
	// the record encoder: the function behind the encode calls of the table encoder (through the instantiation wrappers)
	isRecord := func(sc *ssa.Function) *ssa.Function {
		if sc == nil || (sc.Name() != "encode" && !strings.HasPrefix(sc.Name(), "encode[")) || sc.Signature.Recv() == nil {
			return nil
		}
		rt := sc.Signature.Recv().Type()
		if p, isP := rt.(*types.Pointer); isP {
			rt = p.Elem()
		}
		if nt, isN := rt.(*types.Named); !isN || nt.Obj().Name() != "ParamContent" {
			return nil
		}
		body := sc
		for depth := 0; depth < 3 && strings.Contains(body.Synthetic, "wrapper"); depth++ {
			var inner *ssa.Function
			for _, b := range body.Blocks {
				for _, ins := range b.Instrs {
					if call, isC := ins.(*ssa.Call); isC && call.Call.StaticCallee() != nil && strings.HasPrefix(call.Call.StaticCallee().Name(), "encode") {
						inner = call.Call.StaticCallee()
					}
				}
			}
			if inner == nil {
				break
			}
			body = inner
		}
		if o := body.Origin(); o != nil && o.Blocks != nil && body.Blocks == nil {
			body = o
		}
		return body
	}
	var tableBlocks []*ssa.BasicBlock
	for _, tf := range c.familyOf(table) {
		tableBlocks = append(tableBlocks, tf.Blocks...)
	}
	for _, b := range tableBlocks {
		for _, ins := range b.Instrs {
			if call, isC := ins.(*ssa.Call); isC {
				if g := isRecord(call.Call.StaticCallee()); g != nil && g.Blocks != nil && !seenGen[g] {
					seenGen[g] = true
					gens = append(gens, g)
				}
			}
		}
	}
	if len(gens) == 0 {
		R.Fatal("anchor ParamContent[T].encode not found behind the calls of TerminalParamDetails.encode")
		return
	}
	// (a)
	add := func(key string, ok bool, pos, why string) {
		st := report.Discharged
		if !ok {
			st = report.Violated
		} else {
			why = ""
		}
		R.Add("S.param-table", key, pos, st, why)
	}
	for _, gen := range gens {
		recName := strings.TrimPrefix(shortFn(gen), "protocol/model.")
		if k := strings.Index(recName, ").encode"); k > 0 {
			recName = strings.TrimPrefix(recName[:k], "(") + ".encode"
		}
		cur := gen
		recvField := func(v ssa.Value) string {
			gen := cur
			switch x := v.(type) {
			case *ssa.Field:
				if x.X == ssa.Value(gen.Params[0]) {
					return x.X.Type().Underlying().(*types.Struct).Field(x.Field).Name()
				}
			case *ssa.UnOp:
				fa, isFA := x.X.(*ssa.FieldAddr)
				if !isFA {
					return ""
				}
				al, isAl := fa.X.(*ssa.Alloc)
				if !isAl {
					return ""
				}
				for _, ref := range *al.Referrers() {
					if st, isSt := ref.(*ssa.Store); isSt && st.Addr == ssa.Value(al) && st.Val != ssa.Value(gen.Params[0]) {
						return ""
					}
				}
				return fa.X.Type().Underlying().(*types.Pointer).Elem().Underlying().(*types.Struct).Field(fa.Field).Name()
			}
			return ""
		}
		idOK, lenOK, valOK, pure := false, false, false, true
		pureWhy := ""
		// the record encoder and the methods of the same record type it hands its unmodified receiver to (a header helper)
		scanFns := []*ssa.Function{gen}
		for _, b := range gen.Blocks {
			for _, ins := range b.Instrs {
				if call, isC := ins.(*ssa.Call); isC {
					sc := call.Call.StaticCallee()
					if sc == nil || sc == gen || len(sc.Blocks) == 0 || sc.Signature.Recv() == nil || len(call.Call.Args) == 0 {
						continue
					}
					if nt, isN := derefNamedType(sc.Signature.Recv().Type()); !isN || nt.Obj().Name() != "ParamContent" {
						continue
					}
					a0 := call.Call.Args[0]
					same := a0 == ssa.Value(gen.Params[0])
					if ld, isLd := a0.(*ssa.UnOp); isLd {
						if al, isAl := ld.X.(*ssa.Alloc); isAl {
							same = true
							for _, ref := range *al.Referrers() {
								if st, isSt := ref.(*ssa.Store); isSt && st.Addr == ssa.Value(al) && st.Val != ssa.Value(gen.Params[0]) {
									same = false
								}
							}
						}
					}
					if same {
						scanFns = append(scanFns, sc)
					}
				}
			}
		}
		for _, sf := range scanFns {
			cur = sf
			for _, b := range sf.Blocks {
				for _, ins := range b.Instrs {
					switch x := ins.(type) {
					case *ssa.Call:
						if nm := calleeName(&x.Call); strings.HasSuffix(nm, "PutUint32") && len(x.Call.Args) == 3 {
							if sl, isSl := x.Call.Args[1].(*ssa.Slice); isSl {
								lo, hasLo := int64(0), true
								if sl.Low != nil {
									lo, hasLo = constInt(sl.Low)
								}
								if hasLo && lo == 0 && recvField(x.Call.Args[2]) == "ID" {
									idOK = true
								}
							}
						}
						if sf == gen && x.Call.Value == ssa.Value(gen.Params[1]) && len(x.Call.Args) == 2 && recvField(x.Call.Args[1]) == "Value" {
							valOK = true
						}
					case *ssa.Store:
						if ia, isIA := x.Addr.(*ssa.IndexAddr); isIA {
							if k, isK := constInt(ia.Index); isK && k == 4 && recvField(x.Val) == "Len" {
								lenOK = true
							}
						}
						if fa, isFA := x.Addr.(*ssa.FieldAddr); isFA {
							if _, isAl := fa.X.(*ssa.Alloc); isAl {
								pure, pureWhy = false, "the record encoder stores into a field of its receiver at "+c.P.RelPos(x.Pos())
							}
						}
					}
				}
			}
		}
		gp := c.P.RelPos(gen.Pos())
		add(recName+" / bytes 0..3 are the receiver's ID", idOK, gp, "no PutUint32 of the receiver's ID at the start of the record")
		add(recName+" / byte 4 is the receiver's Len", lenOK, gp, "byte 4 of the record is not the receiver's Len field")
		add(recName+" / the append function receives the receiver's Value", valOK, gp, "the append function is not called with the receiver's Value")
		add(recName+" / receiver not rewritten", pure, gp, pureWhy)

	}
	// (b)
	n := 0
	for _, b := range tableBlocks {
		for _, ins := range b.Instrs {
			call, isC := ins.(*ssa.Call)
			if !isC {
				continue
			}
			if isRecord(call.Call.StaticCallee()) == nil || len(call.Call.Args) == 0 || isRecord(b.Parent()) != nil {
				continue
			}
			n++
			ok, why := false, "the parameter handed to the record encoder is not the value the field holds"
			switch x := call.Call.Args[0].(type) {
			case *ssa.Extract:
				switch x.Tuple.(type) {
				case *ssa.TypeAssert, *ssa.Lookup:
					ok = true
				}
			case *ssa.TypeAssert, *ssa.Lookup:
				ok = true
			case *ssa.UnOp:
				switch a := x.X.(type) {
				case *ssa.FieldAddr:
					ok = true // t.<field>.encode(...)
					_ = a
				case *ssa.Alloc:
					ok = true
					for _, ref := range *a.Referrers() {
						switch r := ref.(type) {
						case *ssa.Store:
							if r.Addr != ssa.Value(a) {
								continue
							}
							if ex, isEx := r.Val.(*ssa.Extract); isEx {
								if _, isTA := ex.Tuple.(*ssa.TypeAssert); isTA {
									continue
								}
							}
							if _, isTA := r.Val.(*ssa.TypeAssert); isTA {
								continue
							}
							ok, why = false, "the local copy of the parameter is assigned something other than the field's value at "+c.P.RelPos(r.Pos())
						case *ssa.FieldAddr:
							fname := a.Type().Underlying().(*types.Pointer).Elem().Underlying().(*types.Struct).Field(r.Field).Name()
							for _, r2 := range *r.Referrers() {
								if st2, isSt := r2.(*ssa.Store); isSt && st2.Addr == ssa.Value(r) {
									ok, why = false, fmt.Sprintf("%s of the parameter is rewritten at %s before it is encoded: the record no longer carries what the field held (a length byte recomputed from the UTF-8 text differs from the GBK length on the wire)", fname, c.P.RelPos(st2.Pos()))
								}
							}
						}
					}
				}
			}
			add(fmt.Sprintf("TerminalParamDetails.encode / %s", c.constructOf(b.Parent(), call)), ok, c.P.RelPos(call.Pos()), why)
		}
	}
	R.Notes["param_table_record_encoder_calls"] = n
	R.Require("S.param-table", 4+7, "")
	R.Notes["param_table_record_encoders"] = len(gens)
}

// c07ParsersHistoryFree: Encode(Parse(body)) == body is claimed for every receiver, also one that parsed something else
// before (every connection and the simulator keep one handler object per message type). A field that a parser writes on
// some path but not on another survives from the previous body and is re-encoded: so every field a two-way type's
// parser writes is written from the current body on every successful path (E2, the rule of C03, restricted to the
// types that have an encoder).
func (c *Ctx) c07ParsersHistoryFree() {
	R := c.R
	R.Rules["E2.field"] = "every field that the parser of a two-way message type writes on some path is written from the body being parsed on every successful path: re-encoding a parsed value never re-emits fields of an earlier body (the optional retransmit section of 0x8800, for example)"
	R.Rules["E2.branch"] = "no branch of such a parser depends on a field it writes itself before this call has written it"
	var entries []*ssa.Function
	seen := map[*ssa.Function]bool{}
	for _, t0 := range c.c07Types() {
		if t0.parse != nil && !seen[t0.parse] {
			seen[t0.parse] = true
			entries = append(entries, t0.parse)
		}
	}
	recvs := map[*ssa.Function]map[int]string{}
	res := c.RunE1(entries, false, func(a *absint.Analyzer, fn *ssa.Function, st *absint.State, args []absint.Term) {
		preJTMsg(a, fn, st, args)
		a.TrackObj(st, args[0], fn.Params[0].Type())
		c.mu.Lock()
		recvs[fn] = map[int]string{args[0].(*absint.Ptr).Obj.ID: ""}
		c.mu.Unlock()
	})
	for _, r := range res {
		c.e2EvaluateObjs(r, recvs[r.Fn])
	}
	R.Require("E2.field", 60, "")
}

// c07ParamDispatch: the parameter table stores each parameter in the field that carries its ID in its name
// (T0x093… holds parameter 0x0093). In every function of TerminalParamDetails, a store into such a field is reached only
// under the switch case of that very ID. A case that stores into its neighbour's field loses the parameter (or lets the
// neighbour overwrite it), and the value is re-encoded under the wrong ID.
func (c *Ctx) c07ParamDispatch() {
	R := c.R
	R.Rules["S.param-dispatch"] = "terminal-parameter ID -> field: every store into a field named T0x<ID>… of TerminalParamDetails is dominated by the true edge of a test `id == <that ID>` (the switch case of that ID): each parameter is kept in its own field"
	re := regexp.MustCompile(`^T0x([0-9A-Fa-f]{3})`)
	n := 0
	var bad []string
	for _, fn := range c.RepoFuncs("protocol/model") {
		if fn.Signature.Recv() == nil {
			continue
		}
		if nt, ok := derefNamedType(fn.Signature.Recv().Type()); !ok || nt.Obj().Name() != "TerminalParamDetails" {
			continue
		}
		for _, b := range fn.Blocks {
			for _, ins := range b.Instrs {
				// the field is chosen by a store into it, or by handing its address back (a lookup method `wordField(id)`
				// whose caller stores through the pointer)
				var fa *ssa.FieldAddr
				var st ssa.Instruction
				switch x := ins.(type) {
				case *ssa.Store:
					fa, _ = x.Addr.(*ssa.FieldAddr)
					st = x
				case *ssa.Return:
					if len(x.Results) == 1 {
						fa, _ = x.Results[0].(*ssa.FieldAddr)
						st = x
					}
				}
				if fa == nil || fa.X != ssa.Value(fn.Params[0]) {
					continue
				}
				_, fname, _ := fieldNameOfAddr(fa)
				m := re.FindStringSubmatch(fname)
				if m == nil {
					continue
				}
				want, err := strconv.ParseInt(m[1], 16, 64)
				if err != nil {
					continue
				}
				// the equality tests on an integer parameter whose true edge dominates the store
				var ks []int64
				for _, b2 := range fn.Blocks {
					iff, isIf := b2.Instrs[len(b2.Instrs)-1].(*ssa.If)
					if !isIf {
						continue
					}
					cmp, isCmp := iff.Cond.(*ssa.BinOp)
					if !isCmp || cmp.Op != token.EQL {
						continue
					}
					if _, isP := cmp.X.(*ssa.Parameter); !isP {
						continue
					}
					k, isK := constInt(cmp.Y)
					if isK && edgeDominates(b2, 0, b) {
						ks = append(ks, k)
					}
				}
				if len(ks) == 0 {
					continue // not inside an ID switch (constructor, reset)
				}
				n++
				ok := false
				for _, k := range ks {
					if k == want {
						ok = true
					}
				}
				if !ok {
					bad = append(bad, fmt.Sprintf("%s stores into %s under the case of ID 0x%03X at %s", shortFn(fn), fname, ks[len(ks)-1], c.P.RelPos(st.Pos())))
				}
			}
		}
	}
	st, d := report.Discharged, ""
	if len(bad) > 0 {
		st, d = report.Violated, strings.Join(bad, "; ")+": the parameter of that ID is not kept in its own field, so it does not survive Parse followed by Encode"
	}
	R.Add("S.param-dispatch", fmt.Sprintf("TerminalParamDetails / %d stores under ID cases", n), "", st, d)
	R.Notes["param_dispatch_stores"] = n
	if n < 80 {
		R.Fatal("S.param-dispatch: only %d stores under ID cases found (the table has about 90 typed parameters)", n)
	}
}

// c07FieldSymmetry: for the two-way types whose bodies the layout comparison cannot take apart (variable-size lists,
// the parameter table), a weaker necessary condition of the round trip is decided: every field of the receiver that
// Parse fills is a field that Encode reads - directly, or by handing the enclosing embedded struct to a call. A field
// that is parsed but never encoded cannot come back from Encode(Parse(body)).
func (c *Ctx) c07FieldSymmetry(names []string) {
	R := c.R
	R.Rules["S.field-symmetry"] = "for the two-way types not covered by the layout comparison: every receiver field that Parse (and the package helpers it calls on the receiver) stores is read by Encode (or lies inside an embedded struct that Encode hands to a call as a whole); exceptions confirmed on the pinned tree are listed in spec/c07_asymmetry.json"
	var frozen struct {
		ParsedNotEncoded map[string][]string `json:"parsed_not_encoded"`
	}
	c.loadSpec("c07_asymmetry.json", &frozen)
	byName := map[string]*c07Type{}
	for _, t0 := range c.c07Types() {
		byName[t0.name] = t0
	}
	// paths of receiver fields touched by fn: stored / loaded / handed over whole
	var collectInto func(fn *ssa.Function, pi int, depth int, stored, loaded, whole map[string]bool)
	collect := func(fn *ssa.Function) (stored, loaded, whole map[string]bool) {
		stored, loaded, whole = map[string]bool{}, map[string]bool{}, map[string]bool{}
		collectInto(fn, 0, 0, stored, loaded, whole)
		return
	}
	collectInto = func(fn *ssa.Function, pi int, depth int, stored, loaded, whole map[string]bool) {
		if len(fn.Params) <= pi || len(fn.Blocks) == 0 {
			return
		}
		recv := ssa.Value(fn.Params[pi])
		// a value receiver spilled to a local: the local stands for the receiver
		spilled := map[ssa.Value]bool{}
		for _, ins := range fn.Blocks[0].Instrs {
			if st, ok := ins.(*ssa.Store); ok && st.Val == recv {
				spilled[st.Addr] = true
			}
		}
		isRecv := func(v ssa.Value) bool { return v == recv || spilled[v] }
		var pathOf func(v ssa.Value, depth int) (string, bool)
		pathOf = func(v ssa.Value, depth int) (string, bool) {
			if depth > 4 {
				return "", false
			}
			fa, isFA := v.(*ssa.FieldAddr)
			if !isFA {
				return "", false
			}
			_, name, _ := fieldNameOfAddr(fa)
			if isRecv(fa.X) {
				return name, true
			}
			if pre, ok := pathOf(fa.X, depth+1); ok {
				return pre + "." + name, true
			}
			return "", false
		}
		for _, b := range fn.Blocks {
			for _, ins := range b.Instrs {
				switch x := ins.(type) {
				case *ssa.Store:
					if p, ok := pathOf(x.Addr, 0); ok {
						stored[p] = true
					}
				case *ssa.UnOp:
					if p, ok := pathOf(x.X, 0); ok {
						loaded[p] = true
					}
				case *ssa.Field:
					if isRecv(x.X) {
						loaded[x.X.Type().Underlying().(*types.Struct).Field(x.Field).Name()] = true
					}
				case ssa.CallInstruction:
					for ai, a := range x.Common().Args {
						if p, ok := pathOf(a, 0); ok {
							whole[p] = true
						}
						// the receiver handed to a helper of the same package: the helper's accesses count
						if callee := x.Common().StaticCallee(); callee != nil && depth < 3 && callee.Pkg == fn.Pkg {
							if isRecv(a) {
								collectInto(callee, ai, depth+1, stored, loaded, whole)
							} else if u, ok := a.(*ssa.UnOp); ok && u.Op == token.MUL && isRecv(u.X) {
								collectInto(callee, ai, depth+1, stored, loaded, whole)
							}
						}
					}
				}
			}
		}
	}
	n := 0
	for _, name := range names {
		t0 := byName[name]
		if t0 == nil || t0.parse == nil || t0.enc == nil {
			continue
		}
		ps, _, pw := collect(t0.parse)
		_, el, ew := collect(t0.enc)
		// stub encoders (return nil) encode nothing by design
		if len(el) == 0 && len(ew) == 0 {
			continue
		}
		n++
		exc := map[string]bool{}
		for _, e := range frozen.ParsedNotEncoded[name] {
			exc[e] = true
		}
		var bad []string
		covered := func(p string) bool {
			if el[p] || ew[p] {
				return true
			}
			for q := range ew {
				if strings.HasPrefix(p, q+".") {
					return true
				}
			}
			for q := range el {
				if strings.HasPrefix(q, p+".") {
					return true // Encode reads inside the struct Parse stored as a whole
				}
			}
			return false
		}
		for p := range ps {
			if !covered(p) && !exc[p] {
				bad = append(bad, p)
			}
		}
		for p := range pw {
			if !covered(p) && !exc[p] {
				bad = append(bad, p+" (filled by a helper)")
			}
		}
		sort.Strings(bad)
		st, d := report.Discharged, ""
		if len(bad) > 0 {
			st, d = report.Violated, fmt.Sprintf("%s.Parse fills %v but Encode never reads it: the value is lost in Encode(Parse(body)) (a field of the same name inside an embedded struct is a different field)", name, bad)
		}
		R.Add("S.field-symmetry", name, c.P.RelPos(t0.enc.Pos()), st, d)
	}
	R.Notes["field_symmetry_types"] = n
}

// c07LayoutByContent: the layout comparison pairs the encoder's output with the parser's successful paths by the
// lengths involved; it does not ask under which *content* a path is taken. That is sound only while no parser of a
// two-way type chooses between two ways to succeed by comparing a body byte with a constant: the encoder writes any
// field value at that position, and for the values on the other side of the comparison the body is read with the
// other layout (a plate colour above 9 turning a 2013 registration into a 2011 one).
func (c *Ctx) c07LayoutByContent(decided []string) {
	R := c.R
	rule := "S.layout-by-length"
	R.Rules[rule] = "no parser of a two-way type branches on the comparison of a body byte with a constant when both outcomes can return success: which layout a body is read with depends on the header's version, on lengths and on length / count fields only (premise of pairing encoder and parser paths by length)"
	n := 0
	isDecided := map[string]bool{}
	for _, d := range decided {
		if k := strings.Index(d, " "); k > 0 {
			d = d[:k]
		}
		isDecided[d] = true
	}
	for _, t0 := range c.c07Types() {
		// only where the layout comparison claims the round trip (content dispatch is the business of TLV decoders)
		if t0.parse == nil || t0.enc == nil || !isDecided[t0.name] {
			continue
		}
		n++
		var bad []string
		// the types that take part in both directions: receivers of the encoder's family (a decoder-only part of the
		// message - the additional-information TLVs of a location report - dispatches on content by design)
		recvName := func(f *ssa.Function) string {
			if f.Signature.Recv() == nil {
				return ""
			}
			n, _ := derefNamed(f.Signature.Recv().Type())
			return n
		}
		twoWay := map[string]bool{"": true, t0.name: true}
		for _, ef := range c.familyOf(t0.enc) {
			twoWay[recvName(ef)] = true
		}
		// the part of the parser's family that is reached through two-way functions only (a plain helper below a
		// decoder-only type belongs to that type)
		var reach []*ssa.Function
		{
			seenF := map[*ssa.Function]bool{t0.parse: true}
			work := []*ssa.Function{t0.parse}
			for depth := 0; len(work) > 0 && depth < 4; depth++ {
				var next []*ssa.Function
				for _, f := range work {
					reach = append(reach, f)
					for _, b := range f.Blocks {
						for _, ins := range b.Instrs {
							ci, ok := ins.(ssa.CallInstruction)
							if !ok {
								continue
							}
							sc := ci.Common().StaticCallee()
							if sc == nil || seenF[sc] || sc.Pkg != f.Pkg || len(sc.Blocks) == 0 || !twoWay[recvName(sc)] {
								continue
							}
							seenF[sc] = true
							next = append(next, sc)
						}
					}
				}
				work = next
			}
		}
		for _, fn := range reach {
			var fromBody func(v ssa.Value, d int) bool
			fromBody = func(v ssa.Value, d int) bool {
				if d > 8 {
					return false
				}
				switch x := v.(type) {
				case *ssa.Slice:
					return fromBody(x.X, d+1)
				case *ssa.Phi:
					for _, e := range x.Edges {
						if fromBody(e, d+1) {
							return true
						}
					}
				case *ssa.UnOp:
					if x.Op == token.MUL {
						if fa, ok := x.X.(*ssa.FieldAddr); ok {
							_, name, _ := fieldNameOfAddr(fa)
							return name == "Body"
						}
					}
				case *ssa.Parameter:
					sl, ok := x.Type().Underlying().(*types.Slice)
					return ok && types.Identical(sl.Elem(), types.Typ[types.Byte]) && fn != t0.parse
				}
				return false
			}
			isBodyByte := func(v ssa.Value) bool {
				for d := 0; d < 4; d++ {
					switch x := v.(type) {
					case *ssa.Convert:
						v = x.X
						continue
					case *ssa.ChangeType:
						v = x.X
						continue
					case *ssa.UnOp:
						if ia, ok := x.X.(*ssa.IndexAddr); ok && x.Op == token.MUL {
							return fromBody(ia.X, 0)
						}
					}
					break
				}
				return false
			}
			succeeds := func(from *ssa.BasicBlock) bool {
				seen := map[*ssa.BasicBlock]bool{from: true}
				work := []*ssa.BasicBlock{from}
				for len(work) > 0 {
					b := work[len(work)-1]
					work = work[:len(work)-1]
					if ret, ok := b.Instrs[len(b.Instrs)-1].(*ssa.Return); ok {
						if len(ret.Results) == 0 {
							return true
						}
						last := ret.Results[len(ret.Results)-1]
						if cv, isC := last.(*ssa.Const); isC && cv.Value == nil {
							return true
						}
						if _, isC := last.(*ssa.Const); !isC {
							if _, isErr := last.Type().Underlying().(*types.Interface); !isErr {
								return true
							}
							// an error value that is not the nil constant: may be nil through a φ
							if phi, isPhi := last.(*ssa.Phi); isPhi {
								for _, e := range phi.Edges {
									if cv, isC := e.(*ssa.Const); isC && cv.Value == nil {
										return true
									}
								}
							}
						}
					}
					for _, sb := range b.Succs {
						if !seen[sb] {
							seen[sb] = true
							work = append(work, sb)
						}
					}
				}
				return false
			}
			for _, b := range fn.Blocks {
				iff, ok := b.Instrs[len(b.Instrs)-1].(*ssa.If)
				if !ok {
					continue
				}
				bo, ok := iff.Cond.(*ssa.BinOp)
				if !ok {
					continue
				}
				switch bo.Op {
				case token.LSS, token.LEQ, token.GTR, token.GEQ, token.EQL, token.NEQ:
				default:
					continue
				}
				_, cx := bo.X.(*ssa.Const)
				_, cy := bo.Y.(*ssa.Const)
				if !(cx && isBodyByte(bo.Y)) && !(cy && isBodyByte(bo.X)) {
					continue
				}
				if succeeds(b.Succs[0]) && succeeds(b.Succs[1]) {
					bad = append(bad, c.P.RelPos(bo.Pos()))
				}
			}
		}
		st, d := report.Discharged, ""
		if len(bad) > 0 {
			st, d = report.Violated, fmt.Sprintf("%s.Parse compares a body byte with a constant at %v and can succeed either way: the body is read with a layout chosen by a field value the encoder writes freely, so Parse(Encode(v)) differs from v for the values on the other side", t0.name, bad)
		}
		R.Add(rule, t0.name, c.P.RelPos(t0.parse.Pos()), st, d)
	}
	R.Require(rule, 20, "")
}
