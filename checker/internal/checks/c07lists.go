package checks

import (
	"fmt"
	"go/token"
	"go/types"
	"regexp"
	"sort"
	"strings"

	"golang.org/x/tools/go/ssa"

	"jtverif/internal/absint"
)

// List-carrying message types: the encoder appends one record per element in a loop, the parser reads one record per
// iteration. Decided: the first record starts where the parser starts reading, both advance by the same stride, and
// every field of the record sits at the same place within the record with the inverse form.

type recField struct {
	k     int64 // offset inside the record
	width int64
	form  string
	field string
}

var elemFieldRe = regexp.MustCompile(`\]\.([A-Za-z0-9_]+)`)

func inLoop(b *ssa.BasicBlock) bool {
	seen := map[*ssa.BasicBlock]bool{}
	var dfs func(x *ssa.BasicBlock) bool
	dfs = func(x *ssa.BasicBlock) bool {
		for _, s := range x.Succs {
			if s == b {
				return true
			}
			if !seen[s] {
				seen[s] = true
				if dfs(s) {
					return true
				}
			}
		}
		return false
	}
	return dfs(b)
}

func countLoops(fn *ssa.Function) int {
	n := 0
	for _, b := range fn.Blocks {
		// loop headers: blocks with a predecessor they dominate
		for _, p := range b.Preds {
			if b.Dominates(p) {
				n++
				break
			}
		}
	}
	return n
}

type listResult struct {
	decided  bool
	why      string
	problems []string
	base     int64
	stride   int64
	fields   []recField
}

func (c *Ctx) c07List(t *c07Type) listResult {
	res := listResult{}
	if countLoops(t.enc) != 1 || countLoops(t.parse) != 1 {
		res.why = "encoder and parser do not both have exactly one loop"
		return res
	}
	// ---- writer
	type wrec struct {
		pos   absint.Lin
		width int64
		form  string
		field string
		idx   *absint.Lin // index of the list element the written value comes from
		st    *absint.State
	}
	var constRecs, genRecs []wrec
	{
		a := c.NewE1(pkgOf(t.enc), false)
		c.c07Pure(a)
		a.LogWrites = true
		a.Peel = true
		st := absint.NewState()
		recv := a.Unknown(t.enc.Params[0].Type(), "t", st)
		a.NameFields(st, recv, t.enc.Params[0].Type(), "", 0)
		// elemIndex: the list index of the element a written value is taken from (SSA walk to the IndexAddr)
		var elemIndex func(v ssa.Value, st *absint.State, depth int) *absint.Lin
		elemIndex = func(v ssa.Value, st *absint.State, depth int) *absint.Lin {
			if v == nil || depth > 8 {
				return nil
			}
			switch x := v.(type) {
			case *ssa.IndexAddr:
				if iv, ok := a.Val(st, x.Index).(absint.Int); ok {
					l := iv.L
					return &l
				}
			case *ssa.UnOp:
				return elemIndex(x.X, st, depth+1)
			case *ssa.Field:
				return elemIndex(x.X, st, depth+1)
			case *ssa.FieldAddr:
				return elemIndex(x.X, st, depth+1)
			case *ssa.Convert:
				return elemIndex(x.X, st, depth+1)
			case *ssa.ChangeType:
				return elemIndex(x.X, st, depth+1)
			case *ssa.Slice:
				return elemIndex(x.X, st, depth+1)
			case *ssa.Call:
				for _, arg := range x.Call.Args {
					if r := elemIndex(arg, st, depth+1); r != nil {
						return r
					}
				}
			case *ssa.Alloc:
				for _, ref := range *x.Referrers() {
					if sto, ok := ref.(*ssa.Store); ok && sto.Addr == ssa.Value(x) {
						if r := elemIndex(sto.Val, st, depth+1); r != nil {
							return r
						}
					}
				}
			}
			return nil
		}
		var curVal ssa.Value
		var curSt *absint.State
		record := func(site ssa.Instruction, pos absint.Lin, width int64, form, desc string, at *absint.Atom) {
			if !inLoop(site.Block()) {
				return
			}
			field := ""
			src := desc
			if at != nil {
				src = at.Desc
			}
			if m := elemFieldRe.FindStringSubmatch(src); m != nil {
				field = m[1]
			}
			r := wrec{pos: pos, width: width, form: form, field: field}
			if curVal != nil && curSt != nil {
				r.idx = elemIndex(curVal, curSt, 0)
				r.st = curSt.Clone()
			}
			if pos.IsConst() {
				constRecs = append(constRecs, r)
			} else {
				genRecs = append(genRecs, r)
			}
		}
		a.OnAppend = func(f *ssa.Function, site ssa.Instruction, st *absint.State, dst *absint.Slice, src absint.Term) {
			if f != t.enc {
				return
			}
			ss, ok := src.(*absint.Slice)
			if !ok {
				return
			}
			curSt = st
			curVal = nil
			if call, isC := site.(*ssa.Call); isC && len(call.Call.Args) == 2 {
				curVal = call.Call.Args[1]
				if el, isEl := singleAppended(call); isEl {
					curVal = el
				}
			}
			if len(ss.Base.Elems) > 0 {
				for i, e := range ss.Base.Elems {
					var at *absint.Atom
					if iv, isI := e.(absint.Int); isI {
						at = iv.L.SingleAtom()
					}
					record(site, dst.Len.AddC(int64(i)), 1, "u8", a.Render(e), at)
				}
				return
			}
			d := a.Render(ss)
			form := "raw"
			switch {
			case strings.HasPrefix(d, "Time2BCD("):
				form = "bcdtime"
			case strings.HasPrefix(d, "String2FillingBytes("):
				form = "fill"
			}
			if ss.Len.IsConst() {
				record(site, dst.Len, ss.Len.C, form, d, nil)
			} else {
				record(site, dst.Len, -1, form, d, nil)
			}
		}
		a.OnExternalResult = func(f *ssa.Function, site ssa.Instruction, name string, st *absint.State, args []absint.Term, val absint.Term) {
			if f != t.enc || !strings.Contains(name, "AppendUint") || len(args) < 3 {
				return
			}
			dst, ok := args[1].(*absint.Slice)
			if !ok {
				return
			}
			w := map[string]int64{"16": 2, "32": 4, "64": 8}[name[strings.Index(name, "AppendUint")+10:]]
			curSt, curVal = st, nil
			if call, isC := site.(*ssa.Call); isC && len(call.Call.Args) > 0 {
				curVal = call.Call.Args[len(call.Call.Args)-1]
			}
			var at *absint.Atom
			if iv, isI := args[2].(absint.Int); isI {
				at = iv.L.SingleAtom()
			}
			record(site, dst.Len, w, fmt.Sprintf("u%dbe", w*8), a.Render(args[2]), at)
		}
		a.RunEntry(t.enc, st, []absint.Term{recv}, nil)
	}
	if len(genRecs) == 0 || len(constRecs) == 0 {
		res.why = "no per-element writes observed in the encoder's loop"
		return res
	}
	// base: smallest constant position (first, peeled iteration); record layout from the generalised iteration
	res.base = constRecs[0].pos.C
	for _, r := range constRecs {
		if r.pos.C < res.base {
			res.base = r.pos.C
		}
	}
	minC := genRecs[0].pos.C
	for _, r := range genRecs {
		if r.pos.C < minC {
			minC = r.pos.C
		}
	}
	seen := map[string]bool{}
	for _, r := range genRecs {
		if r.width < 0 {
			res.why = "a variable-length part inside the record"
			return res
		}
		f := recField{k: r.pos.C - minC, width: r.width, form: r.form, field: r.field}
		key := fmt.Sprint(f)
		if !seen[key] {
			seen[key] = true
			res.fields = append(res.fields, f)
		}
	}
	sort.Slice(res.fields, func(i, j int) bool { return res.fields[i].k < res.fields[j].k })
	pos := int64(0)
	for _, f := range res.fields {
		if f.k != pos {
			res.why = fmt.Sprintf("the record written per element is not contiguous (gap or overlap at %d)", f.k)
			return res
		}
		pos += f.width
	}
	res.stride = pos
	// every record is the record of the element at its own index: position == base + stride*index + k
	for _, r := range genRecs {
		if r.idx == nil || r.st == nil {
			res.why = "the list index of a written element was not recognised"
			return res
		}
		want, okm := (absint.Lin{}).AddMul(*r.idx, res.stride)
		if !okm {
			res.why = "index arithmetic"
			return res
		}
		want = want.AddC(res.base + (r.pos.C - minC))
		if !r.st.Entails(eqC(r.pos, want)) {
			res.problems = append(res.problems, fmt.Sprintf("the encoder writes element [%s] at %s; the record of that element belongs at %d + %d*index + %d (an element is skipped, duplicated or out of place)", r.idx.String(), r.pos.String(), res.base, res.stride, r.pos.C-minC))
		}
	}
	// a record must consist of named element fields, or be a single scalar
	unnamed := 0
	for _, f := range res.fields {
		if f.field == "" {
			unnamed++
		}
	}
	if unnamed > 0 && len(res.fields) != 1 {
		res.why = "the record holds parts that are not fields of the element (length-prefixed or nested items)"
		return res
	}
	// ---- reader
	var counter *ssa.Phi
	for _, b := range t.parse.Blocks {
		for _, ins := range b.Instrs {
			phi, ok := ins.(*ssa.Phi)
			if !ok {
				break
			}
			if bt, isB := phi.Type().Underlying().(*types.Basic); !isB || bt.Kind() != types.Int {
				continue
			}
			init, step := false, false
			for _, e := range phi.Edges {
				if v, isC := constInt(e); isC && (v == 0 || v == -1) {
					init = true
				}
				if bo, isBo := e.(*ssa.BinOp); isBo && bo.Op == token.ADD && bo.X == ssa.Value(phi) {
					if one, isOne := constInt(bo.Y); isOne && one == 1 {
						step = true
					}
				}
			}
			if init && step && phi.Comment == "i" {
				counter = phi
			} else if init && step && counter == nil {
				counter = phi
			}
		}
	}
	if counter == nil {
		res.why = "no element counter found in the parser's loop"
		return res
	}
	startsAtMinusOne := false
	for _, e := range counter.Edges {
		if v, isC := constInt(e); isC && v == -1 {
			startsAtMinusOne = true
		}
	}
	a := c.NewE1(pkgOf(t.parse), false)
	c.c07Pure(a)
	st := absint.NewState()
	var args []absint.Term
	for _, p := range t.parse.Params {
		args = append(args, a.Unknown(p.Type(), p.Name(), st))
	}
	preJTMsg(a, t.parse, st, args)
	checked := map[string]bool{}
	nElems := 0
	a.OnAppend = func(f *ssa.Function, site ssa.Instruction, st *absint.State, dst *absint.Slice, src absint.Term) {
		if f != t.parse || !inLoop(site.Block()) {
			return
		}
		ss, ok := src.(*absint.Slice)
		if !ok || len(ss.Base.Elems) != 1 || ss.Base.Elems[0] == nil {
			return
		}
		iv, ok := a.Val(st, counter).(absint.Int)
		if !ok {
			return
		}
		idx := iv.L
		if startsAtMinusOne {
			idx = idx.AddC(1)
		}
		nElems++
		fields := structFields(ss.Base.Elems[0])
		if len(fields) == 0 {
			fields = map[string]absint.Term{"": ss.Base.Elems[0]}
		}
		for _, wf := range res.fields {
			v, has := fields[wf.field]
			if !has {
				v, has = fields["."+wf.field]
			}
			key := wf.field
			if !has {
				if !checked[key+"|missing"] {
					checked[key+"|missing"] = true
					res.problems = append(res.problems, fmt.Sprintf("element field %q is written per record (offset %d) but the parser's element has no such field", wf.field, wf.k))
				}
				continue
			}
			// expected offset of this field in iteration idx: base + stride*idx + k
			want, okm := (absint.Lin{}).AddMul(idx, res.stride)
			if !okm {
				continue
			}
			want = want.AddC(res.base + wf.k)
			var off absint.Lin
			form, width := "", int64(0)
			switch x := v.(type) {
			case absint.Int:
				at := x.L.SingleAtom()
				_, o, w, le, isRd := absint.ReadAtom(at)
				if at == nil || !isRd || le {
					res.problems = append(res.problems, fmt.Sprintf("element field %q is not a plain read of the body: %s", wf.field, a.Render(v)))
					continue
				}
				off, width = o, w
				form = map[int64]string{1: "u8", 2: "u16be", 4: "u32be", 8: "u64be"}[w]
			case *absint.Slice:
				s := x
				form = "raw"
				for depth := 0; depth < 5; depth++ {
					b := s.Base
					if b.Op == "conv" && b.From != nil {
						s = b.From
						continue
					}
					if strings.HasPrefix(b.Op, "call:") && b.From != nil {
						switch {
						case strings.Contains(b.Op, "BCD2Time"):
							form = "bcdtime"
						case strings.Contains(b.Op, "Trim"):
							form = "fill"
							if b.Cut == nil || *b.Cut != "\x00" {
								form = "trim with another cut set"
							}
						}
						s = b.From
						continue
					}
					break
				}
				off = s.Off
				if s.Len.IsConst() {
					width = s.Len.C
				}
			default:
				continue
			}
			ok := st.Entails(eqC(off, want)) && form == wf.form && width == wf.width
			k2 := fmt.Sprintf("%s|%v", key, ok)
			if !ok && !checked[k2] {
				checked[k2] = true
				res.problems = append(res.problems, fmt.Sprintf("element field %q: the encoder writes it as %s at record offset %d (record %d bytes, first record at %d); the parser reads %s, which is not proven to be that place in every iteration", wf.field, wf.form, wf.k, res.stride, res.base, a.Render(v)))
			}
			checked[key] = true
		}
	}
	a.RunEntry(t.parse, st, args, nil)
	if nElems == 0 {
		res.why = "no per-element append observed in the parser's loop"
		return res
	}
	for _, wf := range res.fields {
		if !checked[wf.field] && !checked[wf.field+"|missing"] {
			res.why = "a record field was never compared"
			return res
		}
	}
	res.decided = true
	res.problems = dedupe(res.problems)
	sort.Strings(res.problems)
	return res
}
