package checks

import (
	"fmt"
	"go/token"
	"go/types"
	"strings"

	"golang.org/x/tools/go/ssa"

	"jtverif/internal/absint"
	"jtverif/internal/report"
)

func init() {
	register(&Check{ID: "C16", Level: "other", Run: runC16})
}

func structFields(t absint.Term) map[string]absint.Term {
	out := map[string]absint.Term{}
	flattenStruct(t, "", out)
	return out
}

func runC16(c *Ctx) {
	c.E1Rules()
	c.E1Assumptions()
	R := c.R
	R.Rules["S.sweep-sorted"] = "the loop that emits gaps iterates over the very slice that a dominating sort call ordered (the ranges come out of a map in random order)"
	R.Rules["E3.sweep"] = "the sweep starts at offset 0, every emitted range is non-empty and its length is computed without unsigned wrap-around, and the tail range is emitted under current < FileSize with length FileSize - current"
	R.Rules["E3.wiring"] = "the computed ranges are stored into the 0x1212 handler on every path that computed them; the 0x9212 reply says retransmit with count = len(list) and that list exactly when the list is non-empty, otherwise complete / 0 / no list; the stage becomes Supplementary exactly when ranges are missing"
	R.Rules["E3.wire"] = "0x9212 on the wire: Parse reads entry i at fixed 8-byte stride (offset then length) after the 4+nameLen header and requires len = 4+nameLen+8*count; Encode appends offset then length per entry"
	sweep := c.P.Method("attachment", "Package", "StatisticalMissSegments")
	evt := c.P.Method("attachment", "standardJT808DataHandle", "OnPackageProgressEvent")
	reply := c.P.Method("protocol/model", "T0x1212", "ReplyBody")
	enc := c.P.Method("protocol/model", "P0x9212", "Encode")
	parse := c.P.Method("protocol/model", "P0x9212", "Parse")
	if sweep == nil || evt == nil || reply == nil || enc == nil || parse == nil {
		R.Fatal("anchors StatisticalMissSegments / OnPackageProgressEvent / T0x1212.ReplyBody / P0x9212.Encode / Parse not found")
		return
	}
	lr := layoutResult{}
	// ---- 1a. sort dominates the gap loop and the loop ranges over the sorted slice
	{
		name := shortFn(sweep)
		var sorted ssa.Value
		var sortBlock *ssa.BasicBlock
		var sortFn *ssa.Function
		var famBlocks []*ssa.BasicBlock
		for _, ff := range c.familyOf(sweep) {
			if ff.Parent() == nil {
				famBlocks = append(famBlocks, ff.Blocks...)
			}
		}
		for _, b := range famBlocks {
			for _, ins := range b.Instrs {
				call, ok := ins.(*ssa.Call)
				if !ok {
					continue
				}
				sc := call.Call.StaticCallee()
				if sc == nil {
					continue
				}
				switch sc.String() {
				case "sort.Slice", "sort.SliceStable", "slices.SortFunc", "slices.SortStableFunc", "sort.Sort", "sort.Stable":
					a0 := call.Call.Args[0]
					if mi, ok := a0.(*ssa.MakeInterface); ok {
						a0 = mi.X
					}
					sorted, sortBlock, sortFn = varIdent(a0), b, b.Parent()
				}
			}
		}
		// the sorted slice as seen by a caller of the function that sorts it: a call of that function all of whose returns
		// hand back the sorted variable after the sort
		isSortedResult := func(v ssa.Value) bool {
			call, isC := varIdentCall(v)
			if !isC || sortFn == nil || call.Call.StaticCallee() != sortFn {
				return false
			}
			n := 0
			for _, b := range sortFn.Blocks {
				if ret, isR := b.Instrs[len(b.Instrs)-1].(*ssa.Return); isR && len(ret.Results) >= 1 {
					n++
					if varIdent(ret.Results[0]) != sorted || !sortBlock.Dominates(b) {
						return false
					}
				}
			}
			return n > 0
		}
		okSort := sorted != nil
		detail := "no sort call found in " + name
		if okSort {
			// the range loop over a slice: IndexAddr of `sorted` with a rangeindex φ, in a loop dominated by sortBlock
			found := false
			for _, b := range famBlocks {
				for _, ins := range b.Instrs {
					ia, ok := ins.(*ssa.IndexAddr)
					if !ok {
						continue
					}
					if _, isPhi := stripAdd(ia.Index).(*ssa.Phi); !isPhi {
						continue
					}
					if et, isSl := ia.X.Type().Underlying().(*types.Slice); !isSl || !strings.Contains(et.Elem().String(), "RetransmitPacket") {
						continue
					}
					if varIdent(ia.X) == sorted && sortBlock.Dominates(b) && ia.Parent() == sortFn {
						found = true
					} else if isSortedResult(ia.X) {
						found = true
					} else if sl, isSl := ia.X.(*ssa.Slice); isSl && (varIdent(sl.X) == sorted || isSortedResult(sl.X)) {
						okSort = false
						detail = "the gap loop iterates over a re-slice of the sorted ranges at " + c.P.RelPos(ia.Pos()) + " (ranges outside it are never examined)"
					}
				}
			}
			if okSort && !found {
				okSort = false
				detail = "no loop over the sorted slice is dominated by the sort call"
			}
			// the variable must not be reassigned after the sort
			if al, isAlloc := sorted.(*ssa.Alloc); isAlloc && okSort {
				for _, ref := range *al.Referrers() {
					if st, ok := ref.(*ssa.Store); ok && st.Addr == al && st.Block() != sortBlock && sortBlock.Dominates(st.Block()) {
						okSort = false
						detail = "the sorted slice variable is reassigned after the sort at " + c.P.RelPos(st.Pos())
					}
				}
			}
		}
		lr.set("S.sweep-sorted", name+" / sort dominates the sweep over the same slice", okSort, detail)
	}
	// ---- 1b. E1 on the sweep: start at 0, non-empty gaps, tail guard
	{
		var recv absint.Term
		type app struct {
			off, ln absint.Term
			st      *absint.State
			pos     string
		}
		var apps []app
		sweepFam := map[*ssa.Function]bool{}
		for _, ff := range c.familyOf(sweep) {
			sweepFam[ff] = true
		}
		res := c.RunE1([]*ssa.Function{sweep}, false, func(a *absint.Analyzer, fn *ssa.Function, st *absint.State, args []absint.Term) {
			recv = args[0]
			a.Peel = true
			a.OnAppend = func(f *ssa.Function, site ssa.Instruction, st *absint.State, dst *absint.Slice, src absint.Term) {
				ss, ok := src.(*absint.Slice)
				if !sweepFam[f] || !ok || len(ss.Base.Elems) != 1 || ss.Base.Elems[0] == nil {
					return
				}
				fl := structFields(ss.Base.Elems[0])
				if fl["DataOffset"] == nil || fl["DataLength"] == nil {
					return
				}
				// only appends to the result list (its elements are produced by comparisons with currentOffset)
				if !strings.Contains(c.constructOf(f, site), "miss") {
					return
				}
				apps = append(apps, app{fl["DataOffset"], fl["DataLength"], st.Clone(), c.P.RelPos(site.Pos())})
			}
		})
		c.AddE1(res, false)
		a := res[0].A
		name := shortFn(sweep)
		fileSize, _ := a.LoadField(absint.NewState(), recv, sweep.Params[0].Type(), "FileSize")
		_ = fileSize
		startsAtZero := false
		allNonEmpty := len(apps) > 0
		d := ""
		for _, ap := range apps {
			if iv, ok := ap.off.(absint.Int); ok && iv.L.IsConst() && iv.L.C == 0 {
				startsAtZero = true
			}
			lv, ok := ap.ln.(absint.Int)
			if !ok || !ap.st.Entails(absint.Con{L: lv.L.AddC(-1), Rel: absint.GE}) {
				allNonEmpty = false
				d = fmt.Sprintf("the range emitted at %s has length %s which is not proven >= 1 (an unguarded unsigned subtraction wraps around)", ap.pos, a.Render(ap.ln))
			}
		}
		lr.set("E3.sweep", name+" / the first range the sweep can emit starts at offset 0", startsAtZero, "no emitted range starts at the constant offset 0: a gap at the beginning of the file is never reported")
		lr.set("E3.sweep", name+" / every emitted range is non-empty and wrap-free", allNonEmpty, d)
		R.Notes["sweep_appends_observed"] = len(apps)
		{
			okTail, dTail := c.sweepTail(sweep)
			lr.set("E3.sweep", name+" / every return has passed the tail test against FileSize", okTail, dTail)
		}
	}
	// ---- 2a. handler stores the list on every path that computed it; stage; the file it is computed for
	c.completionWiring(lr, sweep, evt)
	// ---- 2b. reply body: flag / count / list
	{
		type encCall struct {
			st   *absint.State
			recv absint.Term
		}
		var calls []encCall
		var recv absint.Term
		res := c.RunE1([]*ssa.Function{reply}, false, func(a *absint.Analyzer, fn *ssa.Function, st *absint.State, args []absint.Term) {
			preJTMsg(a, fn, st, args)
			recv = args[0]
			a.OnCall = func(a *absint.Analyzer, st *absint.State, site ssa.CallInstruction, callee *ssa.Function, cargs []absint.Term) {
				if callee == enc && len(cargs) == 1 {
					calls = append(calls, encCall{st.Clone(), cargs[0]})
				}
			}
		})
		c.AddE1(res, false)
		a := res[0].A
		name := shortFn(reply)
		if len(calls) == 0 {
			lr.set("E3.wiring", name+" / reply is built by P0x9212.Encode", false, "ReplyBody never calls P0x9212.Encode")
		}
		for _, ec := range calls {
			src := findField(a, ec.st, recv, reply.Params[0].Type(), []string{"P0x9212RetransmitPacketList"})
			ss, _ := src.(*absint.Slice)
			pt := enc.Params[0].Type()
			res := findField(a, ec.st, ec.recv, pt, []string{"UploadResult"})
			num := findField(a, ec.st, ec.recv, pt, []string{"RetransmitPacketNumber"})
			lst := findField(a, ec.st, ec.recv, pt, []string{"P0x9212RetransmitPacketList"})
			rv, _ := res.(absint.Int)
			ok := false
			d := ""
			if ss != nil && rv.L.IsConst() {
				switch rv.L.C {
				case 1:
					nv, _ := num.(absint.Int)
					ok = ec.st.Entails(absint.Con{L: ss.Len.AddC(-1), Rel: absint.GE}) && lst != nil && lst.TKey() == ss.TKey() &&
						(a.Render(num) == a.Render(absint.Int{L: ss.Len}) || strings.Contains(a.Render(num), a.Render(absint.Int{L: ss.Len})))
					_ = nv
					d = fmt.Sprintf("result=retransmit with count %s, list %s; expected count = len(list) = %s and the handler's list", a.Render(num), a.Render(lst), a.Render(absint.Int{L: ss.Len}))
				case 0:
					nv, _ := num.(absint.Int)
					isNilList := false
					if ls, ok := lst.(*absint.Slice); ok && (ls.Nil || (ls.Len.IsConst() && ls.Len.C == 0)) {
						isNilList = true
					}
					if _, isN := lst.(absint.NilT); isN {
						isNilList = true
					}
					ok = ec.st.Entails(absint.Con{L: ss.Len, Rel: absint.EQ}) && nv.L.IsConst() && nv.L.C == 0 && isNilList
					d = fmt.Sprintf("result=complete with count %s, list %s while the handler's list has length %s", a.Render(num), a.Render(lst), a.Render(absint.Int{L: ss.Len}))
				}
			} else {
				d = "UploadResult is not a constant 0/1 on this path: " + a.Render(res)
			}
			lr.set("E3.wiring", fmt.Sprintf("%s / result flag, count and list agree with the handler's list [UploadResult=%s]", name, a.Render(res)), ok, d)
		}
	}
	// ---- 3. wire agreement of 0x9212
	{
		type elem struct {
			off, ln absint.Term
		}
		var elems []elem
		var bodyLenFacts []*absint.State
		var jt absint.Term
		res := c.RunE1([]*ssa.Function{parse}, false, func(a *absint.Analyzer, fn *ssa.Function, st *absint.State, args []absint.Term) {
			preJTMsg(a, fn, st, args)
			jt = args[1]
			a.OnAppend = func(f *ssa.Function, site ssa.Instruction, st *absint.State, dst *absint.Slice, src absint.Term) {
				ss, ok := src.(*absint.Slice)
				if f != parse || !ok || len(ss.Base.Elems) != 1 || ss.Base.Elems[0] == nil {
					return
				}
				fl := structFields(ss.Base.Elems[0])
				if fl["DataOffset"] != nil {
					elems = append(elems, elem{fl["DataOffset"], fl["DataLength"]})
					bodyLenFacts = append(bodyLenFacts, st.Clone())
				}
			}
		})
		c.AddE1(res, false)
		a := res[0].A
		name := shortFn(parse)
		okStride := len(elems) > 0
		d := "no list element is appended by Parse"
		for i, e := range elems {
			oa, la := rdAtom(e.off), rdAtom(e.ln)
			if oa == nil || la == nil {
				okStride = false
				d = fmt.Sprintf("entry fields are not 4-byte big-endian reads of the body: %s / %s", a.Render(e.off), a.Render(e.ln))
				continue
			}
			o1 := oa.Args[1].(absint.Int).L
			o2 := la.Args[1].(absint.Int).L
			w1 := oa.Args[2].(absint.Int).L.C
			w2 := la.Args[2].(absint.Int).L.C
			diff := o2.Sub(o1)
			// stride: the coefficient of the loop counter in the offset
			stride := int64(0)
			for _, t := range o1.Ts {
				if strings.HasPrefix(t.A.Desc, "φ") {
					stride = t.Coef
				}
			}
			peeled := stride == 0 // first (peeled or constant) iteration has no counter atom
			if w1 != 4 || w2 != 4 || !diff.IsConst() || diff.C != 4 || (!peeled && stride != 8) {
				okStride = false
				d = fmt.Sprintf("entry is read as %s / %s (expected two consecutive u32 at an 8-byte stride)", a.Render(e.off), a.Render(e.ln))
			}
			_ = i
		}
		lr.set("E3.wire", name+" / entries are (offset u32, length u32) at an 8-byte stride", okStride, d)
		// success requires len(body) == 4 + nameLen + 8*count
		okLen := false
		body := findField(a, absint.NewState(), jt, parse.Params[1].Type(), []string{"Body"})
		_ = body
		for _, ret := range res[0].Rets {
			if _, isNil := ret.Val.(absint.NilT); !isNil {
				continue
			}
			b2 := findField(a, ret.St, jt, parse.Params[1].Type(), []string{"Body"})
			bs, ok := b2.(*absint.Slice)
			if !ok {
				continue
			}
			n0 := a.ByteAt(ret.St, bs, absint.Const(0))
			// count byte at 3+nameLen: find it through the receiver field
			cnt := findField(a, ret.St, res0Recv(res[0]), parse.Params[0].Type(), []string{"RetransmitPacketNumber"})
			cv, ok2 := cnt.(absint.Int)
			if !ok2 {
				continue
			}
			want := bs.Len.Sub(n0).Sub(cv.L.Scale(8)).AddC(-4)
			if ret.St.Entails(absint.Con{L: want, Rel: absint.EQ}) {
				okLen = true
			} else {
				okLen = false
				break
			}
		}
		lr.set("E3.wire", name+" / success requires len(body) = 4 + nameLen + 8*count", okLen, "a successful parse does not entail the length equation with an 8-byte entry size")
		// Encode: per entry AppendUint32(offset) then AppendUint32(length)
		okEnc, dEnc := encodeOrder(c, enc)
		lr.set("E3.wire", shortFn(enc)+" / each entry is appended as offset then length (u32 each)", okEnc, dEnc)
	}
	lr.flush(c, c.P.RelPos(sweep.Pos()))
	R.Require("E3.sweep", 3, "")
	R.Require("E3.wiring", 3, "")
	R.Require("E3.wire", 3, "")
	R.Require("S.sweep-sorted", 1, "")
	// the response the terminal reads after resending is the answer to its next report: nothing is written in between
	R.Rules["S.response-per-report"] = "a completion response (0x9212) is written only in answer to a control frame: every successful chunk step leaves a progress stage for which the read loop does not answer, so the response that follows a resend is the one computed for the next completion report, not a repeat of the previous retransmit list"
	c.chunkStageStandalone("S.response-per-report")
	R.Require("S.response-per-report", 1, "")
	c.recordPerFile()
	// the sweep answers "nothing missing" at once when the record's received size equals the file size: that shortcut is
	// only as good as the accounting of the received size, which is C15's chunk rule, run here as well
	if stage := c.P.Method("attachment", "PackageProgress", "stageStreamData"); stage != nil {
		R.Rules["T.chunk"] = "a chunk is recorded as exactly the window [headLen, headLen+bodyLen) of the pending buffer (see C15)"
		R.Rules["T.account"] = "received-size accounting: a chunk adds its body length once per offset (a resent offset first takes back the length recorded for it), the length recorded per offset is the chunk's length, and the file is marked complete only where CurrentSize == FileSize holds - the premise of the sweep's 'received size == file size: complete' shortcut"
		c.c15Chunk(stage)
		R.Require("T.account", 5, "")
	} else {
		R.Fatal("anchor PackageProgress.stageStreamData not found")
	}
	R.Explain = "Structural necessary conditions of the completion report, decided for all inputs: the sweep runs over the sorted slice, starts at 0, emits only non-empty wrap-free ranges; " +
		"the handler stores the computed list on every path; the reply's flag/count/list agree with that list; the stage is Supplementary exactly when ranges are missing; " +
		"0x9212 is read and written as (offset,length) u32 pairs at an 8-byte stride with the matching length equation. Exactness of the interval complement over all chunk sets is not decided."
}

// varIdent identifies a value with the local variable it is loaded from.
func varIdent(v ssa.Value) ssa.Value {
	if u, ok := v.(*ssa.UnOp); ok {
		if al, ok := u.X.(*ssa.Alloc); ok {
			return al
		}
	}
	return v
}

func stripAdd(v ssa.Value) ssa.Value {
	if b, ok := v.(*ssa.BinOp); ok {
		return b.X
	}
	return v
}

func rdAtom(t absint.Term) *absint.Atom {
	iv, ok := t.(absint.Int)
	if !ok {
		return nil
	}
	at := iv.L.SingleAtom()
	if at == nil || at.Op != "rd" || len(at.Args) != 3 {
		return nil
	}
	return at
}

func res0Recv(r *E1Result) absint.Term { return r.Recv }

// findField navigates from a pointer term through field names ("*" dereferences a pointer field).
func findField(a *absint.Analyzer, st *absint.State, p absint.Term, pt types.Type, path []string) absint.Term {
	cur, curT := p, pt
	for i, name := range path {
		if name == "*" {
			continue
		}
		v, ft := a.LoadField(st, cur, curT, name)
		if v == nil {
			// embedded struct value: LoadField works on pointers only; try promoted lookup
			return nil
		}
		if i == len(path)-1 {
			return v
		}
		// continue: pointer field → deref; struct field → need address: emulate via sub-pointer
		switch x := v.(type) {
		case *absint.Ptr:
			cur, curT = x, ft
		case *absint.Struct:
			sub, subT := a.FieldPtr(cur, curT, name)
			if sub == nil {
				return nil
			}
			cur, curT = sub, subT
		default:
			return nil
		}
	}
	return nil
}

// encodeOrder: in the encoder's loop over the list, each iteration appends DataOffset then DataLength.
func encodeOrder(c *Ctx, enc *ssa.Function) (bool, string) {
	var seq []string
	for _, b := range enc.Blocks {
		for _, ins := range b.Instrs {
			call, ok := ins.(*ssa.Call)
			if !ok {
				continue
			}
			sc := call.Call.StaticCallee()
			if sc == nil || !strings.HasSuffix(sc.String(), ").AppendUint32") {
				continue
			}
			field := "?"
			switch v := call.Call.Args[2].(type) {
			case *ssa.Field:
				st := v.X.Type().Underlying().(*types.Struct)
				field = st.Field(v.Field).Name()
			case *ssa.UnOp:
				if fa, ok := v.X.(*ssa.FieldAddr); ok {
					st := fa.X.Type().Underlying().(*types.Pointer).Elem().Underlying().(*types.Struct)
					field = st.Field(fa.Field).Name()
				}
			}
			seq = append(seq, field)
		}
	}
	if len(seq) == 2 && seq[0] == "DataOffset" && seq[1] == "DataLength" {
		return true, ""
	}
	return false, "the encoder appends " + strings.Join(seq, ", ") + " per entry; the wire format is DataOffset, DataLength (u32 each)"
}

// completionWiring (shared by C15 and C16): what the 0x1212 handler does with the missing ranges.
func (c *Ctx) completionWiring(lr layoutResult, sweep, evt *ssa.Function) {
	R := c.R
	_ = R
	{
		mark := 0
		var callVal = map[int]absint.Term{}
		var recv absint.Term
		var progArg absint.Term
		found, entryList := 0, ""
		res := c.RunE1([]*ssa.Function{evt}, true, func(a *absint.Analyzer, fn *ssa.Function, st *absint.State, args []absint.Term) {
			recv, progArg = args[0], args[1]
			mark = a.NewMark()
			found = a.NewMark()
			if el := findField(a, st, recv, evt.Params[0].Type(), []string{"BaseJT808DataHandler", "T0x1212", "*", "P0x9212RetransmitPacketList"}); el != nil {
				entryList = el.TKey()
			}
			a.NoExternalImpl = func(t types.Type) bool { return true }
			// the path on which the record of the named file was found: the true edge of the ok flag of a lookup in the
			// session's record table
			a.OnBranch = func(f *ssa.Function, iff *ssa.If, taken bool, st *absint.State) {
				cond, pos := ssa.Value(iff.Cond), true
				for {
					u, isU := cond.(*ssa.UnOp)
					if !isU || u.Op != token.NOT {
						break
					}
					cond, pos = u.X, !pos
				}
				ex, isEx := cond.(*ssa.Extract)
				if !isEx || ex.Index != 1 || taken != pos {
					return
				}
				lk, isLk := ex.Tuple.(*ssa.Lookup)
				if !isLk || !lk.CommaOk {
					return
				}
				if mt, isMap := lk.X.Type().Underlying().(*types.Map); isMap {
					if pt, isPtr := mt.Elem().(*types.Pointer); isPtr && types.Identical(pt, sweep.Params[0].Type()) {
						absint.Mark(st, found)
					}
				}
			}
			a.OnInlined = func(f *ssa.Function, fargs []absint.Term, val absint.Term, st *absint.State) {
				if f == sweep {
					m := a.NewMark()
					absint.Mark(st, mark)
					absint.Mark(st, m)
					callVal[m] = val
					a.ExtraRoots = append(a.ExtraRoots, val)
				}
			}
		})
		c.AddE1(res, false)
		r := res[0]
		a := r.A
		name := shortFn(evt)
		nCalled := 0
		for _, ret := range r.Rets {
			if !absint.Marked(ret.St, mark) {
				// the record of the named file was found but its missing ranges were not computed on this path (a shortcut for
				// a file that is whole): the response is still built from the handler's list, so the list must have been
				// replaced on this path - by an empty one
				if found != 0 && absint.Marked(ret.St, found) {
					list := findField(a, ret.St, recv, evt.Params[0].Type(), []string{"BaseJT808DataHandler", "T0x1212", "*", "P0x9212RetransmitPacketList"})
					okFresh := list != nil && entryList != "" && list.TKey() != entryList
					if ls, isSl := list.(*absint.Slice); okFresh && isSl {
						okFresh = ret.St.Entails(absint.Con{L: ls.Len, Rel: absint.EQ})
					}
					lr.set("E3.wiring", name+" / a completion that skips the sweep empties the handler's list", okFresh,
						"the record of the named file is found, the missing ranges are not computed and the handler's list is left as the previous completion set it: the 0x9212 that follows repeats stale ranges; path "+strings.Join(ret.St.Trace, " → "))
				}
				continue
			}
			nCalled++
			var val absint.Term
			for m, v := range callVal {
				if absint.Marked(ret.St, m) {
					val = v
				}
			}
			// s.T0x1212.P0x9212RetransmitPacketList
			t1212, t1212T := a.LoadField(ret.St, recv, evt.Params[0].Type(), "BaseJT808DataHandler")
			_ = t1212
			_ = t1212T
			list := findField(a, ret.St, recv, evt.Params[0].Type(), []string{"BaseJT808DataHandler", "T0x1212", "*", "P0x9212RetransmitPacketList"})
			okStore := list != nil && val != nil && list.TKey() == val.TKey()
			lr.set("E3.wiring", name+" / computed ranges are stored into the handler", okStore,
				"a path computes the missing ranges but leaves the handler's list as it was (a stale list from an earlier completion is reported); path "+strings.Join(ret.St.Trace, " → "))
			// stage: Supplementary (4) iff len(list) > 0
			stage := findField(a, ret.St, progArg, evt.Params[1].Type(), []string{"ProgressStage"})
			if ls, ok := val.(*absint.Slice); ok {
				if sv, ok := stage.(absint.Int); ok {
					nonEmpty := ret.St.Entails(absint.Con{L: ls.Len.AddC(-1), Rel: absint.GE})
					empty := ret.St.Entails(absint.Con{L: ls.Len, Rel: absint.EQ})
					isSupp := sv.L.IsConst() && sv.L.C == 4
					okStage := (nonEmpty && isSupp) || (empty && !isSupp) || (!nonEmpty && !empty && false)
					lr.set("E3.wiring", name+" / stage is Supplementary exactly when ranges are missing", okStage,
						fmt.Sprintf("stage=%s with list length %s; path %s", a.Render(stage), a.Render(absint.Int{L: ls.Len}), strings.Join(ret.St.Trace, " → ")))
				}
			}
		}
		if nCalled == 0 {
			lr.set("E3.wiring", name+" / computed ranges are stored into the handler", false, "no return state passed through StatisticalMissSegments (anchor)")
		}
	}
	// the record whose ranges are computed is the one of the file the completion message names
	{
		name := shortFn(evt)
		n, ok, d := 0, true, ""
		var evtBlocks []*ssa.BasicBlock
		for _, ef := range c.familyOf(evt) {
			evtBlocks = append(evtBlocks, ef.Blocks...)
		}
		for _, b := range evtBlocks {
			for _, ins := range b.Instrs {
				call, isC := ins.(*ssa.Call)
				if !isC || call.Call.StaticCallee() != sweep || len(call.Call.Args) == 0 {
					continue
				}
				n++
				// receiver → map lookup → key
				var look *ssa.Lookup
				var find func(v ssa.Value, depth int)
				find = func(v ssa.Value, depth int) {
					if depth > 6 || look != nil {
						return
					}
					switch x := v.(type) {
					case *ssa.Extract:
						if lk, isLk := x.Tuple.(*ssa.Lookup); isLk {
							look = lk
						}
					case *ssa.Lookup:
						look = x
					case *ssa.UnOp:
						if al, isAl := x.X.(*ssa.Alloc); isAl {
							for _, ref := range *al.Referrers() {
								if st, isSt := ref.(*ssa.Store); isSt && st.Addr == ssa.Value(al) {
									find(st.Val, depth+1)
								}
							}
						}
					case *ssa.Phi:
						for _, e := range x.Edges {
							find(e, depth+1)
						}
					}
				}
				find(call.Call.Args[0], 0)
				if look == nil {
					ok, d = false, "the record whose missing ranges are computed is not the result of a lookup in the record table"
					continue
				}
				good := false
				var from []string
				for _, o := range c.origins(look.Index, nil, nil) {
					chain := fieldChain(o.Val)
					from = append(from, strings.Join(chain, "."))
					// the name is read through the handler's 0x1212 message (FileName is promoted from the embedded 0x1211 layout)
					if o.Kind == "field" && len(chain) > 0 && chain[len(chain)-1] == "FileName" && containsStr(chain, "T0x1212") {
						good = true
					} else {
						good = false
						break
					}
				}
				if !good {
					ok, d = false, fmt.Sprintf("the missing ranges reported in answer to a 0x1212 are computed for the record keyed by %v, not by the file name the 0x1212 carries", from)
				}
			}
		}
		lr.set("E3.wiring", name+" / the ranges are computed for the file the completion message names", ok && n > 0, d)
	}
}

// fieldChain: the selector path of a field load, outermost first (x.A.B.C → [A B C]), through pointer fields.
func fieldChain(v ssa.Value) []string {
	var rev []string
	for depth := 0; depth < 12 && v != nil; depth++ {
		switch x := v.(type) {
		case *ssa.UnOp:
			v = x.X
		case *ssa.FieldAddr:
			st := x.X.Type().Underlying().(*types.Pointer).Elem().Underlying().(*types.Struct)
			rev = append(rev, st.Field(x.Field).Name())
			v = x.X
		case *ssa.Field:
			st := x.X.Type().Underlying().(*types.Struct)
			rev = append(rev, st.Field(x.Field).Name())
			v = x.X
		default:
			v = nil
		}
	}
	out := make([]string, len(rev))
	for i := range rev {
		out[len(rev)-1-i] = rev[i]
	}
	return out
}

func containsStr(xs []string, s string) bool {
	for _, x := range xs {
		if x == s {
			return true
		}
	}
	return false
}

// recordPerFile (shared by C15 and C16): every file announced by a 0x1210 gets a progress record of its own, including
// the two maps that hold what was received (offset -> length, offset -> bytes). A record assembled from a template
// value shares the template's maps: chunks of one file then count as received ranges of its siblings.
func (c *Ctx) recordPerFile() {
	R := c.R
	R.Rules["S.record-per-file"] = "every file record stored into the session's record table is an object created for that table entry, and each of its map fields (the received offsets and chunks) is a map made for that record (inside every loop that surrounds the store): no two files share a received-range map"
	n := 0
	for _, fn := range c.RepoFuncs("attachment") {
		for _, b := range fn.Blocks {
			for _, ins := range b.Instrs {
				mu, isMU := ins.(*ssa.MapUpdate)
				if !isMU {
					continue
				}
				if _, f, ok := fieldLoad(mu.Map); !ok || f != "Record" {
					continue
				}
				pn, isN := derefNamed(mu.Value.Type())
				if !isN || pn != "Package" {
					continue
				}
				key := fmt.Sprintf("%s / %s", shortFn(fn), c.constructOf(fn, mu))
				if recordRestore(mu.Value, fn) {
					// the record that was looked up in the table is put back: no new record
					continue
				}
				n++
				okF, why := c.freshPerEvaluation(mu.Value, mu)
				if !okF {
					R.Add("S.record-per-file", key, c.P.RelPos(mu.Pos()), report.Violated, "the stored record is not created for this entry: "+why)
					continue
				}
				al, isAl := mu.Value.(*ssa.Alloc)
				if !isAl {
					// created by a constructor: its returns were checked to be fresh allocations; the fields are checked where the literal is
					if call, isC := mu.Value.(*ssa.Call); isC && call.Call.StaticCallee() != nil {
						okC, whyC := c.packageLiteralMapsFresh(call.Call.StaticCallee(), nil)
						st := report.Discharged
						if !okC {
							st = report.Violated
						}
						R.Add("S.record-per-file", key, c.P.RelPos(mu.Pos()), st, whyC)
						continue
					}
					R.Add("S.record-per-file", key, c.P.RelPos(mu.Pos()), report.Undecided, "the record is neither a literal nor the result of a constructor call")
					continue
				}
				okM, whyM := c.allocMapsFresh(al, mu)
				st := report.Discharged
				if !okM {
					st = report.Violated
				}
				R.Add("S.record-per-file", key, c.P.RelPos(mu.Pos()), st, whyM)
			}
		}
	}
	R.Notes["record_table_stores"] = n
	R.Require("S.record-per-file", 1, "")
}

// allocMapsFresh: every map-typed field of the struct allocated at al is assigned a map made per evaluation of use, and
// the struct is not filled by copying another struct value (which would bring that value's maps along) without the map
// fields being replaced afterwards.
func (c *Ctx) allocMapsFresh(al *ssa.Alloc, use ssa.Instruction) (bool, string) {
	stt, isS := al.Type().Underlying().(*types.Pointer).Elem().Underlying().(*types.Struct)
	if !isS {
		return false, "not a struct"
	}
	assigned := map[string]bool{}
	for _, ref := range *al.Referrers() {
		switch x := ref.(type) {
		case *ssa.FieldAddr:
			f := stt.Field(x.Field)
			if _, isMap := f.Type().Underlying().(*types.Map); !isMap {
				continue
			}
			for _, r2 := range *x.Referrers() {
				st, isSt := r2.(*ssa.Store)
				if !isSt || st.Addr != ssa.Value(x) {
					continue
				}
				if ok, why := c.freshPerEvaluation(st.Val, use); !ok {
					return false, fmt.Sprintf("the map stored into %s is shared between records: %s", f.Name(), why)
				}
				assigned[f.Name()] = true
			}
		}
	}
	for i := 0; i < stt.NumFields(); i++ {
		f := stt.Field(i)
		if _, isMap := f.Type().Underlying().(*types.Map); !isMap || assigned[f.Name()] {
			continue
		}
		// not assigned field by field: where does the struct's content come from?
		for _, ref := range *al.Referrers() {
			if st, isSt := ref.(*ssa.Store); isSt && st.Addr == ssa.Value(al) {
				return false, fmt.Sprintf("the record is filled by copying a struct value at %s and its map %s is not replaced afterwards: the copy shares that map with every other record made from the same value (a chunk of one file is then recorded as received for its siblings)", c.P.RelPos(st.Pos()), f.Name())
			}
		}
		return false, fmt.Sprintf("the map %s of the record is never made", f.Name())
	}
	return true, ""
}

// packageLiteralMapsFresh: a constructor all of whose returned allocations have per-call maps.
func (c *Ctx) packageLiteralMapsFresh(fn *ssa.Function, _ ssa.Instruction) (bool, string) {
	n := 0
	for _, b := range fn.Blocks {
		ret, isR := b.Instrs[len(b.Instrs)-1].(*ssa.Return)
		if !isR || len(ret.Results) == 0 {
			continue
		}
		al, isAl := ret.Results[0].(*ssa.Alloc)
		if !isAl {
			return false, "the constructor " + shortFn(fn) + " does not return a literal"
		}
		n++
		if ok, why := c.allocMapsFresh(al, ret); !ok {
			return false, why
		}
	}
	if n == 0 {
		return false, "the constructor " + shortFn(fn) + " has no return"
	}
	return true, ""
}

// recordRestore: v is a record taken out of a Record table by a lookup (possibly held in a local variable that a
// deferred closure captured): storing it back creates nothing.
func recordRestore(v ssa.Value, fn *ssa.Function) bool {
	fromLookup := func(x ssa.Value) bool {
		if ex, isEx := x.(*ssa.Extract); isEx {
			x = ex.Tuple
		}
		lk, isLk := x.(*ssa.Lookup)
		if !isLk {
			return false
		}
		_, f, ok := fieldLoad(lk.X)
		return ok && f == "Record"
	}
	if fromLookup(v) {
		return true
	}
	u, isU := v.(*ssa.UnOp)
	if !isU {
		return false
	}
	var cell *ssa.Alloc
	switch a := u.X.(type) {
	case *ssa.Alloc:
		cell = a
	case *ssa.FreeVar:
		if fn.Parent() == nil {
			return false
		}
		idx := -1
		for i, fv := range fn.FreeVars {
			if fv == a {
				idx = i
			}
		}
		for _, b := range fn.Parent().Blocks {
			for _, ins := range b.Instrs {
				if mc, isMC := ins.(*ssa.MakeClosure); isMC && mc.Fn == ssa.Value(fn) && idx >= 0 && idx < len(mc.Bindings) {
					cell, _ = mc.Bindings[idx].(*ssa.Alloc)
				}
			}
		}
	}
	if cell == nil {
		return false
	}
	n := 0
	for _, ref := range *cell.Referrers() {
		if st, isSt := ref.(*ssa.Store); isSt && st.Addr == ssa.Value(cell) {
			n++
			if !fromLookup(st.Val) {
				return false
			}
		}
	}
	return n > 0
}

// sweepTail (shared by C15 and C16): every way out of the sweep has dealt with the end of the file - either the range
// [current, FileSize) was emitted, or the running offset was found to have reached FileSize, or the record's own
// CurrentSize equals FileSize (nothing is missing). Decided by abstract interpretation of the sweep with its helpers
// inlined and a ghost flag: the flag is set on a branch edge on which some value compared with FileSize is known to
// be >= FileSize, and by an append of a range whose offset + length equals FileSize; every return must have the flag
// set (or lie under CurrentSize == FileSize). A return in front of the tail - "nothing recorded, nothing to sort" -
// reports a file of which nothing has arrived as complete.
func (c *Ctx) sweepTail(sweep *ssa.Function) (bool, string) {
	var recv absint.Term
	var g *ssa.Phi
	res := c.RunE1([]*ssa.Function{sweep}, false, func(a *absint.Analyzer, fn *ssa.Function, st *absint.State, args []absint.Term) {
		recv = args[0]
		a.Peel = true
		g = a.NewGhost("tail-done")
		absint.SetGhost(st, g, absint.Const(0))
		fileSize := func(st *absint.State) (absint.Lin, bool) {
			v, _ := a.LoadField(st, recv, sweep.Params[0].Type(), "FileSize")
			iv, ok := v.(absint.Int)
			return iv.L, ok
		}
		a.OnBranch = func(f *ssa.Function, iff *ssa.If, taken bool, st *absint.State) {
			cmp, isCmp := iff.Cond.(*ssa.BinOp)
			if !isCmp {
				return
			}
			F, okF := fileSize(st)
			tx, okX := a.Val(st, cmp.X).(absint.Int)
			ty, okY := a.Val(st, cmp.Y).(absint.Int)
			if !okF || !okX || !okY {
				return
			}
			var other absint.Lin
			switch {
			case st.Entails(absint.Con{L: tx.L.Sub(F), Rel: absint.EQ}):
				other = ty.L
			case st.Entails(absint.Con{L: ty.L.Sub(F), Rel: absint.EQ}):
				other = tx.L
			default:
				return
			}
			if st.Entails(absint.Con{L: other.Sub(F), Rel: absint.GE}) {
				absint.SetGhost(st, g, absint.Const(1))
			}
		}
		a.OnAppend = func(f *ssa.Function, site ssa.Instruction, st *absint.State, dst *absint.Slice, src absint.Term) {
			ss, ok := src.(*absint.Slice)
			if !ok || len(ss.Base.Elems) != 1 || ss.Base.Elems[0] == nil {
				return
			}
			fl := structFields(ss.Base.Elems[0])
			off, okO := fl["DataOffset"].(absint.Int)
			ln, okL := fl["DataLength"].(absint.Int)
			F, okF := fileSize(st)
			if okO && okL && okF && st.Entails(absint.Con{L: off.L.Add(ln.L).Sub(F), Rel: absint.EQ}) {
				absint.SetGhost(st, g, absint.Const(1))
			}
		}
	})
	if len(res) == 0 || g == nil {
		return false, "the sweep could not be interpreted"
	}
	for _, u := range dedupe(res[0].Undecided) {
		return false, "the sweep could not be interpreted completely: " + u
	}
	a := res[0].A
	n := 0
	for _, ret := range res[0].Rets {
		n++
		if l, ok := absint.Ghost(ret.St, g); ok && l.IsConst() && l.C == 1 {
			continue
		}
		cs, _ := a.LoadField(ret.St, recv, sweep.Params[0].Type(), "CurrentSize")
		fs, _ := a.LoadField(ret.St, recv, sweep.Params[0].Type(), "FileSize")
		ci, ok1 := cs.(absint.Int)
		fi, ok2 := fs.(absint.Int)
		if ok1 && ok2 && ret.St.Entails(absint.Con{L: ci.L.Sub(fi.L), Rel: absint.EQ}) {
			continue
		}
		return false, "the sweep can return without having emitted the range up to FileSize or found the running offset at FileSize (path " + strings.Join(ret.St.Trace, " → ") + "): on that path the end of the file is not examined (a file of which nothing was recorded is answered 'complete')"
	}
	if n == 0 {
		return false, "no return of the sweep analysed"
	}
	return true, ""
}

// varIdentCall: v (or the value stored once into the local it is loaded from) is a call.
func varIdentCall(v ssa.Value) (*ssa.Call, bool) {
	if call, ok := v.(*ssa.Call); ok {
		return call, true
	}
	if u, ok := v.(*ssa.UnOp); ok {
		if al, ok := u.X.(*ssa.Alloc); ok {
			var found *ssa.Call
			n := 0
			for _, ref := range *al.Referrers() {
				if st, isSt := ref.(*ssa.Store); isSt && st.Addr == ssa.Value(al) {
					n++
					found, _ = st.Val.(*ssa.Call)
				}
			}
			if n == 1 && found != nil {
				return found, true
			}
		}
	}
	return nil, false
}
