package checks

import (
	"fmt"
	"go/constant"
	"go/token"
	"go/types"
	"strings"

	"golang.org/x/tools/go/ssa"

	"jtverif/internal/load"
	"jtverif/internal/report"
)

func init() {
	register(&Check{ID: "C11", Level: "other", Run: runC11})
}

// closureSentOn returns the closures that fn sends on the channel field named field.
func closuresSentOn(fn *ssa.Function, field string) []*ssa.Function {
	var out []*ssa.Function
	for _, b := range fn.Blocks {
		for _, ins := range b.Instrs {
			if s, ok := ins.(*ssa.Send); ok {
				if mc, ok := stripChangeType(s.X).(*ssa.MakeClosure); ok {
					if _, f, ok := fieldLoad(s.Chan); ok && f == field {
						out = append(out, mc.Fn.(*ssa.Function))
					}
				}
			}
		}
	}
	return out
}

func isBuiltinCall(ins ssa.Instruction, name string) (*ssa.Call, bool) {
	call, ok := ins.(*ssa.Call)
	if !ok {
		return nil, false
	}
	b, ok := call.Call.Value.(*ssa.Builtin)
	return call, ok && b.Name() == name
}

// mentionsGlobal: does the def-use closure of v include a load of the package variable `name`?
func (c *Ctx) mentionsGlobal(v ssa.Value, name string) bool {
	for _, o := range c.origins(v, map[string]bool{"errors.Join": true, "fmt.Errorf": true, "service.newErrMessage": true}, nil) {
		if o.Kind == "global" && o.Name == name {
			return true
		}
	}
	return false
}

// wrapsGlobal: errors.Is(v, <package variable name>) is certainly true: v is the sentinel itself, an errors.Join with a
// wrapping operand, or a fmt.Errorf whose %w operand wraps it (a %v / %s operand only copies the text).
func (c *Ctx) wrapsGlobal(v ssa.Value, name string, depth int) bool {
	if depth > 8 {
		return false
	}
	switch x := v.(type) {
	case *ssa.MakeInterface:
		return c.wrapsGlobal(x.X, name, depth+1)
	case *ssa.ChangeInterface:
		return c.wrapsGlobal(x.X, name, depth+1)
	case *ssa.ChangeType:
		return c.wrapsGlobal(x.X, name, depth+1)
	case *ssa.UnOp:
		if g, ok := x.X.(*ssa.Global); ok {
			return g.Name() == name
		}
	case *ssa.Phi:
		for _, e := range x.Edges {
			if !c.wrapsGlobal(e, name, depth+1) {
				return false
			}
		}
		return len(x.Edges) > 0
	case *ssa.Call:
		switch calleeName(&x.Call) {
		case "errors.Join":
			for _, a := range x.Call.Args {
				for _, e := range variadicArgs(a) {
					if c.wrapsGlobal(e, name, depth+1) {
						return true
					}
				}
			}
		case "fmt.Errorf":
			if len(x.Call.Args) != 2 {
				return false
			}
			k, isK := x.Call.Args[0].(*ssa.Const)
			if !isK || k.Value == nil || k.Value.Kind() != constant.String {
				return false
			}
			ops := variadicArgs(x.Call.Args[1])
			f := constant.StringVal(k.Value)
			n := 0
			for i := 0; i < len(f); i++ {
				if f[i] != '%' {
					continue
				}
				i++
				for i < len(f) && strings.IndexByte("+-# 0123456789.", f[i]) >= 0 {
					i++
				}
				if i >= len(f) || f[i] == '%' {
					continue
				}
				if f[i] == 'w' && n < len(ops) && c.wrapsGlobal(ops[n], name, depth+1) {
					return true
				}
				n++
			}
		default:
			// repo helpers returning an error: all returned values wrap
			if sc := x.Call.StaticCallee(); sc != nil && c.P.IsRepoFunc(sc) && sc.Signature.Results().Len() == 1 {
				nRet := 0
				for _, b := range sc.Blocks {
					if ret, ok := b.Instrs[len(b.Instrs)-1].(*ssa.Return); ok {
						nRet++
						if !c.wrapsGlobal(ret.Results[0], name, depth+1) {
							return false
						}
					}
				}
				return nRet > 0
			}
		}
	}
	return false
}

// sessionRules decides the registry rules shared by C11 and C13; returns whether `leave` is
// synchronous and deletes exactly its key (premise of the activeMsgChan close exception).
func (c *Ctx) sessionRules(full bool) (leaveSync bool) {
	R := c.R
	run := c.P.Method("service", "sessionManager", "run")
	join := c.P.Method("service", "sessionManager", "join")
	leave := c.P.Method("service", "sessionManager", "leave")
	write := c.P.Method("service", "sessionManager", "write")
	reader := c.P.Method("service", "connection", "reader")
	if run == nil || join == nil || leave == nil || write == nil || reader == nil {
		R.Fatal("anchors sessionManager.run/join/leave/write, connection.reader not found")
		return false
	}
	add := func(rule, key string, fn *ssa.Function, ok bool, detail string) {
		st := report.Discharged
		if !ok {
			st = report.Violated
		}
		R.Add(rule, key, c.P.RelPos(fn.Pos()), st, detail)
	}
	// ---- 3. leave: synchronous, deletes only its own key
	{
		cls := c.opsSentOn(leave, "operationFuncChan")
		okShape := len(cls) == 1
		detail := fmt.Sprintf("leave sends %d closures to the manager (expected 1)", len(cls))
		var ack ssa.Value
		if okShape {
			cl := cls[0]
			// every path of leave passes through the send and through a receive on a channel made in leave
			submitters := chanSendHelpers(c.RepoFuncs("service"), "operationFuncChan")
			sendPass := mustPass(leave, func(i ssa.Instruction) bool {
				if call, isC := i.(*ssa.Call); isC {
					if sc := call.Call.StaticCallee(); sc != nil {
						if _, isH := submitters[sc]; isH {
							return true // a helper that sends its argument to the manager
						}
					}
				}
				s, ok := i.(*ssa.Send)
				if !ok {
					return false
				}
				_, f, ok := fieldLoad(s.Chan)
				return ok && f == "operationFuncChan"
			})
			recvPass := mustPass(leave, func(i ssa.Instruction) bool {
				u, ok := i.(*ssa.UnOp)
				if ok && u.Op == token.ARROW {
					ack = u.X
					return true
				}
				return false
			})
			if !sendPass || !recvPass {
				okShape = false
				detail = "a path through leave returns without handing the deletion to the manager and waiting for it (the key stays registered while the connection is torn down)"
			}
			// the closure: deletes record[key] with key = the parameter of leave, nothing else; signals on every path
			nDel, nOther := 0, 0
			for _, b := range cl.Blocks {
				for _, ins := range b.Instrs {
					if call, ok := isBuiltinCall(ins, "delete"); ok {
						k := call.Call.Args[1]
						if u, isU := k.(*ssa.UnOp); isU {
							k = u.X
						}
						if fv, isFV := k.(*ssa.FreeVar); isFV && fv.Name() == leave.Params[1].Name() {
							nDel++
						} else {
							nOther++
						}
					}
					if _, ok := ins.(*ssa.MapUpdate); ok {
						nOther++
					}
					if _, ok := isBuiltinCall(ins, "clear"); ok {
						nOther++
					}
				}
			}
			if okShape && (nDel != 1 || nOther != 0) {
				okShape = false
				detail = fmt.Sprintf("the leave closure performs %d deletions of its own key and %d other registry updates (expected exactly one deletion of its own key)", nDel, nOther)
			}
			// signals completion on every path (close or send on the ack channel, possibly deferred)
			sig := false
			for _, b := range cl.Blocks {
				for _, ins := range b.Instrs {
					switch x := ins.(type) {
					case *ssa.Defer:
						if bi, ok := x.Call.Value.(*ssa.Builtin); ok && bi.Name() == "close" {
							sig = true
						}
					case *ssa.Send:
						sig = sig || mustPass(cl, func(i ssa.Instruction) bool { _, ok := i.(*ssa.Send); return ok })
						_ = x
					}
				}
			}
			if okShape && !sig {
				okShape = false
				detail = "the leave closure does not signal completion on every path"
			}
		}
		_ = ack
		add("E5.leave", "sessionManager.leave / synchronous round trip deleting exactly its own key", leave, okShape, detail)
		leaveSync = okShape
	}
	// ---- stop: leave is the first effect inside the Once body; key passed is the connection's key
	stopFn := c.P.Method("service", "connection", "stop")
	// the teardown body: the function stop hands to sync.Once.Do (a literal, a method value, a plain function)
	var onceBody *ssa.Function
	if stopFn != nil {
		for _, b := range stopFn.Blocks {
			for _, ins := range b.Instrs {
				if call, ok := ins.(*ssa.Call); ok {
					if sc := call.Call.StaticCallee(); sc != nil && sc.String() == "(*sync.Once).Do" && len(call.Call.Args) == 2 {
						onceBody = funcOfValue(call.Call.Args[1])
					}
				}
			}
		}
		if onceBody == nil && len(stopFn.AnonFuncs) == 1 {
			onceBody = stopFn.AnonFuncs[0]
		}
	}
	if stopFn == nil || onceBody == nil {
		R.Fatal("anchor connection.stop with a teardown body (the function run through sync.Once) not found")
		return leaveSync
	}
	{
		body := onceBody
		isLeave := func(i ssa.Instruction) bool {
			call, ok := i.(*ssa.Call)
			if !ok || call.Call.IsInvoke() {
				return false
			}
			_, f, ok := fieldLoad(call.Call.Value)
			return ok && f == "leaveFunc"
		}
		isEffect := func(i ssa.Instruction) bool {
			switch x := i.(type) {
			case *ssa.Call:
				if _, isB := x.Call.Value.(*ssa.Builtin); isB {
					b := x.Call.Value.(*ssa.Builtin).Name()
					return b == "close" || b == "clear" || b == "delete"
				}
				return true
			case *ssa.Send, *ssa.Go:
				return true
			}
			return false
		}
		found, viol := firstEffect(body, isLeave, isEffect)
		ok := found && viol == nil
		d := ""
		if !found {
			d = "stop does not call the leave function"
		} else if viol != nil {
			d = fmt.Sprintf("%s at %s can run before the key has left the registry: commands are still routed to a connection that is being torn down", c.constructOf(body, viol), c.P.RelPos(viol.Pos()))
		}
		add("E5.stop-order", "connection.stop / leaving the registry is the first effect of teardown", stopFn, ok, d)
		// whole body inside sync.Once.Do
		once := false
		for _, b := range stopFn.Blocks {
			for _, ins := range b.Instrs {
				if call, ok := ins.(*ssa.Call); ok {
					if sc := call.Call.StaticCallee(); sc != nil && sc.String() == "(*sync.Once).Do" {
						once = true
					}
				}
			}
		}
		add("E5.stop-order", "connection.stop / teardown runs once (sync.Once)", stopFn, once, "stop does not run its body through sync.Once")
	}
	if !full {
		return leaveSync
	}
	// ---- 1. confinement of the registry map
	{
		var mk *ssa.MakeMap
		for _, b := range run.Blocks {
			for _, ins := range b.Instrs {
				if m, ok := ins.(*ssa.MakeMap); ok {
					mk = m
				}
			}
		}
		ok := mk != nil
		d := "run does not create the registry map"
		if ok {
			d = ""
			for _, ref := range *mk.Referrers() {
				switch x := ref.(type) {
				case *ssa.Call:
					// only as argument of the dynamic call of a received operation
					if _, isRecv := x.Call.Value.(*ssa.UnOp); !isRecv {
						if _, isExt := x.Call.Value.(*ssa.Extract); !isExt {
							if _, isPhi := x.Call.Value.(*ssa.Phi); !isPhi {
								ok = false
								d = "the registry map is passed to " + calleeName(&x.Call)
							}
						}
					}
				case *ssa.DebugRef, *ssa.Phi:
				case *ssa.Store:
					// storing into a local (the variable itself) is fine when the local does not escape
					if al, isAl := x.Addr.(*ssa.Alloc); !isAl || al.Heap {
						ok = false
						d = "the registry map is stored to memory other goroutines can reach at " + c.P.RelPos(x.Pos())
					}
				case *ssa.Go, *ssa.Send, *ssa.MakeClosure, *ssa.Return:
					ok = false
					d = fmt.Sprintf("the registry map escapes its goroutine through %T at %s", ref, c.P.RelPos(ref.Pos()))
				}
			}
		}
		add("E5.confine", "sessionManager.run / registry map is confined to the manager goroutine", run, ok, d)
		// single receive site of the operation channel
		nRecv := 0
		where := ""
		for _, fn := range c.RepoFuncs("service") {
			for _, b := range fn.Blocks {
				for _, ins := range b.Instrs {
					switch x := ins.(type) {
					case *ssa.UnOp:
						if x.Op == token.ARROW {
							if _, f, ok := fieldLoad(x.X); ok && f == "operationFuncChan" {
								nRecv++
								where = shortFn(fn)
							}
						}
					case *ssa.Select:
						for _, s := range x.States {
							if s.Dir == types.RecvOnly {
								if _, f, ok := fieldLoad(s.Chan); ok && f == "operationFuncChan" {
									nRecv++
									where = shortFn(fn)
								}
							}
						}
					}
				}
			}
		}
		add("E5.confine", "operationFuncChan / operations are received (and executed) only by the manager goroutine", run, nRecv == 1 && where == shortFn(run),
			fmt.Sprintf("%d receive sites (last in %s)", nRecv, where))
	}
	// ---- 2. insert-if-absent
	{
		cls := c.opsSentOn(join, "operationFuncChan")
		ok := len(cls) == 1
		d := fmt.Sprintf("join sends %d closures", len(cls))
		if ok {
			cl := cls[0]
			var upd *ssa.MapUpdate
			nUpd := 0
			for _, b := range cl.Blocks {
				for _, ins := range b.Instrs {
					if u, isU := ins.(*ssa.MapUpdate); isU {
						upd = u
						nUpd++
					}
				}
			}
			ok = nUpd == 1
			d = fmt.Sprintf("the join closure updates the registry at %d places (expected 1)", nUpd)
			if ok {
				// dominated by the false edge of the ok result of a lookup of the same key in the same map
				guarded := false
				for _, b := range cl.Blocks {
					iff, isIf := b.Instrs[len(b.Instrs)-1].(*ssa.If)
					if !isIf {
						continue
					}
					ex, isEx := iff.Cond.(*ssa.Extract)
					if !isEx || ex.Index != 1 {
						continue
					}
					lk, isLk := ex.Tuple.(*ssa.Lookup)
					if !isLk || !lk.CommaOk || lk.X != upd.Map || !sameKey(lk.Index, upd.Key) {
						continue
					}
					if edgeDominates(b, 1, upd.Block()) {
						guarded = true
						// the ok branch: sends an error that wraps the key-exists sentinel and performs no update
						okBranch := b.Succs[0]
						sentErr := false
						for _, ins := range okBranch.Instrs {
							if s, isS := ins.(*ssa.Send); isS {
								if c.wrapsGlobal(s.X, "_errKeyExist", 0) {
									sentErr = true
								}
							}
						}
						if !sentErr {
							ok = false
							d = "the branch for an existing key does not answer with an error that errors.Is recognises as the key-exists sentinel (errors.Join / %w / the sentinel itself): the reader does not recognise the refusal and keeps serving the duplicate connection"
						}
					}
				}
				if ok && !guarded {
					ok = false
					d = "the registry update is not guarded by a failed lookup of the same key (an online key can be overwritten)"
				}
			}
		}
		add("E5.insert-if-absent", "sessionManager.join / insert only when the key is absent, otherwise key-exists error", join, ok, d)
	}
	// ---- 3b. the connection's key is stored only after a successful join
	{
		nStore := 0
		ok := true
		d := ""
		for _, fn := range c.RepoFuncs("service") {
			for _, b := range fn.Blocks {
				for _, ins := range b.Instrs {
					st, isSt := ins.(*ssa.Store)
					if !isSt {
						continue
					}
					fa, isFA := st.Addr.(*ssa.FieldAddr)
					if !isFA {
						continue
					}
					if n, okN := derefNamed(fa.X.Type()); !okN || n != "connection" {
						continue
					}
					stt := fa.X.Type().Underlying().(*types.Pointer).Elem().Underlying().(*types.Struct)
					if stt.Field(fa.Field).Name() != "key" {
						continue
					}
					if al, isAl := fa.X.(*ssa.Alloc); isAl && al.Parent() == fn {
						continue
					}
					nStore++
					// dominated by the true edge of `err == nil` where err is the 2nd result of the join call
					dom := false
					for _, b2 := range fn.Blocks {
						iff, isIf := b2.Instrs[len(b2.Instrs)-1].(*ssa.If)
						if !isIf {
							continue
						}
						bo, isBo := iff.Cond.(*ssa.BinOp)
						if !isBo || (bo.Op != token.EQL && bo.Op != token.NEQ) {
							continue
						}
						ex, isEx := bo.X.(*ssa.Extract)
						if !isEx || ex.Index != 1 {
							continue
						}
						call, isCall := ex.Tuple.(*ssa.Call)
						if !isCall {
							continue
						}
						if _, f, okF := fieldLoad(call.Call.Value); !okF || f != "joinFunc" {
							continue
						}
						safe := b2.Succs[0]
						if bo.Op == token.NEQ {
							safe = b2.Succs[1]
						}
						if safe.Dominates(b) && len(safe.Preds) == 1 {
							dom = true
						}
					}
					if !dom {
						ok = false
						d = fmt.Sprintf("connection.key is stored at %s without the join having succeeded: a refused duplicate would later free the owner's key", c.P.RelPos(st.Pos()))
					}
				}
			}
		}
		if nStore == 0 {
			ok, d = false, "no store to connection.key found (anchor)"
		}
		add("E5.own-key", "connection.key / stored only after a successful join", reader, ok, d)
	}
	// ---- 4. refusal closes only the newcomer: the key-exists branch returns without forwarding the message
	{
		ok := false
		d := "the reader has no branch on errors.Is(err, key-exists) that returns"
		// straightExit: every path from block tb returns without handing a message to the writer and without going back
		// into a loop that contains `from`
		straightExit := func(from, tb *ssa.BasicBlock) bool {
			seen := map[*ssa.BasicBlock]bool{}
			reachesRet, sends := false, false
			var walk func(x *ssa.BasicBlock)
			walk = func(x *ssa.BasicBlock) {
				if seen[x] {
					return
				}
				seen[x] = true
				for _, ins := range x.Instrs {
					if s, isS := ins.(*ssa.Send); isS {
						if _, f, okF := fieldLoad(s.Chan); okF && f == "msgChan" {
							sends = true
						}
					}
					if _, isR := ins.(*ssa.Return); isR {
						reachesRet = true
					}
				}
				if _, isR := x.Instrs[len(x.Instrs)-1].(*ssa.Return); isR {
					return
				}
				for _, s := range x.Succs {
					walk(s)
				}
			}
			walk(tb)
			straight := true
			for blk := range seen {
				for _, s := range blk.Succs {
					if s.Dominates(from) { // back into the read loop
						straight = false
					}
				}
			}
			return reachesRet && !sends && straight
		}
		// ends: taking branch tb of block b in function f ends the connection: a straight exit of the reader itself, or -
		// when the read loop is split into helpers - a straight return of the helper whose callers in turn leave on it
		var ends func(f *ssa.Function, b, tb *ssa.BasicBlock, depth int) bool
		ends = func(f *ssa.Function, b, tb *ssa.BasicBlock, depth int) bool {
			if !straightExit(b, tb) {
				return false
			}
			if f == reader {
				return true
			}
			if depth > 3 {
				return false
			}
			// every call site of the helper: the caller branches on one of its results and one side is itself an end
			nSites, okAll := 0, true
			for _, g := range c.familyOf(reader) {
				for _, gb := range g.Blocks {
					for _, ins := range gb.Instrs {
						call, isC := ins.(*ssa.Call)
						if !isC || call.Call.StaticCallee() != f {
							continue
						}
						nSites++
						found := false
						for _, b2 := range g.Blocks {
							iff, isIf := b2.Instrs[len(b2.Instrs)-1].(*ssa.If)
							if !isIf {
								continue
							}
							cond := iff.Cond
							for {
								u, isU := cond.(*ssa.UnOp)
								if !isU || u.Op != token.NOT {
									break
								}
								cond = u.X
							}
							ex, isEx := cond.(*ssa.Extract)
							if cond != ssa.Value(call) && !(isEx && ex.Tuple == ssa.Value(call)) {
								continue
							}
							if ends(g, b2, b2.Succs[0], depth+1) || ends(g, b2, b2.Succs[1], depth+1) {
								found = true
							}
						}
						if !found {
							okAll = false
						}
					}
				}
			}
			return nSites > 0 && okAll
		}
		for _, rf := range c.familyOf(reader) {
			for _, b := range rf.Blocks {
				iff, isIf := b.Instrs[len(b.Instrs)-1].(*ssa.If)
				if !isIf {
					continue
				}
				call, isCall := iff.Cond.(*ssa.Call)
				if !isCall {
					continue
				}
				sc := call.Call.StaticCallee()
				if sc == nil || sc.String() != "errors.Is" || !c.mentionsGlobal(call.Call.Args[1], "_errKeyExist") {
					continue
				}
				ok = ends(rf, b, b.Succs[0], 0)
				d = "on a refused duplicate key the reader keeps serving the connection or forwards the message"
			}
		}
		add("E5.refuse", "connection.reader / a refused duplicate ends only the new connection", reader, ok, d)
	}
	// ---- 5. routing
	{
		cls := c.opsSentOn(write, "operationFuncChan")
		ok := len(cls) == 1
		d := fmt.Sprintf("write sends %d closures", len(cls))
		if ok {
			cl := cls[0]
			hit, miss := false, false
			for _, b := range cl.Blocks {
				iff, isIf := b.Instrs[len(b.Instrs)-1].(*ssa.If)
				if !isIf {
					continue
				}
				ex, isEx := iff.Cond.(*ssa.Extract)
				if !isEx {
					continue
				}
				lk, isLk := ex.Tuple.(*ssa.Lookup)
				if !isLk || !lk.CommaOk {
					continue
				}
				for _, ins := range b.Succs[0].Instrs {
					if s, isS := ins.(*ssa.Send); isS {
						if _, f, okF := fieldLoad(s.Chan); okF && f == "activeMsgChan" {
							hit = true
						}
					}
				}
				for _, ins := range b.Succs[1].Instrs {
					if s, isS := ins.(*ssa.Send); isS && c.mentionsGlobal(s.X, "ErrNotExistKey") {
						miss = true
					}
				}
			}
			ok = hit && miss
			d = fmt.Sprintf("routing closure: command forwarded to the owner's channel on a hit=%v, immediate not-exist error on a miss=%v", hit, miss)
		}
		add("E5.route", "sessionManager.write / route to the owner's channel or answer not-exist at once", write, ok, d)
	}
	return leaveSync
}

func sameKey(a, b ssa.Value) bool {
	strip := func(v ssa.Value) ssa.Value {
		if u, ok := v.(*ssa.UnOp); ok && u.Op == token.MUL {
			return u.X
		}
		return v
	}
	if a == b || strip(a) == strip(b) {
		return true
	}
	// two loads of the same field of the same object (op.key read twice in a method that replaced a closure)
	ra, pa := loadPath(a)
	rb, pb := loadPath(b)
	return len(pa) > 0 && ra == rb && samePath(pa, pb)
}

func runC11(c *Ctx) {
	R := c.R
	R.Rules["E5.confine"] = "the key→session map is created in the manager goroutine and never leaves it; operations sent to the manager are executed only there (all registry operations are serialised for every schedule)"
	R.Rules["E5.insert-if-absent"] = "a join inserts only after a failed lookup of the same key and otherwise answers with the key-exists error, performing no update"
	R.Rules["E5.leave"] = "leave is a synchronous round trip through the manager that deletes exactly the given key"
	R.Rules["E5.stop-order"] = "teardown leaves the registry before anything else and runs once"
	R.Rules["E5.own-key"] = "a connection records a key as its own only after the join succeeded (a refused duplicate leaves with the empty key and cannot evict the owner)"
	R.Rules["E5.refuse"] = "the key-exists refusal ends only the refused connection"
	R.Rules["E5.reply-per-request"] = "a function that submits an operation to the manager and waits for its outcome waits on a channel made by that very call: concurrent callers never share a reply channel (with a shared one a caller can take the answer meant for another - a duplicate is accepted, a free key refused)"
	R.Rules["E5.route"] = "commands are routed through the same map: hit → that session's channel, miss → immediate not-exist error"
	c.sessionRules(true)
	c.managerOnce()
	c.replyPerRequest()
	c.managerRunsNoUserCode()
	R.Require("E5.confine", 3, "")
	R.Require("E5.leave", 1, "")
	R.Require("E5.stop-order", 2, "")
	R.Explain = "Structural reasons why the registry can be correct under every interleaving: confinement of the map to one goroutine, insert-if-absent, synchronous leave of exactly one's own key as the first step of a once-only teardown, key ownership only after a successful join, refusal ending only the newcomer, routing through the same map. " +
		"Linearizability of concrete histories and callback counts over histories are not decided."
	_ = strings.Join
}

// managerOnce: the registry map lives in the local state of the manager loop; exactly one such loop may run.
func (c *Ctx) managerOnce() {
	R := c.R
	run := c.P.Method("service", "sessionManager", "run")
	if run == nil {
		R.Fatal("anchor sessionManager.run not found")
		return
	}
	var sites []string
	inLoopSite := false
	for _, fn := range c.RepoFuncs("service") {
		for _, b := range fn.Blocks {
			for _, ins := range b.Instrs {
				g, ok := ins.(*ssa.Go)
				if !ok || g.Call.StaticCallee() != run {
					continue
				}
				sites = append(sites, shortFn(fn)+" at "+c.P.RelPos(g.Pos()))
				if inLoop(b) {
					inLoopSite = true
				}
			}
		}
	}
	st, d := report.Discharged, ""
	if len(sites) != 1 || inLoopSite {
		st, d = report.Violated, fmt.Sprintf("the manager loop (which keeps the key→session map in a local variable) is started at %d places %v: with more than one manager goroutine the registry is split over private maps and operations land on either", len(sites), sites)
	}
	R.Add("E5.confine", "sessionManager.run / started exactly once", "", st, d)
}

// replyPerRequest: every function of the service package that submits an operation to the manager and then receives
// from a channel receives from a channel made by that invocation.
func (c *Ctx) replyPerRequest() {
	R := c.R
	n := 0
	for _, fn := range c.RepoFuncs("service") {
		if fn.Parent() != nil || len(c.opsSentOn(fn, "operationFuncChan")) == 0 {
			continue
		}
		for _, b := range fn.Blocks {
			for _, ins := range b.Instrs {
				u, isU := ins.(*ssa.UnOp)
				if !isU || u.Op != token.ARROW {
					continue
				}
				n++
				ok, why := c.freshPerEvaluation(u.X, u)
				st := report.Discharged
				if !ok {
					st = report.Violated
					why = "the outcome of the submitted operation is awaited on a channel that is not made by this call: " + why
				} else {
					why = ""
				}
				R.Add("E5.reply-per-request", fmt.Sprintf("%s / %s", shortFn(fn), c.constructOf(fn, u)), c.P.RelPos(u.Pos()), st, why)
			}
		}
	}
	R.Require("E5.reply-per-request", 2, "")
	// … and it does wait: a submitter that can return without having taken the operation's outcome (a timer arm in a
	// select) reports failure for an operation the manager still carries out - the registry then holds a key whose
	// connection believes it never joined
	R.Rules["E5.round-trip"] = "every function that submits an operation to the session manager returns only after a plain receive of the operation's outcome (not one arm of a select), on every path: what the caller is told is what the registry did"
	submitHelpers := chanSendHelpers(c.RepoFuncs("service"), "operationFuncChan")
	isSubmit := func(ins ssa.Instruction) bool {
		switch x := ins.(type) {
		case *ssa.Send:
			_, f, ok := fieldLoad(x.Chan)
			return ok && f == "operationFuncChan"
		case *ssa.Call:
			if sc := x.Call.StaticCallee(); sc != nil {
				_, isH := submitHelpers[sc]
				return isH
			}
		}
		return false
	}
	var mustReceive func(fn *ssa.Function, depth int) bool
	mustReceive = func(fn *ssa.Function, depth int) bool {
		if fn == nil || len(fn.Blocks) == 0 || depth > 2 {
			return false
		}
		barrier := func(b *ssa.BasicBlock, from int) bool {
			for _, ins := range b.Instrs[from:] {
				if u, isU := ins.(*ssa.UnOp); isU && u.Op == token.ARROW {
					return true
				}
				if call, isC := ins.(*ssa.Call); isC {
					if sc := call.Call.StaticCallee(); sc != nil && sc.Pkg == fn.Pkg && sc != fn && mustReceive(sc, depth+1) {
						return true
					}
				}
			}
			return false
		}
		// from every submission (in helpers: from the entry) to a return
		seen := map[*ssa.BasicBlock]bool{}
		var work []*ssa.BasicBlock
		startIdx := map[*ssa.BasicBlock]int{}
		if depth == 0 {
			for _, b := range fn.Blocks {
				for i, ins := range b.Instrs {
					if isSubmit(ins) {
						if _, have := startIdx[b]; !have {
							startIdx[b] = i + 1
							work = append(work, b)
						}
					}
				}
			}
		} else {
			work = append(work, fn.Blocks[0])
			seen[fn.Blocks[0]] = true
		}
		for len(work) > 0 {
			b := work[len(work)-1]
			work = work[:len(work)-1]
			from := 0
			if i, isStart := startIdx[b]; isStart && !seen[b] {
				from = i
			}
			if barrier(b, from) {
				continue
			}
			if _, isR := b.Instrs[len(b.Instrs)-1].(*ssa.Return); isR {
				return false
			}
			for _, sb := range b.Succs {
				if !seen[sb] {
					seen[sb] = true
					work = append(work, sb)
				}
			}
		}
		return true
	}
	nRT := 0
	for _, fn := range c.RepoFuncs("service") {
		if fn.Parent() != nil || len(c.opsSentOn(fn, "operationFuncChan")) == 0 {
			continue
		}
		nRT++
		st, d := report.Discharged, ""
		if !mustReceive(fn, 0) {
			st, d = report.Violated, shortFn(fn)+" can return without a plain receive of the outcome of the operation it submitted (a select with another arm, or an early return): the operation is still carried out by the manager after the caller was told otherwise"
		}
		R.Add("E5.round-trip", shortFn(fn), c.P.RelPos(fn.Pos()), st, d)
	}
	if nRT < 3 {
		R.Fatal("E5.round-trip: only %d functions submit operations to the session manager (confirmed by hand: join, leave, write)", nRT)
	}
	R.Require("E5.round-trip", 3, "")
}

// managerRunsNoUserCode: the operations executed on the session-manager goroutine are the registry's critical
// sections; every connection's join, leave and command routing waits for them. They contain no dynamic call - no
// method of a user-implementable interface (TerminalEventer, Handler) and no function value handed in from outside:
// user code that re-enters the service (SendActiveMessage from a leave callback) would wait for the very goroutine it
// runs on, and the registry stops for every terminal.
func (c *Ctx) managerRunsNoUserCode() {
	R := c.R
	R.Rules["E5.manager-pure"] = "operations executed by the session-manager goroutine make no dynamic call (interface method of a user-implementable type, function value received from outside): user callbacks never run on the goroutine every join / leave / routing waits for"
	n := 0
	seen := map[*ssa.Function]bool{}
	for _, fn := range c.RepoFuncs("service") {
		for _, op := range c.opsSentOn(fn, "operationFuncChan") {
			if seen[op] {
				continue
			}
			seen[op] = true
			n++
			var bad []string
			for _, g := range c.familyOf(op) {
				for _, b := range g.Blocks {
					for _, ins := range b.Instrs {
						ci, isCI := ins.(ssa.CallInstruction)
						if !isCI {
							continue
						}
						cc := ci.Common()
						if _, isB := cc.Value.(*ssa.Builtin); isB {
							continue
						}
						if cc.IsInvoke() {
							// error.Error and the like on library values are not user callbacks
							if nt, okN := derefNamedType(cc.Value.Type()); okN && nt.Obj().Pkg() != nil && strings.HasPrefix(nt.Obj().Pkg().Path(), load.ModPrefix) {
								bad = append(bad, fmt.Sprintf("%s.%s at %s", nt.Obj().Name(), cc.Method.Name(), c.P.RelPos(ins.Pos())))
							}
							continue
						}
						if cc.StaticCallee() == nil {
							bad = append(bad, fmt.Sprintf("a call of the function value %s at %s", cc.Value.Name(), c.P.RelPos(ins.Pos())))
						}
					}
				}
			}
			st, d := report.Discharged, ""
			if len(bad) > 0 {
				st, d = report.Violated, "the operation calls "+strings.Join(dedupe(bad), ", ")+" on the manager goroutine: a callback that re-enters the service (SendActiveMessage, a reconnect it waits for) blocks on the goroutine it runs on, and every join, leave and command of every terminal hangs behind it"
			}
			R.Add("E5.manager-pure", shortFn(fn)+" / "+shortFn(op), c.P.RelPos(op.Pos()), st, d)
		}
	}
	R.Require("E5.manager-pure", 3, "")
}
