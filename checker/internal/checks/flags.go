package checks

import (
	"fmt"
	"go/constant"
	"go/token"
	"go/types"
	"regexp"
	"strconv"

	"golang.org/x/tools/go/ssa"
)

// FlagRow: boolean field F is set to true exactly under "bit Bit of the decoded word is 1".
type FlagRow struct {
	Field    string
	Bit      int
	Positive bool
	Pos      token.Pos
	Src      string
}

var reBitFmt = regexp.MustCompile(`^%(?:\.|0)(\d+)b$`)

func constInt(v ssa.Value) (int64, bool) {
	c, ok := v.(*ssa.Const)
	if !ok || c.Value == nil || c.Value.Kind() != constant.Int {
		return 0, false
	}
	return c.Int64(), true
}

// sprintfBits: v is the result of fmt.Sprintf("%.Nb", x): returns N and x.
func sprintfBits(v ssa.Value) (int, ssa.Value, bool) {
	call, ok := v.(*ssa.Call)
	if !ok {
		return 0, nil, false
	}
	sc := call.Call.StaticCallee()
	if sc == nil || sc.String() != "fmt.Sprintf" || len(call.Call.Args) != 2 {
		return 0, nil, false
	}
	f, ok := call.Call.Args[0].(*ssa.Const)
	if !ok || f.Value == nil || f.Value.Kind() != constant.String {
		return 0, nil, false
	}
	m := reBitFmt.FindStringSubmatch(constant.StringVal(f.Value))
	if m == nil {
		return 0, nil, false
	}
	n, _ := strconv.Atoi(m[1])
	// the variadic slice: slice of an alloc'ed array whose element 0 is stored once
	sl, ok := call.Call.Args[1].(*ssa.Slice)
	if !ok {
		return 0, nil, false
	}
	arr, ok := sl.X.(*ssa.Alloc)
	if !ok {
		return 0, nil, false
	}
	var arg ssa.Value
	for _, ref := range *arr.Referrers() {
		ia, ok := ref.(*ssa.IndexAddr)
		if !ok {
			continue
		}
		if k, ok := constInt(ia.Index); !ok || k != 0 {
			continue
		}
		for _, r2 := range *ia.Referrers() {
			if st, ok := r2.(*ssa.Store); ok {
				arg = st.Val
			}
		}
	}
	if mi, ok := arg.(*ssa.MakeInterface); ok {
		arg = mi.X
	}
	if arg == nil {
		return 0, nil, false
	}
	// the printed value must be an unsigned integer of at most N bits, otherwise the string is longer
	if b, ok := arg.Type().Underlying().(*types.Basic); !ok || b.Info()&types.IsUnsigned == 0 {
		return 0, nil, false
	}
	return n, arg, true
}

func log2(m int64) (int, bool) {
	if m <= 0 || m&(m-1) != 0 {
		return 0, false
	}
	n := 0
	for m > 1 {
		m >>= 1
		n++
	}
	return n, true
}

func stripConv(v ssa.Value) ssa.Value {
	for {
		switch x := v.(type) {
		case *ssa.Convert:
			v = x.X
		case *ssa.ChangeType:
			v = x.X
		default:
			return v
		}
	}
}

// decodeBitTest recognises the idioms  s[k]=='1' with s=Sprintf("%.Nb",x),  x&(1<<k) != 0,
// x&(1<<k) == (1<<k),  (x>>k)&1 == 1 / != 0  and returns (source word, bit, holds-when-bit-set).
func decodeBitTest(cond ssa.Value) (src ssa.Value, bit int, whenSet bool, ok bool) {
	b, isB := cond.(*ssa.BinOp)
	if !isB || (b.Op != token.EQL && b.Op != token.NEQ) {
		return nil, 0, false, false
	}
	x, y := b.X, b.Y
	if _, isC := x.(*ssa.Const); isC {
		x, y = y, x
	}
	c, isC := constInt(y)
	if !isC {
		return nil, 0, false, false
	}
	eq := b.Op == token.EQL
	x = stripConv(x)
	switch v := x.(type) {
	case *ssa.Index, *ssa.Lookup:
		var sv, idx ssa.Value
		if iv, ok := v.(*ssa.Index); ok {
			sv, idx = iv.X, iv.Index
		} else {
			lv := v.(*ssa.Lookup)
			sv, idx = lv.X, lv.Index
		}
		n, arg, ok := sprintfBits(sv)
		k, okk := constInt(idx)
		if !ok || !okk || (c != '1' && c != '0') {
			return nil, 0, false, false
		}
		set := (c == '1') == eq
		return arg, n - 1 - int(k), set, true
	case *ssa.BinOp:
		if v.Op != token.AND {
			return nil, 0, false, false
		}
		l, r := v.X, v.Y
		if _, isC := l.(*ssa.Const); isC {
			l, r = r, l
		}
		m, isC := constInt(r)
		if !isC {
			return nil, 0, false, false
		}
		l = stripConv(l)
		// (x >> k) & 1
		if sh, ok := l.(*ssa.BinOp); ok && sh.Op == token.SHR && m == 1 {
			if k, ok := constInt(sh.Y); ok {
				switch {
				case c == 1:
					return stripConv(sh.X), int(k), eq, true
				case c == 0:
					return stripConv(sh.X), int(k), !eq, true
				}
			}
			return nil, 0, false, false
		}
		k, isPow := log2(m)
		if !isPow {
			return nil, 0, false, false
		}
		switch {
		case c == m:
			return l, k, eq, true
		case c == 0:
			return l, k, !eq, true
		}
	}
	return nil, 0, false, false
}

// flagTable extracts, for a flag decoder, which bit controls each boolean field it sets.
// problems lists stores of boolean constants the extractor cannot interpret.
func (c *Ctx) flagTable(fn *ssa.Function) (rows []FlagRow, problems []string) {
	for _, b := range fn.Blocks {
		for _, ins := range b.Instrs {
			st, ok := ins.(*ssa.Store)
			if !ok {
				continue
			}
			fa, ok := st.Addr.(*ssa.FieldAddr)
			if !ok {
				continue
			}
			cv, ok := st.Val.(*ssa.Const)
			if !ok {
				// the flag is the outcome of the bit test itself: X: data[i] == '1' / X: v&mask != 0
				if bt, isB := st.Val.Type().Underlying().(*types.Basic); isB && bt.Kind() == types.Bool {
					if src, bit, whenSet, isTest := decodeBitTest(st.Val); isTest {
						stt := fa.X.Type().Underlying().(*types.Pointer).Elem().Underlying().(*types.Struct)
						rows = append(rows, FlagRow{Field: stt.Field(fa.Field).Name(), Bit: bit, Positive: whenSet, Pos: st.Pos(), Src: src.Name()})
					}
				}
				continue
			}
			if cv.Value == nil || cv.Value.Kind() != constant.Bool {
				continue
			}
			stt := fa.X.Type().Underlying().(*types.Pointer).Elem().Underlying().(*types.Struct)
			field := stt.Field(fa.Field).Name()
			val := constant.BoolVal(cv.Value)
			// controlling branch: the block has exactly one predecessor that ends in an If
			if len(b.Preds) != 1 {
				problems = append(problems, fmt.Sprintf("%s: store of %v to %s is not directly guarded by one test (%s)", shortFn(fn), val, field, c.P.RelPos(st.Pos())))
				continue
			}
			p := b.Preds[0]
			iff, ok := p.Instrs[len(p.Instrs)-1].(*ssa.If)
			if !ok {
				problems = append(problems, fmt.Sprintf("%s: store of %v to %s is unconditional (%s)", shortFn(fn), val, field, c.P.RelPos(st.Pos())))
				continue
			}
			src, bit, whenSet, ok := decodeBitTest(iff.Cond)
			if !ok {
				problems = append(problems, fmt.Sprintf("%s: the test guarding %s is not a recognised single-bit test (%s)", shortFn(fn), field, c.P.RelPos(st.Pos())))
				continue
			}
			// "exactly when its bit is set": the test itself must not be reached only over one arm of a test of another bit
			for _, d := range fn.Blocks {
				if d == p || len(d.Instrs) == 0 {
					continue
				}
				dif, isIf := d.Instrs[len(d.Instrs)-1].(*ssa.If)
				if !isIf {
					continue
				}
				if _, obit, _, isBit := decodeBitTest(dif.Cond); isBit && obit != bit {
					for i := range d.Succs {
						if edgeDominates(d, i, p) {
							problems = append(problems, fmt.Sprintf("%s: VIOLATED the test of bit %d that sets %s is reached only over one arm of the test of bit %d (%s): the flag also depends on another bit, not exactly on its own", shortFn(fn), bit, field, obit, c.P.RelPos(st.Pos())))
						}
					}
				}
			}
			onTrue := p.Succs[0] == b
			// field becomes `val` when (bit set == whenSet) == onTrue
			bitSetMeans := whenSet == onTrue // store happens when the bit is set
			positive := bitSetMeans == val   // true is stored exactly when the bit is set (or false when clear)
			rows = append(rows, FlagRow{Field: field, Bit: bit, Positive: positive && val, Pos: st.Pos(), Src: src.Name()})
		}
	}
	return
}
