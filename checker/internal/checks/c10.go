package checks

import (
	"fmt"
	"go/token"
	"go/types"
	"os"
	"sort"
	"strings"
	"time"

	"golang.org/x/tools/go/ssa"

	"jtverif/internal/absint"
	"jtverif/internal/report"
)

func init() {
	register(&Check{ID: "C10", Level: "other", Run: runC10})
}

// seqEntry: constructor followed by a method on the constructed object.
type seqEntry struct {
	ctor   *ssa.Function
	method *ssa.Function
	peel   bool
}

// runSeq analyses ctor(arbitrary args) and then method(result, arbitrary args) from every
// state the constructor returns: the role starts from the state the constructor really
// establishes (nil fields, empty maps, sync.Once not yet done) instead of an arbitrary one.
func (c *Ctx) runSeq(e seqEntry) *E1Result { return c.runSeqWith(e, nil) }

func (c *Ctx) runSeqWith(e seqEntry, cfg func(a *absint.Analyzer)) *E1Result {
	t0 := time.Now()
	a := c.NewE1(pkgOf(e.method), true)
	if cfg != nil {
		cfg(a)
	}
	a.Peel = e.peel
	a.PeelDepth = 2
	// default configuration of the attachment server: its own data handler, stream handlers and file event
	a.NoExternalImpl = func(t types.Type) bool {
		s := t.String()
		return strings.HasSuffix(s, "attachment.DataHandler") || strings.HasSuffix(s, "attachment.StreamDataHandler") || strings.HasSuffix(s, "attachment.FileEventer")
	}
	r := &E1Result{Fn: e.method, A: a}
	func() {
		defer func() {
			if p := recover(); p != nil {
				r.Undecided = append(r.Undecided, fmt.Sprintf("analyser panic in %s: %v", e.method, p))
			}
		}()
		st := absint.NewState()
		var args []absint.Term
		for _, p := range e.ctor.Params {
			args = append(args, a.Unknown(p.Type(), p.Name(), st))
		}
		obls, rets := a.RunEntry(e.ctor, st, args, nil)
		r.Obls = append(r.Obls, obls...)
		for _, ret := range absint.Rets(rets) {
			margs := []absint.Term{ret.Val}
			for _, p := range e.method.Params[1:] {
				margs = append(margs, a.Unknown(p.Type(), p.Name(), ret.St))
			}
			o2, r2 := a.RunEntry(e.method, ret.St, margs, nil)
			r.Obls = append(r.Obls, o2...)
			r.Rets = append(r.Rets, absint.Rets(r2)...)
		}
	}()
	r.Undecided = append(r.Undecided, a.Undecided...)
	r.Wall = time.Since(t0).Seconds()
	if os.Getenv("JTVERIF_STEPS") != "" {
		fmt.Printf("STEPS role %-65s %9d  %.1fs undecided=%d\n", shortFn(e.method), a.StepsUsed, r.Wall, len(r.Undecided))
		type kv struct {
			f *ssa.Function
			n int
		}
		var top []kv
		for f, n := range a.Analysed {
			top = append(top, kv{f, n})
		}
		sort.Slice(top, func(i, j int) bool { return top[i].n > top[j].n })
		for i := 0; i < len(top) && i < 8; i++ {
			fmt.Printf("    runs %6d  %s\n", top[i].n, shortFn(top[i].f))
		}
	}
	c.mu.Lock()
	if a.StepsUsed > c.maxSteps {
		c.maxSteps = a.StepsUsed
		c.R.Notes["e1_max_steps_of_an_entry"] = fmt.Sprintf("%d of %d (%s)", a.StepsUsed, a.MaxSteps, shortFn(e.method))
	}
	c.mu.Unlock()
	return r
}

// acceptLoopShape: the accept call sits in a loop that has no exit and no return; an accept
// error leads back to the loop head; each accepted connection is served by a `go` statement.
func (c *Ctx) acceptLoopShape(fn *ssa.Function) {
	name := shortFn(fn)
	var acceptBlock *ssa.BasicBlock
	for _, b := range fn.Blocks {
		for _, ins := range b.Instrs {
			if call, ok := ins.(*ssa.Call); ok {
				m := ""
				if call.Call.IsInvoke() {
					m = call.Call.Method.Name()
				} else if sc := call.Call.StaticCallee(); sc != nil {
					m = sc.Name()
				}
				if m == "Accept" || m == "AcceptTCP" {
					acceptBlock = b
				}
			}
		}
	}
	if acceptBlock == nil {
		c.R.Fatal("%s: no Accept call found (anchor)", name)
		return
	}
	// natural loop containing the accept block
	var body map[*ssa.BasicBlock]bool
	for _, u := range fn.Blocks {
		for _, h := range u.Succs {
			if h.Dominates(u) && h.Dominates(acceptBlock) {
				b := map[*ssa.BasicBlock]bool{h: true}
				work := []*ssa.BasicBlock{u}
				b[u] = true
				for len(work) > 0 {
					x := work[len(work)-1]
					work = work[:len(work)-1]
					if x == h {
						continue
					}
					for _, p := range x.Preds {
						if !b[p] {
							b[p] = true
							work = append(work, p)
						}
					}
				}
				if b[acceptBlock] {
					if body == nil {
						body = b
					} else {
						for k := range b {
							body[k] = true
						}
					}
				}
			}
		}
	}
	pos := c.P.RelPos(fn.Pos())
	if body == nil {
		c.R.Add("S.accept-loop", name+" / accept is inside a loop", pos, report.Violated, "the Accept call is not inside a loop: after one accept (or one accept error) the server stops accepting")
		return
	}
	c.R.Add("S.accept-loop", name+" / accept is inside a loop", pos, report.Discharged, "")
	okNoExit, hasGo := true, false
	detail := ""
	for b := range body {
		for _, ins := range b.Instrs {
			switch x := ins.(type) {
			case *ssa.Return, *ssa.Panic:
				okNoExit = false
				detail = "the accept loop contains a return/panic at " + c.P.RelPos(ins.Pos())
			case *ssa.Go:
				hasGo = true
			case *ssa.Call:
				if sc := x.Call.StaticCallee(); sc != nil {
					switch sc.String() {
					case "os.Exit", "log.Fatal", "log.Fatalf", "log.Fatalln":
						okNoExit = false
						detail = "the accept loop calls " + sc.String()
					}
				}
			}
		}
		for _, s := range b.Succs {
			if !body[s] {
				okNoExit = false
				detail = "the accept loop has an exit edge at " + c.P.RelPos(b.Instrs[len(b.Instrs)-1].Pos())
			}
		}
	}
	st := report.Discharged
	if !okNoExit {
		st = report.Violated
	}
	c.R.Add("S.accept-loop", name+" / no path leaves the accept loop (accept errors and finished connections lead back to Accept)", pos, st, detail)
	st = report.Discharged
	d := ""
	if !hasGo {
		st = report.Violated
		d = "accepted connections are not served by a goroutine of their own (a slow or hostile client would block the accept loop)"
	}
	c.R.Add("S.accept-loop", name+" / each connection is served by its own goroutine", pos, st, d)
}

func runC10(c *Ctx) {
	c.E1Rules()
	c.E1Assumptions()
	R := c.R
	R.Rules["E1.exit"] = "no call that terminates the process (os.Exit, log.Fatal*) is reachable from a connection role"
	R.Rules["S.accept-loop"] = "both accept loops: the Accept call is in a loop without exit, return, panic or process exit, and every accepted connection is served by its own goroutine"
	R.Rules["S.role-closure"] = "every repo function reachable from a per-connection goroutine is analysed: inlined in its role's context, or as an entry with arbitrary arguments"
	need := func(f *ssa.Function, what string) *ssa.Function {
		if f == nil {
			R.Fatal("anchor not found: %s", what)
		}
		return f
	}
	sNew := need(c.P.Func("service", "newConnection"), "service.newConnection")
	sReader := need(c.P.Method("service", "connection", "reader"), "service.connection.reader")
	sWrite := need(c.P.Method("service", "connection", "write"), "service.connection.write")
	smNew := need(c.P.Func("service", "newSessionManager"), "service.newSessionManager")
	smRun := need(c.P.Method("service", "sessionManager", "run"), "service.sessionManager.run")
	aNew := need(c.P.Func("attachment", "newConnection"), "attachment.newConnection")
	aRun := need(c.P.Method("attachment", "connection", "run"), "attachment.connection.run")
	sRun := need(c.acceptLoopFunc("service"), "the function of service that accepts connections")
	atRun := need(c.acceptLoopFunc("attachment"), "the function of attachment that accepts connections")
	if sNew == nil || sReader == nil || sWrite == nil || smNew == nil || smRun == nil || aNew == nil || aRun == nil || sRun == nil || atRun == nil {
		return
	}
	c.acceptLoopShape(sRun)
	c.acceptLoopShape(atRun)
	R.Rules["S.paired-maps"] = "see C05: slot table and timestamp record always have the same key set"
	paired := map[string]string{}
	if c.pairedMapsLemma("service", "packageParse", "subcontractingRecord", "timeoutRecord") {
		paired[".packageParse#timeoutRecord"] = ".packageParse#subcontractingRecord"
	}
	seqs := []seqEntry{{sNew, sReader, false}, {sNew, sWrite, false}, {smNew, smRun, false}, {aNew, aRun, true}}
	results := make([]*E1Result, len(seqs))
	done := make(chan int)
	for i := range seqs {
		go func(i int) {
			results[i] = c.runSeqWith(seqs[i], func(a *absint.Analyzer) { a.PairedMaps = paired })
			done <- i
		}(i)
	}
	for range seqs {
		<-done
	}
	c.AddE1(results, false)
	// closure: go targets and unresolved dynamic callees inside the repo, plus opaque callees
	analysed := map[*ssa.Function]bool{}
	pending := map[*ssa.Function]bool{}
	for _, r := range results {
		for f := range r.A.Analysed {
			analysed[f] = true
		}
	}
	collect := func(rs []*E1Result) {
		for _, r := range rs {
			for f := range r.A.GoTargets {
				if !analysed[f] && c.P.IsRepoFunc(f) {
					pending[f] = true
				}
			}
			for f := range r.A.Reach {
				if !analysed[f] && c.P.IsRepoFunc(f) {
					pending[f] = true
				}
			}
			for f := range r.A.OpaqueUsed {
				if !analysed[f] && c.P.IsRepoFunc(f) {
					pending[f] = true
				}
			}
		}
	}
	collect(results)
	// handlers that parse every message body (README pattern): all decoder entry points
	body, ext, frame := c.decoderEntries()
	for _, f := range append(append(body, ext...), frame...) {
		if !analysed[f] {
			pending[f] = true
		}
	}
	rounds := 0
	var closureNames []string
	for len(pending) > 0 && rounds < 6 {
		rounds++
		var batch []*ssa.Function
		for f := range pending {
			batch = append(batch, f)
		}
		sort.Slice(batch, func(i, j int) bool { return batch[i].String() < batch[j].String() })
		pending = map[*ssa.Function]bool{}
		for _, f := range batch {
			analysed[f] = true
			closureNames = append(closureNames, shortFn(f))
		}
		rs := c.RunE1(batch, true, preJTMsg)
		c.AddE1(rs, false)
		for _, r := range rs {
			for f := range r.A.Analysed {
				analysed[f] = true
			}
		}
		collect(rs)
	}
	if len(pending) > 0 {
		R.Add("S.role-closure", "closure did not stabilise", "", report.Undecided, fmt.Sprintf("%d functions still pending after %d rounds", len(pending), rounds))
	}
	for _, n := range closureNames {
		R.Add("S.role-closure", n+" / analysed as entry with arbitrary arguments", "", report.Discharged, "")
	}
	var roleNames []string
	for _, s := range seqs {
		roleNames = append(roleNames, shortFn(s.ctor)+" → "+shortFn(s.method))
	}
	R.Notes["roles"] = roleNames
	R.Notes["functions_analysed"] = len(analysed)
	R.Notes["closure_entries"] = len(closureNames)
	assumed := map[string]int{}
	for _, r := range results {
		for k, v := range r.A.AssumedTotal {
			assumed[k] += v
		}
	}
	R.Notes["assumed_total"] = sortedKeys(assumed)
	// containment between connections: what a refused / hostile connection may do to the registry (rules of C11)
	R.Rules["E5.own-key"] = "a connection records a key as its own only after the join succeeded (a refused duplicate leaves with the empty key and cannot evict the owner)"
	R.Rules["E5.refuse"] = "the key-exists refusal ends only the refused connection"
	R.Rules["E5.insert-if-absent"] = "a join inserts only after a failed lookup of the same key and otherwise answers with the key-exists error, performing no update"
	R.Rules["E5.confine"] = "the key→session map is created in the manager goroutine and never leaves it; operations sent to the manager are executed only there"
	R.Rules["E5.leave"] = "leave is a synchronous round trip through the manager that deletes exactly the given key"
	R.Rules["E5.stop-order"] = "teardown leaves the registry before anything else and runs once"
	R.Rules["E5.route"] = "commands are routed through the same map: hit → that session's channel, miss → immediate not-exist error"
	c.sessionRules(true)
	// one handler table per accepted connection: a table shared by all connections is a Go map written by the accept
	// loop while connection goroutines read it - the runtime aborts the whole process ("concurrent map read and map write")
	if mk := c.NamedFunc("service", "createDefaultHandle"); mk != nil {
		c.perConnectionHandlers(mk)
	} else {
		R.Fatal("anchor GoJT808.createDefaultHandle not found")
	}
	R.Require("E5.own-key", 1, "")
	R.Require("E1.index", 20, "")
	R.Require("E1.slice", 60, "")
	// (no minimum for E1.nil: whether a possibly-nil dereference exists at all depends on how the code is written)
	R.Require("S.accept-loop", 6, "")
	R.Require("S.role-closure", 40, "")
	c.handlerSetRule()
	// a frame must not keep the reader busy for ever: the loop that files the messages of one read ends with the batch
	c.eachOnceRule()
	R.Explain = "Panic freedom of everything a TCP client can drive: the per-connection roles of both servers are interpreted abstractly from the state their constructors establish " +
		"(newConnection → reader / write, newSessionManager → run, attachment newConnection → run with the default data handler, stream handlers and file event explored through dynamic dispatch), for arbitrary Read results and byte contents; " +
		"callees in other packages, goroutine bodies and targets of unresolved dynamic calls are analysed as entries with arbitrary arguments until the set is closed, together with all decoder entry points (handlers that parse every body). " +
		"Obligations: index/slice bounds, nil dereference (nil constants, absent map keys), explicit panics, process exits, type assertions. Plus the shape of both accept loops. Channel-close panics are C13's subject; liveness of other sessions under load and OS resource exhaustion are not decided."
	_ = strings.Join
}

// DebugSeq runs constructor → method (debug aid).
func (c *Ctx) DebugSeq(pkg, ctor, typ, method string, peel bool) *E1Result {
	return c.runSeq(seqEntry{c.P.Func(pkg, ctor), c.P.Method(pkg, typ, method), peel})
}

// handlerSetRule: the writer calls methods of msg.Handler (HasReply, ReplyBody, ...) on every message it takes from its
// channels without testing it; the abstract interpretation of the writer role takes received messages as well formed.
// That assumption is discharged here, on the sending side: every *Message the reader sends to a channel the writer
// consumes has had its Handler field set from a successful handler-table lookup (comma-ok true, or the value tested
// against nil) on every path to the send.
func (c *Ctx) handlerSetRule() {
	R := c.R
	R.Rules["S.handler-set"] = "every message the reader hands to the writer (message channel, re-request channel) carries a handler: on every path to the send its Handler field was assigned the value of a handler-table lookup that succeeded (ok true / value not nil) - a frame with an unsupported ID never reaches the writer, whose reply path calls the handler without a nil test (a nil handler there ends the process)"
	reader := c.P.Method("service", "connection", "reader")
	if reader == nil {
		R.Fatal("anchor connection.reader not found")
		return
	}
	var guarded func(m ssa.Value, at ssa.Instruction, depth int) (bool, string)
	guarded = func(m ssa.Value, at ssa.Instruction, depth int) (bool, string) {
		fn := at.Parent()
		why := "no assignment of the Handler field from a handler-table lookup dominates the hand-over"
		for _, b := range fn.Blocks {
			for _, ins := range b.Instrs {
				st, isSt := ins.(*ssa.Store)
				if !isSt {
					continue
				}
				fa, isFA := st.Addr.(*ssa.FieldAddr)
				if !isFA || fa.X != m {
					continue
				}
				stt := fa.X.Type().Underlying().(*types.Pointer).Elem().Underlying().(*types.Struct)
				if stt.Field(fa.Field).Name() != "Handler" {
					continue
				}
				if !(b.Dominates(at.Block())) {
					continue
				}
				v := st.Val
				for {
					if mi, ok := v.(*ssa.MakeInterface); ok {
						v = mi.X
						continue
					}
					if ci, ok := v.(*ssa.ChangeInterface); ok {
						v = ci.X
						continue
					}
					break
				}
				// form 1: value, ok := table[key]; under ok
				if ex, isEx := v.(*ssa.Extract); isEx && ex.Index == 0 {
					if lk, isLk := ex.Tuple.(*ssa.Lookup); isLk && lk.CommaOk {
						for _, b2 := range fn.Blocks {
							iff, isIf := b2.Instrs[len(b2.Instrs)-1].(*ssa.If)
							if !isIf {
								continue
							}
							// the test may be written either way round (`if ok`, `case !ok:` evaluated into a value)
							cond, okEdge := iff.Cond, 0
							for {
								u, isU := cond.(*ssa.UnOp)
								if !isU || u.Op != token.NOT {
									break
								}
								cond, okEdge = u.X, 1-okEdge
							}
							if ex1, isEx1 := cond.(*ssa.Extract); isEx1 && ex1.Tuple == ssa.Value(lk) && ex1.Index == 1 && edgeDominates(b2, okEdge, at.Block()) {
								return true, ""
							}
						}
						why = "the Handler field is assigned the result of the table lookup at " + c.P.RelPos(st.Pos()) + " whether or not the lookup succeeded: for an unsupported ID it is nil"
					}
				}
				// form 2: the assigned value is tested against nil on the way
				for _, b2 := range fn.Blocks {
					iff, isIf := b2.Instrs[len(b2.Instrs)-1].(*ssa.If)
					if !isIf {
						continue
					}
					cmp, isCmp := iff.Cond.(*ssa.BinOp)
					if !isCmp || (cmp.Op != token.EQL && cmp.Op != token.NEQ) {
						continue
					}
					x, y := cmp.X, cmp.Y
					if k, isK := x.(*ssa.Const); isK && k.IsNil() {
						x, y = y, x
					}
					if k, isK := y.(*ssa.Const); !isK || !k.IsNil() || (x != v && x != st.Val) {
						continue
					}
					si := 0
					if cmp.Op == token.EQL {
						si = 1
					}
					if edgeDominates(b2, si, at.Block()) {
						return true, ""
					}
				}
			}
		}
		// the message is a parameter: decided at the call sites
		if prm, isP := m.(*ssa.Parameter); isP && depth < 2 {
			idx := -1
			for i, q := range fn.Params {
				if q == prm {
					idx = i
				}
			}
			nSites, all := 0, true
			w2 := ""
			for _, g := range c.RepoFuncs("service") {
				for _, b := range g.Blocks {
					for _, ins := range b.Instrs {
						ci, isCI := ins.(ssa.CallInstruction)
						if !isCI || ci.Common().StaticCallee() != fn || idx >= len(ci.Common().Args) {
							continue
						}
						nSites++
						if ok, w := guarded(ci.Common().Args[idx], ins, depth+1); !ok {
							all, w2 = false, w
						}
					}
				}
			}
			if nSites > 0 && all {
				return true, ""
			}
			if nSites > 0 {
				why = w2
			}
		}
		return false, why
	}
	n := 0
	for _, f := range c.familyOf(reader) {
		for _, b := range f.Blocks {
			for _, ins := range b.Instrs {
				s, isS := ins.(*ssa.Send)
				if !isS {
					continue
				}
				owner, field, isF := fieldLoad(s.Chan)
				if !isF || owner != "connection" || (field != "msgChan" && field != "reissuePackChan") {
					continue
				}
				if pn, ok := derefNamed(s.X.Type()); !ok || pn != "Message" {
					continue
				}
				n++
				ok, why := guarded(s.X, s, 0)
				st := report.Discharged
				if !ok {
					st = report.Violated
				} else {
					why = ""
				}
				R.Add("S.handler-set", fmt.Sprintf("%s / %s", shortFn(f), c.constructOf(f, s)), c.P.RelPos(s.Pos()), st, why)
			}
		}
	}
	if n == 0 {
		R.Fatal("S.handler-set: no send of a *Message on the message / re-request channel found in the reader family (anchor)")
	}
	R.Require("S.handler-set", 2, "")
}
