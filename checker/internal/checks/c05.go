package checks

import (
	"fmt"
	"go/constant"
	"go/token"
	"go/types"
	"sort"
	"strings"

	"golang.org/x/tools/go/ssa"

	"jtverif/internal/absint"
	"jtverif/internal/report"
)

func init() {
	register(&Check{ID: "C05", Level: "other", Run: runC05})
}

// mapOp is one structural update of a map held in a struct field.
type mapOp struct {
	field string
	kind  string // update, delete, clear
	key   ssa.Value
	pos   string
}

// fieldOfMapValue: v is a load of x.<field> with x of (pointer to) struct type typeName.
func fieldOfMapValue(v ssa.Value, typeName string) (string, bool) {
	u, ok := v.(*ssa.UnOp)
	if !ok {
		return "", false
	}
	fa, ok := u.X.(*ssa.FieldAddr)
	if !ok {
		return "", false
	}
	pt, ok := fa.X.Type().Underlying().(*types.Pointer)
	if !ok {
		return "", false
	}
	named, ok := pt.Elem().(*types.Named)
	if !ok || named.Obj().Name() != typeName {
		return "", false
	}
	st := named.Underlying().(*types.Struct)
	return st.Field(fa.Field).Name(), true
}

// pairedMapsLemma decides structurally that two map fields of one struct always hold the
// same key set: every function that inserts into / deletes from / clears one of them does
// the same operation with the same key value on the other, and the maps are used in no
// other way than lookup, update, delete, clear, range and len.
func (c *Ctx) pairedMapsLemma(pkgRel, typeName, f1, f2 string) bool {
	ok := true
	nOps := 0
	for _, fn := range c.RepoFuncs(pkgRel) {
		var ops []mapOp
		for _, b := range fn.Blocks {
			for _, ins := range b.Instrs {
				pos := c.P.RelPos(ins.Pos())
				switch x := ins.(type) {
				case *ssa.MapUpdate:
					if f, is := fieldOfMapValue(x.Map, typeName); is && (f == f1 || f == f2) {
						ops = append(ops, mapOp{f, "update", x.Key, pos})
					}
				case *ssa.Call:
					if bi, isB := x.Call.Value.(*ssa.Builtin); isB && (bi.Name() == "delete" || bi.Name() == "clear") {
						if f, is := fieldOfMapValue(x.Call.Args[0], typeName); is && (f == f1 || f == f2) {
							var k ssa.Value
							if bi.Name() == "delete" {
								k = x.Call.Args[1]
							}
							ops = append(ops, mapOp{f, bi.Name(), k, pos})
						}
					}
				}
				// any other use of the map value (store elsewhere, pass to a call, send)
				if u, isU := ins.(*ssa.UnOp); isU {
					if f, is := fieldOfMapValue(u, typeName); is && (f == f1 || f == f2) {
						for _, ref := range *u.Referrers() {
							switch r := ref.(type) {
							case *ssa.Lookup, *ssa.MapUpdate, *ssa.Range, *ssa.DebugRef:
							case *ssa.Call:
								if bi, isB := r.Call.Value.(*ssa.Builtin); isB && (bi.Name() == "len" || bi.Name() == "delete" || bi.Name() == "clear") {
									continue
								}
								ok = false
								c.R.Add("S.paired-maps", fmt.Sprintf("%s.%s / escapes in %s", typeName, f, shortFn(fn)), c.P.RelPos(r.Pos()), report.Violated,
									"the map is passed to a call; its key set can change outside the paired update functions")
							default:
								ok = false
								c.R.Add("S.paired-maps", fmt.Sprintf("%s.%s / escapes in %s", typeName, f, shortFn(fn)), c.P.RelPos(ref.Pos()), report.Violated,
									fmt.Sprintf("the map value is used by %T; its key set can change outside the paired update functions", ref))
							}
						}
					}
				}
			}
		}
		if len(ops) == 0 {
			continue
		}
		// multiset comparison
		sig := func(f string) []string {
			var out []string
			for _, o := range ops {
				if o.field == f {
					k := "-"
					if o.key != nil {
						k = o.key.Name()
					}
					out = append(out, o.kind+":"+k)
				}
			}
			sort.Strings(out)
			return out
		}
		s1, s2 := sig(f1), sig(f2)
		same := strings.Join(s1, ",") == strings.Join(s2, ",")
		// constructors assign fresh maps to both fields; those are Stores, not MapUpdates
		st := report.Discharged
		d := ""
		if !same {
			st = report.Violated
			ok = false
			d = fmt.Sprintf("%s updates %s with [%s] but %s with [%s]: the two key sets can diverge", shortFn(fn), f1, strings.Join(s1, ","), f2, strings.Join(s2, ","))
		}
		nOps += len(ops)
		c.R.Add("S.paired-maps", fmt.Sprintf("%s.{%s,%s} / %s", typeName, f1, f2, shortFn(fn)), c.P.RelPos(fn.Pos()), st, d)
	}
	if nOps < 4 {
		c.R.Fatal("paired-map lemma matched only %d map operations (anchor %s.%s/%s)", nOps, typeName, f1, f2)
		return false
	}
	return ok
}

func runC05(c *Ctx) {
	c.E1Rules()
	c.E1Assumptions()
	R := c.R
	R.Rules["S.paired-maps"] = "the slot table and the timestamp record of a connection always have the same key set: every function updates both with the same key (so a present slot table implies a present timestamp record)"
	R.Rules["S.reject-pure"] = "on the path that rejects an impossible package number nothing is stored: no map update, no slot store, no delete before the return"
	R.Rules["E3.complete"] = "the message returned as complete carries a freshly built body (not an alias of a slot or buffer), the same bytes as its raw data, and is flagged SubcontractComplete"
	cp := c.P.Method("service", "packageParse", "completePack")
	if cp == nil {
		R.Fatal("anchor (*service.packageParse).completePack not found")
		return
	}
	lemma := c.pairedMapsLemma("service", "packageParse", "subcontractingRecord", "timeoutRecord")
	paired := map[string]string{}
	if lemma {
		paired[".packageParse#timeoutRecord"] = ".packageParse#subcontractingRecord"
	}
	// E1 on completePack with an arbitrary parser state and an arbitrary message
	var recv absint.Term
	results := c.RunE1([]*ssa.Function{cp}, true, func(a *absint.Analyzer, fn *ssa.Function, st *absint.State, args []absint.Term) {
		a.PairedMaps = paired
		recv = args[0]
	})
	c.AddE1(results, false)
	r := results[0]
	a := r.A
	R.Notes["paired_lemma_used"] = a.PairedUsed
	c.completedMessageObligations("E3.complete", cp, r)
	_ = recv
	name := shortFn(cp)
	// clause: rejection is pure. Blocks from which the only exits are `return nil,false` and that
	// are control dependent on the range guard: here approximated as: every block that ends in a
	// Return of constant (nil,false) and its straight-line predecessors contain no mutation.
	nRej := 0
	for _, b := range cp.Blocks {
		ret, ok := b.Instrs[len(b.Instrs)-1].(*ssa.Return)
		if !ok || len(ret.Results) != 2 {
			continue
		}
		c0, ok0 := ret.Results[0].(*ssa.Const)
		c1, ok1 := ret.Results[1].(*ssa.Const)
		if !ok0 || !ok1 || !c0.IsNil() || c1.Value == nil || c1.Value.String() != "false" {
			continue
		}
		// only rejection blocks reached directly from a guard (not the shared fall-through)
		guarded := len(b.Preds) >= 1
		for _, p := range b.Preds {
			if _, isIf := p.Instrs[len(p.Instrs)-1].(*ssa.If); !isIf {
				guarded = false
			}
		}
		if !guarded || len(b.Instrs) < 3 {
			continue
		}
		nRej++
		pure := true
		detail := ""
		for _, ins := range b.Instrs {
			switch x := ins.(type) {
			case *ssa.MapUpdate:
				pure = false
				detail = "map update at " + c.P.RelPos(x.Pos())
			case *ssa.Store:
				if _, isIdx := x.Addr.(*ssa.IndexAddr); isIdx {
					if _, local := x.Addr.(*ssa.IndexAddr).X.(*ssa.Alloc); !local {
						pure = false
						detail = "store to a slot at " + c.P.RelPos(x.Pos())
					}
				}
				if fa, isFA := x.Addr.(*ssa.FieldAddr); isFA {
					_ = fa
					pure = false
					detail = "field store at " + c.P.RelPos(x.Pos())
				}
			case *ssa.Call:
				if bi, isB := x.Call.Value.(*ssa.Builtin); isB && (bi.Name() == "delete" || bi.Name() == "clear") {
					pure = false
					detail = bi.Name() + " at " + c.P.RelPos(x.Pos())
				}
				if sc := x.Call.StaticCallee(); sc != nil && c.P.IsRepoFunc(sc) {
					pure = false
					detail = "call of " + shortFn(sc) + " at " + c.P.RelPos(x.Pos())
				}
			}
		}
		st := report.Discharged
		if !pure {
			st = report.Violated
		}
		R.Add("S.reject-pure", fmt.Sprintf("%s / rejection block %d", name, nRej), c.P.RelPos(b.Instrs[0].Pos()), st, "the rejection path has a side effect: "+detail)
	}
	// the reader role: same obligations in the context the constructor establishes
	sNew := c.P.Func("service", "newConnection")
	sReader := c.P.Method("service", "connection", "reader")
	if sNew != nil && sReader != nil {
		rr := c.runSeqWith(seqEntry{sNew, sReader, false}, func(a *absint.Analyzer) { a.PairedMaps = paired })
		c.AddE1([]*E1Result{rr}, false)
	} else {
		R.Fatal("anchors service.newConnection / connection.reader not found")
	}
	R.Require("S.paired-maps", 3, "")
	R.Require("S.reject-pure", 1, "")
	R.Require("E3.complete", 3, "")
	R.Require("E1.index", 3, "")
	if lemma && a.PairedUsed == 0 {
		R.Fatal("the paired-map lemma was established but never used by E1 (the timestamp-record dereference was not found)")
	}
	c.eachOnceRule()
	// ---- a slot holds the body of the packet filed under its number, nothing accumulated
	{
		R.Rules["S.slot-store"] = "a store into a slot of the part table puts there exactly the body of the packet being filed (the Body slice itself or a copy of it made from an empty slice): nothing derived from what the slot held before - a retransmitted packet replaces its slot"
		n := 0
		for _, fn := range c.RepoFuncs("service") {
			for _, b := range fn.Blocks {
				for _, ins := range b.Instrs {
					st, ok := ins.(*ssa.Store)
					if !ok {
						continue
					}
					ia, isIA := st.Addr.(*ssa.IndexAddr)
					if !isIA {
						continue
					}
					toTable := false
					for _, o := range c.origins(ia.X, nil, nil) {
						if o.Kind == "field" && strings.HasSuffix(o.Name, ".subcontractingRecord") {
							toTable = true
						}
					}
					if !toTable {
						continue
					}
					n++
					var isBody func(v ssa.Value, depth int) (bool, string)
					isBody = func(v ssa.Value, depth int) (bool, string) {
						if depth > 4 {
							return false, "value too deeply nested"
						}
						switch x := v.(type) {
						case *ssa.UnOp:
							if fa, isFA := x.X.(*ssa.FieldAddr); isFA {
								stt := fa.X.Type().Underlying().(*types.Pointer).Elem().Underlying().(*types.Struct)
								if stt.Field(fa.Field).Name() == "Body" {
									return true, ""
								}
							}
						case *ssa.Call:
							if app, isApp := isBuiltinCall(x, "append"); isApp && len(app.Call.Args) == 2 {
								empty := false
								switch f := app.Call.Args[0].(type) {
								case *ssa.Const:
									empty = f.IsNil()
								case *ssa.MakeSlice:
									if k, isK := constInt(f.Len); isK && k == 0 {
										empty = true
									}
								case *ssa.Slice:
									// x[:0] of a fresh make
									if _, isMk := f.X.(*ssa.MakeSlice); isMk && f.Low == nil && f.High != nil {
										if k, isK := constInt(f.High); isK && k == 0 {
											empty = true
										}
									}
								}
								if !empty {
									desc := app.Call.Args[0].Name()
									if vi, isI := app.Call.Args[0].(ssa.Instruction); isI {
										desc = c.constructOf(fn, vi)
									}
									return false, "append to " + desc + ": what the slot (or another buffer) held before stays in front of the new body, so a packet that arrives twice is stored twice"
								}
								return isBody(app.Call.Args[1], depth+1)
							}
							if nm := calleeName(&x.Call); nm == "bytes.Clone" || nm == "slices.Clone" {
								return isBody(x.Call.Args[0], depth+1)
							}
						}
						return false, "the stored value is not the Body of the message being filed"
					}
					okB, why := isBody(st.Val, 0)
					stt := report.Discharged
					if !okB {
						stt = report.Violated
					}
					R.Add("S.slot-store", fmt.Sprintf("%s / %s", shortFn(fn), c.constructOf(fn, ins)), c.P.RelPos(st.Pos()), stt, why)
				}
			}
		}
		R.Notes["slot_stores"] = n
		R.Require("S.slot-store", 1, "")
	}
	// ---- the completed body concatenates every slot of the table, in index order
	{
		R.Rules["S.concat-all"] = "the body of the completed message is built by appending the slots of the part table over an ascending index loop from 0 whose bound is the announced total that the completion test compared with (or the whole table's length): not a prefix, not a re-slice"
		cp := c.P.Method("service", "packageParse", "completePack")
		ok, d := false, "no loop appending the slots of the part table found in completePack"
		if cp != nil {
			// the total compared with the number of received parts
			var total ssa.Value
			for _, b := range cp.Blocks {
				if iff, isIf := b.Instrs[len(b.Instrs)-1].(*ssa.If); isIf {
					// received count == total / != total, either operand order
					if cmp, isCmp := iff.Cond.(*ssa.BinOp); isCmp && (cmp.Op == token.EQL || cmp.Op == token.NEQ) {
						if _, isPhi := cmp.X.(*ssa.Phi); isPhi {
							total = cmp.Y
						} else if _, isPhi := cmp.Y.(*ssa.Phi); isPhi {
							total = cmp.X
						}
					}
				}
			}
			// the announced total: the value the completion test compared with, or any value that is the header's
			// SubPackageSum (through conversions, locals and the parameters of helpers the loop was moved into)
			isTotal := func(v ssa.Value) bool {
				cands := c.resolveParam(v, "service")
				if len(cands) == 0 {
					return false
				}
				for _, cv := range cands {
					if total != nil && cv == total {
						continue
					}
					fromSum := false
					for _, o := range c.origins(cv, nil, nil) {
						if o.Kind == "field" && strings.HasSuffix(o.Name, ".SubPackageSum") {
							fromSum = true
						} else {
							fromSum = false
							break
						}
					}
					if !fromSum {
						return false
					}
				}
				return true
			}
			var famBlocks []*ssa.BasicBlock
			for _, ff := range c.familyOf(cp) {
				famBlocks = append(famBlocks, ff.Blocks...)
			}
			for _, b := range famBlocks {
				for _, ins := range b.Instrs {
					app, isApp := isBuiltinCall(ins, "append")
					if !isApp || len(app.Call.Args) != 2 {
						continue
					}
					ld, isLd := app.Call.Args[1].(*ssa.UnOp)
					if !isLd {
						continue
					}
					ia, isIA := ld.X.(*ssa.IndexAddr)
					if !isIA {
						continue
					}
					fromTable := false
					for _, o := range c.origins(ia.X, nil, nil) {
						if o.Kind == "field" && strings.HasSuffix(o.Name, ".subcontractingRecord") {
							fromTable = true
						}
					}
					if !fromTable {
						continue
					}
					ok, d = false, "the loop over the slots is not an ascending index loop from 0 with step 1"
					// (a) range over the table itself
					if s2, asc := ascendingIndexOver(ia.Index); asc {
						if sl, resliced := s2.(*ssa.Slice); resliced {
							// table[:total] with the total the completion test compared with is the whole transfer
							lowOK := sl.Low == nil
							if k, isK := constInt(sl.Low); isK && k == 0 {
								lowOK = true
							}
							if lowOK && sl.High != nil && isTotal(sl.High) {
								ok, d = true, ""
							} else {
								d = "the concatenation runs over a re-slice of the part table: the parts behind it are dropped from the completed message"
							}
						} else {
							ok, d = true, ""
						}
						continue
					}
					// (b) classic loop i < bound
					if phi, isPhi := ia.Index.(*ssa.Phi); isPhi {
						init, step := false, true
						for _, e := range phi.Edges {
							if v, isC := constInt(e); isC && v == 0 {
								init = true
							} else if bo, isB := e.(*ssa.BinOp); isB && bo.Op == token.ADD && bo.X == ssa.Value(phi) {
								if one, isOne := constInt(bo.Y); !isOne || one != 1 {
									step = false
								}
							} else {
								step = false
							}
						}
						var bound ssa.Value
						for _, ref := range *phi.Referrers() {
							if cmp, isCmp := ref.(*ssa.BinOp); isCmp && cmp.Op == token.LSS && cmp.X == ssa.Value(phi) {
								bound = cmp.Y
							}
						}
						switch {
						case !init || !step || bound == nil:
						case isTotal(bound):
							ok, d = true, ""
						default:
							if ln, isLn := isBuiltinCall(instrOf(bound), "len"); isLn {
								if _, resliced := ln.Call.Args[0].(*ssa.Slice); !resliced {
									ok, d = true, ""
									break
								}
							}
							d = "the concatenation loop is bounded by something other than the announced total the completion test used (or the table's length): a completed message can carry only part of the packets"
						}
					}
				}
			}
		}
		st := report.Discharged
		if !ok {
			st = report.Violated
		}
		R.Add("S.concat-all", "(*service.packageParse).completePack / all slots, ascending", "", st, d)
		R.Require("S.concat-all", 1, "")
	}
	c.completeCountRule()
	// the bodies kept in the slot table are the bodies of the packets: they must not share storage with the read buffer
	// or the pending buffer, which the next read rewrites (the analysis is C09's, run here as well: today's symptom
	// "three copies of the last packet" is a reassembly failure)
	c.e4Service()
	c.deliverCompleteOnly()
	c.hasCompleteContract()
	R.Rules["S.start"] = "a transfer's slot table (with its creation time and first header) is created exactly by the packets numbered 1 and by every one of them: a new packet 1 restarts the transfer (stale slots of an abandoned or already completed transfer never leak into it), no other packet creates a table"
	c.recordCreationRule("S.start")
	R.Require("S.start", 1, "")
	c.transferSurvivesReads("S.survives-reads")
	R.Explain = "Decided for every decoded header (any package number, any total) and any parser state: the slot index and the concatenation loop are in range (E1), " +
		"the timestamp record dereferenced after a slot store exists (paired-map lemma, checked structurally and then used by E1), a rejected package number leaves no side effect, " +
		"and the message returned as complete carries a freshly concatenated body equal to its raw data and the completion flag. Exact delivery over arrival orders, duplicates and interleavings is not decided; " +
		"The consumer of the message channel hands a message to the response matcher, the reply function or a handler callback only behind a test that it is complete (or that filtering is off). " +
		"That stored bodies do not alias a reused buffer is decided by the buffer alias analysis shared with C09."
}

// deliverCompleteOnly: sub-packages are filtered until complete. In every service function, a message received from
// the message channel (or a *Message parameter handed to a user callback) is passed on only on paths that crossed a
// branch edge on which hasComplete() of that message is true or the filter flag is false.
func (c *Ctx) deliverCompleteOnly() {
	R := c.R
	R.Rules["S.deliver-complete-only"] = "a message taken from the message channel is handed to the response matcher / reply function, and a message is handed to the user's read/write callbacks, only on paths that crossed a branch on which hasComplete() of that same message is true or the connection's filter flag is false: an incomplete sub-package set is never delivered as a message"
	// good edges of a function for message value m
	reachNoGood := func(fn *ssa.Function, m ssa.Value, from *ssa.BasicBlock) map[*ssa.BasicBlock]bool {
		good := map[[2]*ssa.BasicBlock]bool{}
		for _, b := range fn.Blocks {
			iff, isIf := b.Instrs[len(b.Instrs)-1].(*ssa.If)
			if !isIf || b.Succs[0] == b.Succs[1] {
				continue
			}
			cond, neg := iff.Cond, false
			for {
				u, isU := cond.(*ssa.UnOp)
				if !isU || u.Op != token.NOT {
					break
				}
				cond, neg = u.X, !neg
			}
			if n, call := callMethodName(cond); n == "hasComplete" && call != nil && len(call.Call.Args) == 1 && call.Call.Args[0] == m {
				if neg {
					good[[2]*ssa.BasicBlock{b, b.Succs[1]}] = true
				} else {
					good[[2]*ssa.BasicBlock{b, b.Succs[0]}] = true
				}
			}
			if owner, f, ok := fieldLoad(cond); ok && owner == "connection" && f == "filter" {
				if neg {
					good[[2]*ssa.BasicBlock{b, b.Succs[0]}] = true
				} else {
					good[[2]*ssa.BasicBlock{b, b.Succs[1]}] = true
				}
			}
		}
		// compound conditions that were evaluated into a value (a tagless switch case `A && B`, a stored boolean): the
		// outcome of the test implies "complete or unfiltered" when each way of getting that outcome does
		var implies func(v ssa.Value, val bool, depth int) bool
		implies = func(v ssa.Value, val bool, depth int) bool {
			if depth > 6 {
				return false
			}
			if u, isU := v.(*ssa.UnOp); isU && u.Op == token.NOT {
				return implies(u.X, !val, depth+1)
			}
			if n, call := callMethodName(v); n == "hasComplete" && call != nil && len(call.Call.Args) == 1 && call.Call.Args[0] == m {
				return val
			}
			if owner, f, ok := fieldLoad(v); ok && owner == "connection" && f == "filter" {
				return !val
			}
			phi, isPhi := v.(*ssa.Phi)
			if !isPhi || len(phi.Edges) != 2 {
				return false
			}
			for k, e := range phi.Edges {
				cv, isC := e.(*ssa.Const)
				if !isC || cv.Value == nil || cv.Value.Kind() != constant.Bool {
					continue
				}
				short := constant.BoolVal(cv.Value) // false: A && B, true: A || B
				pred := phi.Block().Preds[k]
				pif, isIf := pred.Instrs[len(pred.Instrs)-1].(*ssa.If)
				if !isIf {
					return false
				}
				// the left operand, as a (value, polarity) pair: the short-circuit edge is taken when A == short
				aVal, aPol := pif.Cond, true
				if short {
					aPol = pred.Succs[0] == phi.Block()
				} else {
					aPol = pred.Succs[1] == phi.Block()
				}
				A := func(want bool) bool { return implies(aVal, want == aPol, depth+1) }
				B := func(want bool) bool { return implies(phi.Edges[1-k], want, depth+1) }
				if !short { // A && B
					if val {
						return A(true) || B(true)
					}
					return A(false) && B(false)
				}
				// A || B
				if val {
					return A(true) && B(true)
				}
				return A(false) || B(false)
			}
			return false
		}
		for _, b := range fn.Blocks {
			iff, isIf := b.Instrs[len(b.Instrs)-1].(*ssa.If)
			if !isIf || b.Succs[0] == b.Succs[1] {
				continue
			}
			if _, isPhi := iff.Cond.(*ssa.Phi); !isPhi {
				if u, isU := iff.Cond.(*ssa.UnOp); !isU || u.Op != token.NOT {
					continue
				}
			}
			if implies(iff.Cond, true, 0) {
				good[[2]*ssa.BasicBlock{b, b.Succs[0]}] = true
			}
			if implies(iff.Cond, false, 0) {
				good[[2]*ssa.BasicBlock{b, b.Succs[1]}] = true
			}
		}
		seen := map[*ssa.BasicBlock]bool{from: true}
		work := []*ssa.BasicBlock{from}
		for len(work) > 0 {
			b := work[len(work)-1]
			work = work[:len(work)-1]
			for _, s := range b.Succs {
				if good[[2]*ssa.BasicBlock{b, s}] || seen[s] {
					continue
				}
				seen[s] = true
				work = append(work, s)
			}
		}
		return seen
	}
	usesMsg := func(call *ssa.CallCommon, m ssa.Value) bool {
		args := call.Args
		for _, a := range args {
			if a == m {
				return true
			}
			if u, isU := a.(*ssa.UnOp); isU && u.Op == token.MUL && u.X == m {
				return true
			}
		}
		return false
	}
	nConsumer, nCallback := 0, 0
	for _, fn := range c.RepoFuncs("service") {
		// (a) messages received from the message channel
		var received []ssa.Value
		for _, b := range fn.Blocks {
			for _, ins := range b.Instrs {
				switch x := ins.(type) {
				case *ssa.Select:
					k := 0
					for _, s := range x.States {
						if s.Dir != types.RecvOnly {
							continue
						}
						if _, f, ok := fieldLoad(s.Chan); ok && f == "msgChan" {
							for _, ref := range *x.Referrers() {
								if ex, isEx := ref.(*ssa.Extract); isEx && ex.Index == 2+k {
									received = append(received, ex)
								}
							}
						}
						k++
					}
				case *ssa.UnOp:
					if x.Op == token.ARROW {
						if _, f, ok := fieldLoad(x.X); ok && f == "msgChan" {
							if x.CommaOk {
								for _, ref := range *x.Referrers() {
									if ex, isEx := ref.(*ssa.Extract); isEx && ex.Index == 0 {
										received = append(received, ex)
									}
								}
							} else {
								received = append(received, x)
							}
						}
					}
				}
			}
		}
		// gatesItsParam: a helper that receives the message un-gated is fine when it is itself a dispatcher: it tests
		// hasComplete() of that parameter and every call it makes with the parameter is gated (recursively)
		var gatesItsParam func(h *ssa.Function, idx int, depth int) bool
		gatesItsParam = func(h *ssa.Function, idx int, depth int) bool {
			if depth > 3 || idx >= len(h.Params) || len(h.Blocks) == 0 {
				return false
			}
			pm := ssa.Value(h.Params[idx])
			tests := false
			for _, b := range h.Blocks {
				for _, ins := range b.Instrs {
					if call, isC := ins.(*ssa.Call); isC {
						if n, _ := callMethodName(call); n == "hasComplete" && len(call.Call.Args) == 1 && call.Call.Args[0] == pm {
							tests = true
						}
					}
				}
			}
			if !tests {
				return false
			}
			open := reachNoGood(h, pm, h.Blocks[0])
			for _, b := range h.Blocks {
				for _, ins := range b.Instrs {
					call, isC := ins.(*ssa.Call)
					if !isC || !usesMsg(&call.Call, pm) {
						continue
					}
					if n, _ := callMethodName(call); n == "hasComplete" {
						continue
					}
					if !open[b] {
						continue
					}
					sc := call.Call.StaticCallee()
					ok := false
					if sc != nil && c.P.IsRepoFunc(sc) {
						for i, a := range call.Call.Args {
							if a == pm && gatesItsParam(sc, i, depth+1) {
								ok = true
							}
						}
					}
					if !ok {
						return false
					}
				}
			}
			return true
		}
		for _, m := range received {
			def := m.(ssa.Instruction).Block()
			open := reachNoGood(fn, m, def)
			for _, b := range fn.Blocks {
				for _, ins := range b.Instrs {
					call, isC := ins.(*ssa.Call)
					if !isC || !usesMsg(&call.Call, m) {
						continue
					}
					n, _ := callMethodName(call)
					if n == "hasComplete" {
						continue
					}
					nConsumer++
					st, d := report.Discharged, ""
					if open[b] {
						dispatcher := false
						if sc := call.Call.StaticCallee(); sc != nil && c.P.IsRepoFunc(sc) {
							for i, a := range call.Call.Args {
								if a == m && gatesItsParam(sc, i, 0) {
									dispatcher = true
								}
							}
						}
						if !dispatcher {
							st = report.Violated
							d = fmt.Sprintf("%s is reachable at %s with a message from the message channel without a test that the message is complete (or that filtering is off): a single sub-package is treated as a whole message", n, c.P.RelPos(ins.Pos()))
						}
					}
					R.Add("S.deliver-complete-only", shortFn(fn)+" / "+n+"(received message)", c.P.RelPos(ins.Pos()), st, d)
				}
			}
		}
		// (b) user callbacks taking a message parameter of the function
		for _, prm := range fn.Params {
			if !strings.HasSuffix(prm.Type().String(), "service.Message") {
				continue
			}
			var open map[*ssa.BasicBlock]bool
			for _, b := range fn.Blocks {
				for _, ins := range b.Instrs {
					call, isC := ins.(*ssa.Call)
					if !isC || !call.Call.IsInvoke() || !usesMsg(&call.Call, prm) {
						continue
					}
					n := call.Call.Method.Name()
					if !strings.HasSuffix(n, "ExecutionEvent") {
						continue
					}
					if open == nil {
						open = reachNoGood(fn, prm, fn.Blocks[0])
					}
					nCallback++
					st, d := report.Discharged, ""
					if open[b] {
						st = report.Violated
						d = fmt.Sprintf("the user callback %s is reachable at %s without a test that the message is complete (or that filtering is off)", n, c.P.RelPos(ins.Pos()))
					}
					R.Add("S.deliver-complete-only", shortFn(fn)+" / callback "+n+" via "+strings.TrimPrefix(call.Call.Value.Type().String(), "github.com/cuteLittleDevil/go-jt808/"), c.P.RelPos(ins.Pos()), st, d)
				}
			}
		}
	}
	R.Notes["deliver_complete_only"] = fmt.Sprintf("%d consumer call sites, %d callback invocations", nConsumer, nCallback)
	if nConsumer < 1 || nCallback < 4 {
		R.Fatal("S.deliver-complete-only matched %d consumer call sites and %d callback invocations (confirmed by hand: 2 and 4; at least 1 and 4 required)", nConsumer, nCallback)
	}
}

// hasCompleteContract: the filter predicate itself. A message counts as complete exactly when it is not fragmented
// (announced total 0) or carries the completion flag that only the reassembler sets.
func (c *Ctx) hasCompleteContract() {
	R := c.R
	R.Rules["E3.complete-predicate"] = "Message.hasComplete() is true on every path exactly when the header announces no sub-packages (SubPackageSum == 0) or the message carries the SubcontractComplete flag (set only on the reassembled message): a fragment - also the only fragment of a 1-packet transfer - is never complete by itself"
	fn := c.P.Method("service", "Message", "hasComplete")
	if fn == nil {
		R.Fatal("anchor (*service.Message).hasComplete not found")
		return
	}
	var recv absint.Term
	res := c.RunE1([]*ssa.Function{fn}, false, func(a *absint.Analyzer, f *ssa.Function, st *absint.State, args []absint.Term) {
		recv = args[0]
	})
	c.AddE1(res, false)
	r := res[0]
	a := r.A
	find := func(st *absint.State, path ...string) absint.Term {
		return findField(a, st, recv, fn.Params[0].Type(), path)
	}
	n, ok, d := 0, true, ""
	for _, ret := range r.Rets {
		n++
		sum, isI := find(ret.St, "JTMessage", "*", "Header", "*", "SubPackageSum").(absint.Int)
		flag := find(ret.St, "ExtensionFields", "SubcontractComplete")
		if !isI || flag == nil {
			ok, d = false, "fields Header.SubPackageSum / ExtensionFields.SubcontractComplete not found on the receiver"
			continue
		}
		zero := ret.St.Entails(absint.Con{L: sum.L, Rel: absint.EQ})
		nonzero := !ret.St.Feasible(absint.Con{L: sum.L, Rel: absint.EQ})
		val := a.Render(ret.Val)
		switch {
		case zero:
			if val != "true" {
				ok, d = false, "hasComplete() returns "+val+" for a message that announces no sub-packages"
			}
		case nonzero:
			if ret.Val.TKey() != flag.TKey() {
				ok, d = false, fmt.Sprintf("for a fragment (announced total != 0) hasComplete() returns %s, not the completion flag: a fragment can count as a complete message", val)
			}
		default:
			if ret.Val.TKey() != flag.TKey() {
				ok, d = false, fmt.Sprintf("hasComplete() returns %s on a path that does not distinguish an announced total of 0 from other totals", val)
			}
		}
	}
	st := report.Discharged
	if !ok || n == 0 {
		st = report.Violated
		if n == 0 {
			d = "no return analysed"
		}
	}
	R.Add("E3.complete-predicate", shortFn(fn)+" / complete iff unfragmented or flagged by the reassembler", c.P.RelPos(fn.Pos()), st, d)
}

// completedMessageObligations (shared by C05 and C06): on every return of completePack that reports completion, the
// returned message carries a freshly built body, the same bytes as its raw data, and the SubcontractComplete flag.
func (c *Ctx) completedMessageObligations(rule string, cp *ssa.Function, r *E1Result) {
	R := c.R
	a := r.A
	// clause: completed message
	nDone := 0
	lr := layoutResult{}
	name := shortFn(cp)
	for _, ret := range r.Rets {
		tu, ok := ret.Val.(*absint.Tuple)
		if !ok || len(tu.Elems) != 2 {
			continue
		}
		b, _ := tu.Elems[1].(*absint.Bool)
		if b == nil || b.Kind != absint.BConst || !b.Val {
			continue
		}
		nDone++
		trace := strings.Join(ret.St.Trace, " → ")
		mp, ok := tu.Elems[0].(*absint.Ptr)
		if !ok {
			lr.set(rule, name+" / returned message", false, "the completed message is not a freshly built *Message; path "+trace)
			continue
		}
		msgT := cp.Signature.Results().At(0).Type()
		ext, extT := a.LoadField(ret.St, mp, msgT, "ExtensionFields")
		_ = ext
		_ = extT
		// navigate: Message.JTMessage.Body ; Message.ExtensionFields.TerminalData / SubcontractComplete
		jm, jmT := a.LoadField(ret.St, mp, msgT, "JTMessage")
		var body absint.Term
		if jm != nil {
			body, _ = a.LoadField(ret.St, jm, jmT, "Body")
		}
		bs, _ := body.(*absint.Slice)
		fresh := bs != nil && bs.Base.Fresh
		lr.set(rule, name+" / Body is a fresh buffer", fresh, "Body of the completed message is not a buffer built by this call (it aliases stored data); path "+trace)
		var td, sc absint.Term
		if es, ok := ext.(*absint.Struct); ok {
			st := es.Typ.Underlying().(*types.Struct)
			for i := 0; i < st.NumFields(); i++ {
				switch st.Field(i).Name() {
				case "TerminalData":
					td = es.Fields[i]
				case "SubcontractComplete":
					sc = es.Fields[i]
				}
			}
		}
		same := td != nil && body != nil && td.TKey() == body.TKey()
		lr.set(rule, name+" / TerminalData is the reassembled body", same, "TerminalData and Body of the completed message differ; path "+trace)
		flag := false
		if sb, ok := sc.(*absint.Bool); ok && sb.Kind == absint.BConst && sb.Val {
			flag = true
		}
		lr.set(rule, name+" / SubcontractComplete is set", flag, "the completed message is not flagged SubcontractComplete; path "+trace)
	}
	if nDone == 0 {
		R.Add(rule, name+" / (no completing return found)", c.P.RelPos(cp.Pos()), report.Undecided, "no return with ok=true")
	}
	lr.flush(c, c.P.RelPos(cp.Pos()))
}

// completedMessageStandalone runs completePack once (arbitrary parser state and message) for completedMessageObligations.
func (c *Ctx) completedMessageStandalone(rule string) {
	cp := c.P.Method("service", "packageParse", "completePack")
	if cp == nil {
		c.R.Fatal("anchor (*service.packageParse).completePack not found")
		return
	}
	results := c.RunE1([]*ssa.Function{cp}, true, func(a *absint.Analyzer, fn *ssa.Function, st *absint.State, args []absint.Term) {
		a.PairedMaps = map[string]string{".packageParse#timeoutRecord": ".packageParse#subcontractingRecord"}
	})
	c.completedMessageObligations(rule, cp, results[0])
}

// eachOnceRule (shared by C05 and C10): every extracted message is filed exactly once, in stream order, and the loop
// that does it terminates with the batch.
func (c *Ctx) eachOnceRule() {
	R := c.R
	R.Rules["S.each-once"] = "completePack runs once for every message the extractor returned for this read, in order: its argument is the element of the extractor's result at the loop index, and inside that loop the array being walked is not rearranged - the slice (or anything that may share its array) is only indexed, measured or grown with append; an insertion / deletion shifts elements under the running index, so a frame of a coalesced read is skipped and another is filed twice"
	parse := c.P.Method("service", "packageParse", "parse")
	cpk := c.P.Method("service", "packageParse", "completePack")
	n := 0
	if parse != nil && cpk != nil {
		for _, fn := range c.familyOf(parse) {
			loops := naturalLoops(fn)
			for _, b := range fn.Blocks {
				for _, ins := range b.Instrs {
					call, isC := ins.(*ssa.Call)
					if !isC || call.Call.StaticCallee() != cpk || len(call.Call.Args) < 2 {
						continue
					}
					n++
					key := shortFn(fn) + " / " + c.constructOf(fn, call)
					ld, isLd := call.Call.Args[1].(*ssa.UnOp)
					var ia *ssa.IndexAddr
					if isLd {
						ia, _ = ld.X.(*ssa.IndexAddr)
					}
					if ia == nil {
						// not a loop over a slice (a single message): nothing to rearrange
						R.Add("S.each-once", key, c.P.RelPos(call.Pos()), report.Discharged, "")
						continue
					}
					// values that may share the walked array
					alias := map[ssa.Value]bool{ia.X: true}
					for changed := true; changed; {
						changed = false
						for _, b2 := range fn.Blocks {
							for _, i2 := range b2.Instrs {
								v, isV := i2.(ssa.Value)
								if !isV || alias[v] {
									continue
								}
								switch x := i2.(type) {
								case *ssa.Phi:
									for _, e := range x.Edges {
										if alias[e] {
											alias[v], changed = true, true
										}
									}
								case *ssa.Slice:
									if alias[x.X] {
										alias[v], changed = true, true
									}
								case *ssa.Call:
									if app, isApp := isBuiltinCall(x, "append"); isApp && alias[app.Call.Args[0]] {
										alias[v], changed = true, true
									}
								}
							}
						}
					}
					st, d := report.Discharged, ""
					// every completion is kept: the message completePack hands back is appended to a list in the same iteration
					// (a single variable that the next completion of the same read overwrites loses the earlier transfer)
					{
						kept := false
						for _, ref := range *call.Referrers() {
							ex, isEx := ref.(*ssa.Extract)
							if !isEx || ex.Index != 0 {
								continue
							}
							for _, r2 := range *ex.Referrers() {
								stv, isSt := r2.(*ssa.Store)
								if !isSt || stv.Val != ssa.Value(ex) {
									continue
								}
								ia2, isIA := stv.Addr.(*ssa.IndexAddr)
								if !isIA {
									continue
								}
								arr, isAl := ia2.X.(*ssa.Alloc)
								if !isAl {
									continue
								}
								for _, r3 := range *arr.Referrers() {
									sl, isSl := r3.(*ssa.Slice)
									if !isSl {
										continue
									}
									for _, r4 := range *sl.Referrers() {
										if app, isApp := isBuiltinCall(r4, "append"); isApp && len(app.Call.Args) == 2 && app.Call.Args[1] == ssa.Value(sl) {
											for _, l := range loops {
												if l[b] && l[app.Block()] {
													kept = true
												}
											}
										}
									}
								}
							}
						}
						if !kept {
							st, d = report.Violated, "the message a completion returns is not appended to a list inside the filing loop: when two transfers complete in the same read, only one of them is delivered (the other's slot table is already removed)"
						}
					}
					// the batch is the extractor's result as returned: the loop's bound is not the length of a slice the loop
					// itself appends to (an index loop `i < len(msgs)` with `msgs = append(msgs, merged)` in its body files the
					// merged messages again - for a "1 of 1" fragment without end)
					for _, l := range loops {
						if !l[b] {
							continue
						}
						for lb := range l {
							for _, i2 := range lb.Instrs {
								cmp, isCmp := i2.(*ssa.BinOp)
								if !isCmp || cmp.Op != token.LSS {
									continue
								}
								ln, isLn := isBuiltinCall(instrOf(cmp.Y), "len")
								if !isLn || !alias[ln.Call.Args[0]] {
									continue
								}
								if phi, isPhi := ln.Call.Args[0].(*ssa.Phi); isPhi && l[phi.Block()] {
									// appends inside the loop that flow into the bound's slice (through the φs of the loop)
									var apps []*ssa.Call
									seenV := map[ssa.Value]bool{}
									var walkV func(v ssa.Value)
									walkV = func(v ssa.Value) {
										if seenV[v] {
											return
										}
										seenV[v] = true
										if ph, ok := v.(*ssa.Phi); ok && l[ph.Block()] {
											for _, e := range ph.Edges {
												walkV(e)
											}
											return
										}
										if app, isApp := isBuiltinCall(instrOf(v), "append"); isApp && l[app.Block()] {
											apps = append(apps, app)
										}
									}
									walkV(phi)
									for _, app := range apps {
										{
											st, d = report.Violated, fmt.Sprintf("the loop that files the messages runs while its index is below the length of the slice it appends the merged messages to (bound at %s, append at %s): merged messages are filed again, and a fragment that completes by itself (1 of 1) keeps the loop running and allocating for ever", c.P.RelPos(cmp.Pos()), c.P.RelPos(app.Pos()))
										}
									}
								}
							}
						}
					}
					for _, l := range loops {
						if !l[b] {
							continue
						}
						for lb := range l {
							for _, i2 := range lb.Instrs {
								switch x := i2.(type) {
								case *ssa.Call:
									if bi, isB := x.Call.Value.(*ssa.Builtin); isB && (bi.Name() == "append" || bi.Name() == "len" || bi.Name() == "cap") {
										continue
									}
									for _, a := range x.Call.Args {
										if alias[a] {
											st, d = report.Violated, fmt.Sprintf("inside the loop that files the messages, the slice being walked is handed to %s at %s: elements can move under the running index (a frame of a coalesced read is skipped, another is filed twice)", calleeName(&x.Call), c.P.RelPos(x.Pos()))
										}
									}
								case *ssa.Store:
									if ia2, isIA := x.Addr.(*ssa.IndexAddr); isIA && alias[ia2.X] {
										st, d = report.Violated, "inside the loop that files the messages, an element of the slice being walked is overwritten at "+c.P.RelPos(x.Pos())
									}
								}
							}
						}
					}
					R.Add("S.each-once", key, c.P.RelPos(call.Pos()), st, d)
				}
			}
		}
	}
	if n == 0 {
		R.Fatal("S.each-once: no call of completePack found in the family of packageParse.parse (anchor)")
	}
	R.Require("S.each-once", 1, "")
}

// completeCountRule (shared by C05 and C06): where the completion of a transfer is decided by comparing a number with the
// total the header announces, that number is counted in the call that decides - it is made of constants, increments and
// lengths only. A number loaded from a field, a map or a package variable survives between packets: a retransmitted
// packet is counted again and an incomplete set is delivered (and answered) as complete. A design without such a
// comparison (a set of indices, a search for an empty slot) is not judged by this rule.
func (c *Ctx) completeCountRule() {
	R := c.R
	R.Rules["S.complete-count"] = "the number that the completion test compares with the announced total (SubPackageSum) is counted in the deciding call from the slots as they are now - constants, increments, lengths, results of package helpers built the same way; it is not loaded from a field, map or package variable that lives across packets (there a retransmitted packet would count twice)"
	cp := c.P.Method("service", "packageParse", "completePack")
	if cp == nil {
		R.Add("S.complete-count", "(*service.packageParse).completePack", "", report.Violated, "completePack not found")
		return
	}
	fromSum := func(v ssa.Value) bool {
		cands := c.resolveParam(v, "service")
		if len(cands) == 0 {
			return false
		}
		for _, cv := range cands {
			os := c.origins(cv, nil, nil)
			if len(os) == 0 {
				return false
			}
			for _, o := range os {
				if !(o.Kind == "field" && strings.HasSuffix(o.Name, ".SubPackageSum")) {
					return false
				}
			}
		}
		return true
	}
	// kept reports the first memory cell (other than a local variable) the value is read from
	var kept func(v ssa.Value, seen map[ssa.Value]bool, depth int) string
	kept = func(v ssa.Value, seen map[ssa.Value]bool, depth int) string {
		if v == nil || seen[v] || depth > 6 {
			return ""
		}
		seen[v] = true
		switch x := v.(type) {
		case *ssa.Const:
			return ""
		case *ssa.Phi:
			for _, e := range x.Edges {
				if d := kept(e, seen, depth); d != "" {
					return d
				}
			}
		case *ssa.BinOp:
			if d := kept(x.X, seen, depth); d != "" {
				return d
			}
			return kept(x.Y, seen, depth)
		case *ssa.Convert:
			return kept(x.X, seen, depth)
		case *ssa.ChangeType:
			return kept(x.X, seen, depth)
		case *ssa.Parameter:
			for _, a := range c.resolveParam(x, "service") {
				if a != ssa.Value(x) {
					if d := kept(a, seen, depth+1); d != "" {
						return d
					}
				}
			}
		case *ssa.Extract:
			return kept(x.Tuple, seen, depth)
		case *ssa.Call:
			if _, isB := x.Call.Value.(*ssa.Builtin); isB {
				return "" // len / cap / min / max of something: the state as it is now
			}
			if sc := x.Call.StaticCallee(); sc != nil && sc.Pkg == cp.Pkg && len(sc.Blocks) > 0 {
				for _, b := range sc.Blocks {
					if ret, isR := b.Instrs[len(b.Instrs)-1].(*ssa.Return); isR {
						for _, rv := range ret.Results {
							if d := kept(rv, seen, depth+1); d != "" {
								return d
							}
						}
					}
				}
			}
		case *ssa.UnOp:
			if x.Op != token.MUL {
				return kept(x.X, seen, depth)
			}
			switch a := x.X.(type) {
			case *ssa.Alloc:
				// a local variable (spilled or captured): what was stored into it
				for _, ref := range *a.Referrers() {
					if st, isSt := ref.(*ssa.Store); isSt && st.Addr == ssa.Value(a) {
						if d := kept(st.Val, seen, depth); d != "" {
							return d
						}
					}
				}
			case *ssa.FieldAddr:
				if pt, isPtr := a.X.Type().Underlying().(*types.Pointer); isPtr {
					if stt, isSt := pt.Elem().Underlying().(*types.Struct); isSt {
						return "field " + stt.Field(a.Field).Name() + " (" + c.P.RelPos(x.Pos()) + ")"
					}
				}
				return "a struct field (" + c.P.RelPos(x.Pos()) + ")"
			case *ssa.Global:
				return "package variable " + a.Name() + " (" + c.P.RelPos(x.Pos()) + ")"
			case *ssa.IndexAddr:
				return "an element of a stored slice (" + c.P.RelPos(x.Pos()) + ")"
			case *ssa.FreeVar:
				return ""
			}
		case *ssa.Lookup:
			if _, isMap := x.X.Type().Underlying().(*types.Map); isMap {
				return "a map entry (" + c.P.RelPos(x.Pos()) + ")"
			}
		}
		return ""
	}
	n := 0
	for _, ff := range c.familyOf(cp) {
		for _, b := range ff.Blocks {
			for _, ins := range b.Instrs {
				cmp, isCmp := ins.(*ssa.BinOp)
				if !isCmp {
					continue
				}
				switch cmp.Op {
				case token.EQL, token.NEQ, token.GEQ, token.LEQ, token.LSS, token.GTR:
				default:
					continue
				}
				if !types.Identical(cmp.X.Type().Underlying(), types.Typ[types.Int]) {
					continue
				}
				var count ssa.Value
				switch {
				case fromSum(cmp.Y) && !fromSum(cmp.X):
					count = cmp.X
				case fromSum(cmp.X) && !fromSum(cmp.Y):
					count = cmp.Y
				default:
					continue
				}
				// only comparisons that decide a branch, and only counts (package numbers are compared with the total too:
				// those come from the header)
				isSeq := false
				for _, o := range c.origins(count, nil, nil) {
					if o.Kind == "field" && (strings.HasSuffix(o.Name, ".SubPackageNo") || strings.HasSuffix(o.Name, ".SubPackageSum")) {
						isSeq = true
					}
				}
				if isSeq {
					continue
				}
				if _, isLen := isBuiltinCall(instrOf(count), "len"); isLen {
					continue // len(table) against the total: a shape test, not the count of received parts
				}
				n++
				st, d := report.Discharged, ""
				if cell := kept(count, map[ssa.Value]bool{}, 0); cell != "" {
					st, d = report.Violated, "the number compared with the announced total is read from "+cell+", which lives across packets: a retransmitted packet is counted again and an incomplete transfer is delivered as complete"
				}
				R.Add("S.complete-count", fmt.Sprintf("%s / count compared with the announced total #%d", shortFn(ff), n), c.P.RelPos(cmp.Pos()), st, d)
			}
		}
	}
	R.Notes["complete_count_comparisons"] = n
}
