package checks

import (
	"fmt"
	"go/constant"
	"go/token"
	"strings"

	"golang.org/x/tools/go/ssa"

	"jtverif/internal/absint"
	"jtverif/internal/report"
)

// bcd2decRule: the digit helper that renders SIM / phone numbers keeps every digit except leading zeros.
// Decided in two parts: (a) by abstract interpretation, every returned string is the conversion of a suffix of the digit
// array that bcdConvert built from the whole argument (offset + length = 2*len(data)) and does not pass through a
// two-sided trim; (b) structurally, the cut point is the first digit that is not '0' (enumerated idioms: IndexFunc with
// the predicate r != '0', TrimLeft with the cut set "0").
func (c *Ctx) bcd2decRule() {
	R := c.R
	R.Rules["E3.digits"] = "utils.Bcd2Dec returns, on every path, a suffix of the two-digits-per-byte rendering of its whole argument (offset + length = 2*len(data): no digit is dropped at the end), and the cut point is the first digit that is not '0' (or nothing is cut)"
	var fn *ssa.Function
	for _, f := range c.RepoFuncs("protocol/utils") {
		if f.Name() == "Bcd2Dec" && f.Signature.Recv() == nil && f.Parent() == nil {
			fn = f
		}
	}
	if fn == nil {
		R.Fatal("anchor utils.Bcd2Dec not found")
		return
	}
	var data *absint.Slice
	res := c.RunE1([]*ssa.Function{fn}, false, func(a *absint.Analyzer, f *ssa.Function, st *absint.State, args []absint.Term) {
		data, _ = args[0].(*absint.Slice)
	})
	c.AddE1(res, false)
	r := res[0]
	if data == nil {
		R.Fatal("Bcd2Dec: argument is not a slice")
		return
	}
	n := 0
	for i, ret := range r.Rets {
		s, _ := ret.Val.(*absint.Slice)
		ok, d := false, "the returned value is not a string built from the digit array"
		if s != nil {
			src := s
			if s.Base.Op == "conv" && s.Base.From != nil {
				src = s.Base.From
			}
			want := data.Len.Scale(2)
			switch {
			case src.Base.Alias != nil || strings.HasPrefix(src.Base.Op, "call:"):
				op := strings.TrimPrefix(src.Base.Op, "call:")
				if (op == "bytes.TrimLeft" || op == "strings.TrimLeft") && src.Base.Cut != nil && *src.Base.Cut == "0" && src.Base.From != nil &&
					ret.St.Entails(eqC(src.Base.From.Off.Add(src.Base.From.Len), want)) {
					ok, d = true, ""
				} else {
					d = fmt.Sprintf("the result goes through %s: digits other than leading zeros can be removed (a SIM or phone ending in 0 loses its last digits)", op)
				}
			case !src.Base.Fresh:
				d = "the returned digits are not the array built from the argument (" + src.Base.Desc + ")"
			case ret.St.Entails(eqC(src.Off.Add(src.Len), want)):
				ok, d = true, ""
			default:
				d = fmt.Sprintf("the returned digits are [%s, %s) of the digit array, not provably a suffix ending at 2*len(data)", src.Off, src.Off.Add(src.Len))
			}
		}
		n++
		st := report.Discharged
		if !ok {
			st = report.Violated
		}
		R.Add("E3.digits", fmt.Sprintf("%s / return #%d is a suffix of all digits", shortFn(fn), i+1), c.P.RelPos(fn.Pos()), st, d)
	}
	if n == 0 {
		R.Fatal("Bcd2Dec: no return analysed")
	}
	// (b) the cut point
	nCut := 0
	for _, b := range fn.Blocks {
		for _, ins := range b.Instrs {
			sl, isS := ins.(*ssa.Slice)
			if !isS || sl.Low == nil {
				continue
			}
			nCut++
			ok, d := false, "the cut point of the digit string is not the result of a search for the first digit other than '0'"
			if call, isC := sl.Low.(*ssa.Call); isC && (calleeName(&call.Call) == "bytes.IndexFunc" || calleeName(&call.Call) == "strings.IndexFunc") && call.Call.Args[0] == sl.X {
				d = "the search predicate is not `r != '0'`"
				var pred *ssa.Function
				switch p := call.Call.Args[1].(type) {
				case *ssa.Function:
					pred = p
				case *ssa.MakeClosure:
					pred, _ = p.Fn.(*ssa.Function)
				}
				if pred != nil && len(pred.Blocks) == 1 && len(pred.Params) == 1 {
					if rt, isR := pred.Blocks[0].Instrs[len(pred.Blocks[0].Instrs)-1].(*ssa.Return); isR && len(rt.Results) == 1 {
						if bo, isB := rt.Results[0].(*ssa.BinOp); isB && bo.Op == token.NEQ {
							x, y := bo.X, bo.Y
							if _, isC := x.(*ssa.Const); isC {
								x, y = y, x
							}
							if k, isK := y.(*ssa.Const); isK && x == ssa.Value(pred.Params[0]) && k.Value != nil && k.Value.Kind() == constant.Int {
								if v, exact := constant.Int64Val(k.Value); exact && v == '0' {
									ok, d = true, ""
								}
							}
						}
					}
				}
			}
			if !ok {
				// idiom 2: a manual scan - the cut point is the index of an ascending loop over the same digit array, and the
				// cut is reached only over the edge on which the digit at that index differs from '0' (all earlier iterations
				// went round the loop over the other edge, i.e. saw '0')
				if over, asc := ascendingIndexOver(sl.Low); asc && varIdent(over) == varIdent(sl.X) {
					for _, b2 := range fn.Blocks {
						iff, isIf := b2.Instrs[len(b2.Instrs)-1].(*ssa.If)
						if !isIf {
							continue
						}
						cmp, isCmp := iff.Cond.(*ssa.BinOp)
						if !isCmp || (cmp.Op != token.NEQ && cmp.Op != token.EQL) {
							continue
						}
						x, y := cmp.X, cmp.Y
						if _, isK := x.(*ssa.Const); isK {
							x, y = y, x
						}
						k, isK := constInt(y)
						ld, isLd := x.(*ssa.UnOp)
						if !isK || k != '0' || !isLd {
							continue
						}
						ia, isIA := ld.X.(*ssa.IndexAddr)
						if !isIA || ia.Index != sl.Low || varIdent(ia.X) != varIdent(sl.X) {
							continue
						}
						edge := 0
						if cmp.Op == token.EQL {
							edge = 1
						}
						if edgeDominates(b2, edge, sl.Block()) {
							ok, d = true, ""
						}
					}
				}
			}
			st := report.Discharged
			if !ok {
				st = report.Violated
			}
			R.Add("E3.digits", shortFn(fn)+" / cut at the first digit other than '0'", c.P.RelPos(ins.Pos()), st, d)
		}
	}
	R.Notes["bcd2dec"] = fmt.Sprintf("%d returns, %d explicit cut points", n, nCut)
}
