package checks

import (
	"fmt"
	"go/constant"
	"go/token"
	"go/types"
	"os"
	"regexp"
	"sort"
	"strconv"
	"strings"

	"golang.org/x/tools/go/ssa"

	"jtverif/internal/absint"
	"jtverif/internal/report"
)

func init() {
	register(&Check{ID: "C20", Level: "other", Run: runC20})
}

func callMethodName(v ssa.Value) (string, *ssa.Call) {
	call, ok := v.(*ssa.Call)
	if !ok {
		return "", nil
	}
	if call.Call.IsInvoke() {
		return call.Call.Method.Name(), call
	}
	if sc := call.Call.StaticCallee(); sc != nil {
		return sc.Name(), call
	}
	return "", call
}

// replyShape describes how a function builds a reply frame.
type replyShape struct {
	enc          *ssa.Call
	header       ssa.Value
	msgRoot      ssa.Value // root value the header is loaded from
	msgPath      []string  // path to the *JTMessage ("" = root itself)
	replyIDOK    bool
	serialVal    ssa.Value
	bodyOK       bool
	bodyDetail   string
	headerDetail string
	otherStores  []string // further fields of the request's header that the function rewrites
}

func headerEncodeCalls(fn *ssa.Function) []*ssa.Call {
	var out []*ssa.Call
	for _, b := range fn.Blocks {
		for _, ins := range b.Instrs {
			if call, ok := ins.(*ssa.Call); ok {
				if sc := call.Call.StaticCallee(); sc != nil && sc.Name() == "Encode" && strings.Contains(sc.String(), "jt808.Header") {
					out = append(out, call)
				}
			}
		}
	}
	return out
}

func samePath(a, b []string) bool { return strings.Join(a, ".") == strings.Join(b, ".") }

func extractReplyShape(fn *ssa.Function) (*replyShape, string) {
	encs := headerEncodeCalls(fn)
	// one Encode builds the reply; further ones are allowed only as the degenerate answer with a nil body
	// (the "no handler" early return, the same bytes the single-call form produces with its nil body)
	if len(encs) > 1 {
		var main []*ssa.Call
		for _, e := range encs {
			if k, isK := e.Call.Args[1].(*ssa.Const); isK && k.IsNil() {
				continue
			}
			main = append(main, e)
		}
		if len(main) == 1 {
			h0, p0 := loadPath(main[0].Call.Args[0])
			same := true
			for _, e := range encs {
				if h, p1 := loadPath(e.Call.Args[0]); e.Call.Args[0] != main[0].Call.Args[0] && !(h == h0 && samePath(p1, p0)) {
					same = false
				}
			}
			if same {
				encs = main
			}
		}
	}
	if len(encs) != 1 {
		return nil, fmt.Sprintf("%d Header.Encode calls with a body (expected one)", len(encs))
	}
	rs := &replyShape{enc: encs[0], header: encs[0].Call.Args[0]}
	root, path := loadPath(rs.header)
	if len(path) == 0 || path[len(path)-1] != "Header" {
		return rs, fmt.Sprintf("the encoded header is %s, not the Header of a decoded message", rs.header.String())
	}
	rs.msgRoot, rs.msgPath = root, path[:len(path)-1]
	// stores through the same header value (or an equal load path)
	for _, b := range fn.Blocks {
		for _, ins := range b.Instrs {
			st, ok := ins.(*ssa.Store)
			if !ok {
				continue
			}
			fa, ok := st.Addr.(*ssa.FieldAddr)
			if !ok {
				continue
			}
			r2, p2 := loadPath(fa.X)
			if !(fa.X == rs.header || (r2 == root && samePath(p2, path))) {
				continue
			}
			s := fa.X.Type().Underlying().(*types.Pointer).Elem().Underlying().(*types.Struct)
			switch s.Field(fa.Field).Name() {
			case "ReplyID":
				if n, _ := callMethodName(stripConv(st.Val)); n == "ReplyProtocol" {
					rs.replyIDOK = true
				}
			case "PlatformSerialNumber":
				rs.serialVal = st.Val
			default:
				rs.otherStores = append(rs.otherStores, s.Field(fa.Field).Name())
			}
		}
	}
	// body
	body := encs[0].Call.Args[1]
	var cands []ssa.Value
	if phi, ok := body.(*ssa.Phi); ok {
		cands = phi.Edges
	} else {
		cands = []ssa.Value{body}
	}
	rs.bodyOK = false
	rs.bodyDetail = "the encoded body is not the result of ReplyBody"
	for _, cnd := range cands {
		if k, isC := cnd.(*ssa.Const); isC && k.IsNil() {
			continue
		}
		ex, ok := cnd.(*ssa.Extract)
		if !ok || ex.Index != 0 {
			rs.bodyOK = false
			rs.bodyDetail = "the encoded body is not the result of ReplyBody"
			break
		}
		n, call := callMethodName(ex.Tuple)
		if n != "ReplyBody" {
			rs.bodyOK = false
			break
		}
		arg := call.Call.Args[len(call.Call.Args)-1]
		ar, ap := loadPath(arg)
		if (len(rs.msgPath) == 0 && arg == root) || (ar == root && samePath(ap, rs.msgPath) && len(ap) > 0) {
			rs.bodyOK = true
			rs.bodyDetail = ""
		} else {
			rs.bodyOK = false
			rs.bodyDetail = "ReplyBody is given a different message than the one whose header is encoded"
			break
		}
	}
	return rs, ""
}

func runC20(c *Ctx) {
	c.E1Rules()
	c.E1Assumptions()
	R := c.R
	R.Rules["S.registry-agreement"] = "for every message ID that the server answers (C06 reply table) and that the simulator also knows, the simulator registers the same model type as the server: ReplyBody / ReplyProtocol / Parse / Encode are then the very same functions"
	R.Rules["S.expected-reply"] = "ExpectedReply builds its prediction the way the server builds the reply: it encodes the header of the frame it decoded (not the simulator's own), with ReplyID = ReplyProtocol(), the given platform serial, and body = ReplyBody(that decoded message), looked up under the decoded ID; the server's reply function has the same shape"
	R.Rules["S.serial-progression"] = "each frame-generating function increments the simulator header's serial by exactly one, exactly once, before its single Encode of that header, and sets the command ID from its argument; no other function of the simulator writes the serial"
	R.Rules["E6.template"] = "the template frame of WithHeader escapes its checksum exactly like the codec (0x7e -> 7d 02, 0x7d -> 7d 01, anything else unchanged), computes the checksum over exactly the bytes it places between the delimiters, and takes phone and version from its arguments"
	// ---- registries
	type regEntry struct{ typ types.Type }
	extract := func(fn *ssa.Function, unwrap string) map[int64]types.Type {
		out := map[int64]types.Type{}
		res := c.RunE1([]*ssa.Function{fn}, false, func(a *absint.Analyzer, f *ssa.Function, st *absint.State, args []absint.Term) {
			a.OnMapUpdate = func(f2 *ssa.Function, ins *ssa.MapUpdate, st *absint.State, m, k, v absint.Term) {
				if f2 != fn {
					return
				}
				kv, ok := k.(absint.Int)
				if !ok || !kv.L.IsConst() {
					return
				}
				ifc, ok := v.(*absint.Iface)
				if !ok {
					return
				}
				t := ifc.Typ
				if n, isN := derefNamed(t); isN && n == "defaultHandle" {
					for _, fld := range []string{"JT808Handler", "meHandle"} {
						if inner, _ := a.LoadField(st, ifc.Val, ifc.Typ, fld); inner != nil {
							if in, ok := inner.(*absint.Iface); ok {
								t = in.Typ
							}
						}
					}
				}
				out[kv.L.C] = t
			}
		})
		c.AddE1(res, true)
		return out
	}
	srvMk := c.NamedFunc("service", "createDefaultHandle")
	termMk := c.NamedFunc("terminal", "defaultProtocolHandles")
	if srvMk == nil || termMk == nil {
		R.Fatal("anchors createDefaultHandle / defaultProtocolHandles not found")
		return
	}
	srv := extract(srvMk, "JT808Handler")
	term := extract(termMk, "meHandle")
	var spec repliesSpec
	if !c.loadSpec("replies.json", &spec) {
		return
	}
	var ids []int64
	for id := range term {
		ids = append(ids, id)
	}
	sort.Slice(ids, func(i, j int) bool { return ids[i] < ids[j] })
	nBoth := 0
	for _, id := range ids {
		st, isSrv := srv[id]
		if !isSrv {
			continue
		}
		e, known := spec.Registry[fmt.Sprint(id)]
		if !known || !e.HasReply {
			continue
		}
		nBoth++
		s, d := report.Discharged, ""
		if !types.Identical(st, term[id]) {
			s, d = report.Violated, fmt.Sprintf("0x%04x: the server answers with %s, the simulator predicts with %s", id, st, term[id])
		}
		R.Add("S.registry-agreement", fmt.Sprintf("0x%04x", id), "", s, d)
	}
	R.Notes["simulator_registry"] = len(term)
	R.Notes["server_registry"] = len(srv)
	if nBoth < 8 {
		R.Fatal("only %d reply-bearing IDs are common to both registries (anchor)", nBoth)
	}
	// ---- ExpectedReply vs server reply function
	er := c.P.Method("terminal", "Terminal", "ExpectedReply")
	dr := c.P.Method("service", "connection", "defaultReplyEvent")
	if er == nil || dr == nil {
		R.Fatal("anchors Terminal.ExpectedReply / connection.defaultReplyEvent not found")
		return
	}
	for _, fn := range []*ssa.Function{er, dr} {
		rs, msg := extractReplyShape(fn)
		name := shortFn(fn)
		add := func(what string, ok bool, d string) {
			s := report.Discharged
			if !ok {
				s = report.Violated
			}
			R.Add("S.expected-reply", name+" / "+what, c.P.RelPos(fn.Pos()), s, d)
		}
		if rs == nil || msg != "" {
			add("reply frame = Encode of the request's header", false, msg)
			continue
		}
		add("reply frame = Encode of the request's header", true, "")
		add("ReplyID = ReplyProtocol()", rs.replyIDOK, "the header's ReplyID is not set from ReplyProtocol()")
		add("body = ReplyBody(the same message)", rs.bodyOK, rs.bodyDetail)
		add("the request's own header fields are left as decoded", len(rs.otherStores) == 0, fmt.Sprintf("besides ReplyID and PlatformSerialNumber the function rewrites %v of the request's header before the reply is built: the reply body is computed from the request's header (the acknowledged serial is its SerialNumber, the ID its ID), so the prediction and the server's reply no longer describe the same request", dedupe(rs.otherStores)))
		if fn == er {
			_, isParam := rs.serialVal.(*ssa.Parameter)
			add("platform serial = the given serial", isParam, "PlatformSerialNumber of the encoded header is not set to the seq argument")
			// the message is the one decoded from the argument; handler looked up under its ID
			okDec := false
			if mk, isCall := rs.msgRoot.(*ssa.Call); isCall && len(rs.msgPath) == 0 && mk.Call.StaticCallee() != nil && mk.Call.StaticCallee().Name() == "NewJTMessage" {
				for _, ref := range *mk.Referrers() {
					if call, isC := ref.(*ssa.Call); isC {
						if sc := call.Call.StaticCallee(); sc != nil && sc.Name() == "Decode" && call.Call.Args[0] == ssa.Value(mk) && call.Block().Dominates(rs.enc.Block()) {
							okDec = true
						}
					}
				}
			}
			add("the header is that of the frame decoded from the argument", okDec, "the encoded header does not belong to a fresh message decoded from the given frame (the simulator's own header would be mutated and the prediction would carry its phone / version)")
			okLk := false
			for _, b := range fn.Blocks {
				for _, ins := range b.Instrs {
					if lk, isLk := ins.(*ssa.Lookup); isLk {
						if _, f, isF := fieldLoad(lk.X); isF && f == "protocolHandles" {
							r, p := loadPath(stripConv(lk.Index))
							if r == rs.msgRoot && samePath(p, []string{"Header", "ID"}) {
								okLk = true
							}
						}
					}
				}
			}
			add("handler looked up under the decoded message ID", okLk, "the handler is not selected by the ID of the decoded frame")
		} else {
			n, _ := callMethodName(rs.serialVal)
			add("platform serial = next serial of the connection", n == "curSeq", "PlatformSerialNumber of the encoded header is not the connection's next serial")
		}
	}
	// ---- serial progression
	nGen := 0
	genFns := map[*ssa.Function]bool{}
	for _, fn := range c.RepoFuncs("terminal") {
		// frame generators, by role: functions that encode a frame with the simulator's own header (receiver.header)
		encs := headerEncodeCalls(fn)
		isGen := false
		for _, e := range encs {
			hr, hp := loadPath(e.Call.Args[0])
			if _, isP := hr.(*ssa.Parameter); isP && samePath(hp, []string{"header"}) {
				isGen = true
			}
		}
		if !isGen {
			continue
		}
		nGen++
		genFns[fn] = true
		ok, d := len(encs) == 1, fmt.Sprintf("%d Encode calls", len(encs))
		if ok {
			enc := encs[0]
			hr, hp := loadPath(enc.Call.Args[0])
			if _, isP := hr.(*ssa.Parameter); !isP || !samePath(hp, []string{"header"}) {
				ok, d = false, "the frame is not encoded with the simulator's header"
			}
			incs := 0
			idOK := false
			for _, b := range fn.Blocks {
				for _, ins := range b.Instrs {
					st, isSt := ins.(*ssa.Store)
					if !isSt {
						continue
					}
					fa, isFA := st.Addr.(*ssa.FieldAddr)
					if !isFA {
						continue
					}
					r2, p2 := loadPath(fa.X)
					if r2 != hr || !samePath(p2, hp) {
						continue
					}
					s := fa.X.Type().Underlying().(*types.Pointer).Elem().Underlying().(*types.Struct)
					switch s.Field(fa.Field).Name() {
					case "PlatformSerialNumber":
						incs++
						bo, isBo := st.Val.(*ssa.BinOp)
						one := int64(0)
						if isBo {
							one, _ = constInt(bo.Y)
						}
						if !isBo || bo.Op != token.ADD || one != 1 {
							ok, d = false, "the serial is not incremented by exactly one"
						} else {
							lr, lp := loadPath(bo.X)
							if lr != hr || !samePath(lp, append(append([]string{}, hp...), "PlatformSerialNumber")) {
								ok, d = false, "the new serial is not the previous serial of the same header plus one"
							}
						}
						if !(st.Block() == enc.Block() && instrIndex(st) < instrIndex(enc) || st.Block() != enc.Block() && st.Block().Dominates(enc.Block())) {
							ok, d = false, "the serial is incremented after the frame is encoded"
						}
						// every path with the increment encodes
						if !pathsFromMustHit(st, func(i ssa.Instruction) bool { return i == ssa.Instruction(enc) }) {
							ok, d = false, "a path increments the serial without generating a frame"
						}
					case "ReplyID":
						if _, isP := stripConv(st.Val).(*ssa.Parameter); isP {
							idOK = true
						}
					}
				}
			}
			if ok && incs != 1 {
				ok, d = false, fmt.Sprintf("%d writes of the serial (expected exactly one increment)", incs)
			}
			if ok && !idOK {
				ok, d = false, "the command ID of the generated frame is not taken from the argument"
			}
		}
		s := report.Discharged
		if !ok {
			s = report.Violated
		}
		R.Add("S.serial-progression", shortFn(fn), c.P.RelPos(fn.Pos()), s, d)
	}
	if nGen < 1 {
		R.Fatal("no function of the simulator encodes a frame with its own header (anchor)")
	}
	// the public generators reach such a function
	for _, name := range []string{"CreateDefaultCommandData", "CreateCommandData"} {
		fn := c.P.Method("terminal", "Terminal", name)
		okR := false
		if fn != nil {
			seen := map[*ssa.Function]bool{}
			var walk func(f *ssa.Function, depth int)
			walk = func(f *ssa.Function, depth int) {
				if f == nil || seen[f] || depth > 3 {
					return
				}
				seen[f] = true
				if genFns[f] {
					okR = true
				}
				for _, b := range f.Blocks {
					for _, ins := range b.Instrs {
						if call, isC := ins.(*ssa.Call); isC {
							walk(call.Call.StaticCallee(), depth+1)
						}
					}
				}
			}
			walk(fn, 0)
		}
		st := report.Discharged
		if !okR {
			st = report.Violated
		}
		R.Add("S.serial-progression", "Terminal."+name+" / generates its frame through a serial-incrementing encoder", "", st, "the public generator does not reach a function that increments the serial and encodes with the simulator's header")
	}
	// no other writer of the simulator header's serial: stores to PlatformSerialNumber through t.header in terminal
	{
		var bad []string
		for _, fn := range c.RepoFuncs("terminal") {
			if genFns[fn] {
				continue
			}
			for _, st := range storesToFieldAny(fn, "PlatformSerialNumber") {
				fa := st.Addr.(*ssa.FieldAddr)
				_, p := loadPath(fa.X)
				if len(p) > 0 && p[len(p)-1] == "header" {
					bad = append(bad, shortFn(fn)+" at "+c.P.RelPos(st.Pos()))
				}
			}
		}
		s, d := report.Discharged, ""
		if len(bad) > 0 {
			s, d = report.Violated, fmt.Sprintf("the simulator's serial is also written by %v: the next generated frame does not carry previous+1", bad)
		}
		R.Add("S.serial-progression", "Terminal.header.PlatformSerialNumber / written only by the frame generators", "", s, d)
	}
	// ---- template
	wh := c.P.Func("terminal", "WithHeader")
	// the option function WithHeader returns: the value stored into the F field of the Option it builds - a function
	// literal, or a method value of a small struct that carries the two arguments
	var cl *ssa.Function
	if wh != nil {
		for _, b := range wh.Blocks {
			for _, ins := range b.Instrs {
				if st, isSt := ins.(*ssa.Store); isSt {
					if _, f, okF := fieldNameOfAddr(st.Addr); okF && f == "F" {
						cl = funcOfValue(st.Val)
					}
				}
			}
		}
		if cl == nil && len(wh.AnonFuncs) == 1 {
			cl = wh.AnonFuncs[0]
		}
	}
	if wh == nil || cl == nil {
		R.Fatal("anchor terminal.WithHeader (the function stored into Option.F) not found")
		return
	}
	// where the two arguments live while the option function runs: captured variables, or fields of the struct the
	// method value is bound to (stored from WithHeader's parameters when it is built)
	argField := func(v ssa.Value, arg string) bool {
		ld, isLd := v.(*ssa.UnOp)
		if !isLd {
			return false
		}
		if fv, isFV := ld.X.(*ssa.FreeVar); isFV {
			return fv.Name() == arg
		}
		fa, isFA := ld.X.(*ssa.FieldAddr)
		if !isFA {
			return false
		}
		_, fname, _ := fieldNameOfAddr(fa)
		// the field is initialised from the parameter of that name in WithHeader
		for _, b := range wh.Blocks {
			for _, ins := range b.Instrs {
				if st, isSt := ins.(*ssa.Store); isSt {
					if _, f2, ok2 := fieldNameOfAddr(st.Addr); ok2 && f2 == fname {
						if prm, isP := st.Val.(*ssa.Parameter); isP && prm.Name() == arg {
							return true
						}
					}
				}
			}
		}
		return false
	}
	_ = argField
	{
		// the function that frames the template: the closure itself, or a helper of the package it calls (one level)
		tf := cl
		hasCode := func(f *ssa.Function) bool {
			for _, b := range f.Blocks {
				for _, ins := range b.Instrs {
					if call, ok := ins.(*ssa.Call); ok {
						if sc := call.Call.StaticCallee(); sc != nil && sc.Name() == "CreateVerifyCode" {
							return true
						}
					}
				}
			}
			return false
		}
		if !hasCode(cl) {
			for _, b := range cl.Blocks {
				for _, ins := range b.Instrs {
					if call, ok := ins.(*ssa.Call); ok {
						if sc := call.Call.StaticCallee(); sc != nil && c.P.IsRepoFunc(sc) && pkgOf(sc) == pkgOf(cl) && hasCode(sc) {
							tf = sc
						}
					}
				}
			}
		}
		// checksum over exactly the framed bytes
		var codeCall *ssa.Call
		for _, b := range tf.Blocks {
			for _, ins := range b.Instrs {
				if call, ok := ins.(*ssa.Call); ok {
					if sc := call.Call.StaticCallee(); sc != nil && sc.Name() == "CreateVerifyCode" {
						codeCall = call
					}
				}
			}
		}
		ok, d := codeCall != nil, "WithHeader does not compute a checksum with utils.CreateVerifyCode"
		if ok {
			payload := codeCall.Call.Args[0]
			found := false
			for _, ref := range *payload.Referrers() {
				if call, isC := ref.(*ssa.Call); isC {
					if bi, isB := call.Call.Value.(*ssa.Builtin); isB && bi.Name() == "append" && call.Call.Args[1] == payload {
						// dst must be the one-byte slice {0x7e}
						found = true
					}
				}
			}
			if !found {
				ok, d = false, "the bytes the checksum is computed over are not the bytes placed between the delimiters"
			}
		}
		s := report.Discharged
		if !ok {
			s = report.Violated
		}
		R.Add("E6.template", shortFn(cl)+" / checksum over the framed bytes", c.P.RelPos(cl.Pos()), s, d)
		// escaping: for every append after the checksum, the possible checksum values on the incoming edges
		// (tests `code == K`) and the bytes appended, evaluated for each K
		ok, d = codeCall != nil, d
		nPair, nPlain := 0, 0
		if codeCall != nil {
			isCode := func(v ssa.Value) bool { return stripConv(v) == ssa.Value(codeCall) }
			eqTest := func(b *ssa.BasicBlock) (int64, bool) {
				iff, isIf := b.Instrs[len(b.Instrs)-1].(*ssa.If)
				if !isIf {
					return 0, false
				}
				cmp, isCmp := iff.Cond.(*ssa.BinOp)
				if !isCmp || cmp.Op != token.EQL || !isCode(cmp.X) {
					return 0, false
				}
				return constInt(cmp.Y)
			}
			var eval func(v ssa.Value, code int64) (int64, bool)
			eval = func(v ssa.Value, code int64) (int64, bool) {
				if k, isK := constInt(v); isK {
					return k, true
				}
				if isCode(v) {
					return code, true
				}
				if cv, isCv := v.(*ssa.Convert); isCv {
					return eval(cv.X, code)
				}
				if bo, isBo := v.(*ssa.BinOp); isBo {
					x, okx := eval(bo.X, code)
					y, oky := eval(bo.Y, code)
					if okx && oky {
						switch bo.Op {
						case token.ADD:
							return (x + y) & 0xff, true
						case token.SUB:
							return (x - y) & 0xff, true
						case token.XOR:
							return (x ^ y) & 0xff, true
						case token.AND:
							return x & y, true
						case token.OR:
							return x | y, true
						}
					}
				}
				return 0, false
			}
			for _, b := range tf.Blocks {
				for _, ins := range b.Instrs {
					app, isApp := isBuiltinCall(ins, "append")
					if !isApp || !(codeCall.Block().Dominates(b)) || len(app.Call.Args) != 2 {
						continue
					}
					if app.Call.Args[1] == codeCall.Call.Args[0] {
						continue // the payload
					}
					// appended bytes
					var elems []ssa.Value
					if sl, isSl := app.Call.Args[1].(*ssa.Slice); isSl {
						if al, isAl := sl.X.(*ssa.Alloc); isAl {
							at, _ := al.Type().Underlying().(*types.Pointer).Elem().Underlying().(*types.Array)
							if at != nil {
								elems = make([]ssa.Value, at.Len())
								for _, ref := range *al.Referrers() {
									if ia, isIA := ref.(*ssa.IndexAddr); isIA {
										k, _ := constInt(ia.Index)
										for _, r2 := range *ia.Referrers() {
											if st, isSt := r2.(*ssa.Store); isSt && st.Addr == ia && int(k) < len(elems) {
												elems[k] = st.Val
											}
										}
									}
								}
							}
						}
					}
					pos := c.P.RelPos(app.Pos())
					if len(elems) == 0 {
						ok, d = false, fmt.Sprintf("append at %s: appended bytes not recognised", pos)
						continue
					}
					usesCode := false
					for _, e := range elems {
						if e == nil {
							ok, d = false, fmt.Sprintf("append at %s: appended bytes not recognised", pos)
						} else if _, isK := constInt(e); !isK {
							usesCode = true
						}
					}
					if !ok {
						continue
					}
					// possible checksum values on entry of this block
					var ks []int64
					allEq := len(b.Preds) > 0
					for _, p := range b.Preds {
						k, isEq := eqTest(p)
						if isEq && p.Succs[0] == b && p.Succs[1] != b {
							ks = append(ks, k)
						} else {
							allEq = false
						}
					}
					if len(elems) == 1 && !usesCode {
						if k, _ := constInt(elems[0]); k != 0x7e {
							ok, d = false, fmt.Sprintf("a constant byte 0x%02x is appended at %s (only the delimiter 0x7e is expected)", k, pos)
						}
						continue
					}
					if allEq {
						// escaped forms: for each possible checksum value the bytes must be the codec's
						nPair++
						for _, k := range ks {
							want := map[int64][]int64{0x7e: {0x7d, 0x02}, 0x7d: {0x7d, 0x01}}[k]
							var got []int64
							for _, e := range elems {
								v, okv := eval(e, k)
								if !okv {
									got = nil
									break
								}
								got = append(got, v)
							}
							if want == nil {
								if len(got) != 1 || got[0] != k {
									ok, d = false, fmt.Sprintf("at %s a checksum 0x%02x that needs no escaping is written as % x", pos, k, got)
								}
								continue
							}
							if len(got) != 2 || got[0] != want[0] || got[1] != want[1] {
								ok, d = false, fmt.Sprintf("at %s the checksum 0x%02x is written as %02x (the codec's table: 0x7e -> 7d 02, 0x7d -> 7d 01): the template frame cannot be decoded for phones whose checksum is 0x%02x", pos, k, got, k)
							}
						}
						continue
					}
					// plain form: the checksum itself, on a path where it is neither 0x7d nor 0x7e
					if len(elems) != 1 || !isCode(elems[0]) {
						ok, d = false, fmt.Sprintf("at %s bytes depending on the checksum are appended on a path without a test of its value", pos)
						continue
					}
					nPlain++
					excluded := map[int64]bool{}
					for _, b2 := range tf.Blocks {
						if k, isEq := eqTest(b2); isEq && b2.Succs[1].Dominates(b) && len(b2.Succs[1].Preds) == 1 {
							excluded[k] = true
						}
					}
					for _, sp := range []int64{0x7d, 0x7e} {
						if !excluded[sp] {
							ok, d = false, fmt.Sprintf("at %s the checksum is written unescaped on a path where it can be 0x%02x: the template frame then contains a raw delimiter / escape byte", pos, sp)
						}
					}
				}
			}
			if ok && (nPair < 1 || nPlain < 1) {
				ok, d = false, fmt.Sprintf("escaping of the template checksum not recognised (%d escaped forms, %d plain)", nPair, nPlain)
			}
		}
		// the semantic decision (abstract interpretation with helpers inlined) takes precedence when it can be made
		if dec, okI, whyI := c.templateByInterpretation(cl); dec {
			ok, d = okI, whyI
			R.Notes["template_escaping_decided_by"] = "abstract interpretation (byte layout of the frame handed to Decode)"
		} else {
			R.Notes["template_escaping_decided_by"] = "structural rule (the layout could not be reconstructed)"
		}
		s = report.Discharged
		if !ok {
			s = report.Violated
		}
		R.Add("E6.template", shortFn(cl)+" / checksum escaped like the codec", c.P.RelPos(cl.Pos()), s, d)
		// phone / version from the arguments
		// the phone reaches the header text and the template's BCD digits only through zero padding: every value written
		// to the header's phone, substituted into the template, or assigned to the phone variable itself is built from the
		// argument and `%0Ns` formats alone (a detour through a fixed-width integer loses 20-digit phones)
		okP, okV := false, false
		dP := "no store of the phone argument into Header.TerminalPhoneNo"
		{
			var vals []ssa.Value
			nHdr := 0
			for _, st := range storesToFieldAny(cl, "TerminalPhoneNo") {
				vals = append(vals, st.Val)
				nHdr++
			}
			for _, b := range cl.Blocks {
				for _, ins := range b.Instrs {
					if st, isSt := ins.(*ssa.Store); isSt {
						if fv, isFV := st.Addr.(*ssa.FreeVar); isFV && fv.Name() == "phone" {
							vals = append(vals, st.Val)
						}
						if fa, isFA := st.Addr.(*ssa.FieldAddr); isFA {
							if _, fn2, okF := fieldNameOfAddr(fa); okF && fn2 == "phone" {
								vals = append(vals, st.Val)
							}
						}
					}
					if call, isC := ins.(*ssa.Call); isC && (calleeName(&call.Call) == "strings.Replace" || calleeName(&call.Call) == "strings.ReplaceAll") && len(call.Call.Args) >= 3 {
						vals = append(vals, call.Call.Args[2])
					}
				}
			}
			okP = nHdr > 0
			padFmt := regexp.MustCompile(`^%0[0-9]+s$`)
			for _, v := range vals {
				sawArg := false
				var walkO func(v0 ssa.Value, depth int)
				walkO = func(v0 ssa.Value, depth int) {
					for _, o := range c.origins(v0, map[string]bool{"fmt.Sprintf": true}, nil) {
						switch {
						case o.Kind == "param" && o.Name == "freevar phone":
							sawArg = true
						case o.Kind == "field" && argField(o.Val, "phone"):
							// the struct field that holds the phone argument (padded in place by the option function itself)
							sawArg = true
						case o.Kind == "const" && padFmt.MatchString(o.Name):
						default:
							// a parameter of a helper the template code was moved into: decided at its call sites
							if prm, isP := o.Val.(*ssa.Parameter); isP && o.Kind == "param" && depth < 3 && prm.Parent() != cl {
								args := c.resolveParam(prm, "terminal")
								if len(args) > 0 && !(len(args) == 1 && args[0] == ssa.Value(prm)) {
									for _, a := range args {
										walkO(a, depth+1)
									}
									continue
								}
							}
							okP = false
							dP = fmt.Sprintf("the phone written at %s is derived from %s, not from the phone argument by zero padding alone: digits of long (2019, 20-digit) phones can be lost", c.P.RelPos(instrPos(v)), o.String())
						}
					}
				}
				walkO(v, 0)
				if !sawArg && okP {
					okP = false
					dP = fmt.Sprintf("the phone written at %s does not come from the phone argument", c.P.RelPos(instrPos(v)))
				}
			}
		}
		for _, st := range storesToFieldAny(cl, "ProtocolVersion") {
			v := st.Val
			if ld, isLd := v.(*ssa.UnOp); isLd {
				if fv, isFV := ld.X.(*ssa.FreeVar); isFV && fv.Name() == "protocolVersion" {
					okV = true
				}
			}
			if fv, isFV := v.(*ssa.FreeVar); isFV && fv.Name() == "protocolVersion" {
				okV = true
			}
			if argField(v, "protocolVersion") {
				okV = true
			}
		}
		s = report.Discharged
		if !okP || !okV {
			s = report.Violated
		}
		dPV := ""
		if !okP {
			dPV = dP
		} else if !okV {
			dPV = "the header's protocol version is not stored from the version argument"
		}
		R.Add("E6.template", shortFn(cl)+" / phone and version of the header come from the arguments", c.P.RelPos(cl.Pos()), s, dPV)
	}
	// ---- E1 bounds of the simulator
	var entries []*ssa.Function
	for _, fn := range c.RepoFuncs("terminal") {
		if fn.Parent() == nil {
			entries = append(entries, fn)
		}
	}
	entries = append(entries, cl)
	res := c.RunE1(entries, true, nil)
	c.AddE1(res, false)
	R.Require("S.registry-agreement", 8, "")
	R.Require("S.expected-reply", 11, "")
	R.Require("S.serial-progression", 4, "")
	R.Require("E6.template", 3, "")
	c.defaultBodiesRule()
	R.Explain = "Acceptance of every generated frame for every phone, and byte equality with a live server, are value-level and not decided. Decided: the default message values satisfy the length conditions under which their type's encoder / parser pair round-trips (constant evaluation of the constructor literals against the conditions C07 derives); the simulator and the server register the same model types for all reply-bearing IDs they share; ExpectedReply and the server's reply function have the same construction (header of the decoded request, ReplyProtocol, serial, ReplyBody of the same message); the generators increment the serial once by one before the single Encode and nothing else writes it; the template frame's checksum covers the framed bytes and is escaped with the codec's table on every path (abstract interpretation of the closure); panic-freedom obligations of the simulator's functions."
}

func describeCode(st *absint.State, code absint.Term) string {
	if code == nil {
		return "unknown"
	}
	cv, ok := code.(absint.Int)
	if !ok {
		return "unknown"
	}
	for _, v := range []int64{0x7d, 0x7e} {
		if st.Entails(absint.Con{L: cv.L.AddC(-v), Rel: absint.EQ}) {
			return fmt.Sprintf("0x%02x", v)
		}
	}
	return "not fixed"
}

func instrPos(v ssa.Value) token.Pos {
	if ins, ok := v.(ssa.Instruction); ok && ins.Pos().IsValid() {
		return ins.Pos()
	}
	return v.Pos()
}

// defaultBodiesRule: the default message values the simulator generates frames from satisfy the in-domain conditions
// under which the type's Encode / Parse pair round-trips (C07 derives them from the two functions: a length field
// equals the length of the value it announces, a fixed-width value has that width). The constructors are composite
// literals of constants, so the conditions are decided by constant evaluation.
func (c *Ctx) defaultBodiesRule() {
	R := c.R
	R.Rules["S.default-bodies"] = "every default message value of the simulator (constructor literals in the terminal package) satisfies the in-domain conditions of its type's encoder / parser pair as derived by C07 (length field == length of the announced value, fixed-width values have their width): otherwise the generated body does not parse with the matching message type"
	byName := map[string]*c07Type{}
	for _, t0 := range c.c07Types() {
		byName[t0.name] = t0
	}
	cond := map[string][]string{}
	condOf := func(name string) []string {
		if v, ok := cond[name]; ok {
			return v
		}
		var out []string
		if t0 := byName[name]; t0 != nil {
			vs := c.c07Variants(t0)
			if len(vs) == 1 {
				c.c07Extract(vs[0])
				if dec, _, ass, _ := c.c07Compare(vs[0], nil); dec {
					out = ass
				}
			}
		}
		cond[name] = out
		return out
	}
	n := 0
	for _, fn := range c.RepoFuncs("terminal") {
		if fn.Parent() != nil || !strings.HasPrefix(fn.Name(), "new") {
			continue
		}
		for _, b := range fn.Blocks {
			for _, ins := range b.Instrs {
				al, isAl := ins.(*ssa.Alloc)
				if !isAl {
					continue
				}
				nt, isN := al.Type().Underlying().(*types.Pointer).Elem().(*types.Named)
				if !isN || nt.Obj().Pkg() == nil || !strings.HasSuffix(nt.Obj().Pkg().Path(), "protocol/model") {
					continue
				}
				stt, isS := nt.Underlying().(*types.Struct)
				if !isS {
					continue
				}
				conds := condOf(nt.Obj().Name())
				if len(conds) == 0 {
					continue
				}
				ints := map[string]int64{}
				strs := map[string]string{}
				dyn := map[string]bool{}
				for _, ref := range *al.Referrers() {
					fa, isFA := ref.(*ssa.FieldAddr)
					if !isFA {
						continue
					}
					fname := stt.Field(fa.Field).Name()
					for _, r2 := range *fa.Referrers() {
						st, isSt := r2.(*ssa.Store)
						if !isSt || st.Addr != ssa.Value(fa) {
							continue
						}
						k, isK := st.Val.(*ssa.Const)
						if !isK || k.Value == nil {
							dyn[fname] = true
							continue
						}
						switch k.Value.Kind() {
						case constant.Int:
							v, _ := constant.Int64Val(k.Value)
							ints[fname] = v
						case constant.String:
							strs[fname] = constant.StringVal(k.Value)
						default:
							dyn[fname] = true
						}
					}
				}
				for _, cd := range conds {
					var lhs, rhs string
					if k := strings.Index(cd, " == "); k > 0 {
						lhs, rhs = cd[:k], cd[k+4:]
					} else {
						continue
					}
					lenOf := func(s string) (string, bool) {
						if strings.HasPrefix(s, "len(") && strings.HasSuffix(s, ")") {
							return s[4 : len(s)-1], true
						}
						return "", false
					}
					key := fmt.Sprintf("%s / %s", fn.Name(), cd)
					ascii := func(s string) bool {
						for i := 0; i < len(s); i++ {
							if s[i] >= 0x80 {
								return false
							}
						}
						return true
					}
					if vf, isLen := lenOf(rhs); isLen {
						// <LenField> == len(<ValueField>)
						if dyn[lhs] || dyn[vf] || !ascii(strs[vf]) {
							R.AddInfo("S.default-bodies", key, c.P.RelPos(al.Pos()), report.Undecided, "one side is not a constant (or the text is not ASCII, so its wire length is the GBK length): not decided")
							continue
						}
						n++
						st, d := report.Discharged, ""
						if ints[lhs] != int64(len(strs[vf])) {
							st, d = report.Violated, fmt.Sprintf("%s is %d but %s %q has %d bytes: the body announces a length it does not carry and does not parse with %s", lhs, ints[lhs], vf, strs[vf], len(strs[vf]), nt.Obj().Name())
						}
						R.Add("S.default-bodies", key, c.P.RelPos(al.Pos()), st, d)
					} else if vf, isLen := lenOf(lhs); isLen {
						// len(<ValueField>) == N
						want, err := strconv.ParseInt(rhs, 10, 64)
						if err != nil {
							continue
						}
						if dyn[vf] || !ascii(strs[vf]) {
							R.AddInfo("S.default-bodies", key, c.P.RelPos(al.Pos()), report.Undecided, "the value is not a constant ASCII string: not decided")
							continue
						}
						if _, set := strs[vf]; !set {
							// not a string field of the literal (byte slices, arrays): not decided here
							R.AddInfo("S.default-bodies", key, c.P.RelPos(al.Pos()), report.Undecided, "the value is not set by a string constant in the literal: not decided")
							continue
						}
						n++
						st, d := report.Discharged, ""
						if int64(len(strs[vf])) != want {
							st, d = report.Violated, fmt.Sprintf("%s %q has %d bytes, the encoder / parser pair needs %d", vf, strs[vf], len(strs[vf]), want)
						}
						R.Add("S.default-bodies", key, c.P.RelPos(al.Pos()), st, d)
					}
				}
			}
		}
	}
	R.Notes["default_body_conditions_decided"] = n
	R.Require("S.default-bodies", 4, "")
}

// templateByInterpretation decides the framing of WithHeader's template frame semantically: the closure (with every
// helper it calls inlined) is interpreted abstractly; at the call that decodes the template, the byte layout of the
// frame is reconstructed from the provenance of its buffer. It must read
//
//	7e | payload | esc(code) | 7e
//
// where payload is the very slice the checksum was computed over, code is the result of CreateVerifyCode(payload), and
// esc(code) is 7d 02 on paths that know code == 0x7e, 7d 01 on paths that know code == 0x7d, and the byte itself on
// paths that exclude both values. decided=false when the layout cannot be reconstructed (the structural rule decides).
func (c *Ctx) templateByInterpretation(cl *ssa.Function) (decided, ok bool, why string) {
	type frame struct {
		st      *absint.State
		fr      *absint.Slice
		payload *absint.Slice
		code    absint.Term
		codeR   string
		a       *absint.Analyzer
	}
	var frames []frame
	codeByMark := map[int]absint.Term{}
	var codeR string
	var code absint.Term
	var payload *absint.Slice
	res := c.RunE1([]*ssa.Function{cl}, true, func(a *absint.Analyzer, fn *ssa.Function, st *absint.State, args []absint.Term) {
		a.LogWrites = true
		a.OnCall = func(a *absint.Analyzer, st *absint.State, site ssa.CallInstruction, callee *ssa.Function, cargs []absint.Term) {
			switch {
			case callee.Name() == "CreateVerifyCode" && len(cargs) == 1:
				if s, isS := cargs[0].(*absint.Slice); isS {
					payload = s
					if a.BaseNames == nil {
						a.BaseNames = map[*absint.Base]string{}
					}
					if _, named := a.BaseNames[s.Base]; !named {
						a.BaseNames[s.Base] = "template-payload"
					}
				}
			case callee.Name() == "Decode" && strings.Contains(callee.String(), "JTMessage") && len(cargs) == 2:
				if s, isS := cargs[1].(*absint.Slice); isS {
					var pc absint.Term
					for m, v := range codeByMark {
						if absint.Marked(st, m) {
							pc = v
						}
					}
					frames = append(frames, frame{st.Clone(), s, payload, pc, a.Render(pc), a})
				}
			}
		}
		a.OnInlined = func(f *ssa.Function, fargs []absint.Term, val absint.Term, st *absint.State) {
			if f.Name() == "CreateVerifyCode" {
				// one checksum value per return state of the helper: the path to the Decode call carries its mark
				m := a.NewMark()
				absint.Mark(st, m)
				codeByMark[m] = val
				code = val
				if iv, isI := val.(absint.Int); isI {
					if at := iv.L.SingleAtom(); at != nil {
						if a.AtomNames == nil {
							a.AtomNames = map[*absint.Atom]string{}
						}
						a.AtomNames[at] = "template-checksum"
					}
				}
				codeR = a.Render(val)
			}
		}
	})
	if len(res) == 0 || len(frames) == 0 || payload == nil || code == nil || codeR == "?" {
		return false, false, ""
	}
	debug := os.Getenv("JTVERIF_DEBUGTEMPLATE") != ""
	nPlain, nEsc := 0, 0
	for _, f := range frames {
		a, payload, code, codeR := f.a, f.payload, f.code, f.codeR
		if payload == nil || code == nil || codeR == "?" {
			return false, false, ""
		}
		cv, isInt := code.(absint.Int)
		if !isInt {
			return false, false, ""
		}
		// the frame's storage belongs to this invocation: the decoder keeps windows of it (the BCD phone of the header the
		// option installs), so a buffer that outlives the call is rewritten by the next WithHeader for every earlier terminal
		for _, ab := range absint.AliasClosure(f.fr.Base) {
			if !ab.Fresh {
				return true, false, "the template frame is assembled in storage that outlives the call (" + ab.Desc + "): the header decoded from it keeps a window of that storage as its BCD phone, so the next WithHeader call overwrites the phone of every terminal built earlier"
			}
		}
		segs, okL := a.ByteLayout(f.st, f.fr)
		if debug {
			fmt.Printf("TEMPLATE layout ok=%v code=%s segs=%v\n", okL, codeR, segs)
		}
		if !okL || len(segs) < 4 {
			return false, false, ""
		}
		first, last := segs[0], segs[len(segs)-1]
		if first.Desc != "u8(126)" || !first.Off.IsConst() || first.Off.C != 0 {
			return true, false, "the template frame does not start with the delimiter 0x7e (" + first.String() + ")"
		}
		if last.Desc != "u8(126)" {
			return true, false, "the template frame does not end with the delimiter 0x7e (" + last.String() + ")"
		}
		pl := segs[1]
		wantPl := ""
		if ps, okP := a.ByteLayout(f.st, payload); okP && len(ps) == 1 {
			wantPl = ps[0].Desc
		}
		if debug {
			fmt.Printf("TEMPLATE payload desc %q pl.Len=%s payload.Len=%s off=%s\n", wantPl, pl.Len.String(), payload.Len.String(), pl.Off.String())
		}
		if wantPl == "" {
			return false, false, ""
		}
		dl := pl.Len.Sub(payload.Len)
		// (the callee's view of the argument may carry its own length atom; the rendered names are those of the defining site)
		sameLen := (dl.IsConst() && dl.C == 0) || f.st.Entails(absint.Con{L: dl, Rel: absint.EQ}) || a.Render(absint.Int{L: pl.Len}) == a.Render(absint.Int{L: payload.Len})
		if debug {
			fmt.Println("TEMPLATE cons", f.st.Cons.String(), "| code lin:", cv.L.String(), "| trace:", strings.Join(f.st.Trace, " "))
			fmt.Println("TEMPLATE conds", pl.Desc != wantPl, !pl.Off.IsConst(), pl.Off.C, !sameLen, dl.String())
		}
		if pl.Desc != wantPl || !pl.Off.IsConst() || pl.Off.C != 1 || !sameLen {
			return true, false, "the bytes between the opening delimiter and the checksum are not exactly the bytes the checksum was computed over (" + pl.String() + ")"
		}
		mid := segs[2 : len(segs)-1]
		is := func(k int64) bool { return f.st.Entails(absint.Con{L: cv.L.AddC(-k), Rel: absint.EQ}) }
		not := func(k int64) bool {
			return f.st.Entails(absint.Con{L: cv.L.AddC(-k), Rel: absint.NE}) || !f.st.Feasible(absint.Con{L: cv.L.AddC(-k), Rel: absint.EQ})
		}
		switch {
		case len(mid) == 1 && mid[0].Desc == "u8("+codeR+")":
			if !not(0x7d) || !not(0x7e) {
				return true, false, "the checksum is written unescaped on a path where it can be 0x7d or 0x7e: the template frame then contains a raw escape byte / delimiter"
			}
			nPlain++
		case len(mid) == 2 && mid[0].Desc == "u8(125)" && mid[1].Desc == "u8(2)":
			if !is(0x7e) {
				return true, false, "7d 02 is written on a path that does not know the checksum to be 0x7e"
			}
			nEsc++
		case len(mid) == 2 && mid[0].Desc == "u8(125)" && mid[1].Desc == "u8(1)":
			if !is(0x7d) {
				return true, false, "7d 01 is written on a path that does not know the checksum to be 0x7d"
			}
			nEsc++
		default:
			var ds []string
			for _, m := range mid {
				ds = append(ds, m.Desc)
			}
			if is(0x7e) || is(0x7d) {
				return true, false, fmt.Sprintf("on the path where the checksum is 0x%02x the template writes %v instead of the codec's escape (0x7e -> 7d 02, 0x7d -> 7d 01)", map[bool]int{true: 0x7e, false: 0x7d}[is(0x7e)], ds)
			}
			return false, false, ""
		}
	}
	if nPlain == 0 || nEsc < 2 {
		return true, false, fmt.Sprintf("escaping of the template checksum incomplete: %d paths write it plain, %d escaped (expected the plain path and both escapes)", nPlain, nEsc)
	}
	return true, true, ""
}
