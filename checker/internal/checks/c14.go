package checks

import (
	"fmt"
	"go/token"
	"go/types"
	"strings"

	"golang.org/x/tools/go/ssa"

	"jtverif/internal/report"
)

func init() {
	register(&Check{ID: "C14", Level: "other", Run: runC14})
}

// timeTest describes `time.Now().Add(k).After(x.<field>)` used as a branch condition.
type timeTest struct {
	fn    *ssa.Function
	after *ssa.Call
	k     int64  // nanoseconds
	field string // compared field
	owner ssa.Value
	iff   *ssa.If
	older bool // the test is true when the stored time lies further back than the threshold
}

func isTimeMethod(call *ssa.Call, name string) bool {
	sc := call.Call.StaticCallee()
	return sc != nil && sc.String() == "(time.Time)."+name
}

// timeExprOf: v as "now + offset" or "<field> + offset" (through Time.Add with a constant duration).
func timeExprOf(v ssa.Value, depth int) (isNow bool, field string, owner ssa.Value, off int64, ok bool) {
	if depth > 4 {
		return
	}
	switch x := v.(type) {
	case *ssa.Call:
		if sc := x.Call.StaticCallee(); sc != nil && sc.String() == "time.Now" {
			return true, "", nil, 0, true
		}
		if isTimeMethod(x, "Add") && len(x.Call.Args) == 2 {
			k, isK := constInt(x.Call.Args[1])
			if !isK {
				return
			}
			n, f, o, b, ok2 := timeExprOf(x.Call.Args[0], depth+1)
			return n, f, o, b + k, ok2
		}
	case *ssa.UnOp:
		if fa, isFA := x.X.(*ssa.FieldAddr); isFA {
			st := fa.X.Type().Underlying().(*types.Pointer).Elem().Underlying().(*types.Struct)
			return false, st.Field(fa.Field).Name(), fa.X, 0, true
		}
	}
	return
}

// findTimeTests: comparisons of the current time with a stored time, normalised to "now - field > D" (older, k = -D as
// in now.Add(-D).After(field)) or "now - field < D" (younger: the test is true while the stored time is recent).
func findTimeTests(fn *ssa.Function) []timeTest {
	var out []timeTest
	for _, b := range fn.Blocks {
		for _, ins := range b.Instrs {
			call, ok := ins.(*ssa.Call)
			if !ok || len(call.Call.Args) != 2 {
				continue
			}
			after := isTimeMethod(call, "After")
			if !after && !isTimeMethod(call, "Before") {
				continue
			}
			aNow, aF, aO, aK, okA := timeExprOf(call.Call.Args[0], 0)
			bNow, bF, bO, bK, okB := timeExprOf(call.Call.Args[1], 0)
			if !okA || !okB || aNow == bNow {
				continue
			}
			tt := timeTest{fn: fn, after: call}
			// A > B (After) or A < B (Before)
			nowLeft := aNow
			if nowLeft {
				tt.field, tt.owner = bF, bO
			} else {
				tt.field, tt.owner = aF, aO
			}
			// now + kn  ?  field + kf
			kn, kf := aK, bK
			if !nowLeft {
				kn, kf = bK, aK
			}
			d := kf - kn // now - field  ?  d
			older := (nowLeft && after) || (!nowLeft && !after)
			tt.older = older
			tt.k = -d
			for _, ref := range *call.Referrers() {
				if iff, isIf := ref.(*ssa.If); isIf {
					tt.iff = iff
				}
			}
			out = append(out, tt)
		}
	}
	return out
}

// rangeIndexOf: k is the index value of a loop over slice s in ascending order from 0 with step 1:
// go/ssa's rangeindex shape (k = phi(-1, k)+1, guarded by k < len(s)) or the classic for i := 0; i < len(s); i++.
func ascendingIndexOver(k ssa.Value) (ssa.Value, bool) {
	// rangeindex: k = BinOp ADD(phi, 1); phi edges: -1 and k
	if bo, ok := k.(*ssa.BinOp); ok && bo.Op == token.ADD {
		if one, ok := constInt(bo.Y); ok && one == 1 {
			if phi, ok := bo.X.(*ssa.Phi); ok {
				init, self := false, true
				for _, e := range phi.Edges {
					if v, isC := constInt(e); isC && v == -1 {
						init = true
					} else if e != k {
						self = false
					}
				}
				if init && self {
					// guard k < len(s)
					for _, ref := range *bo.Referrers() {
						if cmp, ok := ref.(*ssa.BinOp); ok && cmp.Op == token.LSS && cmp.X == k {
							if ln, ok := cmp.Y.(*ssa.Call); ok {
								if bi, isB := ln.Call.Value.(*ssa.Builtin); isB && bi.Name() == "len" {
									return ln.Call.Args[0], true
								}
							}
						}
					}
				}
			}
		}
	}
	// classic: k = phi(0, k+1), guard k < len(s)
	if phi, ok := k.(*ssa.Phi); ok {
		init, step := false, true
		for _, e := range phi.Edges {
			if v, isC := constInt(e); isC && v == 0 {
				init = true
			} else if bo, isB := e.(*ssa.BinOp); isB && bo.Op == token.ADD && bo.X == k {
				if one, ok := constInt(bo.Y); !ok || one != 1 {
					step = false
				}
			} else {
				step = false
			}
		}
		if init && step {
			for _, ref := range *phi.Referrers() {
				if cmp, ok := ref.(*ssa.BinOp); ok && cmp.Op == token.LSS && cmp.X == k {
					if ln, ok := cmp.Y.(*ssa.Call); ok {
						if bi, isB := ln.Call.Value.(*ssa.Builtin); isB && bi.Name() == "len" {
							return ln.Call.Args[0], true
						}
					}
				}
			}
		}
	}
	return nil, false
}

// appendChain walks a slice value back through phis and appends; returns the root values, the phis and the append calls.
func appendChain(v ssa.Value) (roots []ssa.Value, phis []*ssa.Phi, apps []*ssa.Call) {
	seen := map[ssa.Value]bool{}
	var walk func(x ssa.Value)
	walk = func(x ssa.Value) {
		if seen[x] {
			return
		}
		seen[x] = true
		switch y := x.(type) {
		case *ssa.Phi:
			phis = append(phis, y)
			for _, e := range y.Edges {
				walk(e)
			}
		case *ssa.Call:
			if bi, ok := y.Call.Value.(*ssa.Builtin); ok && bi.Name() == "append" {
				apps = append(apps, y)
				walk(y.Call.Args[0])
				return
			}
			roots = append(roots, x)
		default:
			roots = append(roots, x)
		}
	}
	walk(v)
	return
}

// singleAppended: the one element appended by `append(s, e)` (go/ssa: varargs array of length 1).
func singleAppended(app *ssa.Call) (ssa.Value, bool) {
	if len(app.Call.Args) != 2 {
		return nil, false
	}
	sl, ok := app.Call.Args[1].(*ssa.Slice)
	if !ok {
		return nil, false
	}
	al, ok := sl.X.(*ssa.Alloc)
	if !ok {
		return nil, false
	}
	at, ok := al.Type().Underlying().(*types.Pointer).Elem().Underlying().(*types.Array)
	if !ok || at.Len() != 1 {
		return nil, false
	}
	for _, ref := range *al.Referrers() {
		if ia, ok := ref.(*ssa.IndexAddr); ok {
			for _, r2 := range *ia.Referrers() {
				if st, ok := r2.(*ssa.Store); ok && st.Addr == ia {
					return st.Val, true
				}
			}
		}
	}
	return nil, false
}

func storesToField(fn *ssa.Function, typeName, field string) []*ssa.Store {
	var out []*ssa.Store
	for _, b := range fn.Blocks {
		for _, ins := range b.Instrs {
			st, ok := ins.(*ssa.Store)
			if !ok {
				continue
			}
			fa, ok := st.Addr.(*ssa.FieldAddr)
			if !ok {
				continue
			}
			if n, ok := derefNamed(fa.X.Type()); !ok || n != typeName {
				continue
			}
			s := fa.X.Type().Underlying().(*types.Pointer).Elem().Underlying().(*types.Struct)
			if s.Field(fa.Field).Name() == field {
				out = append(out, st)
			}
		}
	}
	return out
}

// loadOfPath: v is a load chain x.f1.f2...; returns the root value and the field names.
func loadPath(v ssa.Value) (ssa.Value, []string) {
	var names []string
	for {
		u, ok := v.(*ssa.UnOp)
		if !ok || u.Op != token.MUL {
			return v, names
		}
		fa, ok := u.X.(*ssa.FieldAddr)
		if !ok {
			return v, names
		}
		s := fa.X.Type().Underlying().(*types.Pointer).Elem().Underlying().(*types.Struct)
		names = append([]string{s.Field(fa.Field).Name()}, names...)
		v = fa.X
	}
}

func runC14(c *Ctx) {
	c.E1Rules()
	c.E1Assumptions()
	R := c.R
	R.Rules["S.thresholds"] = "the re-request test compares now-5s with the transfer's last-progress time, the expiry test compares now-60s with its creation time (constants folded from the SSA); the creation time is written only where the record is created"
	R.Rules["S.missing-list"] = "the list named in the 0x8003 is built afresh for every transfer by one ascending index loop over that transfer's slot table appending index+1 exactly for empty slots; count = len(list); the original serial is the stored first header's; the frame is encoded with that header"
	R.Rules["S.rate-limit"] = "every path that emits a re-request stores time.Now() into the last-progress time afterwards, and so does every path that stores an arriving packet into its slot (idle time is measured from the last arrival)"
	R.Rules["S.expiry"] = "an expired transfer is removed from both maps under its own key, before re-requests are built in the same pass; the record is created by the packet numbered 1 with that packet's header"
	R.Rules["S.route"] = "a re-request built by the reader reaches the writer through the re-request channel and is written by a function that stamps a fresh serial (C06 S.serial-per-write)"
	var supp, expire []timeTest
	for _, fn := range c.RepoFuncs("service") {
		for _, tt := range findTimeTests(fn) {
			if len(storesToFieldAny(fn, "AgainPackageList")) > 0 {
				supp = append(supp, tt)
			} else {
				expire = append(expire, tt)
			}
		}
	}
	if len(supp) != 1 || len(expire) != 1 {
		R.Fatal("expected one idle test in the function that builds the 0x8003 and one expiry test (found %d / %d): anchors of C14 not recognised", len(supp), len(expire))
		return
	}
	sT, eT := supp[0], expire[0]
	// ---- thresholds
	{
		st, d := report.Discharged, ""
		if sT.k != -5e9 || sT.field != "updateTime" {
			st, d = report.Violated, fmt.Sprintf("the re-request test compares now%+.1fs with .%s (expected now-5s with the last-progress time updateTime)", float64(sT.k)/1e9, sT.field)
		}
		if !sT.older {
			st, d = report.Violated, "the re-request test is true while the last progress is *younger* than the threshold (the comparison is the wrong way round): transfers that are making progress are asked for again, idle ones never"
		}
		R.Add("S.thresholds", shortFn(sT.fn)+" / idle test", c.P.RelPos(sT.after.Pos()), st, d)
		st, d = report.Discharged, ""
		if eT.k != -60e9 || eT.field != "createTime" {
			st, d = report.Violated, fmt.Sprintf("the expiry test compares now%+.1fs with .%s (expected now-60s with the creation time createTime: the last-progress time is refreshed by every packet and every re-request, so a transfer would never expire)", float64(eT.k)/1e9, eT.field)
		}
		if !eT.older {
			st, d = report.Violated, "the expiry test is true while the transfer is *younger* than the limit (the comparison is the wrong way round): a transfer is discarded at the end of the read that started it, and nothing ever expires after 60 s"
		}
		R.Add("S.thresholds", shortFn(eT.fn)+" / expiry test", c.P.RelPos(eT.after.Pos()), st, d)
		// createTime written only at creation (composite literal of a fresh record)
		var bad []string
		n := 0
		for _, fn := range c.RepoFuncs("service") {
			for _, s := range storesToField(fn, "packageComplete", "createTime") {
				n++
				fa := s.Addr.(*ssa.FieldAddr)
				if al, ok := fa.X.(*ssa.Alloc); !ok || al.Parent() != fn {
					bad = append(bad, c.P.RelPos(s.Pos()))
				}
			}
		}
		st, d = report.Discharged, ""
		if len(bad) > 0 || n == 0 {
			st, d = report.Violated, fmt.Sprintf("the creation time is (re)written outside the construction of the record at %v (%d stores): the 60 s limit no longer counts from the beginning of the transfer", bad, n)
		}
		R.Add("S.thresholds", "packageComplete.createTime / written only when the record is created", "", st, d)
	}
	// ---- missing list
	fn := sT.fn
	idleBlock := sT.after.Block()
	outerV := sT.owner // the record of the transfer
	{
		stores := storesToFieldAny(fn, "AgainPackageList")
		ok, d := len(stores) == 1, fmt.Sprintf("%d stores to AgainPackageList", len(stores))
		var list ssa.Value
		if ok {
			list = stores[0].Val
			roots, phis, apps := appendChain(list)
			for _, r := range roots {
				mk, isMk := r.(*ssa.MakeSlice)
				if !isMk {
					// go/ssa: make with constant size is `slice (new [n]T)[:k]`
					if sl, isSl := r.(*ssa.Slice); isSl {
						if _, isAl := sl.X.(*ssa.Alloc); isAl {
							hi, _ := constInt(sl.High)
							if sl.High != nil && hi == 0 {
								if !(idleBlock.Dominates(sl.Block()) && sl.Block() != idleBlock) {
									ok, d = false, fmt.Sprintf("the missing list starts from a buffer created at %s, outside the per-transfer part of the loop: the numbers collected for one transfer leak into the next one's re-request", c.P.RelPos(sl.Pos()))
								}
								continue
							}
						}
					}
					ok, d = false, fmt.Sprintf("the missing list starts from %s, not from a fresh empty slice", r.String())
					continue
				}
				if l, isC := constInt(mk.Len); !isC || l != 0 {
					ok, d = false, "the missing list does not start empty"
				}
				if !(idleBlock.Dominates(mk.Block()) && mk.Block() != idleBlock) {
					ok, d = false, fmt.Sprintf("the missing list starts from a buffer created at %s, outside the per-transfer part of the loop: the numbers collected for one transfer leak into the next one's re-request", c.P.RelPos(mk.Pos()))
				}
			}
			for _, p := range phis {
				if !(idleBlock.Dominates(p.Block()) && p.Block() != idleBlock) {
					ok, d = false, fmt.Sprintf("the missing list is carried around the per-transfer loop (phi at %s): the numbers collected for one transfer leak into the next one's re-request", c.P.RelPos(p.Pos()))
				}
			}
			if len(apps) != 1 {
				ok, d = false, fmt.Sprintf("%d append sites build the missing list (expected one)", len(apps))
			} else if ok {
				app := apps[0]
				el, isEl := singleAppended(app)
				var idx ssa.Value
				if isEl {
					if cv, isCv := el.(*ssa.Convert); isCv {
						el = cv.X
					}
					if bo, isBo := el.(*ssa.BinOp); isBo && bo.Op == token.ADD {
						if one, isOne := constInt(bo.Y); isOne && one == 1 {
							idx = bo.X
						}
					}
				}
				if idx == nil {
					ok, d = false, "the appended package number is not index+1 of the slot loop"
				} else {
					slots, asc := ascendingIndexOver(idx)
					if !asc {
						ok, d = false, "the slot loop is not an ascending index loop from 0 with step 1: the named package numbers are not in ascending order / not complete"
					} else {
						// slots = Lookup(p.subcontractingRecord, id) with id = key of the outer range
						lk, isLk := slots.(*ssa.Lookup)
						if !isLk {
							ok, d = false, "the slot table is not looked up in the transfer map"
						} else {
							_, f, _ := fieldLoad(lk.X)
							keyOK := false
							if ex, isEx := lk.Index.(*ssa.Extract); isEx && ex.Index == 1 {
								if ov, isOv := outerV.(*ssa.Extract); isOv && ov.Tuple == ex.Tuple {
									keyOK = true
								}
							}
							if f != "subcontractingRecord" || !keyOK {
								ok, d = false, "the slot table examined is not the one stored under the id of the transfer being re-requested"
							}
						}
						// guard: append dominated by the true edge of len(slots[idx]) == 0
						guardOK := false
						for _, b := range fn.Blocks {
							iff, isIf := b.Instrs[len(b.Instrs)-1].(*ssa.If)
							if !isIf {
								continue
							}
							cmp, isCmp := iff.Cond.(*ssa.BinOp)
							if !isCmp {
								continue
							}
							ln, isLn := cmp.X.(*ssa.Call)
							if !isLn {
								continue
							}
							bi, isB := ln.Call.Value.(*ssa.Builtin)
							if !isB || bi.Name() != "len" {
								continue
							}
							ld, isLd := ln.Call.Args[0].(*ssa.UnOp)
							if !isLd {
								continue
							}
							ia, isIA := ld.X.(*ssa.IndexAddr)
							if !isIA || ia.X != slots || ia.Index != idx {
								continue
							}
							z, isZ := constInt(cmp.Y)
							if !isZ || z != 0 {
								continue
							}
							var side *ssa.BasicBlock
							other := b.Succs[1]
							switch cmp.Op {
							case token.EQL, token.LEQ:
								side = b.Succs[0]
							case token.NEQ, token.GTR:
								side, other = b.Succs[1], b.Succs[0]
							}
							if side != nil && side != other && side.Dominates(app.Block()) && len(side.Preds) == 1 {
								guardOK = true
							}
						}
						if ok && !guardOK {
							ok, d = false, "the package number is not appended exactly under `len(slot) == 0` of the slot at that index: the list names packages that arrived or omits missing ones"
						}
					}
				}
			}
		}
		st := report.Discharged
		if !ok {
			st = report.Violated
		}
		R.Add("S.missing-list", shortFn(fn)+" / list = empty slots of this transfer, ascending, fresh per transfer", c.P.RelPos(fn.Pos()), st, d)
		// count, serial, header
		if list != nil {
			ok, d = false, "AgainPackageCount is not len(list) of the list that is sent"
			for _, s := range storesToFieldAny(fn, "AgainPackageCount") {
				v := s.Val
				if cv, isCv := v.(*ssa.Convert); isCv {
					v = cv.X
				}
				if ln, isLn := v.(*ssa.Call); isLn {
					if bi, isB := ln.Call.Value.(*ssa.Builtin); isB && bi.Name() == "len" && ln.Call.Args[0] == list {
						ok, d = true, ""
					}
				}
			}
			st = report.Discharged
			if !ok {
				st = report.Violated
			}
			R.Add("S.missing-list", shortFn(fn)+" / count = len(list)", c.P.RelPos(fn.Pos()), st, d)
			ok, d = false, "OriginalSerialNumber is not the stored first header's SerialNumber of this transfer"
			for _, s := range storesToFieldAny(fn, "OriginalSerialNumber") {
				root, path := loadPath(s.Val)
				if root == outerV && strings.Join(path, ".") == "initHeader.SerialNumber" {
					ok, d = true, ""
				}
			}
			st = report.Discharged
			if !ok {
				st = report.Violated
			}
			R.Add("S.missing-list", shortFn(fn)+" / original serial = first packet's serial", c.P.RelPos(fn.Pos()), st, d)
			ok, d = false, "the re-request is not encoded with the stored first header of this transfer (addressing)"
			var enc *ssa.Call
			for _, b := range fn.Blocks {
				for _, ins := range b.Instrs {
					if call, isC := ins.(*ssa.Call); isC {
						if sc := call.Call.StaticCallee(); sc != nil && sc.Name() == "Encode" && strings.Contains(sc.String(), "jt808.Header") {
							enc = call
							root, path := loadPath(call.Call.Args[0])
							if root == outerV && strings.Join(path, ".") == "initHeader" {
								ok, d = true, ""
							}
						}
					}
				}
			}
			st = report.Discharged
			if !ok {
				st = report.Violated
			}
			R.Add("S.missing-list", shortFn(fn)+" / encoded with the first packet's header", c.P.RelPos(fn.Pos()), st, d)
			// ---- rate limit
			if enc != nil {
				hit := pathsFromMustHit(enc, func(ins ssa.Instruction) bool {
					s, isS := ins.(*ssa.Store)
					if !isS {
						return false
					}
					fa, isFA := s.Addr.(*ssa.FieldAddr)
					if !isFA || fa.X != outerV {
						return false
					}
					stt := fa.X.Type().Underlying().(*types.Pointer).Elem().Underlying().(*types.Struct)
					if stt.Field(fa.Field).Name() != "updateTime" {
						return false
					}
					call, isC := s.Val.(*ssa.Call)
					return isC && call.Call.StaticCallee() != nil && call.Call.StaticCallee().String() == "time.Now"
				})
				// pathsFromMustHit is about paths to a return; the loop goes back to the head: require the store in the emitting block chain
				st, d = report.Discharged, ""
				if !hit {
					st, d = report.Violated, "a path emits a re-request without refreshing the last-progress time: the same re-request is sent again on every following read instead of at most once per 5 s"
				}
				R.Add("S.rate-limit", shortFn(fn)+" / time.Now() stored to updateTime after every emitted re-request", c.P.RelPos(enc.Pos()), st, d)
			}
		}
	}
	// ---- expiry
	{
		efn := eT.fn
		ok, d := false, "the expiry branch does not remove the transfer"
		var removeFn *ssa.Function
		if eT.iff != nil {
			then := eT.iff.Block().Succs[0]
			for _, ins := range then.Instrs {
				call, isC := ins.(*ssa.Call)
				if !isC || call.Call.StaticCallee() == nil || len(call.Call.Args) != 2 {
					continue
				}
				// key = key of the range that yields the tested record
				if ex, isEx := call.Call.Args[1].(*ssa.Extract); isEx && ex.Index == 1 {
					if ov, isOv := eT.owner.(*ssa.Extract); isOv && ov.Tuple == ex.Tuple {
						removeFn = call.Call.StaticCallee()
						ok, d = true, ""
					}
				}
			}
		}
		if ok {
			// removeFn deletes both maps under its parameter
			del := map[string]bool{}
			for _, b := range removeFn.Blocks {
				for _, ins := range b.Instrs {
					if call, isD := isBuiltinCall(ins, "delete"); isD {
						if _, f, isF := fieldLoad(call.Call.Args[0]); isF && call.Call.Args[1] == ssa.Value(removeFn.Params[1]) {
							del[f] = true
						}
					}
				}
			}
			if !del["subcontractingRecord"] || !del["timeoutRecord"] {
				ok, d = false, fmt.Sprintf("%s does not delete the given id from both the slot map and the time map (%v): an expired transfer can still be completed and delivered", shortFn(removeFn), del)
			}
		}
		st := report.Discharged
		if !ok {
			st = report.Violated
		}
		R.Add("S.expiry", shortFn(efn)+" / expired transfer removed from both maps under its own id", c.P.RelPos(efn.Pos()), st, d)
		// order in the caller: expiry before re-request in the same pass
		nOrder := 0
		for _, caller := range c.RepoFuncs("service") {
			var ce, cs *ssa.Call
			for _, b := range caller.Blocks {
				for _, ins := range b.Instrs {
					if call, isC := ins.(*ssa.Call); isC {
						if call.Call.StaticCallee() == efn {
							ce = call
						}
						if call.Call.StaticCallee() == fn {
							cs = call
						}
					}
				}
			}
			if cs == nil {
				continue
			}
			nOrder++
			ok := ce != nil && (ce.Block() == cs.Block() && instrIndex(ce) < instrIndex(cs) || ce.Block() != cs.Block() && ce.Block().Dominates(cs.Block()))
			st := report.Discharged
			if !ok {
				st = report.Violated
			}
			R.Add("S.expiry", shortFn(caller)+" / expiry runs before re-requests are built", c.P.RelPos(cs.Pos()), st, "a transfer older than 60 s is still re-requested in the pass that should discard it")
		}
		if nOrder == 0 {
			R.Fatal("no caller of %s found", shortFn(fn))
		}
		// creation by packet 1 with its header (shared with C05)
		c.recordCreationRule("S.expiry")
	}
	// ---- progress: every stored packet refreshes the last-progress time (the 5 s are counted from the last arrival)
	{
		cp := c.P.Method("service", "packageParse", "completePack")
		ok, d := false, "no slot store found in completePack"
		if cp != nil {
			for _, b := range cp.Blocks {
				for _, ins := range b.Instrs {
					st, isSt := ins.(*ssa.Store)
					if !isSt {
						continue
					}
					ia, isIA := st.Addr.(*ssa.IndexAddr)
					if !isIA {
						continue
					}
					toTable := false
					for _, o := range c.origins(ia.X, nil, nil) {
						if o.Kind == "field" && strings.HasSuffix(o.Name, ".subcontractingRecord") {
							toTable = true
						}
					}
					if !toTable {
						continue
					}
					hit := pathsFromMustHit(st, func(x ssa.Instruction) bool {
						s2, isS := x.(*ssa.Store)
						if !isS {
							return false
						}
						fa, isFA := s2.Addr.(*ssa.FieldAddr)
						if !isFA {
							return false
						}
						stt := fa.X.Type().Underlying().(*types.Pointer).Elem().Underlying().(*types.Struct)
						if stt.Field(fa.Field).Name() != "updateTime" {
							return false
						}
						call, isC := s2.Val.(*ssa.Call)
						return isC && call.Call.StaticCallee() != nil && call.Call.StaticCallee().String() == "time.Now"
					})
					if hit {
						ok, d = true, ""
					} else {
						ok, d = false, "a packet is stored into its slot on a path that does not refresh the transfer's last-progress time: the 5 s idle period is counted from an older event and a terminal that is still sending gets re-requests"
					}
				}
			}
		}
		st := report.Discharged
		if !ok {
			st = report.Violated
		}
		R.Add("S.rate-limit", "(*service.packageParse).completePack / storing a packet refreshes the last-progress time", "", st, d)
	}
	// ---- route
	{
		reader := c.P.Method("service", "connection", "reader")
		writer := c.P.Method("service", "connection", "write")
		okS, okR := false, false
		if reader != nil {
			for _, rf := range c.familyOf(reader) { // the reader and the helpers its loop body may be split into
				for _, b := range rf.Blocks {
					for _, ins := range b.Instrs {
						if s, isS := ins.(*ssa.Send); isS {
							if _, f, _ := fieldLoad(s.Chan); f == "reissuePackChan" {
								// under Command == 0x8003
								for _, b2 := range rf.Blocks {
									if iff, isIf := b2.Instrs[len(b2.Instrs)-1].(*ssa.If); isIf {
										if cmp, isCmp := iff.Cond.(*ssa.BinOp); isCmp && cmp.Op == token.EQL {
											if k, isK := constInt(cmp.Y); isK && k == 0x8003 && edgeDominates(b2, 0, b) {
												okS = true
											}
										}
									}
								}
							}
						}
					}
				}
			}
		}
		if writer != nil {
			for _, b := range writer.Blocks {
				for _, ins := range b.Instrs {
					if sel, isSel := ins.(*ssa.Select); isSel {
						for _, s := range sel.States {
							if _, f, _ := fieldLoad(s.Chan); f == "reissuePackChan" && s.Dir == types.RecvOnly {
								okR = true
							}
						}
					}
				}
			}
		}
		st := report.Discharged
		if !okS {
			st = report.Violated
		}
		R.Add("S.route", "connection.reader / a message with command 0x8003 goes to the re-request channel", "", st, "the reader does not forward re-requests to the re-request channel")
		st = report.Discharged
		if !okR {
			st = report.Violated
		}
		R.Add("S.route", "connection.write / the writer consumes the re-request channel", "", st, "nothing receives from the re-request channel: re-requests are never written")
	}
	// E1 bounds of both functions
	res := c.RunE1([]*ssa.Function{sT.fn, eT.fn}, true, nil)
	c.AddE1(res, false)
	R.Require("S.thresholds", 3, "")
	R.Require("S.missing-list", 4, "")
	R.Require("S.rate-limit", 2, "")
	R.Require("S.expiry", 3, "")
	R.Require("S.route", 2, "")
	// a transfer that is complete (or expired) leaves no timer record behind: the re-request pass iterates over the
	// timer records, so a stale one produces 0x8003 frames for a message that needs nothing
	R.Rules["S.paired-maps"] = "the slot table and the timer record of a transfer are created and deleted together, under the same key, in every function (the re-request pass runs over the timer records: a record without a pending slot table asks again for a message that was already delivered)"
	c.pairedMapsLemma("service", "packageParse", "subcontractingRecord", "timeoutRecord")
	R.Require("S.paired-maps", 3, "")
	// ---- idle time is judged after the packets of the current read were filed
	{
		R.Rules["S.pass-order"] = "within one pass over a read, the re-request builder runs after every packet of that read was filed: no call of completePack is reachable from the call of the re-request builder (a packet that arrives after more than 5 s of silence must count before the silence is judged - otherwise it is named again in a new 0x8003, or a transfer it has just completed is re-requested)"
		cpk := c.P.Method("service", "packageParse", "completePack")
		n := 0
		if cpk != nil {
			for _, fn := range c.RepoFuncs("service") {
				var buildCalls, fileCalls []*ssa.Call
				for _, b := range fn.Blocks {
					for _, ins := range b.Instrs {
						if call, isC := ins.(*ssa.Call); isC {
							switch call.Call.StaticCallee() {
							case sT.fn:
								buildCalls = append(buildCalls, call)
							case cpk:
								fileCalls = append(fileCalls, call)
							}
						}
					}
				}
				if len(buildCalls) == 0 || len(fileCalls) == 0 {
					continue
				}
				n++
				st, d := report.Discharged, ""
				for _, bc := range buildCalls {
					for _, fc := range fileCalls {
						reach := false
						if bc.Block() == fc.Block() {
							for _, ins := range bc.Block().Instrs {
								if ins == ssa.Instruction(bc) {
									reach = true // the builder comes first in the block
									break
								}
								if ins == ssa.Instruction(fc) {
									break
								}
							}
						}
						seen := map[*ssa.BasicBlock]bool{}
						var w func(x *ssa.BasicBlock)
						w = func(x *ssa.BasicBlock) {
							if seen[x] {
								return
							}
							seen[x] = true
							if x == fc.Block() {
								reach = true
							}
							for _, su := range x.Succs {
								w(su)
							}
						}
						for _, su := range bc.Block().Succs {
							w(su)
						}
						if reach {
							st, d = report.Violated, fmt.Sprintf("the re-request builder is called at %s before the packets of the read are filed at %s: the idle time is judged on the state before this read, so a packet that has just arrived is asked for again", c.P.RelPos(bc.Pos()), c.P.RelPos(fc.Pos()))
						}
					}
				}
				R.Add("S.pass-order", shortFn(fn)+" / packets are filed before the idle time is judged", c.P.RelPos(fn.Pos()), st, d)
			}
		}
		if n == 0 {
			R.Add("S.pass-order", "service / packets are filed before the idle time is judged", "", report.Undecided, "no function calls both completePack and the re-request builder (anchor)")
		}
		R.Require("S.pass-order", 1, "")
	}
	// ---- the 0x8003 body itself: what the server encodes is what a terminal's parser reads, for every count up to 255
	c.narrowArith(func(fn *ssa.Function) bool { return strings.Contains(c.P.RelPos(fn.Pos()), "p_0x8003.go") }, 2, true)
	R.Require("S.narrow-arith", 2, "")
	R.Rules["E3.roundtrip-list"] = "the 0x8003 encoder appends one contiguous 2-byte record per list element behind the 3-byte head; the parser reads element i at 3 + 2*i (see C07)"
	for _, t0 := range c.c07Types() {
		if t0.name != "P0x8003" {
			continue
		}
		c.c07Extract(t0)
		if lr := c.c07List(t0); lr.decided {
			st, d := report.Discharged, ""
			if len(lr.problems) > 0 {
				st, d = report.Violated, strings.Join(lr.problems, "; ")
			}
			R.Add("E3.roundtrip-list", fmt.Sprintf("P0x8003 / records of %d bytes from offset %d", lr.stride, lr.base), c.P.RelPos(t0.enc.Pos()), st, d)
		} else {
			R.AddInfo("E3.roundtrip-list", "P0x8003 / not covered", "", report.Undecided, "the encoder's loop is not of the append-one-record-per-element form the list comparison describes ("+lr.why+"); the body layout is not decided here")
		}
	}
	R.Explain = "The wall-clock behaviour (5 s idle, 60 s expiry measured in real time) is not decided. Decided for all inputs: which stored time each threshold is compared with and the folded constants; that the creation time is never rewritten; that the missing list is rebuilt per transfer by an ascending scan of that transfer's slot table naming exactly the empty slots; count / original serial / addressing of the 0x8003; the rate-limit store; expiry removes both map entries before re-requests are built; completion removes both as well (paired maps); routing to the writer; the 0x8003 encoder / parser pair (record layout, no 8/16-bit arithmetic in offsets)."
}

func storesToFieldAny(fn *ssa.Function, field string) []*ssa.Store {
	var out []*ssa.Store
	for _, b := range fn.Blocks {
		for _, ins := range b.Instrs {
			st, ok := ins.(*ssa.Store)
			if !ok {
				continue
			}
			fa, ok := st.Addr.(*ssa.FieldAddr)
			if !ok {
				continue
			}
			s := fa.X.Type().Underlying().(*types.Pointer).Elem().Underlying().(*types.Struct)
			if s.Field(fa.Field).Name() == field {
				out = append(out, st)
			}
		}
	}
	return out
}

func instrIndex(ins ssa.Instruction) int {
	for i, x := range ins.Block().Instrs {
		if x == ins {
			return i
		}
	}
	return -1
}

// recordCreationRule (shared by C05 and C14): the per-ID record - slot table, creation time, first header - is created
// exactly by the packets numbered 1, by every one of them, with that packet's header.
func (c *Ctx) recordCreationRule(rule string) {
	R := c.R
	{
		addFn := c.P.Method("service", "packageParse", "add")
		cp := c.P.Method("service", "packageParse", "completePack")
		if addFn == nil || cp == nil {
			R.Fatal("anchors packageParse.add / completePack not found")
		} else {
			ok, d := false, "completePack never creates a record"
			for _, b := range cp.Blocks {
				for _, ins := range b.Instrs {
					call, isC := ins.(*ssa.Call)
					if !isC || call.Call.StaticCallee() != addFn {
						continue
					}
					ok, d = false, "the record is not created exactly by the packet numbered 1"
					for _, b2 := range cp.Blocks {
						iff, isIf := b2.Instrs[len(b2.Instrs)-1].(*ssa.If)
						if !isIf {
							continue
						}
						cmp, isCmp := iff.Cond.(*ssa.BinOp)
						if !isCmp || cmp.Op != token.EQL {
							continue
						}
						one, isOne := constInt(cmp.Y)
						if !isOne || one != 1 {
							continue
						}
						v := cmp.X
						if cv, isCv := v.(*ssa.Convert); isCv {
							v = cv.X
						}
						_, path := loadPath(v)
						if len(path) > 0 && path[len(path)-1] == "SubPackageNo" && edgeDominates(b2, 0, b) {
							ok, d = true, ""
							// … by every packet numbered 1: no path from the test's true side to the code behind it avoids the creation
							seen := map[*ssa.BasicBlock]bool{b: true}
							work := []*ssa.BasicBlock{b2.Succs[0]}
							for len(work) > 0 {
								x := work[len(work)-1]
								work = work[:len(work)-1]
								if seen[x] {
									continue
								}
								seen[x] = true
								if x == b2.Succs[1] {
									ok, d = false, "a packet numbered 1 can reach the slot store without a fresh record being created (when a record for the ID exists already): a restarted transfer inherits the abandoned one's creation time, first header (the serial named in the 0x8003) and slots"
									break
								}
								work = append(work, x.Succs...)
							}
						}
					}
					// header argument is the message's header
					_, hp := loadPath(call.Call.Args[2])
					if ok && !(len(hp) > 0 && hp[len(hp)-1] == "Header") {
						ok, d = false, "the stored first header is not the header of the packet numbered 1"
					}
				}
			}
			st := report.Discharged
			if !ok {
				st = report.Violated
			}
			R.Add(rule, shortFn(cp)+" / the record (creation time, first header) is created by packet 1", c.P.RelPos(cp.Pos()), st, d)
		}
	}
}

// transferSurvivesReads (C05): the sweep that runs after every read discards a pending transfer only when its creation
// lies further back than a positive limit. With the comparison the wrong way round - or a limit of zero - the slot table
// created by packet 1 is gone before packet 2 arrives in the next read, and nothing is ever reassembled across reads.
func (c *Ctx) transferSurvivesReads(rule string) {
	R := c.R
	R.Rules[rule] = "the expiry sweep removes a pending transfer only when the current time is later than its creation time plus a positive limit (normalised from the After/Before/Add forms): a transfer whose packets arrive in separate reads survives between them"
	n := 0
	for _, fn := range c.RepoFuncs("service") {
		builds := false
		for _, ff := range c.familyOf(fn) {
			if len(storesToFieldAny(ff, "AgainPackageList")) > 0 {
				builds = true
			}
		}
		if builds {
			continue // the re-request builder's idle test (C14), wherever the 0x8003 itself is put together
		}
		for _, tt := range findTimeTests(fn) {
			n++
			st, d := report.Discharged, ""
			switch {
			case !tt.older:
				st, d = report.Violated, "the sweep's test is true while the transfer is younger than the limit: every transfer is discarded at the end of the read that created it"
			case -tt.k <= 0:
				st, d = report.Violated, fmt.Sprintf("the sweep's limit is %.1fs: a transfer is discarded as soon as the clock moves", float64(-tt.k)/1e9)
			case tt.field != "createTime":
				st, d = report.Undecided, "the sweep compares the current time with ."+tt.field+", not with the creation time of the transfer"
			}
			R.Add(rule, shortFn(fn)+" / "+c.constructOf(fn, tt.after), c.P.RelPos(tt.after.Pos()), st, d)
		}
	}
	if n == 0 {
		R.Add(rule, "service / expiry sweep", "", report.Undecided, "no comparison of the current time with a stored time found outside the re-request builder (anchor)")
	}
	R.Require(rule, 1, "")
}
