package checks

import (
	"fmt"
	"go/constant"
	"go/types"
	"os"
	"regexp"
	"sort"
	"strconv"
	"strings"

	"golang.org/x/tools/go/ssa"

	"jtverif/internal/absint"
	"jtverif/internal/report"
)

func init() {
	register(&Check{ID: "C01", Level: "other", Run: runC01})
}

var c01Debug = os.Getenv("JTVERIF_C01") != ""

type encObs struct {
	kind string // version | phone | serial | body | checksum | other
	pos  absint.Lin
	ok   bool
	d    string
	site ssa.Instruction
}

func runC01(c *Ctx) {
	c.E1Rules()
	c.E1Assumptions()
	R := c.R
	R.Rules["T.escape"] = "escape implements the transducer out = 7e · E(d0)…E(dn-1) · 7e with E(7e)=7d 02, E(7d)=7d 01, E(b)=b: every write to the output is justified against ghost positions (input consumed, prefix proven free of each special byte) that the loop-invariant inference relates to the function's own counters"
	R.Rules["T.unescape"] = "unescape implements the inverse transducer on the interior of a delimited frame (7d 01 -> 7d, 7d 02 -> 7e, other bytes verbatim, a 7d as last interior byte literal), consumes the whole interior on every successful return and fails only for malformed input"
	R.Rules["E3.writer"] = "Header.Encode writes, on every path: ID (ReplyID, or the message ID when it is 0) @0, the property word @2 with fragment bit 0 and length = len(body), the version byte 0x01 @4 exactly for 2019 headers, the BCD phone, the platform serial big-endian, the body, then the checksum of everything written so far, and returns escape() of that; positions are the sums of the lengths written before"
	R.Rules["E3.property-word"] = "BodyProperty.encode places each field at the bit position BodyProperty.decode reads it from, and the fields the reader extracts do not overlap (a reader field wider than the gap to the next writer position corrupts the neighbouring flag on re-encoding)"
	esc := c.P.Func("protocol/jt808", "escape")
	une := c.P.Func("protocol/jt808", "unescape")
	enc := c.P.Method("protocol/jt808", "Header", "Encode")
	pdec := c.P.Method("protocol/jt808", "BodyProperty", "decode")
	penc := c.P.Method("protocol/jt808", "BodyProperty", "encode")
	if esc == nil || une == nil || enc == nil || pdec == nil || penc == nil {
		R.Fatal("anchors jt808.escape / unescape / Header.Encode / BodyProperty.decode / encode not found")
		return
	}
	c.verifyTransducer(esc, tdEscape, "T.escape")
	c.verifyTransducer(une, tdUnescape, "T.unescape")
	c.headerWriter(enc, esc)
	c.propertyWord(pdec, penc)
	R.Require("T.escape", 6, "")
	R.Require("T.unescape", 8, "")
	R.Require("E3.writer", 9, "")
	R.Require("E3.property-word", 5, "")
	R.Explain = "Decided for all inputs: escape and unescape implement the standard's byte-stuffing transducers (so unescape∘escape is the identity and the escaped interior contains no 0x7e), by abstract interpretation with ghost input positions related to the functions' own counters by inferred loop invariants; Header.Encode's layout, fragment bit, length field, checksum coverage and final escape; agreement of the property word's writer and reader. " +
		"The header reader is verified against the standard in C02. Not decided here: equality of concrete byte strings beyond these structural facts (e.g. BCD digits of the phone), bodies longer than 1023 bytes (input assumption of the property)."
}

func (c *Ctx) constOf(pkgRel, name string) (int64, bool) {
	p := c.P.Pkg(pkgRel)
	if p == nil {
		return 0, false
	}
	k, ok := p.Pkg.Scope().Lookup(name).(*types.Const)
	if !ok {
		return 0, false
	}
	v, ok := constant.Int64Val(k.Val())
	return v, ok
}

func (c *Ctx) headerWriter(enc, esc *ssa.Function) {
	R := c.R
	name := shortFn(enc)
	v2019, ok := c.constOf("shared/consts", "JT808Protocol2019")
	if !ok {
		R.Fatal("constant consts.JT808Protocol2019 not found")
		return
	}
	var hdr, body absint.Term
	var ht types.Type
	psn16 := false
	if hs, ok := enc.Params[0].Type().Underlying().(*types.Pointer).Elem().Underlying().(*types.Struct); ok {
		for i := 0; i < hs.NumFields(); i++ {
			if hs.Field(i).Name() == "PlatformSerialNumber" {
				if b, isB := hs.Field(i).Type().Underlying().(*types.Basic); isB && b.Kind() == types.Uint16 {
					psn16 = true // x>>8 of a uint16 is its high byte
				}
			}
		}
	}
	var obs []encObs
	type wr struct {
		off   absint.Lin
		ok    bool
		d     string
		which string
	}
	var writes []wr
	// Header.Encode and the methods of Header it hands part of the assembly to (a head builder, say)
	encFam := map[*ssa.Function]bool{enc: true}
	for _, ff := range c.familyOf(enc) {
		if ff.Signature.Recv() != nil {
			if nt, okN := derefNamedType(ff.Signature.Recv().Type()); okN && nt.Obj().Name() == "Header" {
				encFam[ff] = true
			}
		}
	}
	res := c.RunE1([]*ssa.Function{enc}, false, func(a *absint.Analyzer, f *ssa.Function, st *absint.State, args []absint.Term) {
		hdr, body, ht = args[0], args[1], f.Params[0].Type()
		a.NameFields(st, hdr, ht, "", 0)
		if bs, ok := body.(*absint.Slice); ok {
			bs.Base.Desc = "$body"
		}
		fld := func(st *absint.State, path ...string) absint.Term { return findField(a, st, hdr, ht, path) }
		isPV2019 := func(st *absint.State) (yes, no bool) {
			pv, ok := fld(st, "ProtocolVersion").(absint.Int)
			if !ok {
				return false, false
			}
			return st.Entails(absint.Con{L: pv.L.AddC(-v2019), Rel: absint.EQ}), !st.Feasible(absint.Con{L: pv.L.AddC(-v2019), Rel: absint.EQ})
		}
		start := func(st *absint.State) (absint.Lin, bool) {
			y, n := isPV2019(st)
			switch {
			case y:
				return absint.Const(5), true
			case n:
				return absint.Const(4), true
			}
			return absint.Lin{}, false
		}
		wordWrite := func(st *absint.State, off absint.Lin, width int64, val absint.Term) {
			if width != 2 || !off.IsConst() {
				writes = append(writes, wr{off, false, fmt.Sprintf("unexpected %d-byte write at %s", width, off), "?"})
				return
			}
			vi, _ := val.(absint.Int)
			switch off.C {
			case 0:
				rid, _ := fld(st, "ReplyID").(absint.Int)
				id, _ := fld(st, "ID").(absint.Int)
				ok := st.Entails(eqC(vi.L, rid.L)) && !st.Feasible(absint.Con{L: rid.L, Rel: absint.EQ}) ||
					st.Entails(absint.Con{L: rid.L, Rel: absint.EQ}) && st.Entails(eqC(vi.L, id.L))
				writes = append(writes, wr{off, ok, "the message ID written is " + a.Render(val) + "; expected ReplyID, or ID when ReplyID is 0", "id"})
			case 2:
				pf, _ := fld(st, "Property", "*", "PacketFragmented").(absint.Int)
				bl, _ := fld(st, "Property", "*", "BodyDayaLen").(absint.Int)
				bs, _ := body.(*absint.Slice)
				okPF := st.Entails(absint.Con{L: pf.L, Rel: absint.EQ})
				okLen := false
				if bs != nil {
					if st.Entails(eqC(bl.L, bs.Len)) {
						okLen = true
					} else if at := bl.L.SingleAtom(); at != nil && at.Op == "conv" {
						if x, isI := at.Args[0].(absint.Int); isI && x.L.Equal(bs.Len) {
							okLen = true
						}
					}
				}
				// the word written is the encoding of the property fields as they are now
				parts, okP := absint.OrParts(val)
				okWord := okP
				var got []string
				if okP {
					want := map[string]int64{}
					for _, f := range []struct {
						n  string
						sh int64
					}{{"bit15", 15}, {"Version", 14}, {"PacketFragmented", 13}, {"EncryptMethod", 10}, {"BodyDayaLen", 0}} {
						if t := fld(st, "Property", "*", f.n); t != nil {
							want[t.TKey()] = f.sh
						}
					}
					for _, p := range parts {
						if iv, isI := p.Val.(absint.Int); isI && iv.L.IsConst() && iv.L.C == 0 {
							continue
						}
						sh, known := want[p.Val.TKey()]
						got = append(got, fmt.Sprintf("%s<<%d", a.Render(p.Val), p.Shift))
						if !known || sh != p.Shift {
							okWord = false
						}
					}
				}
				d := ""
				switch {
				case !okPF:
					d = "the property word is written while PacketFragmented is not known to be 0: the frame announces sub-package fields that Encode never writes and cannot be decoded"
				case !okLen:
					d = "the length field written is " + a.Render(bl) + ", not len(body)"
				case !okWord:
					d = "the word written at offset 2 is not the encoding of the property fields: " + strings.Join(got, " | ")
				}
				writes = append(writes, wr{off, okPF && okLen && okWord, d, "property"})
			default:
				writes = append(writes, wr{off, false, fmt.Sprintf("unexpected write at offset %s", off), "?"})
			}
		}
		a.OnWrite = func(st *absint.State, dst *absint.Slice, width int64, val absint.Term) {
			wordWrite(st, dst.Off, width, val)
		}
		a.OnAppendUint = func(f2 *ssa.Function, site ssa.Instruction, st *absint.State, dst *absint.Slice, width int64, val absint.Term, le bool) {
			if !encFam[f2] {
				return
			}
			// the first two words of the head appended instead of stored into a 4-byte slice: the same obligations as for
			// the PutUint16 form
			if width == 2 && !le && dst.Len.IsConst() && (dst.Len.C == 0 || dst.Len.C == 2) {
				wordWrite(st, dst.Len, 2, val)
				return
			}
			// binary.BigEndian.AppendUint16(data, h.PlatformSerialNumber): the serial, big-endian
			o := encObs{kind: "other", pos: dst.Len, site: site, d: fmt.Sprintf("%d-byte integer appended at %s: not recognised", width, dst.Len)}
			psn, _ := fld(st, "PlatformSerialNumber").(absint.Int)
			bcd, _ := fld(st, "bcdTerminalPhoneNo").(*absint.Slice)
			s0, okS := start(st)
			if vi, isI := val.(absint.Int); isI && width == 2 {
				o.kind = "serial"
				o.ok = !le && okS && bcd != nil && st.Entails(eqC(dst.Len, s0.Add(bcd.Len))) && st.Entails(eqC(vi.L, psn.L))
				o.d = fmt.Sprintf("the 16-bit value %s is appended at %s (little-endian=%v); expected the platform serial big-endian right after the phone", a.Render(val), dst.Len, le)
			}
			obs = append(obs, o)
		}
		a.OnAppend = func(f2 *ssa.Function, site ssa.Instruction, st *absint.State, dst *absint.Slice, src absint.Term) {
			if !encFam[f2] {
				return
			}
			o := encObs{kind: "other", pos: dst.Len, site: site}
			ss, _ := src.(*absint.Slice)
			bcd, _ := fld(st, "bcdTerminalPhoneNo").(*absint.Slice)
			bs, _ := body.(*absint.Slice)
			s0, okS := start(st)
			switch {
			case ss == nil:
				o.d = "appended value not recognised"
			case bcd != nil && ss.Base == bcd.Base && ss.Off.Equal(bcd.Off) && ss.Len.Equal(bcd.Len):
				o.kind = "phone"
				o.ok = okS && st.Entails(eqC(dst.Len, s0))
				o.d = fmt.Sprintf("the BCD phone is written at %s; expected %s (after the version byte exactly for 2019 headers)", dst.Len, s0)
			case bs != nil && ss.Base == bs.Base && ss.Off.Equal(bs.Off) && ss.Len.Equal(bs.Len):
				o.kind = "body"
				o.ok = okS && bcd != nil && st.Entails(eqC(dst.Len, s0.Add(bcd.Len).AddC(2)))
				o.d = fmt.Sprintf("the body is written at %s; expected header start + len(phone) + 2", dst.Len)
			case len(ss.Base.Elems) == 1:
				if bsv, isC := constBytes(ss.Base.Elems); isC {
					o.kind = "version"
					y, _ := isPV2019(st)
					o.ok = bsv[0] == 1 && y && st.Entails(eqC(dst.Len, absint.Const(4)))
					o.d = fmt.Sprintf("constant byte %#x appended at %s (expected the version byte 0x01 at offset 4 on the 2019 path only)", bsv[0], dst.Len)
				} else {
					o.kind = "checksum"
					o.ok = okS && bcd != nil && bs != nil && st.Entails(eqC(dst.Len, s0.Add(bcd.Len).AddC(2).Add(bs.Len)))
					o.d = fmt.Sprintf("the checksum byte is appended at %s; expected right after the body", dst.Len)
				}
			case len(ss.Base.Elems) == 2:
				o.kind = "serial"
				hi, lo := a.Render(ss.Base.Elems[0]), a.Render(ss.Base.Elems[1])
				o.ok = okS && bcd != nil && st.Entails(eqC(dst.Len, s0.Add(bcd.Len))) &&
					(hi == "bits($PlatformSerialNumber,15,8)" || hi == "bits($PlatformSerialNumber,top,8)" && psn16) && lo == "bits($PlatformSerialNumber,7,0)"
				o.d = fmt.Sprintf("two bytes %s, %s appended at %s; expected the platform serial big-endian right after the phone", hi, lo, dst.Len)
			default:
				o.d = "appended value not recognised: " + a.Render(src)
			}
			if c01Debug {
				fmt.Printf("C01 append %s kind=%s ok=%v pos=%s src=%s\n", c.P.RelPos(site.Pos()), o.kind, o.ok, dst.Len, a.Render(src))
			}
			obs = append(obs, o)
		}
	})
	c.AddE1(res, false)
	// the frame handed to the caller is the caller's alone: it shares no storage with a pooled / re-used buffer
	// (a later Encode would rewrite it) nor with the header's or the body's own bytes
	R.Rules["E4.fresh-frame"] = "the byte slice returned by Header.Encode shares its backing array with no buffer that is handed back to a sync.Pool, truncated and re-appended, or otherwise overwritten later, and with neither the body argument nor the header's stored phone bytes: a frame stays the framing of its own message after later Encode calls"
	for _, r := range res {
		n := 0
		ok, d := true, ""
		for _, ret := range r.Rets {
			var s *absint.Slice
			switch v := ret.Val.(type) {
			case *absint.Slice:
				s = v
			case *absint.Tuple:
				if len(v.Elems) > 0 {
					s, _ = v.Elems[0].(*absint.Slice)
				}
			}
			if s == nil {
				continue
			}
			n++
			foreign := map[int]string{}
			if bs, isS := body.(*absint.Slice); isS {
				foreign[bs.Base.ID] = "the body argument"
			}
			for id, b := range absint.AliasClosure(s.Base) {
				if why, reused := r.A.Reused[id]; reused {
					ok, d = false, fmt.Sprintf("the returned frame shares its backing array with %s: %s", b.Desc, why)
				}
				if w, isF := foreign[id]; isF {
					ok, d = false, "the returned frame shares its backing array with "+w
				}
			}
		}
		st := report.Discharged
		if !ok || n == 0 {
			st = report.Violated
			if n == 0 {
				d = "no returned frame observed"
			}
		}
		R.Add("E4.fresh-frame", name+" / returned frame", c.P.RelPos(enc.Pos()), st, d)
	}
	// aggregate
	for _, which := range []string{"id", "property"} {
		ok, d, n := true, "", 0
		for _, w := range writes {
			if w.which == which {
				n++
				if !w.ok {
					ok, d = false, w.d
				}
			}
		}
		for _, w := range writes {
			if w.which == "?" {
				ok, d = false, w.d
			}
		}
		st := report.Discharged
		if !ok || n == 0 {
			st = report.Violated
			if n == 0 {
				d = "no such write observed"
			}
		}
		R.Add("E3.writer", name+" / "+which+" word", c.P.RelPos(enc.Pos()), st, d)
	}
	kinds := map[string][]encObs{}
	for _, o := range obs {
		kinds[o.kind] = append(kinds[o.kind], o)
	}
	for _, k := range []string{"version", "phone", "serial", "body", "checksum"} {
		ok, d := len(kinds[k]) > 0, "not written on any path"
		for _, o := range kinds[k] {
			if !o.ok {
				ok, d = false, o.d
			}
		}
		st := report.Discharged
		if !ok {
			st = report.Violated
		}
		R.Add("E3.writer", name+" / "+k, c.P.RelPos(enc.Pos()), st, d)
	}
	if len(kinds["other"]) > 0 {
		R.Add("E3.writer", name+" / nothing else is written", c.P.RelPos(kinds["other"][0].site.Pos()), report.Violated, kinds["other"][0].d)
	} else {
		R.Add("E3.writer", name+" / nothing else is written", c.P.RelPos(enc.Pos()), report.Discharged, "")
	}
	// SSA: chain order, checksum coverage, final escape
	{
		ok, d := true, ""
		var retVals []ssa.Value
		for _, b := range enc.Blocks {
			if ret, isRet := b.Instrs[len(b.Instrs)-1].(*ssa.Return); isRet {
				retVals = append(retVals, ret.Results[0])
			}
		}
		siteKind := map[ssa.Instruction]string{}
		for _, o := range obs {
			siteKind[o.site] = o.kind
		}
		for _, rv := range retVals {
			call, isC := rv.(*ssa.Call)
			if !isC || call.Call.StaticCallee() != esc {
				ok, d = false, "a return of Header.Encode does not return escape(...): the frame leaves without delimiters / byte stuffing"
				continue
			}
			last, isApp := isBuiltinCall(instrOf(call.Call.Args[0]), "append")
			if !isApp || siteKind[last] != "checksum" {
				ok, d = false, "the escaped data does not end with the checksum byte"
				continue
			}
			// checksum value = CreateVerifyCode(data before this append)
			el, isEl := singleAppended(last)
			cs, isCS := stripConv(el).(*ssa.Call)
			if !isEl || !isCS || cs.Call.StaticCallee() == nil || cs.Call.StaticCallee().Name() != "CreateVerifyCode" || cs.Call.Args[0] != last.Call.Args[0] {
				ok, d = false, "the byte appended last is not CreateVerifyCode of exactly the bytes written before it"
				continue
			}
			// order of the chain, back to front
			want := []string{"body", "serial", "phone"}
			cur := last.Call.Args[0]
			for _, w := range want {
				// the head of the frame may be built by another method of Header: the rest of the chain lies there; where each
				// part sits is established by the positional obligations above (phone at the header start, serial right after
				// it, body after the serial, checksum after the body)
				if hc, isHC := instrOf(cur).(*ssa.Call); isHC && hc.Call.StaticCallee() != nil && encFam[hc.Call.StaticCallee()] {
					break
				}
				app, dst, isA := appendLike(instrOf(cur))
				if !isA || siteKind[app] != w {
					ok, d = false, fmt.Sprintf("the frame is not assembled in the order phone, serial, body, checksum (expected %s before)", w)
					break
				}
				cur = dst
			}
		}
		st := report.Discharged
		if !ok || len(retVals) == 0 {
			st = report.Violated
		}
		R.Add("E3.writer", name+" / order, checksum coverage and final escape", c.P.RelPos(enc.Pos()), st, d)
	}
}

func instrOf(v ssa.Value) ssa.Instruction {
	if i, ok := v.(ssa.Instruction); ok {
		return i
	}
	return nil
}

var bitsRe = regexp.MustCompile(`^bits\((.+),(\d+),(\d+)\)$`)

func (c *Ctx) propertyWord(pdec, penc *ssa.Function) {
	R := c.R
	// reader: field -> (hi, lo) of the word
	type span struct{ hi, lo int64 }
	reader := map[string]span{}
	{
		a := c.NewE1(pkgOf(pdec), false)
		st := absint.NewState()
		var args []absint.Term
		for _, p := range pdec.Params {
			args = append(args, a.Unknown(p.Type(), p.Name(), st))
		}
		_, rets := a.RunEntry(pdec, st, args, nil)
		for _, r := range absint.Rets(rets) {
			for _, f := range []string{"Version", "PacketFragmented", "EncryptMethod", "BodyDayaLen"} {
				v, _ := a.LoadField(r.St, args[0], pdec.Params[0].Type(), f)
				s := a.Render(v)
				m := bitsRe.FindStringSubmatch(s)
				if m == nil || !strings.HasPrefix(m[1], "u16be(") {
					R.Add("E3.property-word", shortFn(pdec)+" / "+f, c.P.RelPos(pdec.Pos()), report.Violated, "the reader's value of "+f+" is "+s+", not a bit field of the property word")
					continue
				}
				hi, _ := strconv.ParseInt(m[2], 10, 64)
				lo, _ := strconv.ParseInt(m[3], 10, 64)
				reader[f] = span{hi, lo}
			}
		}
	}
	// writer: field -> shift
	writer := map[string]int64{}
	{
		a := c.NewE1(pkgOf(penc), false)
		st := absint.NewState()
		recv := a.Unknown(penc.Params[0].Type(), "p", st)
		a.NameFields(st, recv, penc.Params[0].Type(), "", 0)
		_, rets := a.RunEntry(penc, st, []absint.Term{recv}, nil)
		for _, r := range absint.Rets(rets) {
			parts, ok := absint.OrParts(r.Val)
			if !ok {
				R.Add("E3.property-word", shortFn(penc)+" / shape", c.P.RelPos(penc.Pos()), report.Violated, "the property word is not an OR of shifted fields: "+a.Render(r.Val))
				continue
			}
			for _, p := range parts {
				n := strings.TrimPrefix(a.Render(p.Val), "$")
				if m := bitsRe.FindStringSubmatch(n); m != nil {
					n = strings.TrimPrefix(m[1], "$")
				}
				writer[n] = p.Shift
			}
		}
	}
	var names []string
	for f := range reader {
		names = append(names, f)
	}
	sort.Strings(names)
	// next writer position above each field
	for _, f := range names {
		sp := reader[f]
		sh, ok := writer[f]
		st, d := report.Discharged, ""
		if !ok {
			st, d = report.Violated, "the writer does not place "+f+" into the property word"
		} else if sh != sp.lo {
			st, d = report.Violated, fmt.Sprintf("%s is read from bit %d but written at bit %d", f, sp.lo, sh)
		} else {
			for g, gsh := range writer {
				if g != f && gsh > sh && gsh <= sp.hi {
					st, d = report.Violated, fmt.Sprintf("%s is read as bits %d..%d; re-encoding it at bit %d spills into %s at bit %d (a fragmented request header then yields a reply announcing fragmentation)", f, sp.hi, sp.lo, sh, g, gsh)
				}
			}
		}
		R.Add("E3.property-word", "BodyProperty."+f, c.P.RelPos(penc.Pos()), st, d)
	}
	st, d := report.Discharged, ""
	if len(reader) < 4 || len(writer) < 4 {
		st, d = report.Violated, fmt.Sprintf("only %d reader fields and %d writer fields recognised", len(reader), len(writer))
	}
	R.Add("E3.property-word", "BodyProperty / all four fields recognised on both sides", "", st, d)
}

// appendLike: ins extends a byte slice: the builtin append(dst, …) or binary.{Big,Little}Endian.AppendUintN(dst, v).
func appendLike(ins ssa.Instruction) (call *ssa.Call, dst ssa.Value, ok bool) {
	if app, isApp := isBuiltinCall(ins, "append"); isApp {
		return app, app.Call.Args[0], true
	}
	if c2, isC := ins.(*ssa.Call); isC {
		if sc := c2.Call.StaticCallee(); sc != nil && strings.HasPrefix(sc.Name(), "AppendUint") && strings.Contains(sc.String(), "encoding/binary") && len(c2.Call.Args) >= 2 {
			return c2, c2.Call.Args[len(c2.Call.Args)-2], true
		}
	}
	return nil, nil, false
}
