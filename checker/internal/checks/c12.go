package checks

import (
	"fmt"
	"go/constant"
	"go/token"
	"go/types"
	"sort"
	"strings"

	"golang.org/x/tools/go/ssa"

	"jtverif/internal/absint"
	"jtverif/internal/report"
)

func init() {
	register(&Check{ID: "C12", Level: "other", Run: runC12})
}

type responsesSpec struct {
	Echo map[string]struct {
		Field   string `json:"field"`
		Layout  string `json:"layout"`
		MinBody int64  `json:"min_body"`
	} `json:"echo"`
	NoEcho map[string]string `json:"no_echo"`
}

func runC12(c *Ctx) {
	c.E1Rules()
	c.E1Assumptions()
	R := c.R
	R.Rules["E3.command"] = "a command is stamped with a fresh serial, recorded in the outstanding map under that same serial, encoded with it and written exactly once; the timeout message carries the same serial"
	R.Rules["E6.predicate"] = "each response type is correlated by comparing the candidate serial with the field of the parsed response that echoes the platform serial (a predicate that ignores its argument completes another caller's request); 0x1003, which echoes nothing, may only complete an outstanding 0x9003"
	R.Rules["E3.field"] = "the echoed-serial field of each response type is read from the wire at the standard's offset"
	R.Rules["E3.accept-min"] = "each response parser accepts the shortest body the standard allows for that response (spec/responses.json min_body): a successful return exists that is feasible for that length"
	R.Rules["S.complete"] = "a completion is delivered to the reply channel of the recorded request and the record is deleted right after; a matched response carries the matched key; unmatched traffic falls through to the normal reply"
	R.Rules["E5.timeout-capture"] = "the timeout goroutine of a command works on what was fixed when the command was written - captured values and the completion message built for that command - and on the connection's channels; it does not read the caller's ActiveMessage (which the writer re-stamps with a new serial when the caller sends it again) nor other mutable connection state after its wait, and it does not touch the writer's table of outstanding commands (a map confined to the writer goroutine)"
	R.Rules["E5.timeout"] = "see C13: a timeout goroutine is started for every duration >= 0"
	var spec responsesSpec
	if !c.loadSpec("responses.json", &spec) {
		return
	}
	c.serialSequenceRule("E6.serial")
	cw := c.connWrites()
	onActive := c.P.Method("service", "connection", "onActiveEvent")
	onResp := c.P.Method("service", "connection", "onActiveRespondEvent")
	writeFn := c.P.Method("service", "connection", "write")
	curSeq := c.P.Method("service", "connection", "curSeq")
	newActive := c.P.Func("service", "newActiveMessage")
	enc := c.P.Method("protocol/jt808", "Header", "Encode")
	if onActive == nil || onResp == nil || writeFn == nil || curSeq == nil || newActive == nil || enc == nil {
		R.Fatal("anchors onActiveEvent / onActiveRespondEvent / write / curSeq / newActiveMessage / Header.Encode not found")
		return
	}
	// ---- 1. onActiveEvent by E1: serial wiring
	{
		var seqVals []absint.Term
		type upd struct {
			k  absint.Term
			st *absint.State
		}
		var updates []upd
		var encSerial []absint.Term
		var encRes []absint.Term
		var writes []absint.Term
		var newActSeq []absint.Term
		res := c.RunE1([]*ssa.Function{onActive}, true, func(a *absint.Analyzer, fn *ssa.Function, st *absint.State, args []absint.Term) {
			home := pkgOf(onActive)
			a.Opaque = func(f *ssa.Function) bool { pk := pkgOf(f); return pk != nil && pk != home }
			a.OnInlined = func(f *ssa.Function, fargs []absint.Term, val absint.Term, st *absint.State) {
				if f == curSeq {
					seqVals = append(seqVals, val)
				}
			}
			a.OnMapUpdate = func(f *ssa.Function, ins *ssa.MapUpdate, st *absint.State, m, k, v absint.Term) {
				if f == onActive {
					updates = append(updates, upd{k, st})
				}
			}
			a.OnCall = func(a *absint.Analyzer, st *absint.State, site ssa.CallInstruction, callee *ssa.Function, cargs []absint.Term) {
				switch callee {
				case enc:
					if v := findField(a, st, cargs[0], enc.Params[0].Type(), []string{"PlatformSerialNumber"}); v != nil {
						encSerial = append(encSerial, v)
					}
				case newActive:
					newActSeq = append(newActSeq, cargs[0])
				}
			}
			a.OnExternal = func(f *ssa.Function, site ssa.Instruction, name string, st *absint.State, eargs []absint.Term) {
				_, inWrapper := cw.wrappers[f]
				if strings.HasSuffix(name, ").Write") && strings.Contains(name, "net.") && (f == onActive || inWrapper) {
					writes = append(writes, eargs[len(eargs)-1])
				}
				if strings.HasSuffix(name, ".Encode") && strings.Contains(name, "Header") {
					encRes = append(encRes, nil)
				}
			}
		})
		c.AddE1(res, false)
		name := shortFn(onActive)
		ok := len(seqVals) >= 1 && len(updates) >= 1 && len(encSerial) >= 1 && len(newActSeq) >= 1
		d := fmt.Sprintf("observed: %d serial draws, %d record updates, %d encodes, %d timeout messages", len(seqVals), len(updates), len(encSerial), len(newActSeq))
		if ok {
			key := seqVals[0].TKey()
			for _, s := range seqVals {
				if s.TKey() != key {
					ok, d = false, "more than one serial is drawn for one command"
				}
			}
			for _, u := range updates {
				if u.k.TKey() != key {
					ok, d = false, "the command is recorded under "+res[0].A.Render(u.k)+" instead of the serial drawn for it"
				}
			}
			for _, e := range encSerial {
				if e.TKey() != key {
					ok, d = false, "the frame is encoded with serial "+res[0].A.Render(e)+" instead of the serial drawn for it"
				}
			}
			for _, s := range newActSeq {
				if s.TKey() != key {
					ok, d = false, "the completion / timeout message is created with a different serial"
				}
			}
		}
		st := report.Discharged
		if !ok {
			st = report.Violated
		}
		R.Add("E3.command", name+" / one serial: drawn, recorded under, encoded with, and carried by the timeout message", c.P.RelPos(onActive.Pos()), st, d)
		// exactly one conn.Write
		nW := 0
		for _, b := range onActive.Blocks {
			for _, ins := range b.Instrs {
				if cw.is(ins) {
					nW++
				}
			}
		}
		st = report.Discharged
		if nW != 1 {
			st = report.Violated
		}
		R.Add("E3.command", name+" / the frame is written exactly once", c.P.RelPos(onActive.Pos()), st, fmt.Sprintf("%d write sites", nW))
	}
	// ---- 2. predicates
	{
		type pred struct {
			fn   *ssa.Function
			typ  string
			site ssa.Instruction
		}
		var preds []pred
		// the predicates, by role: function literals of onActiveRespondEvent with the signature func(uint16) bool
		// (however they are stored: struct field, local variable, φ of closures)
		isPredSig := func(sig *types.Signature) bool {
			if sig.Params().Len() != 1 || sig.Results().Len() != 1 {
				return false
			}
			pb, ok1 := sig.Params().At(0).Type().Underlying().(*types.Basic)
			rb, ok2 := sig.Results().At(0).Type().Underlying().(*types.Basic)
			return ok1 && ok2 && pb.Kind() == types.Uint16 && rb.Kind() == types.Bool
		}
		// … of the matcher or of a package function it builds them in (a constructor returning model value and predicate)
		type hosted struct {
			an   *ssa.Function
			host *ssa.Function
		}
		var lits []hosted
		for _, host := range c.familyOf(onResp) {
			if host.Parent() != nil {
				continue
			}
			for _, an := range host.AnonFuncs {
				lits = append(lits, hosted{an, host})
			}
		}
		for _, h := range lits {
			an := h.an
			if !isPredSig(an.Signature) {
				continue
			}
			var site ssa.Instruction
			typ := "?"
			for _, b := range h.host.Blocks {
				for _, ins := range b.Instrs {
					mc, isMC := ins.(*ssa.MakeClosure)
					uses := isMC && mc.Fn == ssa.Value(an)
					if !isMC {
						// a literal that captures nothing is used as a plain function value
						for _, op := range ins.Operands(nil) {
							if *op == ssa.Value(an) {
								uses = true
							}
						}
					}
					if !uses {
						continue
					}
					site = ins
					// the response type: a captured model value, else the model value allocated in the same block
					if isMC {
						for _, bv := range mc.Bindings {
							if n, okN := derefNamed(bv.Type()); okN && strings.HasPrefix(n, "T0x") {
								typ = n
							}
						}
					}
					if typ == "?" {
						for _, i2 := range b.Instrs {
							if al, isAl := i2.(*ssa.Alloc); isAl {
								if n, okN := derefNamed(al.Type()); okN && strings.HasPrefix(n, "T0x") {
									typ = n
								}
							}
						}
					}
				}
			}
			if site == nil {
				continue
			}
			preds = append(preds, pred{an, typ, site})
		}
		sort.Slice(preds, func(i, j int) bool { return preds[i].typ < preds[j].typ })
		seenTypes := map[string]bool{}
		for _, p := range preds {
			seenTypes[p.typ] = true
			key := fmt.Sprintf("%s / response %s", shortFn(onResp), p.typ)
			// return value origins
			usesParam, fields, cmdConst := false, []string{}, false
			for _, b := range p.fn.Blocks {
				if ret, isRet := b.Instrs[len(b.Instrs)-1].(*ssa.Return); isRet {
					var walk func(v ssa.Value, depth int)
					seen := map[ssa.Value]bool{}
					walk = func(v ssa.Value, depth int) {
						if v == nil || seen[v] || depth > 8 {
							return
						}
						seen[v] = true
						switch x := v.(type) {
						case *ssa.Parameter:
							usesParam = true
						case *ssa.BinOp:
							walk(x.X, depth+1)
							walk(x.Y, depth+1)
						case *ssa.Phi:
							for _, e := range x.Edges {
								walk(e, depth+1)
							}
						case *ssa.UnOp:
							if _, f, isF := fieldLoad(x); isF {
								fields = append(fields, f)
							}
							walk(x.X, depth+1)
						case *ssa.FieldAddr:
							walk(x.X, depth+1)
						case *ssa.Lookup:
							walk(x.Index, depth+1)
							walk(x.X, depth+1)
						case *ssa.Extract:
							walk(x.Tuple, depth+1)
						case *ssa.Convert:
							walk(x.X, depth+1)
						case *ssa.Const:
							if x.Value != nil && strings.Contains(x.Type().String(), "JT808CommandType") {
								cmdConst = true
							}
						}
					}
					for _, r := range ret.Results {
						walk(r, 0)
					}
				}
			}
			st, d := report.Discharged, ""
			if want, isEcho := spec.Echo[p.typ]; isEcho {
				hasField := false
				for _, f := range fields {
					if f == want.Field {
						hasField = true
					}
				}
				if !usesParam || !hasField {
					st = report.Violated
					d = fmt.Sprintf("the predicate for %s must compare the candidate serial with %s.%s; it uses its argument=%v and reads fields %v", p.typ, p.typ, want.Field, usesParam, fields)
				}
			} else if _, isNo := spec.NoEcho[p.typ]; isNo {
				if !usesParam || !cmdConst {
					st = report.Violated
					d = fmt.Sprintf("%s echoes no serial: its predicate must look the candidate up among the outstanding requests and accept only the command it answers; it uses its argument=%v, compares a command constant=%v", p.typ, usesParam, cmdConst)
				}
			} else {
				st, d = report.Violated, "response type "+p.typ+" is not in the correlation table"
			}
			R.Add("E6.predicate", key, c.P.RelPos(p.site.Pos()), st, d)
		}
		for t := range spec.Echo {
			if !seenTypes[t] {
				R.Add("E6.predicate", fmt.Sprintf("%s / response %s", shortFn(onResp), t), "", report.Violated, "no correlation predicate for this response type")
			}
		}
		// matched key forwarded
		okFwd := false
		for _, b := range onResp.Blocks {
			for _, ins := range b.Instrs {
				st, ok := ins.(*ssa.Store)
				if !ok {
					continue
				}
				fa, ok := st.Addr.(*ssa.FieldAddr)
				if !ok {
					continue
				}
				stt := fa.X.Type().Underlying().(*types.Pointer).Elem().Underlying().(*types.Struct)
				if stt.Field(fa.Field).Name() != "PlatformSeq" {
					continue
				}
				if ex, isEx := st.Val.(*ssa.Extract); isEx {
					if _, isNext := ex.Tuple.(*ssa.Next); isNext && ex.Index == 1 {
						okFwd = true
					}
				}
			}
		}
		st := report.Discharged
		if !okFwd {
			st = report.Violated
		}
		R.Add("S.complete", shortFn(onResp)+" / the matched outstanding key is what the completion carries", c.P.RelPos(onResp.Pos()), st, "PlatformSeq of the forwarded response is not the key of the outstanding request that matched")
	}
	// ---- echoed field layout of each response type
	{
		var entries []*ssa.Function
		for t := range spec.Echo {
			if f := c.P.Method("protocol/model", t, "Parse"); f != nil {
				entries = append(entries, f)
			} else {
				R.Fatal("response parser %s.Parse not found", t)
			}
		}
		sort.Slice(entries, func(i, j int) bool { return entries[i].String() < entries[j].String() })
		jtArg := map[*ssa.Function]absint.Term{}
		res := c.RunE1(entries, false, func(a *absint.Analyzer, fn *ssa.Function, st *absint.State, args []absint.Term) {
			preJTMsg(a, fn, st, args)
			a.TrackObj(st, args[0], fn.Params[0].Type())
			c.mu.Lock()
			jtArg[fn] = args[1]
			c.mu.Unlock()
		})
		for _, r := range res {
			tn, _ := derefNamed(r.Fn.Params[0].Type())
			want := spec.Echo[tn]
			locs := fieldLocs(r.A, r.Recv.(*absint.Ptr))
			ok, d := false, "no successful return"
			for _, ret := range r.Rets {
				if _, isNil := ret.Val.(absint.NilT); !isNil {
					continue
				}
				_, got := fieldValue(r.A, ret.St, locs, want.Field)
				ok = got == want.Layout
				d = fmt.Sprintf("%s.%s: the standard places the echoed serial at %s, the code computes %s", tn, want.Field, want.Layout, got)
				if !ok {
					break
				}
			}
			st := report.Discharged
			if !ok {
				st = report.Violated
			}
			R.Add("E3.field", shortFn(r.Fn)+" / "+want.Field, c.P.RelPos(r.Fn.Pos()), st, d)
			// the shortest legal body is accepted: some successful return is feasible with len(body) == min_body (a parser that
			// asks for room for a first list entry rejects the legal "nothing to report" answer: the command it answers times out)
			if want.MinBody > 0 {
				okMin, nSucc := false, 0
				for _, ret := range r.Rets {
					if _, isNil := ret.Val.(absint.NilT); !isNil {
						continue
					}
					nSucc++
					bt := findField(r.A, ret.St, jtArg[r.Fn], r.Fn.Params[1].Type(), []string{"Body"})
					if bs, isS := bt.(*absint.Slice); isS && ret.St.Feasible(absint.Con{L: bs.Len.AddC(-want.MinBody), Rel: absint.EQ}) {
						okMin = true
					}
				}
				st, d = report.Discharged, ""
				if !okMin {
					st, d = report.Violated, fmt.Sprintf("no successful return of %s.Parse is possible for a body of %d bytes, the shortest the standard allows (%d successful returns examined): the legal minimal response is rejected and the command it answers runs into its timeout", tn, want.MinBody, nSucc)
				}
				R.Add("E3.accept-min", shortFn(r.Fn)+fmt.Sprintf(" / accepts the %d-byte minimal body", want.MinBody), c.P.RelPos(r.Fn.Pos()), st, d)
			}
		}
		R.Require("E3.accept-min", 5, "")
	}
	// ---- every outstanding request is examined by the matching loop
	{
		R.Rules["S.match-all"] = "the matching loop ranges over the whole table of outstanding requests: an entry that does not match leads to the next entry (not out of the loop), and nothing is completed unless an entry matched"
		ok, d := false, "no range loop over the outstanding table that tests the response predicate found"
		var loopHead *ssa.BasicBlock
		for _, b := range onResp.Blocks {
			iff, isIf := b.Instrs[len(b.Instrs)-1].(*ssa.If)
			if !isIf {
				continue
			}
			cond := iff.Cond
			neg := false
			for {
				u, isU := cond.(*ssa.UnOp)
				if !isU || u.Op != token.NOT {
					break
				}
				cond, neg = u.X, !neg
			}
			call, isC := cond.(*ssa.Call)
			if !isC {
				continue
			}
			// by role: a dynamic call of a func(uint16) bool value (the response predicate, however it is stored)
			if call.Call.IsInvoke() || call.Call.StaticCallee() != nil || len(call.Call.Args) != 1 {
				continue
			}
			if sig, isSig := call.Call.Value.Type().Underlying().(*types.Signature); !isSig || sig.Params().Len() != 1 || sig.Results().Len() != 1 {
				continue
			} else if pb, isB := sig.Params().At(0).Type().Underlying().(*types.Basic); !isB || pb.Kind() != types.Uint16 {
				continue
			}
			// the argument is the key of a range over the outstanding map
			ex, isEx := call.Call.Args[0].(*ssa.Extract)
			if !isEx {
				d = "the predicate is not applied to the key of a range over the outstanding table"
				continue
			}
			nx, isNx := ex.Tuple.(*ssa.Next)
			if !isNx {
				continue
			}
			head := nx.Block()
			miss := b.Succs[1]
			if neg {
				miss = b.Succs[0]
			}
			// follow plain jumps
			for k := 0; k < 4 && miss != head; k++ {
				if len(miss.Instrs) == 1 && len(miss.Succs) == 1 {
					miss = miss.Succs[0]
				} else {
					break
				}
			}
			if miss == head {
				ok, d = true, ""
				loopHead = head
			} else {
				ok, d = false, "when an outstanding request does not match, the loop is left instead of trying the next one: with several commands outstanding a correct response is dropped (or given to another request) depending on map iteration order"
			}
		}
		st := report.Discharged
		if !ok {
			st = report.Violated
		}
		R.Add("S.match-all", shortFn(onResp)+" / a non-matching entry leads to the next entry", c.P.RelPos(onResp.Pos()), st, d)
		R.Require("S.match-all", 1, "")
		// ---- nothing but "no predicate for this type" and "the body does not parse" keeps a response from the matching loop
		if loopHead != nil {
			R.Rules["S.reach-matcher"] = "a response of a correlated type reaches the matching loop unless its body fails to parse: before the loop, the function is left only on a nil test of the predicate / handler selected by the type switch or on the error of Parse (a guard on other properties of the message - sub-package fields, flags - makes responses that echo the right serial time out)"
			canReach := map[*ssa.BasicBlock]bool{}
			var back func(b *ssa.BasicBlock)
			back = func(b *ssa.BasicBlock) {
				if canReach[b] {
					return
				}
				canReach[b] = true
				for _, p := range b.Preds {
					back(p)
				}
			}
			back(loopHead)
			after := map[*ssa.BasicBlock]bool{}
			var fwd func(b *ssa.BasicBlock)
			fwd = func(b *ssa.BasicBlock) {
				if after[b] {
					return
				}
				after[b] = true
				for _, s := range b.Succs {
					fwd(s)
				}
			}
			fwd(loopHead)
			okR, dR, nExit := true, "", 0
			for _, b := range onResp.Blocks {
				if !canReach[b] || after[b] {
					continue
				}
				iff, isIf := b.Instrs[len(b.Instrs)-1].(*ssa.If)
				if !isIf {
					continue
				}
				exits := false
				for _, su := range b.Succs {
					if !canReach[su] {
						exits = true
					}
				}
				if !exits {
					continue
				}
				nExit++
				cond := iff.Cond
				for {
					u, isU := cond.(*ssa.UnOp)
					if !isU || u.Op != token.NOT {
						break
					}
					cond = u.X
				}
				just := false
				if cmp, isCmp := cond.(*ssa.BinOp); isCmp && (cmp.Op == token.EQL || cmp.Op == token.NEQ) {
					x, y := cmp.X, cmp.Y
					if k, isK := x.(*ssa.Const); isK && k.IsNil() {
						x, y = y, x
					}
					if k, isK := y.(*ssa.Const); isK && k.IsNil() {
						switch x.Type().Underlying().(type) {
						case *types.Signature:
							just = true // no predicate for this message type
						case *types.Interface:
							// the handler selected by the type switch, or the error of its Parse
							if ex, isCall := x.(*ssa.Call); isCall {
								if n, _ := callMethodName(ex); n == "Parse" {
									just = true
								}
							} else {
								just = true
								if n, isN := x.Type().(*types.Named); isN && n.Obj().Name() == "error" {
									just = false
									for _, o := range c.origins(x, nil, nil) {
										if o.Kind == "call" && strings.HasSuffix(o.Name, ".Parse") {
											just = true
										}
									}
								}
							}
						}
					}
				}
				if !just {
					okR = false
					dR = fmt.Sprintf("the test at %s leaves onActiveRespondEvent before the matching loop for a reason other than 'no predicate for this type' or 'the body does not parse': a response that echoes an outstanding serial is not matched and its command times out", c.P.RelPos(instrPos(cond)))
				}
			}
			R.Notes["exits_before_matching_loop"] = nExit
			st := report.Discharged
			if !okR {
				st = report.Violated
			}
			R.Add("S.reach-matcher", shortFn(onResp)+" / only type selection and parse failure keep a response from the matching loop", c.P.RelPos(onResp.Pos()), st, dR)
		}
	}
	// ---- 3/4. completion send + delete; fall-through
	{
		okDel, okFall := false, false
		nSends := 0
		var badDel []string
		nSends, okDel, badDel = c.replyThenDelete()
		_ = nSends
		var wblocks []*ssa.BasicBlock // the writer and the helpers of the package its select arms may be moved into
		for _, wf2 := range c.familyOf(writeFn) {
			if wf2 != onResp {
				wblocks = append(wblocks, wf2.Blocks...)
			}
		}
		for _, b := range wblocks {
			for _, ins := range b.Instrs {
				if call, ok := ins.(*ssa.Call); ok && call.Call.StaticCallee() == onResp {
					// result used in an If whose false edge reaches defaultReplyEvent
					for _, ref := range *call.Referrers() {
						if iff, isIf := ref.(*ssa.If); isIf {
							seen := map[*ssa.BasicBlock]bool{}
							var reach func(x *ssa.BasicBlock) bool
							reach = func(x *ssa.BasicBlock) bool {
								if seen[x] {
									return false
								}
								seen[x] = true
								for _, i2 := range x.Instrs {
									if c2, isC := i2.(*ssa.Call); isC {
										if sc := c2.Call.StaticCallee(); sc != nil && sc.Name() == "defaultReplyEvent" {
											return true
										}
									}
								}
								for _, su := range x.Succs {
									if su != iff.Block() && reach(su) {
										return true
									}
								}
								return false
							}
							if reach(iff.Block().Succs[1]) {
								okFall = true
							}
						}
					}
				}
			}
		}
		st := report.Discharged
		dDel := "no send on a reply channel followed by a delete of the outstanding record"
		if !okDel || len(badDel) > 0 {
			st = report.Violated
			if len(badDel) > 0 {
				dDel = fmt.Sprintf("the reply delivered at %v is not followed by deleting the record under the key it was found with: the request stays outstanding and a later frame with that serial completes it a second time", badDel)
			}
		}
		R.Add("S.complete", shortFn(writeFn)+" / delivery to the recorded reply channel is followed by deleting the record", c.P.RelPos(writeFn.Pos()), st, dDel)
		st = report.Discharged
		if !okFall {
			st = report.Violated
		}
		R.Add("S.complete", shortFn(writeFn)+" / traffic that is not a matched response falls through to the normal reply", c.P.RelPos(writeFn.Pos()), st, "when the response matcher returns false the writer does not reach defaultReplyEvent")
	}
	c.timeoutRule()
	c.timeoutCapture(onActive)
	c.consumedOnlyIfCompleted("S.consumed")
	c.noLingeringWriteDeadline("S.write-deadline")
	R.Require("E6.predicate", 6, "")
	R.Require("E3.field", 5, "")
	R.Require("E3.command", 2, "")
	R.Require("S.complete", 3, "")
	R.Explain = "Structural necessary conditions of command/response matching, for all schedules: one generator hands out serials; a command is recorded, encoded and timed out under the serial drawn for it and written once; each response type is correlated through the field that echoes the serial (read at the standard's offset), 0x1003 only against an outstanding 0x9003; the matched key travels with the completion, delivery is followed by deleting the record, and unmatched traffic is still answered. Matching over concrete concurrent histories is not decided."
}

// replyThenDelete: every delivery to the reply channel of a recorded request is followed by deleting the record under
// the key it is stored with (shared by C12 and C13: a stale record is completed twice, or answered again at teardown
// on a channel its caller has already closed).
func (c *Ctx) replyThenDelete() (nSends int, okDel bool, badDel []string) {
	for _, sfn := range c.RepoFuncs("service") {
		for _, b := range sfn.Blocks {
			for i, ins := range b.Instrs {
				s, ok := ins.(*ssa.Send)
				if !ok {
					continue
				}
				if _, f, ok := fieldLoad(s.Chan); !ok || f != "replyChan" {
					continue
				}
				nSends++
				// the record the reply channel belongs to, and the key it is (or was just) stored under
				var key ssa.Value
				recorded := false
				if ld, isLd := s.Chan.(*ssa.UnOp); isLd {
					if fa, isFA := ld.X.(*ssa.FieldAddr); isFA {
						switch x := fa.X.(type) {
						case *ssa.Extract:
							switch t := x.Tuple.(type) {
							case *ssa.Lookup:
								key, recorded = t.Index, true
							case *ssa.Next:
								if rg, isRg := t.Iter.(*ssa.Range); isRg {
									if _, isMap := rg.X.Type().Underlying().(*types.Map); isMap {
										recorded = true
										for _, ref := range *t.Referrers() {
											if e2, isE := ref.(*ssa.Extract); isE && e2.Index == 1 {
												key = e2
											}
										}
									}
								}
							}
						case *ssa.Parameter:
							// the record is handed in by the caller: each caller that took it from the table (lookup, range, or
							// stored it there itself) must delete it under that key around the call
							// … unless this function stored it into the table itself: record[k] = x
							for _, b2 := range sfn.Blocks {
								for _, i2 := range b2.Instrs {
									if mu, isMU := i2.(*ssa.MapUpdate); isMU && mu.Value == fa.X {
										key, recorded = mu.Key, true
									}
								}
							}
							if recorded {
								break
							}
							pi := -1
							for k, p := range sfn.Params {
								if p == x {
									pi = k
								}
							}
							viaCaller := false
							for _, cf := range c.RepoFuncs("service") {
								for _, cb := range cf.Blocks {
									for _, cins := range cb.Instrs {
										call, isCall := cins.(*ssa.Call)
										if !isCall || call.Call.StaticCallee() != sfn || pi < 0 || pi >= len(call.Call.Args) {
											continue
										}
										var ckey ssa.Value
										crec := false
										switch ax := call.Call.Args[pi].(type) {
										case *ssa.Extract:
											switch t := ax.Tuple.(type) {
											case *ssa.Lookup:
												ckey, crec = t.Index, true
											case *ssa.Next:
												if rg, isRg := t.Iter.(*ssa.Range); isRg {
													if _, isMap := rg.X.Type().Underlying().(*types.Map); isMap {
														crec = true
														for _, ref := range *t.Referrers() {
															if e2, isE := ref.(*ssa.Extract); isE && e2.Index == 1 {
																ckey = e2
															}
														}
													}
												}
											}
										case *ssa.Lookup:
											ckey, crec = ax.Index, true
										default:
											for _, b2 := range cf.Blocks {
												for _, i2 := range b2.Instrs {
													if mu, isMU := i2.(*ssa.MapUpdate); isMU && mu.Value == call.Call.Args[pi] {
														ckey, crec = mu.Key, true
													}
												}
											}
										}
										if !crec {
											continue
										}
										viaCaller = true
										deleted := false
										for _, nx := range cb.Instrs {
											if del, isDel := isBuiltinCall(nx, "delete"); isDel && ckey != nil && sameValue(del.Call.Args[1], ckey) {
												deleted = true
											}
										}
										if deleted {
											okDel = true
										} else {
											badDel = append(badDel, c.P.RelPos(s.Pos())+" (record handed in at "+c.P.RelPos(call.Pos())+")")
										}
									}
								}
							}
							_ = viaCaller
							continue
						default:
							// a message that this function stored into the outstanding table: record[k] = x
							for _, b2 := range sfn.Blocks {
								for _, i2 := range b2.Instrs {
									if mu, isMU := i2.(*ssa.MapUpdate); isMU && mu.Value == fa.X {
										key, recorded = mu.Key, true
									}
								}
							}
						}
					}
				}
				if !recorded {
					okDel = okDel || false
					continue // a queued command that was never recorded
				}
				deleted := false
				for _, nx := range b.Instrs[i+1:] {
					if del, isDel := isBuiltinCall(nx, "delete"); isDel && key != nil && del.Call.Args[1] == key {
						deleted = true
					}
				}
				if deleted {
					okDel = true
				} else {
					badDel = append(badDel, c.P.RelPos(s.Pos()))
				}
			}
		}
	}
	return
}

// timeoutCapture: goroutines started while a command is being written (the timeout timers) do not reach back into the
// caller-owned ActiveMessage or into non-channel fields of the connection.
func (c *Ctx) timeoutCapture(onActive *ssa.Function) {
	R := c.R
	nGo := 0
	for _, f := range c.familyOf(onActive) {
		for _, b := range f.Blocks {
			for _, ins := range b.Instrs {
				g, isGo := ins.(*ssa.Go)
				if !isGo {
					continue
				}
				var start *ssa.Function
				if sc := g.Call.StaticCallee(); sc != nil {
					start = sc
				} else {
					start = funcOfValue(g.Call.Value)
				}
				if start == nil || !c.P.IsRepoFunc(start) {
					continue
				}
				nGo++
				var bad []string
				seen := map[*ssa.Function]bool{}
				// a map that reaches the goroutine from outside (captured variable or parameter): the writer's table of
				// outstanding commands is confined to the writer goroutine - an unsynchronised read from a timer races with
				// the writer's inserts and deletes ("concurrent map read and map write" ends the process)
				capturedMap := func(v ssa.Value) bool {
					for depth := 0; depth < 4; depth++ {
						switch x := v.(type) {
						case *ssa.FreeVar, *ssa.Parameter:
							return true
						case *ssa.UnOp:
							v = x.X
							continue
						}
						break
					}
					return false
				}
				var scan func(fn *ssa.Function, depth int)
				scan = func(fn *ssa.Function, depth int) {
					if seen[fn] || depth > 3 || len(fn.Blocks) == 0 {
						return
					}
					seen[fn] = true
					for _, b2 := range fn.Blocks {
						for _, i2 := range b2.Instrs {
							switch x := i2.(type) {
							case *ssa.FieldAddr:
								n, okN := derefNamed(x.X.Type())
								if !okN {
									continue
								}
								ft := x.X.Type().Underlying().(*types.Pointer).Elem().Underlying().(*types.Struct).Field(x.Field)
								switch n {
								case "ActiveMessage":
									bad = append(bad, fmt.Sprintf("%s touches %s of the caller's ActiveMessage at %s", shortFn(fn), ft.Name(), c.P.RelPos(x.Pos())))
								case "connection":
									if _, isCh := ft.Type().Underlying().(*types.Chan); !isCh {
										bad = append(bad, fmt.Sprintf("%s touches the connection's %s at %s", shortFn(fn), ft.Name(), c.P.RelPos(x.Pos())))
									}
								}
							case *ssa.Lookup:
								if _, isMap := x.X.Type().Underlying().(*types.Map); isMap && capturedMap(x.X) {
									bad = append(bad, fmt.Sprintf("%s looks a key up in a map it was handed by the writer (%s) at %s", shortFn(fn), x.X.Name(), c.P.RelPos(x.Pos())))
								}
							case *ssa.MapUpdate:
								if capturedMap(x.Map) {
									bad = append(bad, fmt.Sprintf("%s updates a map it was handed by the writer at %s", shortFn(fn), c.P.RelPos(x.Pos())))
								}
							case *ssa.Range:
								if _, isMap := x.X.Type().Underlying().(*types.Map); isMap && capturedMap(x.X) {
									bad = append(bad, fmt.Sprintf("%s ranges over a map it was handed by the writer at %s", shortFn(fn), c.P.RelPos(x.Pos())))
								}
							case ssa.CallInstruction:
								if bi, isB := x.Common().Value.(*ssa.Builtin); isB && (bi.Name() == "delete" || bi.Name() == "len" || bi.Name() == "clear") && len(x.Common().Args) > 0 {
									if _, isMap := x.Common().Args[0].Type().Underlying().(*types.Map); isMap && capturedMap(x.Common().Args[0]) {
										bad = append(bad, fmt.Sprintf("%s applies %s to a map it was handed by the writer at %s", shortFn(fn), bi.Name(), c.P.RelPos(ins.Pos())))
									}
								}
								if sc := x.Common().StaticCallee(); sc != nil && c.P.IsRepoFunc(sc) && pkgOf(sc) == pkgOf(onActive) {
									scan(sc, depth+1)
								}
							}
						}
					}
					for _, an := range fn.AnonFuncs {
						scan(an, depth+1)
					}
				}
				scan(start, 0)
				st, d := report.Discharged, ""
				if len(bad) > 0 {
					st = report.Violated
					d = strings.Join(dedupe(bad), "; ") + ": by the time the timer fires the caller may have sent the same ActiveMessage again (new serial, new data) - the timer of the earlier send then completes the later one early, and the response to it matches nothing"
				}
				R.Add("E5.timeout-capture", fmt.Sprintf("%s / %s", shortFn(f), c.constructOf(f, g)), c.P.RelPos(g.Pos()), st, d)
			}
		}
	}
	if nGo == 0 {
		R.Add("E5.timeout-capture", shortFn(onActive)+" / (no goroutine started)", c.P.RelPos(onActive.Pos()), report.Discharged, "no timer goroutine is started from the command path on this tree (see E5.timeout)")
	}
}

// consumedOnlyIfCompleted (shared by C06 and C12): the writer skips the normal reply for a message when the response
// matcher reports it as handled. That report must mean "an outstanding request was completed with this message": every
// return of a constant true in the matcher is dominated by the call that delivers to a recorded reply channel. A path
// that reports "handled" without completing anything - a body that does not parse, say - swallows a message that may
// need an answer of its own (0x1003 is both a possible response and a message the platform acknowledges).
func (c *Ctx) consumedOnlyIfCompleted(rule string) {
	R := c.R
	R.Rules[rule] = "the response matcher reports a message as handled (the writer then skips the normal reply) only on paths on which it completed an outstanding request with it: unmatched or unparseable traffic is still answered normally"
	onResp := c.P.Method("service", "connection", "onActiveRespondEvent")
	if onResp == nil {
		R.Fatal("anchor connection.onActiveRespondEvent not found")
		return
	}
	delivers := func(f *ssa.Function) bool {
		for _, g := range c.familyOf(f) {
			for _, b := range g.Blocks {
				for _, ins := range b.Instrs {
					if s, ok := ins.(*ssa.Send); ok {
						if _, fld, okF := fieldLoad(s.Chan); okF && fld == "replyChan" {
							return true
						}
					}
				}
			}
		}
		return false
	}
	var doneBlocks []*ssa.BasicBlock
	for _, b := range onResp.Blocks {
		for _, ins := range b.Instrs {
			switch x := ins.(type) {
			case *ssa.Call:
				if sc := x.Call.StaticCallee(); sc != nil && c.P.IsRepoFunc(sc) && sc != onResp && delivers(sc) {
					doneBlocks = append(doneBlocks, b)
				}
			case *ssa.Send:
				if _, fld, okF := fieldLoad(x.Chan); okF && fld == "replyChan" {
					doneBlocks = append(doneBlocks, b)
				}
			}
		}
	}
	n := 0
	for _, b := range onResp.Blocks {
		ret, isR := b.Instrs[len(b.Instrs)-1].(*ssa.Return)
		if !isR || len(ret.Results) != 1 {
			continue
		}
		k, isK := ret.Results[0].(*ssa.Const)
		if isK && k.Value != nil && k.Value.Kind() == constant.Bool && !constant.BoolVal(k.Value) {
			continue // "not handled"
		}
		n++
		ok := false
		for _, db := range doneBlocks {
			if db.Dominates(b) {
				ok = true
			}
		}
		st, d := report.Discharged, ""
		if !ok {
			st, d = report.Violated, "the matcher can report the message as handled at "+c.P.RelPos(ret.Pos())+" without having completed an outstanding request: the writer then skips the normal reply, so a message that needs an answer of its own (0x1003) is swallowed"
		}
		R.Add(rule, fmt.Sprintf("%s / return #%d reporting 'handled'", shortFn(onResp), n), c.P.RelPos(ret.Pos()), st, d)
	}
	if n == 0 {
		R.Add(rule, shortFn(onResp)+" / (never reports 'handled')", c.P.RelPos(onResp.Pos()), report.Violated, "the matcher never reports a message as handled: responses are answered like ordinary traffic and completions are not consumed")
	}
	R.Require(rule, 1, "")
}

// sameValue: the same SSA value, or two loads of the same field chain with no store in between being assumed (keys
// read twice from one message: record[msg.X.Seq] … delete(record, msg.X.Seq)).
func sameValue(a, b ssa.Value) bool {
	if a == b {
		return true
	}
	la, okA := a.(*ssa.UnOp)
	lb, okB := b.(*ssa.UnOp)
	if !okA || !okB || la.Op != token.MUL || lb.Op != token.MUL {
		return false
	}
	fa, okA := la.X.(*ssa.FieldAddr)
	fb, okB := lb.X.(*ssa.FieldAddr)
	for okA && okB && fa.Field == fb.Field {
		if fa.X == fb.X {
			return true
		}
		na, okA2 := fa.X.(*ssa.FieldAddr)
		nb, okB2 := fb.X.(*ssa.FieldAddr)
		if !okA2 || !okB2 {
			// one more load level: p.F.G where p.F is a pointer
			ua, okA3 := fa.X.(*ssa.UnOp)
			ub, okB3 := fb.X.(*ssa.UnOp)
			if okA3 && okB3 {
				return sameValue(ua, ub)
			}
			return false
		}
		fa, fb = na, nb
	}
	return false
}

// noLingeringWriteDeadline: a deadline set on a net.Conn stays in force for every later write. A write deadline
// installed for one command and not cleared makes, once it has passed, every later write on the connection fail: the
// replies to ordinary terminal traffic and the commands that carry no timeout. Every installation of a write deadline
// (SetWriteDeadline / SetDeadline with a value other than the zero time) in the service package must be followed, on
// every path to a return of that function, by a call that clears it (the zero time).
func (c *Ctx) noLingeringWriteDeadline(rule string) {
	R := c.R
	R.Rules[rule] = "every call in the service package that installs a write deadline on a connection (SetWriteDeadline / SetDeadline with a non-zero time) is followed on every path to a return of the function by a call that clears it (zero time): no command leaves a deadline behind that fails the replies and commands written after it"
	isDeadline := func(ins ssa.Instruction) (set bool, clears bool) {
		ci, ok := ins.(ssa.CallInstruction)
		if !ok {
			return false, false
		}
		cc := ci.Common()
		name := ""
		var arg ssa.Value
		if cc.IsInvoke() {
			name = cc.Method.Name()
			if len(cc.Args) > 0 {
				arg = cc.Args[0]
			}
		} else if sc := cc.StaticCallee(); sc != nil && sc.Pkg != nil && sc.Pkg.Pkg.Path() == "net" {
			name = sc.Name()
			if len(cc.Args) > 1 {
				arg = cc.Args[1]
			}
		}
		if name != "SetWriteDeadline" && name != "SetDeadline" {
			return false, false
		}
		if cv, isC := arg.(*ssa.Const); isC && cv.Value == nil {
			return true, true
		}
		return true, false
	}
	// a design in which every socket write installs its own deadline first leaves nothing behind for the next write:
	// a lingering deadline matters only if some write site does not set one itself
	cw := c.connWrites()
	bareWrite := ""
	for _, fn := range c.RepoFuncs("service") {
		for _, b := range fn.Blocks {
			for i, ins := range b.Instrs {
				if !cw.is(ins) {
					continue
				}
				if _, isWrapper := cw.wrappers[fn]; isWrapper {
					continue
				}
				own := false
				for _, b2 := range fn.Blocks {
					for j, i2 := range b2.Instrs {
						if s2, _ := isDeadline(i2); s2 && (b2 == b && j < i || b2 != b && b2.Dominates(b)) {
							own = true
						}
					}
				}
				if !own && bareWrite == "" {
					bareWrite = c.P.RelPos(ins.Pos())
				}
			}
		}
	}
	n, nBad := 0, 0
	for _, fn := range c.RepoFuncs("service") {
		for _, b := range fn.Blocks {
			for i, ins := range b.Instrs {
				set, clears := isDeadline(ins)
				if !set || clears || bareWrite == "" {
					continue
				}
				n++
				bad := ""
				seen := map[*ssa.BasicBlock]bool{}
				var walk func(blk *ssa.BasicBlock, from int)
				walk = func(blk *ssa.BasicBlock, from int) {
					if bad != "" {
						return
					}
					for _, i2 := range blk.Instrs[from:] {
						if s2, c2 := isDeadline(i2); s2 && c2 {
							return
						}
					}
					if ret, isR := blk.Instrs[len(blk.Instrs)-1].(*ssa.Return); isR {
						bad = c.P.RelPos(ret.Pos())
						if bad == "" || bad == "?" {
							bad = "the end of " + shortFn(fn)
						}
						return
					}
					for _, sb := range blk.Succs {
						if !seen[sb] {
							seen[sb] = true
							walk(sb, 0)
						}
					}
				}
				walk(b, i+1)
				st, d := report.Discharged, ""
				if bad != "" {
					nBad++
					st, d = report.Violated, fmt.Sprintf("the write deadline installed here is still in force at %s: once it has passed every later write that does not set a deadline of its own (e.g. %s) fails - replies to terminal traffic are not sent and commands without a timeout are never written", bad, bareWrite)
				}
				R.Add(rule, shortFn(fn)+" / "+c.constructOf(fn, ins), c.P.RelPos(ins.Pos()), st, d)
			}
		}
	}
	if n == 0 {
		R.Add(rule, "service / no write deadline is installed anywhere (all non-test functions of the package examined)", "", report.Discharged, "")
	}
	R.Notes["write_deadline_installations"] = n
}
