// Package load builds the one program every check analyses: a generated harness
// module in which all five go-jt808 modules resolve to /repo's working tree.
package load

import (
	"fmt"
	"go/token"
	"go/types"
	"os"
	"os/exec"
	"path/filepath"
	"sort"
	"sync"
	"strings"

	"golang.org/x/tools/go/callgraph"
	"golang.org/x/tools/go/callgraph/cha"
	"golang.org/x/tools/go/callgraph/vta"
	"golang.org/x/tools/go/packages"
	"golang.org/x/tools/go/ssa"
	"golang.org/x/tools/go/ssa/ssautil"
)

const ModPrefix = "github.com/cuteLittleDevil/go-jt808/"

var Modules = []string{"shared", "protocol", "service", "attachment", "terminal"}

type Program struct {
	Repo     string
	Fset     *token.FileSet
	Pkgs     []*packages.Package // repo packages (and control packages), sorted by path
	All      map[string]*packages.Package
	SSA      *ssa.Program
	SSAPkgs  map[string]*ssa.Package
	cg       *callgraph.Graph
	Controls bool
	allOnce  sync.Once
	allFuncs []*ssa.Function
}

type Options struct {
	Repo     string   // default /repo
	Verif    string   // default /verif
	Tags     []string // build tags
	Controls bool     // also load /verif/controls packages
	Tests    bool
}

func env() []string {
	e := []string{}
	for _, kv := range os.Environ() {
		if strings.HasPrefix(kv, "GOWORK=") || strings.HasPrefix(kv, "GOFLAGS=") ||
			strings.HasPrefix(kv, "GOPROXY=") || strings.HasPrefix(kv, "GOSUMDB=") ||
			strings.HasPrefix(kv, "GOTOOLCHAIN=") {
			continue
		}
		e = append(e, kv)
	}
	return append(e, "GOWORK=off", "GOFLAGS=-mod=mod", "GOPROXY=off", "GOSUMDB=off", "GOTOOLCHAIN=local")
}

// Harness writes the harness module and returns its directory.
func Harness(o Options) (string, error) {
	if o.Repo == "" {
		o.Repo = "/repo"
	}
	if o.Verif == "" {
		o.Verif = "/verif"
	}
	dir := filepath.Join(o.Verif, "work", fmt.Sprintf("harness-%d", os.Getpid()))
	if err := os.MkdirAll(dir, 0o755); err != nil {
		return "", err
	}
	var b strings.Builder
	b.WriteString("module jtverifharness\n\ngo 1.23.2\n\nrequire (\n")
	for _, m := range Modules {
		fmt.Fprintf(&b, "\t%s%s v0.0.0\n", ModPrefix, m)
	}
	if o.Controls {
		b.WriteString("\tjtverifcontrols v0.0.0\n")
	}
	b.WriteString(")\n\nreplace (\n")
	for _, m := range Modules {
		fmt.Fprintf(&b, "\t%s%s => %s\n", ModPrefix, m, filepath.Join(o.Repo, m))
	}
	if o.Controls {
		fmt.Fprintf(&b, "\tjtverifcontrols => %s\n", filepath.Join(o.Verif, "controls"))
	}
	b.WriteString(")\n")
	if err := os.WriteFile(filepath.Join(dir, "go.mod"), []byte(b.String()), 0o644); err != nil {
		return "", err
	}
	// go.sum = union of the repo modules' go.sum
	seen := map[string]bool{}
	var sum []string
	for _, m := range Modules {
		data, err := os.ReadFile(filepath.Join(o.Repo, m, "go.sum"))
		if err != nil {
			continue
		}
		for _, l := range strings.Split(string(data), "\n") {
			l = strings.TrimSpace(l)
			if l != "" && !seen[l] {
				seen[l] = true
				sum = append(sum, l)
			}
		}
	}
	sort.Strings(sum)
	if err := os.WriteFile(filepath.Join(dir, "go.sum"), []byte(strings.Join(sum, "\n")+"\n"), 0o644); err != nil {
		return "", err
	}
	// a file importing every package root so `go mod tidy`-less loading works
	src := "package harness\n"
	if err := os.WriteFile(filepath.Join(dir, "harness.go"), []byte(src), 0o644); err != nil {
		return "", err
	}
	return dir, nil
}

// Load type-checks all repo packages from the working tree and builds SSA.
func Load(o Options) (*Program, error) {
	if o.Repo == "" {
		o.Repo = "/repo"
	}
	if o.Verif == "" {
		o.Verif = "/verif"
	}
	dir, err := Harness(o)
	if err != nil {
		return nil, err
	}
	defer os.RemoveAll(dir)
	fset := token.NewFileSet()
	flags := []string{}
	if len(o.Tags) > 0 {
		flags = append(flags, "-tags="+strings.Join(o.Tags, ","))
	}
	cfg := &packages.Config{
		Mode:       packages.LoadAllSyntax,
		Dir:        dir,
		Env:        env(),
		Fset:       fset,
		BuildFlags: flags,
		Tests:      o.Tests,
	}
	patterns := []string{}
	for _, m := range Modules {
		patterns = append(patterns, ModPrefix+m+"/...")
	}
	if o.Controls {
		patterns = append(patterns, "jtverifcontrols/...")
	}
	pkgs, err := packages.Load(cfg, patterns...)
	if err != nil {
		return nil, fmt.Errorf("packages.Load: %w", err)
	}
	p := &Program{Repo: o.Repo, Fset: fset, All: map[string]*packages.Package{}, SSAPkgs: map[string]*ssa.Package{}, Controls: o.Controls}
	nerr := 0
	var errs []string
	packages.Visit(pkgs, nil, func(pk *packages.Package) {
		p.All[pk.PkgPath] = pk
		if strings.HasPrefix(pk.PkgPath, ModPrefix) || strings.HasPrefix(pk.PkgPath, "jtverifcontrols") {
			for _, e := range pk.Errors {
				nerr++
				errs = append(errs, e.Error())
			}
		}
	})
	if nerr > 0 {
		return nil, fmt.Errorf("type-check/load errors in repo packages (%d): %s", nerr, strings.Join(errs, "; "))
	}
	for _, pk := range pkgs {
		if strings.HasPrefix(pk.PkgPath, ModPrefix) || strings.HasPrefix(pk.PkgPath, "jtverifcontrols") {
			p.Pkgs = append(p.Pkgs, pk)
		}
	}
	sort.Slice(p.Pkgs, func(i, j int) bool { return p.Pkgs[i].PkgPath < p.Pkgs[j].PkgPath })
	nrepo := 0
	for _, pk := range p.Pkgs {
		if strings.HasPrefix(pk.PkgPath, ModPrefix) {
			nrepo++
			// every file of a repo package must come from the working tree
			for _, f := range pk.GoFiles {
				if !strings.HasPrefix(f, o.Repo+"/") {
					return nil, fmt.Errorf("package %s file %s is not under %s", pk.PkgPath, f, o.Repo)
				}
			}
		}
	}
	if nrepo < 9 {
		return nil, fmt.Errorf("only %d repo packages loaded (expected >= 9)", nrepo)
	}
	prog, spkgs := ssautil.AllPackages(pkgs, ssa.InstantiateGenerics|ssa.GlobalDebug)
	prog.Build()
	p.SSA = prog
	for i, sp := range spkgs {
		if sp != nil {
			p.SSAPkgs[pkgs[i].PkgPath] = sp
		}
	}
	for _, sp := range prog.AllPackages() {
		if _, ok := p.SSAPkgs[sp.Pkg.Path()]; !ok {
			p.SSAPkgs[sp.Pkg.Path()] = sp
		}
	}
	return p, nil
}

// CallGraph returns the VTA call graph (built lazily).
func (p *Program) CallGraph() *callgraph.Graph {
	if p.cg == nil {
		fns := ssautil.AllFunctions(p.SSA)
		p.cg = vta.CallGraph(fns, cha.CallGraph(p.SSA))
	}
	return p.cg
}

// Pkg returns the SSA package for a repo-relative path such as "protocol/model".
func (p *Program) Pkg(rel string) *ssa.Package {
	if sp, ok := p.SSAPkgs[ModPrefix+rel]; ok {
		return sp
	}
	return p.SSAPkgs[rel]
}

// TPkg returns the packages.Package for a repo-relative path.
func (p *Program) TPkg(rel string) *packages.Package {
	if pk, ok := p.All[ModPrefix+rel]; ok {
		return pk
	}
	return p.All[rel]
}

// Method returns the SSA function for method name of named type tname in rel package
// (pointer receiver method set).
func (p *Program) Method(rel, tname, method string) *ssa.Function {
	sp := p.Pkg(rel)
	if sp == nil {
		return nil
	}
	tn, _ := sp.Pkg.Scope().Lookup(tname).(*types.TypeName)
	if tn == nil {
		return nil
	}
	ms := p.SSA.MethodSets.MethodSet(types.NewPointer(tn.Type()))
	for i := 0; i < ms.Len(); i++ {
		if ms.At(i).Obj().Name() == method {
			return p.SSA.MethodValue(ms.At(i))
		}
	}
	return nil
}

// Func returns a package-level function.
func (p *Program) Func(rel, name string) *ssa.Function {
	sp := p.Pkg(rel)
	if sp == nil {
		return nil
	}
	return sp.Func(name)
}

// RelPos renders a position relative to the repo root.
func (p *Program) RelPos(pos token.Pos) string {
	if !pos.IsValid() {
		return "?"
	}
	ps := p.Fset.Position(pos)
	f := ps.Filename
	if strings.HasPrefix(f, p.Repo+"/") {
		f = f[len(p.Repo)+1:]
	}
	return fmt.Sprintf("%s:%d", f, ps.Line)
}

// IsRepoFunc reports whether fn has a body from the working tree (or controls).
func (p *Program) IsRepoFunc(fn *ssa.Function) bool {
	if fn == nil || fn.Blocks == nil {
		return false
	}
	pk := fn.Package()
	if pk == nil && fn.Origin() != nil {
		pk = fn.Origin().Package()
	}
	for f := fn; pk == nil && f != nil; f = f.Parent() {
		pk = f.Package()
		if pk == nil && f.Origin() != nil {
			pk = f.Origin().Package()
		}
	}
	path := ""
	if pk != nil {
		path = pk.Pkg.Path()
	} else if obj := fn.Object(); obj != nil && obj.Pkg() != nil {
		// synthetic wrappers / bound-method closures of promoted methods
		path = obj.Pkg().Path()
	} else {
		return false
	}
	return strings.HasPrefix(path, ModPrefix) || strings.HasPrefix(path, "jtverifcontrols")
}

// GoVersion of the toolchain used (for evidence).
func GoVersion() string {
	out, err := exec.Command("go", "version").Output()
	if err != nil {
		return "unknown"
	}
	return strings.TrimSpace(string(out))
}

// IsRepoPkg reports whether the SSA package belongs to the working tree.
func (p *Program) IsRepoPkg(pk *ssa.Package) bool {
	return pk != nil && pk.Pkg != nil && (strings.HasPrefix(pk.Pkg.Path(), ModPrefix) || strings.HasPrefix(pk.Pkg.Path(), "jtverifcontrols"))
}

// AllRepoFuncs lists every source function (and function literal, and package initialiser) of the working tree.
func (p *Program) AllRepoFuncs() []*ssa.Function {
	p.allOnce.Do(func() {
		for fn := range ssautil.AllFunctions(p.SSA) {
			if p.IsRepoFunc(fn) {
				p.allFuncs = append(p.allFuncs, fn)
			}
		}
		sort.Slice(p.allFuncs, func(i, j int) bool { return p.allFuncs[i].String() < p.allFuncs[j].String() })
	})
	return p.allFuncs
}
