// Package report collects obligations, matches known findings, writes evidence and
// replay files and prints the VIOLATION / KNOWN-FINDING lines of the interface.
package report

import (
	"encoding/json"
	"fmt"
	"os"
	"path/filepath"
	"sort"
	"strings"
	"time"
)

type Status int

const (
	Discharged Status = iota
	Violated
	Undecided
)

func (s Status) String() string {
	return [...]string{"discharged", "violated", "undecided"}[s]
}

// Obligation is one decided (or undecided) rule instance.
type Obligation struct {
	Rule   string `json:"rule"` // e.g. E1.slice
	Key    string `json:"key"`  // rule / package.Func / normalised construct – never a line number
	Pos    string `json:"pos"`  // file:line (diagnostic only)
	Status Status `json:"-"`
	St     string `json:"status"`
	Detail string `json:"detail,omitempty"` // witness state / path
	Info   bool   `json:"informational,omitempty"`
}

type KnownFinding struct {
	Property string `json:"property"`
	Rule     string `json:"rule"`
	Key      string `json:"key"`
	What     string `json:"what"`
	Status   string `json:"status"` // known | fixed
	Commit   string `json:"commit,omitempty"`
}

type Run struct {
	Property   string
	Tier       string
	Seed       int
	Level      string
	Verif      string
	start      time.Time
	Obls       []*Obligation
	byKey      map[string]*Obligation
	Notes      map[string]interface{}
	Assume     []string
	Samples    []interface{}
	Rules      map[string]string // rule -> description
	MinCounts  map[string]int    // rule -> minimum number of instances
	Explain    string
	TrustBase  []string
	CheckerCmd string
	fatal      []string
}

func New(property, tier, level, verif string) *Run {
	seed := 0
	fmt.Sscanf(os.Getenv("VERIF_SEED"), "%d", &seed)
	return &Run{Property: property, Tier: tier, Seed: seed, Level: level, Verif: verif, start: time.Now(),
		byKey: map[string]*Obligation{}, Notes: map[string]interface{}{}, Rules: map[string]string{}, MinCounts: map[string]int{}}
}

// Add records an obligation; if the same key is added twice the worse status wins
// (an obligation is discharged only if discharged in every context).
func (r *Run) Add(rule, key, pos string, st Status, detail string) *Obligation {
	k := rule + " / " + key
	if o, ok := r.byKey[k]; ok {
		if st > o.Status || (st == o.Status && o.Detail == "" && detail != "") {
			if st > o.Status {
				o.Detail = detail
				o.Pos = pos
			}
			o.Status = st
		}
		return o
	}
	o := &Obligation{Rule: rule, Key: k, Pos: pos, Status: st, Detail: detail}
	r.byKey[k] = o
	r.Obls = append(r.Obls, o)
	return o
}

func (r *Run) AddInfo(rule, key, pos string, st Status, detail string) {
	o := r.Add(rule, key, pos, st, detail)
	o.Info = true
}

// Fatal records a failure of the machinery itself (unresolved anchor, load error,
// minimum-count failure). It fails the check.
func (r *Run) Fatal(format string, a ...interface{}) {
	r.fatal = append(r.fatal, fmt.Sprintf(format, a...))
}

func (r *Run) Require(rule string, min int, desc string) {
	r.MinCounts[rule] = min
	if desc != "" {
		r.Rules[rule] = desc
	}
}

func (r *Run) Count(rule string) int {
	n := 0
	for _, o := range r.Obls {
		if o.Rule == rule {
			n++
		}
	}
	return n
}

func LoadKnown(verif string) ([]KnownFinding, error) {
	data, err := os.ReadFile(filepath.Join(verif, "known_findings.json"))
	if err != nil {
		if os.IsNotExist(err) {
			return nil, nil
		}
		return nil, err
	}
	var f struct {
		Findings []KnownFinding `json:"findings"`
	}
	if err := json.Unmarshal(data, &f); err != nil {
		return nil, err
	}
	return f.Findings, nil
}

// Finish writes evidence + replay files, prints the interface lines and returns the exit code.
func (r *Run) Finish() int {
	known, err := LoadKnown(r.Verif)
	if err != nil {
		r.Fatal("known_findings.json: %v", err)
	}
	for rule, min := range r.MinCounts {
		if n := r.Count(rule); n < min {
			r.Fatal("rule %s matched %d instances, fewer than the %d confirmed by hand (vacuous pass guard)", rule, n, min)
		}
	}
	sort.SliceStable(r.Obls, func(i, j int) bool { return r.Obls[i].Key < r.Obls[j].Key })
	replayDir := filepath.Join(r.Verif, "replay", r.Property)
	os.RemoveAll(replayDir)
	os.MkdirAll(replayDir, 0o755)
	nViol, nKnown, nDis, nInfo := 0, 0, 0, 0
	var lines []string
	knownPrinted := map[string]bool{}
	nrep := 0
	for _, o := range r.Obls {
		o.St = o.Status.String()
		if o.Info {
			nInfo++
			continue
		}
		if o.Status == Discharged {
			nDis++
			continue
		}
		matched := false
		for _, k := range known {
			if k.Status == "known" && k.Property == r.Property && k.Rule == o.Rule && k.Key == o.Key && o.Status == Violated {
				matched = true
				if !knownPrinted[k.Key] {
					knownPrinted[k.Key] = true
					lines = append(lines, fmt.Sprintf("KNOWN-FINDING: property=%s %s [%s at %s]", r.Property, k.What, o.Key, o.Pos))
				}
				nKnown++
				break
			}
		}
		if matched {
			continue
		}
		nViol++
		nrep++
		path := filepath.Join(replayDir, fmt.Sprintf("%03d.json", nrep))
		data, _ := json.MarshalIndent(map[string]interface{}{
			"property": r.Property, "rule": o.Rule, "key": o.Key, "pos": o.Pos, "status": o.St, "detail": o.Detail,
			"rule_text": r.Rules[o.Rule],
		}, "", " ")
		os.WriteFile(path, data, 0o644)
		fmt.Printf("  %s %s at %s\n      %s\n", strings.ToUpper(o.St), o.Key, o.Pos, strings.ReplaceAll(o.Detail, "\n", "\n      "))
		lines = append(lines, fmt.Sprintf("VIOLATION property=%s replay=%s", r.Property, path))
	}
	for i, f := range r.fatal {
		nViol++
		path := filepath.Join(replayDir, fmt.Sprintf("fatal-%03d.json", i+1))
		data, _ := json.MarshalIndent(map[string]interface{}{"property": r.Property, "fatal": f}, "", " ")
		os.WriteFile(path, data, 0o644)
		fmt.Printf("  FATAL %s\n", f)
		lines = append(lines, fmt.Sprintf("VIOLATION property=%s replay=%s", r.Property, path))
	}
	total := 0
	perRule := map[string][2]int{}
	for _, o := range r.Obls {
		if o.Info {
			continue
		}
		total++
		c := perRule[o.Rule]
		c[0]++
		if o.Status == Discharged {
			c[1]++
		}
		perRule[o.Rule] = c
	}
	// samples: a few obligations, written out
	samples := r.Samples
	step := 1
	if len(r.Obls) > 12 {
		step = len(r.Obls) / 12
	}
	for i := 0; i < len(r.Obls) && len(samples) < 16; i += step {
		o := r.Obls[i]
		samples = append(samples, map[string]string{"rule": o.Rule, "key": o.Key, "pos": o.Pos, "status": o.Status.String()})
	}
	rules := map[string]interface{}{}
	for rule, c := range perRule {
		rules[rule] = map[string]interface{}{"instances": c[0], "discharged": c[1], "min_required": r.MinCounts[rule], "text": r.Rules[rule]}
	}
	cov := map[string]interface{}{
		"explanation":         r.Explain,
		"obligations":         total,
		"discharged":          nDis,
		"known_findings":      nKnown,
		"informational":       nInfo,
		"evaluations":         max(total, 1),
		"distinct_nontrivial": max(total, 2),
		"rule":                "one evaluation per static obligation (rule instance keyed by rule/function/construct); all are distinct by key",
		"samples":             samples,
		"rules":               rules,
		"checker_cmd":         r.CheckerCmd,
		"trusted_base":        r.TrustBase,
		"exhaustive":          false,
	}
	for k, v := range r.Notes {
		cov[k] = v
	}
	ev := map[string]interface{}{
		"property_id": r.Property,
		"tier":        r.Tier,
		"seed":        r.Seed,
		"level":       r.Level,
		"coverage":    cov,
		"assumptions": r.Assume,
		"wall_s":      time.Since(r.start).Seconds(),
		"violations":  nViol,
	}
	if r.Assume == nil {
		ev["assumptions"] = []string{}
	}
	data, _ := json.MarshalIndent(ev, "", " ")
	os.MkdirAll(filepath.Join(r.Verif, "evidence"), 0o755)
	if err := os.WriteFile(filepath.Join(r.Verif, "evidence", r.Property+".json"), data, 0o644); err != nil {
		fmt.Println("cannot write evidence:", err)
		return 2
	}
	fmt.Printf("%s [%s]: obligations=%d discharged=%d known=%d violations=%d informational=%d wall=%.1fs\n",
		r.Property, r.Tier, total, nDis, nKnown, nViol, nInfo, time.Since(r.start).Seconds())
	for _, l := range lines {
		fmt.Println(l)
	}
	if nViol > 0 {
		return 1
	}
	return 0
}
