package absint

import (
	"fmt"
	"go/types"
	"strings"

	"golang.org/x/tools/go/ssa"
)

// Atom is an unknown integer quantity. Atoms with a structural Key are hash-consed: the
// same pure derivation yields the same atom (CSE), e.g. rd(body.v0,4,1) or len(b7).
type Atom struct {
	ID    int
	Key   string // structural key ("" for fresh unknowns)
	Desc  string // human rendering
	HasLo bool
	Lo    int64
	HasHi bool
	Hi    int64
	// structural description for layout extraction (may be nil)
	Op   string // "rd","shr","and","or","shl","xor","mul","div","rem","conv","len","cap","phi","init","call","?"...
	Args []Term
	Aux  int64
}

func (a *Atom) String() string {
	if a.Desc != "" {
		return a.Desc
	}
	return fmt.Sprintf("a%d", a.ID)
}

// Term is an abstract value.
type Term interface{ TKey() string }

// Int: integer (or bool-as-int is not used) value as a linear expression.
type Int struct{ L Lin }

func (t Int) TKey() string { return "i:" + t.L.Key() }

// Bool values.
type BoolKind uint8

const (
	BConst BoolKind = iota
	BCmp            // Con holds
	BNot
	BUnknown
)

type Bool struct {
	Kind BoolKind
	Val  bool
	C    Con
	X    *Bool
	ID   int // for unknown
	// Src: structural source for unknown bools (e.g. string/byte compare) – used by layout
	Src string
}

func (b *Bool) TKey() string {
	switch b.Kind {
	case BConst:
		return fmt.Sprintf("b:%v", b.Val)
	case BCmp:
		return "b:" + b.C.Key()
	case BNot:
		return "b:!" + b.X.TKey()
	}
	return fmt.Sprintf("b:?%d", b.ID)
}

var (
	True  = &Bool{Kind: BConst, Val: true}
	False = &Bool{Kind: BConst, Val: false}
)

// Base identifies a backing array (or string contents).
type Base struct {
	ID    int
	Desc  string
	Fresh bool // allocated by the analysed code (make/append/conversion): no foreign memory beyond len
	Str   *string
	// provenance (layout extraction, alias analysis)
	Op    string // "conv","append","appendU","clone","call:<fn>","sprintf:<fmt>"
	From  *Slice // source slice
	From2 *Slice // appended slice
	Val   Term   // appended value (appendU)
	Aux   int64
	Alias *Base // shares the backing array of this base (bytes.Trim…)
	// MayAlias: bases whose backing array this one may share (joins, loop generalisation)
	MayAlias []*Base
	Elems    []Term  // known elements (variadic argument arrays)
	Cut      *string // constant cut set of a Trim call
}

// Slice: slice or string value.
type Slice struct {
	Base  *Base
	Off   Lin // offset of element 0 in the base, in elements
	Len   Lin
	Cap   *Lin // nil: unknown (>= Len)
	IsStr bool
	Nil   bool // definitely nil slice
}

func (s *Slice) TKey() string {
	c := "?"
	if s.Cap != nil {
		c = s.Cap.Key()
	}
	return fmt.Sprintf("s:b%d@%s+%s/%s", s.Base.ID, s.Off.Key(), s.Len.Key(), c)
}

// Ptr: pointer to a location (object, path).
type Ptr struct {
	Obj  *Obj
	Path string
	// element pointer into a slice base
	Elem    *Base
	ElemOff Lin
	ElemTyp types.Type
	// NilUnk: a pointer of unknown origin – assumed usable, but a comparison with nil is undecided
	NilUnk bool
}

func (p *Ptr) TKey() string {
	if p.Elem != nil {
		return fmt.Sprintf("p:elem(b%d@%s)%s", p.Elem.ID, p.ElemOff.Key(), p.Path)
	}
	return fmt.Sprintf("p:o%d%s", p.Obj.ID, p.Path)
}

// Obj is an abstract memory object.
type Obj struct {
	ID      int
	Desc    string
	Fresh   bool // allocated by analysed code in this activation tree (cannot alias unknown objects)
	Typ     types.Type
	Nilable bool
}

type NilT struct{ Typ types.Type }

func (n NilT) TKey() string { return "nil" }

type Struct struct {
	Typ    types.Type
	Fields []Term
}

func (s *Struct) TKey() string {
	parts := make([]string, len(s.Fields))
	for i, f := range s.Fields {
		if f == nil {
			parts[i] = "_"
		} else {
			parts[i] = f.TKey()
		}
	}
	return "st{" + strings.Join(parts, ",") + "}"
}

type Tuple struct{ Elems []Term }

func (t *Tuple) TKey() string {
	parts := make([]string, len(t.Elems))
	for i, f := range t.Elems {
		if f == nil {
			parts[i] = "_"
		} else {
			parts[i] = f.TKey()
		}
	}
	return "tu(" + strings.Join(parts, ",") + ")"
}

type Closure struct {
	Fn       *ssa.Function
	Bindings []Term
	Recv     Term // bound method receiver (for $bound)
}

func (c *Closure) TKey() string {
	parts := make([]string, len(c.Bindings))
	for i, f := range c.Bindings {
		parts[i] = f.TKey()
	}
	return fmt.Sprintf("fn:%p(%s)", c.Fn, strings.Join(parts, ","))
}

type Iface struct {
	Typ types.Type // dynamic type
	Val Term
}

func (i *Iface) TKey() string { return "if:" + i.Typ.String() + ":" + i.Val.TKey() }

type MapT struct {
	Obj    *Obj
	NilUnk bool
}

func (m *MapT) TKey() string { return fmt.Sprintf("m:o%d", m.Obj.ID) }

// Unknown is a value about which nothing is known (non-integer).
type Unknown struct {
	ID   int
	Typ  types.Type
	Desc string
	// Nilness: nilUnknown (assumed usable), nilNon, nilMaybe (dereference is flagged)
	Nilness int
	Why     string
	// error provenance: the sentinel error variables this error is or wraps; ErrsExact when
	// that set is complete (so errors.Is can be decided)
	Errs      []string
	ErrsExact bool
	// Pooled: obtained from (*sync.Pool).Get: storage shared with whoever gets the object next
	Pooled bool
}

func (u *Unknown) TKey() string { return fmt.Sprintf("u%d", u.ID) }

// StrConst is a constant string.
func isInteger(t types.Type) bool {
	b, ok := t.Underlying().(*types.Basic)
	return ok && b.Info()&types.IsInteger != 0
}

func isBool(t types.Type) bool {
	b, ok := t.Underlying().(*types.Basic)
	return ok && b.Info()&types.IsBoolean != 0
}

func isString(t types.Type) bool {
	b, ok := t.Underlying().(*types.Basic)
	return ok && b.Info()&types.IsString != 0
}

func isSlice(t types.Type) bool {
	_, ok := t.Underlying().(*types.Slice)
	return ok
}

func isPointerLike(t types.Type) bool {
	switch t.Underlying().(type) {
	case *types.Pointer, *types.Map, *types.Chan, *types.Signature, *types.Interface, *types.Slice:
		return true
	}
	return false
}

// intRange returns the value range of an integer type (amd64: int = 64 bit).
func intRange(t types.Type) (lo, hi int64, hasLo, hasHi bool) {
	b, ok := t.Underlying().(*types.Basic)
	if !ok {
		return
	}
	switch b.Kind() {
	case types.Uint8:
		return 0, 255, true, true
	case types.Uint16:
		return 0, 65535, true, true
	case types.Uint32:
		return 0, 1<<32 - 1, true, true
	case types.Uint64, types.Uint, types.Uintptr:
		return 0, 0, true, false
	case types.Int8:
		return -128, 127, true, true
	case types.Int16:
		return -32768, 32767, true, true
	case types.Int32:
		return -(1 << 31), 1<<31 - 1, true, true
	case types.Int64, types.Int, types.UntypedInt, types.UntypedRune:
		return 0, 0, false, false
	}
	return
}

func typeBits(t types.Type) int {
	b, ok := t.Underlying().(*types.Basic)
	if !ok {
		return 0
	}
	switch b.Kind() {
	case types.Uint8, types.Int8:
		return 8
	case types.Uint16, types.Int16:
		return 16
	case types.Uint32, types.Int32:
		return 32
	default:
		return 64
	}
}

func isUnsigned(t types.Type) bool {
	b, ok := t.Underlying().(*types.Basic)
	return ok && b.Info()&types.IsUnsigned != 0
}
