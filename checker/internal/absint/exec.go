package absint

import (
	"fmt"
	"go/constant"
	"go/token"
	"go/types"
	"os"
	"regexp"
	"strings"
	"time"

	"golang.org/x/tools/go/ssa"
)

const (
	nilUnknown = 0
	nilNon     = 1
	nilMaybe   = 2
	nilIs      = 3
)

func nilness(t Term) int {
	switch v := t.(type) {
	case NilT:
		return nilIs
	case *Unknown:
		return v.Nilness
	case *Ptr:
		if v.NilUnk {
			return nilUnknown
		}
		return nilNon
	case *MapT:
		if v.NilUnk {
			return nilUnknown
		}
		return nilNon
	case *Closure, *Iface:
		return nilNon
	case *Slice:
		if v.Nil {
			return nilIs
		}
		return nilUnknown
	}
	return nilUnknown
}

// unknownOf builds an unconstrained value of type t.
func (a *Analyzer) unknownOf(t types.Type, desc string, st *State) Term {
	switch u := t.Underlying().(type) {
	case *types.Basic:
		switch {
		case u.Info()&types.IsInteger != 0:
			return Int{AtomLin(a.freshAtom(desc, t))}
		case u.Info()&types.IsBoolean != 0:
			return &Bool{Kind: BUnknown, ID: a.id()}
		case u.Info()&types.IsString != 0:
			return &Slice{Base: &Base{ID: a.id(), Desc: desc}, Off: Const(0), Len: AtomLin(a.freshLen("len(" + desc + ")")), IsStr: true}
		}
		return &Unknown{ID: a.id(), Typ: t, Desc: desc}
	case *types.Slice:
		return &Slice{Base: &Base{ID: a.id(), Desc: desc}, Off: Const(0), Len: AtomLin(a.freshLen("len(" + desc + ")"))}
	case *types.Struct:
		s := &Struct{Typ: t, Fields: make([]Term, u.NumFields())}
		for i := 0; i < u.NumFields(); i++ {
			s.Fields[i] = a.unknownOf(u.Field(i).Type(), desc+"."+u.Field(i).Name(), st)
		}
		return s
	case *types.Pointer:
		o := &Obj{ID: a.id(), Desc: "*" + desc, Typ: u.Elem()}
		return &Ptr{Obj: o, NilUnk: true}
	case *types.Map:
		return &MapT{Obj: &Obj{ID: a.id(), Desc: desc, Typ: t}, NilUnk: true}
	case *types.Tuple:
		tu := &Tuple{Elems: make([]Term, u.Len())}
		for i := 0; i < u.Len(); i++ {
			tu.Elems[i] = a.unknownOf(u.At(i).Type(), fmt.Sprintf("%s#%d", desc, i), st)
		}
		return tu
	}
	return &Unknown{ID: a.id(), Typ: t, Desc: desc}
}

// zeroOf builds the zero value of type t.
func (a *Analyzer) zeroOf(t types.Type) Term {
	switch u := t.Underlying().(type) {
	case *types.Basic:
		switch {
		case u.Info()&types.IsInteger != 0:
			return Int{Const(0)}
		case u.Info()&types.IsBoolean != 0:
			return False
		case u.Info()&types.IsString != 0:
			e := ""
			return &Slice{Base: &Base{ID: a.id(), Desc: `""`, Str: &e, Fresh: true}, Off: Const(0), Len: Const(0), IsStr: true}
		}
		return &Unknown{ID: a.id(), Typ: t, Desc: "zero"}
	case *types.Slice:
		z := Const(0)
		return &Slice{Base: &Base{ID: a.id(), Desc: "nil-slice", Fresh: true}, Off: Const(0), Len: Const(0), Cap: &z, Nil: true}
	case *types.Struct:
		s := &Struct{Typ: t, Fields: make([]Term, u.NumFields())}
		for i := 0; i < u.NumFields(); i++ {
			s.Fields[i] = a.zeroOf(u.Field(i).Type())
		}
		return s
	case *types.Pointer, *types.Map, *types.Chan, *types.Signature, *types.Interface:
		return NilT{Typ: t}
	case *types.Array:
		return &Unknown{ID: a.id(), Typ: t, Desc: "zero-array"}
	}
	return &Unknown{ID: a.id(), Typ: t, Desc: "zero"}
}

// val evaluates an SSA value in a state.
func (a *Analyzer) val(st *State, v ssa.Value) Term {
	if t, ok := st.Env[v]; ok {
		return t
	}
	switch x := v.(type) {
	case *ssa.Const:
		return a.constTerm(x)
	case *ssa.Function:
		return &Closure{Fn: x}
	case *ssa.Global:
		return &Ptr{Obj: a.globalObj(x)}
	case *ssa.Builtin:
		return &Unknown{ID: a.id(), Typ: x.Type(), Desc: x.Name()}
	}
	// value defined on a path not taken (e.g. after merges); unknown
	t := a.unknownOf(v.Type(), v.Name(), st)
	st.Env[v] = t
	return t
}

func (a *Analyzer) globalObj(g *ssa.Global) *Obj {
	if o, ok := a.globObj[g]; ok {
		return o
	}
	o := &Obj{ID: a.id(), Desc: g.Name(), Typ: g.Type().(*types.Pointer).Elem()}
	a.globObj[g] = o
	if a.objGlobal == nil {
		a.objGlobal = map[int]*ssa.Global{}
	}
	a.objGlobal[o.ID] = g
	return o
}

func (a *Analyzer) constTerm(c *ssa.Const) Term {
	t := c.Type()
	if c.Value == nil {
		return a.zeroOf(t)
	}
	switch c.Value.Kind() {
	case constant.Int:
		if isInteger(t) {
			if i, ok := constant.Int64Val(c.Value); ok {
				return Int{Const(i)}
			}
			return Int{AtomLin(a.freshAtom("bigconst", t))}
		}
	case constant.Bool:
		if constant.BoolVal(c.Value) {
			return True
		}
		return False
	case constant.String:
		s := constant.StringVal(c.Value)
		k := "str:" + s
		bs, ok := a.strBases[k]
		if !ok {
			bs = &Base{ID: a.id(), Desc: fmt.Sprintf("%q", s), Str: &s, Fresh: true}
			a.strBases[k] = bs
		}
		n := Const(int64(len(s)))
		return &Slice{Base: bs, Off: Const(0), Len: n, Cap: &n, IsStr: true}
	}
	return &Unknown{ID: a.id(), Typ: t, Desc: "const"}
}

// ---- memory ----------------------------------------------------------------------------

func pathField(st *types.Struct, named types.Type, i int) string {
	name := ""
	if n, ok := named.(*types.Named); ok {
		name = n.Obj().Name()
	}
	return fmt.Sprintf(".%s#%s", name, st.Field(i).Name())
}

func lastElem(path string) string {
	i := strings.LastIndexAny(path, ".[")
	if i < 0 {
		return path
	}
	return path[i:]
}

func (a *Analyzer) objOfPtr(st *State, p Term, instr ssa.Instruction, fr *frame) (*Ptr, bool) {
	switch v := p.(type) {
	case *Ptr:
		return v, true
	case NilT:
		a.obl("E1.nil", fr.fn, instr, "", false, func() string {
			return "dereference of a value that is nil on this path\n" + st.Describe() + a.debugHeap(st)
		})
		return nil, false
	case *Unknown:
		knownNonNil := false
		if bid, ok := a.nilCmp[v.ID]; ok {
			if isNil, decided := st.BoolFacts[bid]; decided && !isNil {
				knownNonNil = true // this path passed a `!= nil` test of the same value
			}
		}
		if v.Nilness == nilMaybe && knownNonNil {
			a.obl("E1.nil", fr.fn, instr, "", true, nil)
		} else if v.Nilness == nilMaybe {
			a.obl("E1.nil", fr.fn, instr, "", false, func() string {
				return fmt.Sprintf("dereference of %s which may be nil (%s)\n%s", v.Desc, v.Why, st.Describe())
			})
			// continue assuming non-nil (the execution that survives)
		}
		o, ok := a.derefObj[v.ID]
		if !ok {
			var et types.Type
			if v.Typ != nil {
				if pt, ok := v.Typ.Underlying().(*types.Pointer); ok {
					et = pt.Elem()
				}
			}
			o = &Obj{ID: a.id(), Desc: "*" + v.Desc, Typ: et}
			a.derefObj[v.ID] = o
		}
		return &Ptr{Obj: o}, true
	}
	return nil, false
}

func (a *Analyzer) load(st *State, p *Ptr, t types.Type) Term {
	if p.Elem != nil {
		if isInteger(t) && typeBits(t) == 8 {
			ver := st.Ver[p.Elem.ID]
			if p.Elem.Str != nil && p.ElemOff.IsConst() && p.ElemOff.C >= 0 && int(p.ElemOff.C) < len(*p.Elem.Str) {
				return Int{Const(int64((*p.Elem.Str)[p.ElemOff.C]))}
			}
			at := a.structAtom("rd", int64(ver), t, fmt.Sprintf("%s[%s]", p.Elem.Desc, p.ElemOff.String()), &baseRef{p.Elem}, Int{p.ElemOff}, Int{Const(1)})
			return Int{AtomLin(at)}
		}
		return a.unknownOf(t, fmt.Sprintf("%s[%s]", p.Elem.Desc, p.ElemOff.String()), st)
	}
	loc := Loc{p.Obj.ID, p.Path}
	if v, ok := st.Heap[loc]; ok {
		return v
	}
	a.locTypes[loc] = t
	if strings.HasSuffix(p.Path, "[*]") {
		return a.unknownOf(t, p.Obj.Desc+prettyPath(p.Path), st)
	}
	// an enclosing location holding an opaque value makes this one unknown
	for q := p.Path; q != ""; {
		i := strings.LastIndexAny(q, ".[")
		if i < 0 {
			break
		}
		q = q[:i]
		if _, ok := st.Heap[Loc{p.Obj.ID, q}]; ok {
			return a.unknownOf(t, p.Obj.Desc+prettyPath(p.Path), st)
		}
	}
	if stt, ok := t.Underlying().(*types.Struct); ok {
		s := &Struct{Typ: t, Fields: make([]Term, stt.NumFields())}
		for i := 0; i < stt.NumFields(); i++ {
			s.Fields[i] = a.load(st, &Ptr{Obj: p.Obj, Path: p.Path + pathField(stt, t, i)}, stt.Field(i).Type())
		}
		return s
	}
	var v Term
	if g, isGlobal := a.objGlobal[p.Obj.ID]; isGlobal && !a.inGlobInit {
		if gv, known := a.globalInitValue(g, loc); known {
			st.Heap[loc] = gv
			return gv
		}
	}
	if p.Obj.Fresh {
		v = a.zeroOf(t)
	} else {
		v = a.unknownOf(t, p.Obj.Desc+prettyPath(p.Path), st)
		if a.Track[p.Obj.ID] {
			a.taintTerm(v, map[Loc]bool{loc: true})
			a.initTerm[loc] = v
		} else if src := a.taint[p.Obj.ID]; len(src) > 0 {
			a.taintTerm(v, src)
		}
	}
	if m, ok := v.(*MapT); ok {
		a.mapOrigin[m.Obj.ID] = loc
	}
	st.Heap[loc] = v
	return v
}

var rePathElem = regexp.MustCompile(`\.[A-Za-z0-9_\[\],\*\. ]*#`)

func prettyPath(p string) string {
	// ".T#Name" -> ".Name" (diagnostics only)
	return rePathElem.ReplaceAllString(p, ".")
}

func (a *Analyzer) store(st *State, p *Ptr, v Term, t types.Type) {
	if p.Elem != nil {
		st.Ver[p.Elem.ID] = a.id()
		if a.LogWrites {
			if bt, ok := t.Underlying().(*types.Basic); ok && (bt.Kind() == types.Uint8 || bt.Kind() == types.Int8) {
				st.Log = append(st.Log, &WriteRec{Base: p.Elem, Off: p.ElemOff, Width: 1, Val: v})
			}
		}
		return
	}
	if sv, ok := v.(*Struct); ok {
		if stt, ok := t.Underlying().(*types.Struct); ok && len(sv.Fields) == stt.NumFields() {
			// overwrite the whole struct
			st.killPrefix(p.Obj.ID, p.Path+".")
			for i := 0; i < stt.NumFields(); i++ {
				a.store(st, &Ptr{Obj: p.Obj, Path: p.Path + pathField(stt, t, i)}, sv.Fields[i], stt.Field(i).Type())
			}
			return
		}
	}
	loc := Loc{p.Obj.ID, p.Path}
	a.locTypes[loc] = t
	if a.Track[p.Obj.ID] {
		a.Stored[loc] = true
	}
	// sub-locations and enclosing cached values
	st.killPrefix(p.Obj.ID, p.Path+".")
	st.killPrefix(p.Obj.ID, p.Path+"[")
	if strings.HasSuffix(p.Path, "[*]") {
		st.killPrefix(p.Obj.ID, strings.TrimSuffix(p.Path, "[*]")+"[")
		return
	}
	// may-alias: other non-fresh objects holding the same field
	if !p.Obj.Fresh && p.Path != "" {
		le := lastElem(p.Path)
		for k := range st.Heap {
			if k.Obj != p.Obj.ID && strings.HasSuffix(k.Path, le) && !a.isFreshObj(k.Obj) {
				if a.objGlobal[k.Obj] != nil && a.objGlobal[p.Obj.ID] != nil {
					continue // two different package-level variables never overlap
				}
				delete(st.Heap, k)
			}
		}
	}
	if v == nil {
		delete(st.Heap, loc)
		return
	}
	if m, ok := v.(*MapT); ok {
		a.mapOrigin[m.Obj.ID] = loc
	}
	// truncation to the start of the same backing array (x = x[0:0]): later appends overwrite
	// the old contents in place
	if ns, ok := v.(*Slice); ok && !ns.IsStr {
		if os, ok := st.Heap[loc].(*Slice); ok && ns.Len.IsConst() && ns.Len.C == 0 && !ns.Nil && ns.Off.Equal(os.Off) {
			if _, shared := AliasClosure(ns.Base)[os.Base.ID]; shared && !(os.Len.IsConst() && os.Len.C == 0) {
				a.markReused(ns, "buffer truncated to its start and appended to again ("+prettyPath(loc.Path)+")")
			}
		}
	}
	st.Heap[loc] = v
}

func (a *Analyzer) isFreshObj(id int) bool { return a.freshObjs[id] }

// ---- block execution ---------------------------------------------------------------------

func (a *Analyzer) execBlock(fr *frame, b *ssa.BasicBlock, st *State) (flows []flow, rets []retState) {
	states := []*State{st}
	for _, ins := range b.Instrs {
		if _, ok := ins.(*ssa.Phi); ok {
			continue
		}
		a.steps++
		if a.steps > a.MaxSteps || (a.steps&1023 == 0 && !a.Deadline.IsZero() && time.Now().After(a.Deadline)) {
			panic(errBudget)
		}
		switch x := ins.(type) {
		case *ssa.If:
			for _, s := range states {
				cond := a.val(s, x.Cond)
				a.noteBranch(fr, x, cond)
				bt, bf := a.branch(s, cond)
				if a.OnBranch != nil {
					if bt != nil {
						a.OnBranch(fr.fn, x, true, bt)
					}
					if bf != nil {
						a.OnBranch(fr.fn, x, false, bf)
					}
				}
				if bt != nil {
					bt.note(fmt.Sprintf("%s:T", a.P.RelPos(condPos(x))))
					flows = append(flows, flow{b.Succs[0], a.takeEdge(b, b.Succs[0], bt)})
				}
				if bf != nil {
					bf.note(fmt.Sprintf("%s:F", a.P.RelPos(condPos(x))))
					flows = append(flows, flow{b.Succs[1], a.takeEdge(b, b.Succs[1], bf)})
				}
			}
			return
		case *ssa.Jump:
			for _, s := range states {
				flows = append(flows, flow{b.Succs[0], a.takeEdge(b, b.Succs[0], s)})
			}
			return
		case *ssa.Return:
			for _, s := range states {
				var v Term
				switch len(x.Results) {
				case 0:
				case 1:
					v = a.val(s, x.Results[0])
				default:
					tu := &Tuple{}
					for _, r := range x.Results {
						tu.Elems = append(tu.Elems, a.val(s, r))
					}
					v = tu
				}
				if a.OnRet != nil && fr.depth == 0 {
					a.OnRet(fr.fn, x, s, v)
				}
				rets = append(rets, retState{s, v})
			}
			return
		case *ssa.Panic:
			if b.Comment == "yield-invalid" && !a.RangeFuncYieldExempt && a.extCallback[fr.fn] == 0 {
				// range-over-func: the iterator called yield again after the loop body had asked it to stop (break /
				// return inside the loop). The compiler's state variable makes this an ordinary reachability question.
				for _, s := range states {
					s := s
					a.obl("E1.rangefunc", fr.fn, ins, "", false, func() string {
						return "the iterator can call its yield function again after the loop body returned false (a break or return inside the range loop): the runtime panics with 'range function continued iteration after function for loop body returned false'\n" + s.Describe()
					})
				}
				return
			}
			if strings.HasPrefix(b.Comment, "rangefunc.") || b.Comment == "yield-invalid" {
				// remaining compiler-generated range-over-func protocol checks (iterator returned while the body was
				// still running, resume bookkeeping); exempt, listed as an assumption
				a.RangeFuncExempt++
				return
			}
			for _, s := range states {
				s := s
				a.obl("E1.panic", fr.fn, ins, "", false, func() string { return "explicit panic reachable\n" + s.Describe() })
			}
			return
		default:
			var next []*State
			for _, s := range states {
				next = append(next, a.step(fr, ins, s)...)
			}
			states = next
			if len(states) == 0 {
				return
			}
			if len(states) > a.K {
				states = a.mergeStates(states, nil)
			}
		}
	}
	return
}

func condPos(x *ssa.If) token.Pos {
	if x.Cond.Pos().IsValid() {
		return x.Cond.Pos()
	}
	if bi, ok := x.Cond.(*ssa.BinOp); ok {
		if bi.X.Pos().IsValid() {
			return bi.X.Pos()
		}
	}
	return x.Pos()
}

// branch refines st by cond; returns (true-state, false-state), nil when infeasible.
func (a *Analyzer) branch(st *State, cond Term) (*State, *State) {
	b, ok := cond.(*Bool)
	if !ok {
		return st.Clone(), st
	}
	switch b.Kind {
	case BConst:
		if b.Val {
			return st, nil
		}
		return nil, st
	case BNot:
		t, f := a.branch(st, b.X)
		return f, t
	case BCmp:
		var ts, fs *State
		pos, neg := b.C, negCon(b.C)
		feasT := !st.Cons.InfeasibleWith(pos)
		feasF := !st.Cons.InfeasibleWith(neg)
		if feasT && feasF {
			ts = st.Clone()
			fs = st
		} else if feasT {
			ts = st
		} else if feasF {
			fs = st
		}
		if ts != nil {
			a.assumeCon(ts, pos)
		}
		if fs != nil {
			a.assumeCon(fs, neg)
		}
		return ts, fs
	}
	// unknown bool: remember the decision so that the same bool is consistent later
	if prev, ok := st.BoolFacts[b.ID]; ok {
		if prev {
			return st, nil
		}
		return nil, st
	}
	ts := st.Clone()
	fs := st
	if ts.BoolFacts == nil {
		ts.BoolFacts = map[int]bool{}
	}
	if fs.BoolFacts == nil {
		fs.BoolFacts = map[int]bool{}
	}
	ts.BoolFacts[b.ID] = true
	fs.BoolFacts[b.ID] = false
	return ts, fs
}

func negCon(c Con) Con {
	switch c.Rel {
	case GE: // l >= 0  →  -l-1 >= 0
		return Con{c.L.Scale(-1).AddC(-1), GE}
	case EQ:
		return Con{c.L, NE}
	default:
		return Con{c.L, EQ}
	}
}

// assumeCon adds c; a disequality next to a known bound is tightened.
func (a *Analyzer) assumeCon(st *State, c Con) {
	if c.Rel == NE {
		if st.Cons.EntailsGE(c.L) { // l >= 0 and l != 0 → l >= 1
			st.AssumeGE(c.L.AddC(-1))
			return
		}
		if n := c.L.Scale(-1); st.Cons.EntailsGE(n) {
			st.AssumeGE(n.AddC(-1))
			return
		}
	}
	if c.Rel == EQ {
		a.contentCongruence(st, c.L)
	}
	st.Assume(c)
}

// rdConst matches l == ±(rd-atom) + k and returns the atom and the constant value it equals.
func rdConst(l Lin) (*Atom, int64, bool) {
	if len(l.Ts) != 1 || l.Ts[0].A.Op != "rd" || len(l.Ts[0].A.Args) != 3 {
		return nil, 0, false
	}
	switch l.Ts[0].Coef {
	case 1:
		return l.Ts[0].A, -l.C, true
	case -1:
		return l.Ts[0].A, l.C, true
	}
	return nil, 0, false
}

// contentCongruence: two reads of the same (unmodified) buffer that are known to yield
// different constants must be at different offsets:  b[e1]=c1 ∧ b[e2]=c2 ∧ c1≠c2 ⇒ e1≠e2.
func (a *Analyzer) contentCongruence(st *State, l Lin) {
	at, c1, ok := rdConst(l)
	if !ok {
		return
	}
	w1, _ := at.Args[2].(Int)
	if !w1.L.IsConst() || w1.L.C != 1 {
		return
	}
	for _, e := range st.Cons.EQs {
		o, c2, ok := rdConst(e)
		if !ok || o == at || c1 == c2 || o.Aux != at.Aux || o.Args[0].TKey() != at.Args[0].TKey() {
			continue
		}
		if w2, _ := o.Args[2].(Int); !w2.L.IsConst() || w2.L.C != 1 {
			continue
		}
		d := at.Args[1].(Int).L.Sub(o.Args[1].(Int).L)
		if d.IsConst() {
			continue
		}
		a.assumeCon(st, Con{d, NE})
	}
}

var traceFn = os.Getenv("JTVERIF_TRACEFN")

func (a *Analyzer) step(fr *frame, ins ssa.Instruction, st *State) []*State {
	if traceFn != "" && strings.Contains(fr.fn.Name(), traceFn) {
		defer func() {
			if v, ok := ins.(ssa.Value); ok {
				if t, ok := st.Env[v]; ok {
					fmt.Printf("TRACE %s: %s = %s   [%s]\n", traceFn, v.Name(), ins.String(), t.TKey())
					return
				}
			}
			fmt.Printf("TRACE %s: %s\n", traceFn, ins.String())
		}()
	}
	one := []*State{st}
	switch x := ins.(type) {
	case *ssa.DebugRef:
		return one
	case *ssa.Alloc:
		o := &Obj{ID: a.id(), Desc: x.Comment, Fresh: true, Typ: x.Type().(*types.Pointer).Elem()}
		if o.Desc == "" {
			o.Desc = x.Name()
		}
		a.freshObjs[o.ID] = true
		st.Env[x] = &Ptr{Obj: o}
		return one
	case *ssa.UnOp:
		return a.stepUnOp(fr, x, st)
	case *ssa.BinOp:
		r := a.binop(fr, x, st)
		if b, ok := r.(*Bool); ok && b.Kind == BUnknown {
			a.propagate(r, a.val(st, x.X), a.val(st, x.Y))
		}
		st.Env[x] = r
		return one
	case *ssa.Store:
		p, ok := a.objOfPtr(st, a.val(st, x.Addr), ins, fr)
		if !ok {
			return nil
		}
		if a.OnStore != nil {
			a.OnStore(fr.fn, x, st, a.load(st, p, x.Val.Type()), a.val(st, x.Val))
		}
		a.store(st, p, a.val(st, x.Val), x.Val.Type())
		return one
	case *ssa.FieldAddr:
		p, ok := a.objOfPtr(st, a.val(st, x.X), ins, fr)
		if !ok {
			return nil
		}
		stt := x.X.Type().Underlying().(*types.Pointer).Elem().Underlying().(*types.Struct)
		named := x.X.Type().Underlying().(*types.Pointer).Elem()
		if p.Elem != nil {
			// pointer to a struct element of a slice
			o := a.elemObjFor(st, p)
			p = &Ptr{Obj: o}
		}
		st.Env[x] = &Ptr{Obj: p.Obj, Path: p.Path + pathField(stt, named, x.Field)}
		return one
	case *ssa.Field:
		v := a.val(st, x.X)
		if s, ok := v.(*Struct); ok && x.Field < len(s.Fields) && s.Fields[x.Field] != nil {
			st.Env[x] = s.Fields[x.Field]
		} else {
			st.Env[x] = a.unknownOf(x.Type(), x.Name(), st)
		}
		return one
	case *ssa.IndexAddr:
		return a.stepIndexAddr(fr, x, st)
	case *ssa.Index:
		return a.stepIndex(fr, x, st)
	case *ssa.Slice:
		return a.stepSlice(fr, x, st)
	case *ssa.Convert:
		st.Env[x] = a.convert(fr, x, st)
		return one
	case *ssa.MultiConvert:
		st.Env[x] = a.unknownOf(x.Type(), x.Name(), st)
		return one
	case *ssa.ChangeType:
		st.Env[x] = a.val(st, x.X)
		return one
	case *ssa.ChangeInterface:
		st.Env[x] = a.val(st, x.X)
		return one
	case *ssa.MakeInterface:
		st.Env[x] = &Iface{Typ: x.X.Type(), Val: a.val(st, x.X)}
		return one
	case *ssa.TypeAssert:
		v := a.val(st, x.X)
		if ifc, ok := v.(*Iface); ok {
			match := types.Identical(ifc.Typ, x.AssertedType)
			if _, isIface := x.AssertedType.Underlying().(*types.Interface); isIface {
				match = types.Implements(ifc.Typ, x.AssertedType.Underlying().(*types.Interface))
				if match {
					if x.CommaOk {
						st.Env[x] = &Tuple{Elems: []Term{ifc, True}}
					} else {
						st.Env[x] = ifc
					}
					return one
				}
			} else if match {
				if x.CommaOk {
					st.Env[x] = &Tuple{Elems: []Term{ifc.Val, True}}
				} else {
					st.Env[x] = ifc.Val
				}
				return one
			}
			if x.CommaOk {
				st.Env[x] = &Tuple{Elems: []Term{a.zeroOf(x.AssertedType), False}}
				return one
			}
			a.obl("E1.typeassert", fr.fn, ins, "", false, func() string {
				return fmt.Sprintf("type assertion to %s fails: dynamic type is %s", x.AssertedType, ifc.Typ)
			})
			return nil
		}
		if u, isU := v.(*Unknown); isU && u.Pooled {
			// a value taken from a sync.Pool: the pool holds what its users put there (assumption: of the asserted type)
			res := a.unknownOf(x.AssertedType, x.Name(), st)
			if p, isP := res.(*Ptr); isP {
				p.NilUnk = false
				if p.Obj != nil {
					if a.pooledObj == nil {
						a.pooledObj = map[int]bool{}
					}
					a.pooledObj[p.Obj.ID] = true
				}
			}
			if x.CommaOk {
				st.Env[x] = &Tuple{Elems: []Term{res, True}}
			} else {
				st.Env[x] = res
			}
			return one
		}
		if x.CommaOk {
			st.Env[x] = &Tuple{Elems: []Term{a.unknownOf(x.AssertedType, x.Name(), st), &Bool{Kind: BUnknown, ID: a.id()}}}
		} else {
			a.obl("E1.typeassert", fr.fn, ins, "", false, func() string {
				return "type assertion without comma-ok on a value of unknown dynamic type"
			})
			st.Env[x] = a.unknownOf(x.AssertedType, x.Name(), st)
		}
		return one
	case *ssa.MakeSlice:
		ln, _ := a.val(st, x.Len).(Int)
		cp, _ := a.val(st, x.Cap).(Int)
		okL := st.Cons.EntailsGE(ln.L)
		a.obl("E1.make", fr.fn, ins, "len>=0", okL, func() string {
			return fmt.Sprintf("make: length %s not proven non-negative\n%s", ln.L.String(), st.Describe(ln.L))
		})
		st.AssumeGE(ln.L)
		if !cp.L.Equal(ln.L) {
			okC := st.Cons.EntailsGE(cp.L.Sub(ln.L))
			a.obl("E1.make", fr.fn, ins, "cap>=len", okC, func() string {
				return fmt.Sprintf("make: capacity %s not proven >= length %s\n%s", cp.L.String(), ln.L.String(), st.Describe(ln.L, cp.L))
			})
			st.AssumeGE(cp.L.Sub(ln.L))
		}
		c := cp.L
		if a.OnMake != nil {
			a.OnMake(fr.fn, x, st, ln.L, cp.L)
		}
		st.Env[x] = &Slice{Base: &Base{ID: a.id(), Desc: "make@" + a.P.RelPos(x.Pos()), Fresh: true}, Off: Const(0), Len: ln.L, Cap: &c}
		return one
	case *ssa.MakeMap:
		o := &Obj{ID: a.id(), Desc: "map@" + a.P.RelPos(x.Pos()), Fresh: true, Typ: x.Type()}
		a.freshObjs[o.ID] = true
		st.Env[x] = &MapT{Obj: o}
		return one
	case *ssa.MakeChan:
		st.Env[x] = &Unknown{ID: a.id(), Typ: x.Type(), Desc: "chan", Nilness: nilNon}
		return one
	case *ssa.MakeClosure:
		c := &Closure{Fn: x.Fn.(*ssa.Function)}
		for _, b := range x.Bindings {
			c.Bindings = append(c.Bindings, a.val(st, b))
		}
		st.Env[x] = c
		return one
	case *ssa.Lookup:
		return a.stepLookup(fr, x, st)
	case *ssa.MapUpdate:
		m := a.val(st, x.Map)
		k := a.val(st, x.Key)
		v := a.val(st, x.Value)
		if a.OnMapUpdate != nil {
			a.OnMapUpdate(fr.fn, x, st, m, k, v)
		}
		switch mv := m.(type) {
		case *MapT:
			key := "[" + k.TKey() + "]"
			for loc := range st.Heap {
				if loc.Obj == mv.Obj.ID && strings.HasPrefix(loc.Path, "[") && loc.Path != key {
					if !distinctKeys(loc.Path, key) {
						delete(st.Heap, loc)
					}
				}
			}
			st.Heap[Loc{mv.Obj.ID, key}] = v
			delete(st.Heap, Loc{mv.Obj.ID, "?" + key})
			st.Heap[Loc{mv.Obj.ID, "#nonempty"}] = True
		case NilT:
			a.obl("E1.nilmap", fr.fn, ins, "", false, func() string { return "assignment to entry in nil map\n" + st.Describe() })
			return nil
		}
		return one
	case *ssa.Range:
		st.Env[x] = &Unknown{ID: a.id(), Typ: x.Type(), Desc: "range"}
		return one
	case *ssa.Next:
		tt := x.Type().(*types.Tuple)
		tu := &Tuple{Elems: []Term{&Bool{Kind: BUnknown, ID: a.id()}}}
		for i := 1; i < tt.Len(); i++ {
			e := a.unknownOf(tt.At(i).Type(), fmt.Sprintf("%s#%d", x.Name(), i), st)
			tu.Elems = append(tu.Elems, e)
		}
		st.Env[x] = tu
		return one
	case *ssa.Extract:
		v := a.val(st, x.Tuple)
		if tu, ok := v.(*Tuple); ok && x.Index < len(tu.Elems) && tu.Elems[x.Index] != nil {
			st.Env[x] = tu.Elems[x.Index]
		} else {
			st.Env[x] = a.unknownOf(x.Type(), x.Name(), st)
		}
		return one
	case *ssa.Select:
		tt := x.Type().(*types.Tuple)
		tu := &Tuple{}
		lo := int64(0)
		if !x.Blocking {
			lo = -1
		}
		tu.Elems = append(tu.Elems, Int{AtomLin(a.freshRange("select", lo, int64(len(x.States)-1)))})
		for i := 1; i < tt.Len(); i++ {
			tu.Elems = append(tu.Elems, a.unknownOf(tt.At(i).Type(), fmt.Sprintf("recv#%d", i), st))
		}
		st.Env[x] = tu
		return one
	case *ssa.Send:
		return one
	case *ssa.Go:
		if callee := x.Call.StaticCallee(); callee != nil {
			a.GoTargets[callee] = true
		} else if c, ok := a.val(st, x.Call.Value).(*Closure); ok && !x.Call.IsInvoke() {
			a.GoTargets[c.Fn] = true
		}
		return one
	case *ssa.Defer:
		d := &deferred{call: &x.Call, pos: x}
		if !x.Call.IsInvoke() {
			if _, isB := x.Call.Value.(*ssa.Builtin); !isB {
				d.fn = a.val(st, x.Call.Value)
			}
		} else {
			d.fn = a.val(st, x.Call.Value)
		}
		for _, arg := range x.Call.Args {
			d.args = append(d.args, a.val(st, arg))
		}
		st.Defers = append(st.Defers, d)
		return one
	case *ssa.RunDefers:
		states := []*State{st}
		for {
			var next []*State
			progressed := false
			for _, s := range states {
				if len(s.Defers) == 0 {
					next = append(next, s)
					continue
				}
				progressed = true
				d := s.Defers[len(s.Defers)-1]
				s.Defers = s.Defers[:len(s.Defers)-1]
				saved := s.Defers
				outs := a.doCall(fr, d.pos, d.call, s, d.fn, d.args, nil)
				for _, o := range outs {
					o.Defers = append([]*deferred(nil), saved...)
				}
				next = append(next, outs...)
			}
			states = next
			if !progressed || len(states) == 0 {
				break
			}
		}
		return states
	case *ssa.Call:
		var fnv Term
		if _, isB := x.Call.Value.(*ssa.Builtin); !isB {
			fnv = a.val(st, x.Call.Value)
		}
		var args []Term
		for _, arg := range x.Call.Args {
			args = append(args, a.val(st, arg))
		}
		return a.doCall(fr, x, &x.Call, st, fnv, args, x)
	case *ssa.SliceToArrayPointer:
		v := a.val(st, x.X)
		n := x.Type().(*types.Pointer).Elem().Underlying().(*types.Array).Len()
		if s, ok := v.(*Slice); ok {
			g := s.Len.AddC(-n)
			ok := st.Cons.EntailsGE(g)
			a.obl("E1.slice2array", fr.fn, ins, "", ok, func() string {
				return fmt.Sprintf("conversion of slice to [%d]array: len %s not proven >= %d\n%s", n, s.Len.String(), n, st.Describe(s.Len))
			})
			st.AssumeGE(g)
		}
		o := &Obj{ID: a.id(), Desc: x.Name(), Typ: x.Type().(*types.Pointer).Elem()}
		st.Env[x] = &Ptr{Obj: o}
		return one
	}
	a.Undecided = append(a.Undecided, fmt.Sprintf("%s: unsupported instruction %T at %s", shortFn(fr.fn), ins, a.P.RelPos(ins.Pos())))
	if v, ok := ins.(ssa.Value); ok {
		st.Env[v] = a.unknownOf(v.Type(), v.Name(), st)
	}
	return one
}

func distinctKeys(p1, p2 string) bool {
	// both constant integer keys "[i:C]" with different constants
	if strings.HasPrefix(p1, "[i:") && strings.HasPrefix(p2, "[i:") && !strings.Contains(p1, "*a") && !strings.Contains(p2, "*a") {
		return p1 != p2
	}
	return false
}

func (a *Analyzer) elemObjFor(st *State, p *Ptr) *Obj {
	k := fmt.Sprintf("b%d.v%d@%s", p.Elem.ID, st.Ver[p.Elem.ID], p.ElemOff.Key())
	if o, ok := a.elemObj[k]; ok {
		return o
	}
	o := &Obj{ID: a.id(), Desc: fmt.Sprintf("%s[%s]", p.Elem.Desc, p.ElemOff.String()), Typ: p.ElemTyp}
	a.elemObj[k] = o
	return o
}

func (a *Analyzer) stepUnOp(fr *frame, x *ssa.UnOp, st *State) []*State {
	one := []*State{st}
	switch x.Op {
	case token.MUL: // load
		p, ok := a.objOfPtr(st, a.val(st, x.X), x, fr)
		if !ok {
			return nil
		}
		if p.Elem != nil && !(isInteger(x.Type()) && typeBits(x.Type()) == 8) {
			if _, isStruct := x.Type().Underlying().(*types.Struct); isStruct {
				o := a.elemObjFor(st, p)
				st.Env[x] = a.load(st, &Ptr{Obj: o}, x.Type())
				return one
			}
		}
		v := a.load(st, p, x.Type())
		// loads of sentinel error globals are non-nil
		if g, ok := x.X.(*ssa.Global); ok {
			if u, ok := v.(*Unknown); ok && a.sentinelErr(g) {
				u.Nilness = nilNon
				u.Errs = []string{g.String()}
				u.ErrsExact = true
			}
		}
		st.Env[x] = v
	case token.NOT:
		if b, ok := a.val(st, x.X).(*Bool); ok {
			switch b.Kind {
			case BConst:
				if b.Val {
					st.Env[x] = False
				} else {
					st.Env[x] = True
				}
			case BNot:
				st.Env[x] = b.X
			default:
				st.Env[x] = &Bool{Kind: BNot, X: b}
			}
		} else {
			st.Env[x] = &Bool{Kind: BUnknown, ID: a.id()}
		}
	case token.SUB:
		if v, ok := a.val(st, x.X).(Int); ok && !isUnsigned(x.Type()) {
			st.Env[x] = Int{v.L.Scale(-1)}
		} else {
			st.Env[x] = a.unknownOf(x.Type(), x.Name(), st)
		}
	case token.ARROW:
		if x.CommaOk {
			tt := x.Type().(*types.Tuple)
			st.Env[x] = &Tuple{Elems: []Term{a.unknownOf(tt.At(0).Type(), "recv", st), &Bool{Kind: BUnknown, ID: a.id()}}}
		} else {
			st.Env[x] = a.unknownOf(x.Type(), "recv", st)
		}
	default:
		st.Env[x] = a.unknownOf(x.Type(), x.Name(), st)
	}
	return one
}

func (a *Analyzer) sentinelErr(g *ssa.Global) bool {
	t := g.Type().(*types.Pointer).Elem()
	if !types.Identical(t, types.Universe.Lookup("error").Type()) {
		return false
	}
	return a.sentinelOK(g)
}

// lenOf returns length of slice/string/array-pointer term.
func (a *Analyzer) sliceOf(st *State, v Term, t types.Type) *Slice {
	switch s := v.(type) {
	case *Slice:
		return s
	case NilT:
		z := Const(0)
		return &Slice{Base: &Base{ID: a.id(), Desc: "nil", Fresh: true}, Off: Const(0), Len: Const(0), Cap: &z, Nil: true}
	}
	return nil
}

func (a *Analyzer) stepIndexAddr(fr *frame, x *ssa.IndexAddr, st *State) []*State {
	one := []*State{st}
	xv := a.val(st, x.X)
	iv, _ := a.val(st, x.Index).(Int)
	switch ut := x.X.Type().Underlying().(type) {
	case *types.Slice:
		s := a.sliceOf(st, xv, x.X.Type())
		if s == nil {
			a.Undecided = append(a.Undecided, fmt.Sprintf("%s: index of non-slice term at %s", shortFn(fr.fn), a.P.RelPos(x.Pos())))
			st.Env[x] = a.unknownOf(x.Type(), x.Name(), st)
			return one
		}
		a.checkIndex(fr, x, st, iv.L, s.Len, s.Base.Desc)
		st.Env[x] = &Ptr{Elem: s.Base, ElemOff: s.Off.Add(iv.L), ElemTyp: ut.Elem()}
	case *types.Pointer: // *[N]T
		arr := ut.Elem().Underlying().(*types.Array)
		p, ok := a.objOfPtr(st, xv, x, fr)
		if !ok {
			return nil
		}
		a.checkIndex(fr, x, st, iv.L, Const(arr.Len()), p.Obj.Desc)
		if iv.L.IsConst() {
			st.Env[x] = &Ptr{Obj: p.Obj, Path: fmt.Sprintf("%s[%d]", p.Path, iv.L.C)}
		} else {
			st.Env[x] = &Ptr{Obj: p.Obj, Path: p.Path + "[*]"}
		}
	default:
		st.Env[x] = a.unknownOf(x.Type(), x.Name(), st)
	}
	return one
}

func (a *Analyzer) checkIndex(fr *frame, ins ssa.Instruction, st *State, i, n Lin, what string) {
	okLo := st.Cons.EntailsGE(i)
	hi := n.Sub(i).AddC(-1)
	okHi := st.Cons.EntailsGE(hi)
	a.obl("E1.index", fr.fn, ins, "", okLo && okHi, func() string {
		which := "index >= 0"
		if okLo {
			which = "index < len"
		}
		return fmt.Sprintf("%s[%s] with len %s: cannot prove %s\n%s", what, i.String(), n.String(), which, st.Describe(i, n))
	})
	st.AssumeGE(i)
	st.AssumeGE(hi)
}

func (a *Analyzer) stepIndex(fr *frame, x *ssa.Index, st *State) []*State {
	one := []*State{st}
	xv := a.val(st, x.X)
	iv, _ := a.val(st, x.Index).(Int)
	switch ut := x.X.Type().Underlying().(type) {
	case *types.Basic: // string
		s := a.sliceOf(st, xv, x.X.Type())
		if s == nil {
			st.Env[x] = a.unknownOf(x.Type(), x.Name(), st)
			return one
		}
		a.checkIndex(fr, x, st, iv.L, s.Len, s.Base.Desc)
		st.Env[x] = a.load(st, &Ptr{Elem: s.Base, ElemOff: s.Off.Add(iv.L), ElemTyp: x.Type()}, x.Type())
	case *types.Array:
		a.checkIndex(fr, x, st, iv.L, Const(ut.Len()), "array")
		st.Env[x] = a.unknownOf(x.Type(), x.Name(), st)
	default:
		st.Env[x] = a.unknownOf(x.Type(), x.Name(), st)
	}
	return one
}

func (a *Analyzer) stepSlice(fr *frame, x *ssa.Slice, st *State) []*State {
	one := []*State{st}
	xv := a.val(st, x.X)
	var s *Slice
	var arrLen *int64
	switch ut := x.X.Type().Underlying().(type) {
	case *types.Pointer:
		n := ut.Elem().Underlying().(*types.Array).Len()
		arrLen = &n
		if _, ok := a.objOfPtr(st, xv, x, fr); !ok {
			return nil
		}
		c := Const(n)
		// a slice of an array this activation tree allocated is its own storage; a slice of a package-level array (or of an
		// array behind a pointer of unknown origin) is storage that outlives the call and is shared with every other caller
		nb := &Base{ID: a.id(), Desc: x.X.Name(), Fresh: true}
		if pp, ok := xv.(*Ptr); ok && pp.Obj != nil && !pp.Obj.Fresh {
			nb.Fresh = false
			if g, isG := x.X.(*ssa.Global); isG {
				nb.Desc = "package-level array " + g.Name()
			}
		}
		if pp, ok := xv.(*Ptr); ok && pp.Obj != nil && n <= 32 {
			nb.Elems = make([]Term, n)
			et := ut.Elem().Underlying().(*types.Array).Elem()
			for k := int64(0); k < n; k++ {
				if _, isStruct := et.Underlying().(*types.Struct); isStruct {
					nb.Elems[k] = a.load(st, &Ptr{Obj: pp.Obj, Path: fmt.Sprintf("%s[%d]", pp.Path, k)}, et)
				} else {
					nb.Elems[k] = st.Heap[Loc{pp.Obj.ID, fmt.Sprintf("%s[%d]", pp.Path, k)}]
				}
			}
		}
		s = &Slice{Base: nb, Off: Const(0), Len: Const(n), Cap: &c}
	default:
		s = a.sliceOf(st, xv, x.X.Type())
	}
	_ = arrLen
	if s == nil {
		a.Undecided = append(a.Undecided, fmt.Sprintf("%s: slice of non-slice term at %s", shortFn(fr.fn), a.P.RelPos(x.Pos())))
		st.Env[x] = a.unknownOf(x.Type(), x.Name(), st)
		return one
	}
	lo := Const(0)
	if x.Low != nil {
		if v, ok := a.val(st, x.Low).(Int); ok {
			lo = v.L
		}
	}
	hi := s.Len
	if x.High != nil {
		if v, ok := a.val(st, x.High).(Int); ok {
			hi = v.L
		}
	}
	// limit: len, or cap for provably fresh buffers with known capacity
	limit := s.Len
	limName := "len"
	if s.Base.Fresh && s.Cap != nil && !s.IsStr {
		limit = *s.Cap
		limName = "cap"
	}
	okLo := x.Low == nil || st.Cons.EntailsGE(lo)
	okMid := st.Cons.EntailsGE(hi.Sub(lo))
	okHi := x.High == nil || st.Cons.EntailsGE(limit.Sub(hi))
	if x.High == nil && x.Low != nil {
		// s[lo:] requires lo <= len
		okMid = st.Cons.EntailsGE(s.Len.Sub(lo))
	}
	a.obl("E1.slice", fr.fn, x, "", okLo && okMid && okHi, func() string {
		which := "low >= 0"
		if okLo {
			which = "low <= high"
			if okMid {
				which = "high <= " + limName
			}
		}
		return fmt.Sprintf("%s[%s:%s] with %s %s: cannot prove %s\n%s", s.Base.Desc, lo.String(), hi.String(), limName, limit.String(), which, st.Describe(lo, hi, limit))
	})
	st.AssumeGE(lo)
	st.AssumeGE(hi.Sub(lo))
	st.AssumeGE(limit.Sub(hi))
	out := &Slice{Base: s.Base, Off: s.Off.Add(lo), Len: hi.Sub(lo), IsStr: s.IsStr}
	if x.Max != nil {
		if v, ok := a.val(st, x.Max).(Int); ok {
			c := v.L.Sub(lo)
			out.Cap = &c
		}
	} else if s.Cap != nil {
		c := s.Cap.Sub(lo)
		out.Cap = &c
	}
	st.Env[x] = out
	return one
}

func (a *Analyzer) stepLookup(fr *frame, x *ssa.Lookup, st *State) []*State {
	one := []*State{st}
	m := a.val(st, x.X)
	k := a.val(st, x.Index)
	mt, isMap := x.X.Type().Underlying().(*types.Map)
	if !isMap {
		st.Env[x] = a.unknownOf(x.Type(), x.Name(), st)
		return one
	}
	var val Term
	var okB Term = &Bool{Kind: BUnknown, ID: a.id()}
	switch mv := m.(type) {
	case *MapT:
		loc := Loc{mv.Obj.ID, "[" + k.TKey() + "]"}
		if v, ok := st.Heap[loc]; ok {
			val = v
			if _, miss := st.Heap[Loc{mv.Obj.ID, "?" + loc.Path}]; !miss {
				okB = True
			}
		} else if mv.Obj.Fresh && st.Heap[Loc{mv.Obj.ID, "#nonempty"}] == nil {
			val = a.zeroOf(mt.Elem())
			okB = False
		} else {
			val = a.unknownOf(mt.Elem(), fmt.Sprintf("%s[%s]", mv.Obj.Desc, termDesc(k)), st)
			if isPointerLike(mt.Elem()) && a.pairedPresent(st, mv, k) {
				// paired-map lemma: the partner map holds a non-empty entry under the same key,
				// and both maps always have the same key set, so the key is present here
				if p, ok := val.(*Ptr); ok {
					p.NilUnk = false
				}
				if u, ok := val.(*Unknown); ok {
					u.Nilness = nilNon
				}
				a.PairedUsed++
			} else if isPointerLike(mt.Elem()) {
				switch u := val.(type) {
				case *Unknown:
					if !x.CommaOk {
						u.Nilness = nilMaybe
						u.Why = "result of a map lookup whose key may be absent"
					}
				case *Ptr:
					if !x.CommaOk {
						val = &Unknown{ID: a.id(), Typ: mt.Elem(), Desc: fmt.Sprintf("%s[%s]", mv.Obj.Desc, termDesc(k)), Nilness: nilMaybe, Why: "result of a map lookup whose key may be absent"}
					}
				}
			}
			st.Heap[loc] = val
			st.Heap[Loc{mv.Obj.ID, "?" + loc.Path}] = True // presence unknown
		}
	default:
		val = a.unknownOf(mt.Elem(), x.Name(), st)
	}
	if x.CommaOk {
		st.Env[x] = &Tuple{Elems: []Term{val, okB}}
	} else {
		st.Env[x] = val
	}
	return one
}

func termDesc(t Term) string {
	switch v := t.(type) {
	case Int:
		return v.L.String()
	case *Slice:
		return v.Base.Desc
	}
	return "·"
}

// baseRef lets a *Base appear as an atom argument.
type baseRef struct{ B *Base }

func (b *baseRef) TKey() string { return fmt.Sprintf("b%d", b.B.ID) }

// sentinelOK: an error-typed package variable that is assigned exactly once, in its
// package initialiser, from errors.New / fmt.Errorf, is never nil.
func (a *Analyzer) sentinelOK(g *ssa.Global) bool {
	if v, ok := a.sentinelCache[g]; ok {
		return v
	}
	stores, good := 0, 0
	for fn := range ssautilAll(a) {
		for _, b := range fn.Blocks {
			for _, ins := range b.Instrs {
				s, ok := ins.(*ssa.Store)
				if !ok || s.Addr != g {
					continue
				}
				stores++
				if fn.Name() == "init" && fn.Pkg == g.Pkg {
					if c, ok := s.Val.(*ssa.Call); ok {
						if sc := c.Call.StaticCallee(); sc != nil && (sc.String() == "errors.New" || sc.String() == "fmt.Errorf") {
							good++
						}
					}
				}
			}
		}
	}
	r := stores == 1 && good == 1
	a.sentinelCache[g] = r
	return r
}

func ssautilAll(a *Analyzer) map[*ssa.Function]bool {
	if a.allFuncs == nil {
		a.allFuncs = map[*ssa.Function]bool{}
		for _, pk := range a.P.Pkgs {
			sp := a.P.SSAPkgs[pk.PkgPath]
			if sp == nil {
				continue
			}
			var visit func(f *ssa.Function)
			visit = func(f *ssa.Function) {
				if f == nil || a.allFuncs[f] {
					return
				}
				a.allFuncs[f] = true
				for _, an := range f.AnonFuncs {
					visit(an)
				}
			}
			for _, m := range sp.Members {
				switch v := m.(type) {
				case *ssa.Function:
					visit(v)
				case *ssa.Type:
					for _, t := range []types.Type{v.Type(), types.NewPointer(v.Type())} {
						ms := a.P.SSA.MethodSets.MethodSet(t)
						for i := 0; i < ms.Len(); i++ {
							visit(a.P.SSA.MethodValue(ms.At(i)))
						}
					}
				}
			}
		}
	}
	return a.allFuncs
}

func (a *Analyzer) debugHeap(st *State) string {
	pat := os.Getenv("JTVERIF_DUMPHEAP")
	if pat == "" {
		return ""
	}
	var b strings.Builder
	b.WriteString("\nheap:")
	for _, k := range st.heapKeys() {
		for _, p := range strings.Split(pat, ",") {
			if strings.Contains(k.Path, p) {
				fmt.Fprintf(&b, "\n  o%d%s = %s", k.Obj, k.Path, a.Render(st.Heap[k]))
			}
		}
	}
	b.WriteString("\ncons: " + st.Cons.String())
	return b.String()
}

// pairedPresent: is key k known to be present in the map paired with m (same owner object)?
func (a *Analyzer) pairedPresent(st *State, m *MapT, k Term) bool {
	if len(a.PairedMaps) == 0 {
		return false
	}
	org, ok := a.mapOrigin[m.Obj.ID]
	if !ok {
		return false
	}
	le := lastElem(org.Path)
	partner, ok := a.PairedMaps[le]
	if !ok {
		return false
	}
	ploc := Loc{org.Obj, strings.TrimSuffix(org.Path, le) + partner}
	pm, ok := st.Heap[ploc].(*MapT)
	if !ok {
		return false
	}
	pv, ok := st.Heap[Loc{pm.Obj.ID, "[" + k.TKey() + "]"}]
	if !ok {
		return false
	}
	if s, ok := pv.(*Slice); ok {
		return st.Cons.EntailsGE(s.Len.AddC(-1))
	}
	return false
}
