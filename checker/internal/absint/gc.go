package absint

import (
	"golang.org/x/tools/go/ssa"
)

// ---- SSA liveness ---------------------------------------------------------------

type liveInfo struct {
	atEntry map[*ssa.BasicBlock]map[ssa.Value]bool // live before the first non-φ instruction
}

func isTracked(v ssa.Value) bool {
	switch v.(type) {
	case *ssa.Const, *ssa.Function, *ssa.Global, *ssa.Builtin:
		return false
	}
	return v != nil
}

func (a *Analyzer) liveness(fn *ssa.Function) *liveInfo {
	if li, ok := a.live[fn]; ok {
		return li
	}
	li := &liveInfo{atEntry: map[*ssa.BasicBlock]map[ssa.Value]bool{}}
	type bi struct {
		use, def map[ssa.Value]bool
		phiDef   map[ssa.Value]bool
	}
	info := map[*ssa.BasicBlock]*bi{}
	for _, b := range fn.Blocks {
		x := &bi{use: map[ssa.Value]bool{}, def: map[ssa.Value]bool{}, phiDef: map[ssa.Value]bool{}}
		for _, ins := range b.Instrs {
			if phi, ok := ins.(*ssa.Phi); ok {
				x.phiDef[phi] = true
				continue
			}
			var ops []*ssa.Value
			ops = ins.Operands(ops)
			for _, op := range ops {
				if *op != nil && isTracked(*op) && !x.def[*op] {
					x.use[*op] = true
				}
			}
			if v, ok := ins.(ssa.Value); ok {
				x.def[v] = true
			}
		}
		info[b] = x
		li.atEntry[b] = map[ssa.Value]bool{}
		for v := range x.use {
			li.atEntry[b][v] = true
		}
	}
	for changed := true; changed; {
		changed = false
		for i := len(fn.Blocks) - 1; i >= 0; i-- {
			b := fn.Blocks[i]
			x := info[b]
			in := li.atEntry[b]
			for _, s := range b.Succs {
				// values live at entry of s, minus s's φ defs, plus φ operands for this edge
				for v := range li.atEntry[s] {
					if info[s].phiDef[v] {
						continue
					}
					if !x.def[v] && !in[v] {
						in[v] = true
						changed = true
					}
				}
				pi := -1
				for k, p := range s.Preds {
					if p == b {
						pi = k
					}
				}
				for _, ins := range s.Instrs {
					phi, ok := ins.(*ssa.Phi)
					if !ok {
						break
					}
					if pi >= 0 {
						v := phi.Edges[pi]
						if isTracked(v) && !x.def[v] && !in[v] {
							in[v] = true
							changed = true
						}
					}
				}
			}
		}
	}
	a.live[fn] = li
	return li
}

// pruneEnv drops values that are dead at the entry of b.
func (a *Analyzer) pruneEnv(fr *frame, b *ssa.BasicBlock, st *State) {
	live := a.liveness(fr.fn).atEntry[b]
	for v := range st.Env {
		if !live[v] && !a.ghostSet[v] {
			delete(st.Env, v)
		}
	}
}

// ---- garbage collection of constraints and heap ------------------------------------

type marker struct {
	atoms map[*Atom]bool
	objs  map[int]bool
	bases map[int]bool
	seenT map[Term]bool
}

func (m *marker) lin(l Lin) {
	for _, t := range l.Ts {
		m.atom(t.A)
	}
}

func (m *marker) atom(at *Atom) {
	if m.atoms[at] {
		return
	}
	m.atoms[at] = true
	for _, x := range at.Args {
		m.term(x)
	}
}

func (m *marker) base(b *Base) {
	if b == nil || m.bases[b.ID] {
		return
	}
	m.bases[b.ID] = true
	if b.From != nil {
		m.term(b.From)
	}
	if b.From2 != nil {
		m.term(b.From2)
	}
	if b.Val != nil {
		m.term(b.Val)
	}
	for _, e := range b.Elems {
		if e != nil {
			m.term(e)
		}
	}
}

func (m *marker) term(t Term) {
	switch v := t.(type) {
	case nil:
	case Int:
		m.lin(v.L)
	case *Bool:
		switch v.Kind {
		case BCmp:
			m.lin(v.C.L)
		case BNot:
			m.term(v.X)
		}
	case *Slice:
		m.base(v.Base)
		m.lin(v.Off)
		m.lin(v.Len)
		if v.Cap != nil {
			m.lin(*v.Cap)
		}
	case *Ptr:
		if v.Obj != nil {
			m.objs[v.Obj.ID] = true
		}
		if v.Elem != nil {
			m.base(v.Elem)
			m.lin(v.ElemOff)
		}
	case *Struct:
		for _, f := range v.Fields {
			m.term(f)
		}
	case *Tuple:
		for _, f := range v.Elems {
			m.term(f)
		}
	case *Closure:
		for _, f := range v.Bindings {
			m.term(f)
		}
		m.term(v.Recv)
	case *Iface:
		m.term(v.Val)
	case *MapT:
		m.objs[v.Obj.ID] = true
	case *baseRef:
		m.base(v.B)
	}
}

// gc removes heap entries of unreachable fresh objects and eliminates atoms that no live
// term mentions (by substitution / bounded Fourier–Motzkin; otherwise by weakening).
func (a *Analyzer) gc(st *State, extra ...Term) {
	m := &marker{atoms: map[*Atom]bool{}, objs: map[int]bool{}, bases: map[int]bool{}}
	for _, t := range st.Env {
		m.term(t)
	}
	for _, t := range extra {
		m.term(t)
	}
	for _, t := range a.ExtraRoots {
		m.term(t)
	}
	for _, d := range st.Defers {
		m.term(d.fn)
		for _, x := range d.args {
			m.term(x)
		}
	}
	for _, r := range a.rootStack {
		for _, t := range r.env {
			m.term(t)
		}
		for _, d := range r.defers {
			m.term(d.fn)
			for _, x := range d.args {
				m.term(x)
			}
		}
		for _, t := range r.extra {
			m.term(t)
		}
	}
	// heap: non-fresh objects are always live; fresh ones when reachable
	for changed := true; changed; {
		changed = false
		for loc, t := range st.Heap {
			if (m.objs[loc.Obj] || !a.freshObjs[loc.Obj]) && t != nil {
				n0, n1 := len(m.atoms), len(m.objs)
				m.term(t)
				if len(m.atoms) != n0 || len(m.objs) != n1 {
					changed = true
				}
			}
		}
	}
	for loc := range st.Heap {
		if a.freshObjs[loc.Obj] && !m.objs[loc.Obj] {
			delete(st.Heap, loc)
		}
	}
	// structural atoms (pure functions of live things, e.g. a byte of a live buffer) can be
	// re-derived later, so facts about them stay meaningful: keep them live
	recreatable := func(at *Atom) bool {
		if at.Key == "" || len(at.Args) == 0 {
			return false
		}
		for _, x := range at.Args {
			switch v := x.(type) {
			case Int:
				for _, t := range v.L.Ts {
					if !m.atoms[t.A] {
						return false
					}
				}
			case *baseRef:
				if !m.bases[v.B.ID] {
					return false
				}
			default:
				return false
			}
		}
		return true
	}
	for changed := true; changed; {
		changed = false
		mark := func(l Lin) {
			for _, t := range l.Ts {
				if !m.atoms[t.A] && recreatable(t.A) {
					m.atoms[t.A] = true
					changed = true
				}
			}
		}
		for _, l := range st.Cons.GEs {
			mark(l)
		}
		for _, l := range st.Cons.EQs {
			mark(l)
		}
		for _, l := range st.Cons.NEs {
			mark(l)
		}
	}
	dead := func(at *Atom) bool { return !m.atoms[at] }
	// partition
	var keepGE, keepEQ, keepNE []Lin
	var dGE, dEQ []Lin
	hasDead := func(l Lin) bool {
		for _, t := range l.Ts {
			if dead(t.A) {
				return true
			}
		}
		return false
	}
	for _, l := range st.Cons.GEs {
		if hasDead(l) {
			dGE = append(dGE, l)
		} else {
			keepGE = append(keepGE, l)
		}
	}
	for _, l := range st.Cons.EQs {
		if hasDead(l) {
			dEQ = append(dEQ, l)
		} else {
			keepEQ = append(keepEQ, l)
		}
	}
	for _, l := range st.Cons.NEs {
		if !hasDead(l) {
			keepNE = append(keepNE, l)
		}
	}
	if len(dGE)+len(dEQ) == 0 && len(keepNE) == len(st.Cons.NEs) {
		return
	}
	for _, e := range dEQ {
		dGE = append(dGE, e, e.Scale(-1))
	}
	// type bounds of the dead atoms take part in the elimination
	seen := map[*Atom]bool{}
	for _, l := range dGE {
		for _, t := range l.Ts {
			if dead(t.A) && !seen[t.A] {
				seen[t.A] = true
				if t.A.HasLo {
					dGE = append(dGE, AtomLin(t.A).AddC(-t.A.Lo))
				}
				if t.A.HasHi {
					dGE = append(dGE, AtomLin(t.A).Scale(-1).AddC(t.A.Hi))
				}
			}
		}
	}
	tmp := newConSet()
	for _, l := range dGE {
		tmp.Add(Con{l, GE})
	}
	proj := tmp.projectAll(dead)
	ns := newConSet()
	for _, l := range keepGE {
		ns.Add(Con{l, GE})
	}
	for _, l := range keepEQ {
		ns.Add(Con{l, EQ})
	}
	for _, l := range keepNE {
		ns.Add(Con{l, NE})
	}
	for _, l := range proj {
		ns.Add(Con{l, GE})
	}
	st.Cons = ns
}

type rootSet struct {
	env    map[ssa.Value]Term
	defers []*deferred
	extra  []Term
}
