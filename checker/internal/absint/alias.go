package absint

// Engine E4: may-share-backing-array relation between buffers.

// AliasClosure returns the ids of all bases whose backing array b may share.
func AliasClosure(b *Base) map[int]*Base {
	out := map[int]*Base{}
	var walk func(b *Base)
	walk = func(b *Base) {
		if b == nil || out[b.ID] != nil {
			return
		}
		if b.Desc == "nil-slice" {
			// a nil slice has no backing array: nothing can share it (appending to it allocates)
			return
		}
		out[b.ID] = b
		walk(b.Alias)
		if (b.Op == "append" || b.Op == "appendU") && b.From != nil {
			// append may return the same backing array as its first operand
			walk(b.From.Base)
		}
		for _, m := range b.MayAlias {
			walk(m)
		}
	}
	walk(b)
	return out
}

// markReused records that the backing array of s is overwritten in place later (a buffer
// handed to Read again, or a buffer truncated to its start and appended to again).
func (a *Analyzer) markReused(s *Slice, why string) {
	if s == nil {
		return
	}
	for id := range AliasClosure(s.Base) {
		if _, ok := a.Reused[id]; !ok {
			a.Reused[id] = why
		}
	}
}

// MarkReused lets a client declare a buffer as overwritten in place later (entry set-up).
func (a *Analyzer) MarkReused(s *Slice, why string) { a.markReused(s, why) }
