package absint

import (
	"fmt"
	"go/types"
	"regexp"
	"strconv"
	"strings"

	"golang.org/x/tools/go/ssa"
)

func (a *Analyzer) inStack(fn *ssa.Function) bool {
	for _, f := range a.stack {
		if f == fn {
			return true
		}
	}
	return false
}

// doCall handles every call form. res is the SSA value to bind (nil for defers).
func (a *Analyzer) doCall(fr *frame, site ssa.Instruction, c *ssa.CallCommon, st *State, fnv Term, args []Term, res *ssa.Call) []*State {
	bind := func(s *State, v Term) {
		if res != nil {
			if v == nil {
				v = a.unknownOf(res.Type(), res.Name(), s)
			}
			s.Env[res] = v
		}
	}
	if b, ok := c.Value.(*ssa.Builtin); ok {
		outs := a.builtin(fr, site, b, c, st, args)
		for _, o := range outs {
			a.propagate(o.val, args...)
			bind(o.st, o.val)
		}
		return statesOf(outs)
	}
	var fn *ssa.Function
	var bindings []Term
	callArgs := args
	if c.IsInvoke() {
		switch rv := fnv.(type) {
		case *Iface:
			fn = a.P.SSA.LookupMethod(rv.Typ, c.Method.Pkg(), c.Method.Name())
			callArgs = append([]Term{rv.Val}, args...)
		case NilT:
			a.obl("E1.nil", fr.fn, site, "", false, func() string { return "method call on nil interface\n" + st.Describe() })
			return nil
		case *Unknown:
			if rv.Nilness == nilMaybe {
				a.obl("E1.nil", fr.fn, site, "", false, func() string {
					return fmt.Sprintf("method call on interface %s which may be nil (%s)\n%s", rv.Desc, rv.Why, st.Describe())
				})
			}
		}
		if u, ok := fnv.(*Unknown); ok && fn == nil && a.Impls != nil {
			if outs, handled := a.invokeUnknown(fr, site, c, st, u, args, res); handled {
				return outs
			}
		}
		if fn == nil {
			name := "(" + c.Value.Type().String() + ")." + c.Method.Name()
			a.noteDynamic(c)
			outs := a.external(fr, site, name, c.Signature(), st, args, fnv)
			for _, o := range outs {
				bind(o.st, o.val)
			}
			return statesOf(outs)
		}
	} else {
		switch fv := fnv.(type) {
		case *Closure:
			fn = fv.Fn
			bindings = fv.Bindings
		default:
			if sc := c.StaticCallee(); sc != nil {
				fn = sc
			}
		}
		if fn == nil {
			if n := nilness(fnv); n == nilIs || n == nilMaybe {
				a.obl("E1.nil", fr.fn, site, "", false, func() string { return "call of a nil function value\n" + st.Describe() })
				if n == nilIs {
					return nil
				}
			}
			a.noteDynamic(c)
			outs := a.external(fr, site, "dynamic func "+c.Value.Type().String(), c.Signature(), st, args, fnv)
			for _, o := range outs {
				bind(o.st, o.val)
			}
			return statesOf(outs)
		}
	}
	if traceFn != "" && strings.Contains(fn.Name(), traceFn) {
		fmt.Printf("TRACECALL %s blocks=%d repo=%v pkg=%v origin=%v opaque=%v depth=%d instack=%v\n", fn.String(), len(fn.Blocks), a.P.IsRepoFunc(fn), fn.Package() != nil, fn.Origin() != nil, a.Opaque != nil && a.Opaque(fn), fr.depth, a.inStack(fn))
	}
	if a.OnCall != nil {
		if ci, ok := site.(ssa.CallInstruction); ok {
			a.OnCall(a, st, ci, fn, callArgs)
		}
	}
	if spec, isPure := a.OpaquePure[fn.String()]; isPure && a.P.IsRepoFunc(fn) {
		// a pure helper kept symbolic: result described as helper(argument), with the declared length
		nb := &Base{ID: a.id(), Desc: fmt.Sprintf("%s(%s)", shortName(fn.String()), argsDesc(callArgs)), Fresh: true, Op: "call:" + shortName(fn.String())}
		if len(callArgs) > 0 {
			if as, ok := callArgs[0].(*Slice); ok {
				nb.From = as
			}
		}
		var ln Lin
		switch {
		case spec >= 0:
			ln = Const(spec)
		case spec == -2 && len(callArgs) > 1:
			if iv, ok := callArgs[1].(Int); ok {
				ln = iv.L
			} else {
				ln = AtomLin(a.freshLen("len(" + nb.Desc + ")"))
			}
		default:
			ln = AtomLin(a.freshLen("len(" + nb.Desc + ")"))
		}
		res0 := &Slice{Base: nb, Off: Const(0), Len: ln}
		if sig := fn.Signature; sig.Results().Len() == 1 {
			if b, isB := sig.Results().At(0).Type().Underlying().(*types.Basic); isB && b.Info()&types.IsString != 0 {
				res0.IsStr = true
			}
		}
		bind(st, res0)
		return []*State{st}
	}
	if a.Opaque != nil && a.P.IsRepoFunc(fn) && a.Opaque(fn) {
		// modular step: fn is verified separately for arbitrary arguments; here only its
		// effect is over-approximated (results unknown, memory reachable from arguments unknown)
		a.OpaqueUsed[fn]++
		a.havocReach(st, callArgs)
		a.havocReach(st, bindings)
		bind(st, resultUnknown(a, fn.Signature, st, shortName(fn.String())))
		return []*State{st}
	}
	if a.P.IsRepoFunc(fn) && fr.depth < a.MaxDepth && !a.inStack(fn) {
		savedEnv, savedDefers := st.Env, st.Defers
		a.rootStack = append(a.rootStack, &rootSet{env: savedEnv, defers: savedDefers})
		rets := a.runFunc(fn, st, callArgs, bindings, fr.depth+1)
		a.rootStack = a.rootStack[:len(a.rootStack)-1]
		var outs []*State
		for _, r := range rets {
			env := make(map[ssa.Value]Term, len(savedEnv)+1)
			for k, v := range savedEnv {
				env[k] = v
			}
			a.keepGhosts(r.st.Env, env)
			r.st.Env = env
			r.st.Defers = append([]*deferred(nil), savedDefers...)
			v := a.postInline(fn, callArgs, r.val, r.st)
			if a.OnInlined != nil {
				a.OnInlined(fn, callArgs, v, r.st)
			}
			bind(r.st, v)
			outs = append(outs, r.st)
		}
		return outs
	}
	if a.P.IsRepoFunc(fn) {
		a.Undecided = append(a.Undecided, fmt.Sprintf("%s: call to %s not inlined (depth/recursion)", shortFn(fr.fn), shortFn(fn)))
		a.Reach[fn] = true
	}
	outs := a.external(fr, site, fn.String(), fn.Signature, st, callArgs, fnv)
	for _, o := range outs {
		a.propagate(o.val, callArgs...)
		bind(o.st, o.val)
	}
	return statesOf(outs)
}

func statesOf(rs []retState) []*State {
	out := make([]*State, len(rs))
	for i, r := range rs {
		out[i] = r.st
	}
	return out
}

// noteDynamic records the possible repo targets of an unresolved dynamic call so that they
// are analysed as entry points of their own.
func (a *Analyzer) noteDynamic(c *ssa.CallCommon) {
	if a.DynTargets != nil {
		for _, f := range a.DynTargets(c) {
			a.Reach[f] = true
		}
	}
}

// postInline lets pure repo helpers keep a structural description of their result.
func (a *Analyzer) postInline(fn *ssa.Function, args []Term, val Term, st *State) Term {
	name := fn.String()
	if a.PureHelpers[name] {
		if s, ok := val.(*Slice); ok {
			nb := &Base{ID: a.id(), Desc: fmt.Sprintf("%s(%s)", shortName(name), argsDesc(args)), Fresh: s.Base.Fresh, Op: "call:" + shortName(name)}
			if len(args) > 0 {
				if as, ok := args[0].(*Slice); ok {
					nb.From = as
				}
			}
			out := *s
			out.Base = nb
			return &out
		}
	}
	return val
}

func shortName(full string) string {
	if i := strings.LastIndex(full, "/"); i >= 0 {
		return full[i+1:]
	}
	return full
}

func argsDesc(args []Term) string {
	var parts []string
	for _, x := range args {
		switch v := x.(type) {
		case *Slice:
			parts = append(parts, fmt.Sprintf("%s[%s:+%s]", v.Base.Desc, v.Off.String(), v.Len.String()))
		case Int:
			parts = append(parts, v.L.String())
		default:
			parts = append(parts, "·")
		}
	}
	return strings.Join(parts, ",")
}

// ---- builtins ------------------------------------------------------------------------------

func (a *Analyzer) builtin(fr *frame, site ssa.Instruction, b *ssa.Builtin, c *ssa.CallCommon, st *State, args []Term) []retState {
	one := func(v Term) []retState { return []retState{{st, v}} }
	switch b.Name() {
	case "len":
		switch v := args[0].(type) {
		case *Slice:
			return one(Int{v.Len})
		case NilT:
			return one(Int{Const(0)})
		case *MapT:
			return one(Int{AtomLin(a.freshLen("len(map)"))})
		}
		if arr, ok := c.Args[0].Type().Underlying().(*types.Array); ok {
			return one(Int{Const(arr.Len())})
		}
		if p, ok := c.Args[0].Type().Underlying().(*types.Pointer); ok {
			if arr, ok := p.Elem().Underlying().(*types.Array); ok {
				return one(Int{Const(arr.Len())})
			}
		}
		return one(Int{AtomLin(a.freshLen("len(?)"))})
	case "cap":
		if v, ok := args[0].(*Slice); ok {
			if v.Cap != nil {
				return one(Int{*v.Cap})
			}
			at := a.freshLen("cap(" + v.Base.Desc + ")")
			st.AssumeGE(AtomLin(at).Sub(v.Len))
			return one(Int{AtomLin(at)})
		}
		return one(Int{AtomLin(a.freshLen("cap(?)"))})
	case "append":
		s := a.sliceOf(st, args[0], c.Args[0].Type())
		if s == nil {
			return one(a.unknownOf(c.Signature().Results().At(0).Type(), "append", st))
		}
		var add Lin
		switch v := args[1].(type) {
		case *Slice:
			add = v.Len
		case NilT:
			add = Const(0)
		default:
			add = AtomLin(a.freshLen("len(appended)"))
		}
		nb := &Base{ID: a.id(), Desc: "append(" + s.Base.Desc + ")", Fresh: true, From: s, Op: "append"}
		if v, ok := args[1].(*Slice); ok {
			nb.From2 = v
		}
		// appending to a zero-length re-slice of a buffer that outlives the call (x := p.buf[:0]; x = append(x, …))
		// writes over the buffer's old contents in place
		if !s.IsStr && !s.Nil && !s.Base.Fresh && s.Base.Op == "" && s.Base.Desc != "nil-slice" && st.Cons.Entails(Con{s.Len, EQ}) {
			a.markReused(s, "buffer that outlives the call is truncated to its start and appended to again ("+s.Base.Desc+" at "+a.P.RelPos(site.Pos())+")")
		}
		if a.OnAppend != nil {
			a.OnAppend(fr.fn, site, st, s, args[1])
		}
		return one(&Slice{Base: nb, Off: Const(0), Len: s.Len.Add(add)})
	case "copy":
		d := a.sliceOf(st, args[0], c.Args[0].Type())
		s := a.sliceOf(st, args[1], c.Args[1].Type())
		n := a.freshLen("copy-n")
		if d != nil {
			st.AssumeGE(d.Len.Sub(AtomLin(n)))
			st.Ver[d.Base.ID] = a.id()
		}
		if s != nil {
			st.AssumeGE(s.Len.Sub(AtomLin(n)))
		}
		if a.LogWrites && d != nil && s != nil {
			// copy writes min(len(dst), len(src)) bytes; recorded with the source's length when it is known to fit
			cn := AtomLin(n)
			if st.Cons.EntailsGE(d.Len.Sub(s.Len)) {
				cn = s.Len
			} else if st.Cons.EntailsGE(s.Len.Sub(d.Len)) {
				cn = d.Len
			}
			st.Log = append(st.Log, &WriteRec{Base: d.Base, Off: d.Off, Src: s, N: cn})
		}
		return one(Int{AtomLin(n)})
	case "delete":
		if m, ok := args[0].(*MapT); ok {
			st.killPrefix(m.Obj.ID, "[")
			st.killPrefix(m.Obj.ID, "?[")
		}
		return one(nil)
	case "clear":
		switch v := args[0].(type) {
		case *MapT:
			st.killPrefix(v.Obj.ID, "[")
			st.killPrefix(v.Obj.ID, "?[")
		case *Slice:
			st.Ver[v.Base.ID] = a.id()
		}
		return one(nil)
	case "close", "print", "println":
		return one(nil)
	case "min", "max":
		t := c.Signature().Results().At(0).Type()
		r := a.freshAtom(b.Name(), t)
		rl := AtomLin(r)
		allInt := true
		for _, x := range args {
			xi, ok := x.(Int)
			if !ok {
				allInt = false
				break
			}
			if b.Name() == "min" {
				st.AssumeGE(xi.L.Sub(rl))
			} else {
				st.AssumeGE(rl.Sub(xi.L))
			}
		}
		if !allInt {
			return one(a.unknownOf(t, b.Name(), st))
		}
		return one(Int{rl})
	case "recover":
		return one(&Unknown{ID: a.id(), Typ: c.Signature().Results().At(0).Type(), Desc: "recover"})
	case "panic":
		a.obl("E1.panic", fr.fn, site, "", false, func() string { return "explicit panic reachable\n" + st.Describe() })
		return nil
	case "ssa:wrapnilchk":
		return one(args[0])
	case "new":
		return one(a.unknownOf(c.Signature().Results().At(0).Type(), "new", st))
	}
	a.Undecided = append(a.Undecided, "builtin "+b.Name())
	if c.Signature().Results().Len() > 0 {
		return one(a.unknownOf(c.Signature().Results().At(0).Type(), b.Name(), st))
	}
	return one(nil)
}

// ---- external (body-less or non-repo) calls ----------------------------------------------------

var reBinFmt = regexp.MustCompile(`^%(?:\.|0)(\d+)b$`)

func resultUnknown(a *Analyzer, sig *types.Signature, st *State, desc string) Term {
	switch sig.Results().Len() {
	case 0:
		return nil
	case 1:
		return a.unknownOf(sig.Results().At(0).Type(), desc, st)
	}
	return a.unknownOf(sig.Results(), desc, st)
}

func (a *Analyzer) external(fr *frame, site ssa.Instruction, name string, sig *types.Signature, st *State, args []Term, fnv Term) []retState {
	rs := a.external0(fr, site, name, sig, st, args, fnv)
	if a.OnExternalResult != nil {
		for _, r := range rs {
			a.OnExternalResult(fr.fn, site, name, r.st, args, r.val)
		}
	}
	return rs
}

func (a *Analyzer) external0(fr *frame, site ssa.Instruction, name string, sig *types.Signature, st *State, args []Term, fnv Term) []retState {
	one := func(v Term) []retState { return []retState{{st, v}} }
	if a.OnExternal != nil {
		a.OnExternal(fr.fn, site, name, st, args)
	}
	argSlice := func(i int) *Slice {
		if i < len(args) {
			if s, ok := args[i].(*Slice); ok {
				return s
			}
			if _, ok := args[i].(NilT); ok {
				return a.sliceOf(st, args[i], nil)
			}
		}
		return nil
	}
	precond := func(sub string, ok bool, msg func() string) {
		a.obl("E1.precond", fr.fn, site, sub, ok, msg)
	}
	// encoding/binary
	if strings.HasPrefix(name, "(encoding/binary.bigEndian).") || strings.HasPrefix(name, "(encoding/binary.littleEndian).") {
		le := strings.Contains(name, "littleEndian")
		m := name[strings.LastIndex(name, ".")+1:]
		width := func(s string) int64 {
			n, _ := strconv.Atoi(s)
			return int64(n / 8)
		}
		switch {
		case strings.HasPrefix(m, "Uint"):
			w := width(m[4:])
			s := argSlice(1)
			if s == nil {
				return one(resultUnknown(a, sig, st, m))
			}
			g := s.Len.AddC(-w)
			ok := st.Cons.EntailsGE(g)
			precond("len", ok, func() string {
				return fmt.Sprintf("binary.%s needs %d bytes, slice %s has len %s\n%s", m, w, s.Base.Desc, s.Len.String(), st.Describe(s.Len))
			})
			st.AssumeGE(g)
			op := "rd"
			if le {
				op = "rdle"
			}
			at := a.structAtom(op, int64(st.Ver[s.Base.ID]), sig.Results().At(0).Type(),
				fmt.Sprintf("u%d(%s@%s)", w*8, s.Base.Desc, s.Off.String()), &baseRef{s.Base}, Int{s.Off}, Int{Const(w)})
			return one(Int{AtomLin(at)})
		case strings.HasPrefix(m, "PutUint"):
			w := width(m[7:])
			s := argSlice(1)
			if s != nil {
				g := s.Len.AddC(-w)
				ok := st.Cons.EntailsGE(g)
				precond("len", ok, func() string {
					return fmt.Sprintf("binary.%s needs %d bytes, slice %s has len %s\n%s", m, w, s.Base.Desc, s.Len.String(), st.Describe(s.Len))
				})
				st.AssumeGE(g)
				st.Ver[s.Base.ID] = a.id()
				if a.LogWrites && len(args) > 2 {
					st.Log = append(st.Log, &WriteRec{Base: s.Base, Off: s.Off, Width: w, LE: le, Val: args[2]})
				}
				if a.OnWrite != nil && len(args) > 2 {
					a.OnWrite(st, s, w, args[2])
				}
			}
			return one(nil)
		case strings.HasPrefix(m, "AppendUint"):
			w := width(m[10:])
			s := argSlice(1)
			if s == nil {
				return one(resultUnknown(a, sig, st, m))
			}
			nb := &Base{ID: a.id(), Desc: "append(" + s.Base.Desc + ")", Fresh: true, From: s, Op: "appendU"}
			if len(args) > 2 {
				nb.Val = args[2]
			}
			nb.Aux = w
			if a.OnAppendUint != nil && len(args) > 2 {
				a.OnAppendUint(fr.fn, site, st, s, w, args[2], strings.Contains(name, "littleEndian"))
			}
			return one(&Slice{Base: nb, Off: Const(0), Len: s.Len.AddC(w)})
		}
	}
	// sync/atomic typed integers as plain cells (client opt-in: value reasoning about a counter that one goroutine advances)
	if a.AtomicCells && strings.HasPrefix(name, "(*sync/atomic.") && len(args) > 0 && sig.Recv() != nil {
		if cell, et := a.atomicCell(args[0], sig.Recv().Type()); cell != nil {
			m := name[strings.LastIndex(name, ".")+1:]
			switch m {
			case "Load":
				return one(a.load(st, cell, et))
			case "Store":
				if len(args) == 2 {
					a.store(st, cell, args[1], et)
					return one(nil)
				}
			case "Swap":
				if len(args) == 2 {
					old := a.load(st, cell, et)
					a.store(st, cell, args[1], et)
					return one(old)
				}
			case "Add":
				old, ok1 := a.load(st, cell, et).(Int)
				d, ok2 := args[1].(Int)
				if ok1 && ok2 {
					var nv Int
					if r := old.L.Add(d.L); a.fits(st, r, et) {
						nv = Int{r}
					} else {
						nv = a.wrapAtom("add", et, fmt.Sprintf("(%s+%s)", old.L.String(), d.L.String()), old, d)
					}
					a.store(st, cell, nv, et)
					return one(nv)
				}
			}
			// anything else (CompareAndSwap, …): the cell holds an unknown value afterwards
			a.store(st, cell, a.unknownOf(et, "atomic cell after "+m, st), et)
		}
	}
	switch name {
	case "(*sync.Pool).Get":
		return one(&Unknown{ID: a.id(), Typ: sig.Results().At(0).Type(), Desc: "sync.Pool.Get", Pooled: true})
	case "(*sync.Pool).Put":
		if len(args) > 1 {
			v := args[1]
			if ifc, ok := v.(*Iface); ok {
				v = ifc.Val
			}
			if p, ok := v.(*Ptr); ok && p.Obj != nil {
				if a.pooledObj == nil {
					a.pooledObj = map[int]bool{}
				}
				a.pooledObj[p.Obj.ID] = true
				for _, b := range a.bufBytes[p.Obj.ID] {
					a.markReused(&Slice{Base: b}, "storage of a buffer that is handed back to a sync.Pool at "+a.P.RelPos(site.Pos())+" (the next user of the pooled buffer overwrites it)")
				}
			}
		}
		return one(nil)
	case "(*bytes.Buffer).Bytes":
		if p, ok := args[0].(*Ptr); ok && p.Obj != nil {
			nb := &Base{ID: a.id(), Desc: "Bytes(buffer)"}
			if a.bufBytes == nil {
				a.bufBytes = map[int][]*Base{}
			}
			a.bufBytes[p.Obj.ID] = append(a.bufBytes[p.Obj.ID], nb)
			res := &Slice{Base: nb, Off: Const(0), Len: AtomLin(a.freshLen("len(Bytes(buffer))"))}
			if a.pooledObj[p.Obj.ID] {
				a.markReused(res, "storage of a buffer obtained from a sync.Pool (the next user of the pooled buffer overwrites it)")
			}
			return one(res)
		}
	}
	base := name
	switch base {
	case "bytes.Index", "bytes.IndexByte", "bytes.IndexRune", "bytes.IndexAny", "bytes.LastIndex", "bytes.LastIndexByte",
		"strings.Index", "strings.IndexByte", "strings.IndexRune", "strings.IndexAny", "strings.LastIndex", "strings.LastIndexByte":
		return one(a.indexResult(st, argSlice(0), base))
	case "bytes.IndexFunc", "strings.IndexFunc", "bytes.LastIndexFunc", "strings.LastIndexFunc":
		a.callback(fr, site, st, args, nil)
		return one(a.indexResult(st, argSlice(0), base))
	case "bytes.Contains", "bytes.ContainsRune", "bytes.ContainsAny", "bytes.HasPrefix", "bytes.HasSuffix", "bytes.Equal",
		"strings.Contains", "strings.ContainsRune", "strings.ContainsAny", "strings.HasPrefix", "strings.HasSuffix", "strings.EqualFold", "bytes.EqualFold":
		b := &Bool{Kind: BUnknown, ID: a.id(), Src: base}
		if x, y := argSlice(0), argSlice(1); x != nil {
			a.boolSrc[b.ID] = &BoolSrc{Fn: base, X: x, Y: y, Ver: st.Ver[x.Base.ID]}
		}
		return one(b)
	case "bytes.Trim", "bytes.TrimRight", "bytes.TrimLeft", "bytes.TrimSpace", "bytes.TrimPrefix", "bytes.TrimSuffix", "bytes.TrimFunc",
		"strings.Trim", "strings.TrimRight", "strings.TrimLeft", "strings.TrimSpace", "strings.TrimPrefix", "strings.TrimSuffix":
		s := argSlice(0)
		if s == nil {
			return one(resultUnknown(a, sig, st, base))
		}
		n := a.freshLen("len(" + shortName(base) + "(" + s.Base.Desc + "))")
		off := a.freshAtom("off", nil)
		st.AssumeGE(s.Len.Sub(AtomLin(n)))
		st.AssumeGE(AtomLin(off).Sub(s.Off))
		nb := &Base{ID: a.id(), Desc: shortName(base) + "(" + s.Base.Desc + ")", From: s, Op: "call:" + base, Alias: s.Base}
		// the cut set, when it is a constant (a trim is the inverse of NUL padding only for the cut set "\x00")
		if cs := argSlice(1); cs != nil && cs.Base.Str != nil {
			c := *cs.Base.Str
			nb.Cut = &c
		}
		return one(&Slice{Base: nb, Off: Const(0), Len: AtomLin(n), IsStr: s.IsStr})
	case "bytes.Clone":
		s := argSlice(0)
		if s == nil {
			return one(resultUnknown(a, sig, st, base))
		}
		c := s.Len
		return one(&Slice{Base: &Base{ID: a.id(), Desc: "Clone(" + s.Base.Desc + ")", Fresh: true, From: s, Op: "clone"}, Off: Const(0), Len: s.Len, Cap: &c})
	case "path/filepath.Base", "path.Base":
		// the last element of the path: a string of unknown content whose provenance is kept (taint rules)
		if s := argSlice(0); s != nil {
			n := a.freshLen("len(Base(" + s.Base.Desc + "))")
			st.AssumeGE(AtomLin(n).AddC(-1)) // never empty
			return one(&Slice{Base: &Base{ID: a.id(), Desc: "Base(" + s.Base.Desc + ")", Fresh: true, From: s, Op: "call:" + base}, Off: Const(0), Len: AtomLin(n), IsStr: true})
		}
	case "path/filepath.Join", "path.Join":
		if s := argSlice(0); s != nil && s.Base.Elems != nil {
			n := a.freshLen("len(Join)")
			return one(&Slice{Base: &Base{ID: a.id(), Desc: "Join(…)", Fresh: true, Op: "call:" + base, Elems: s.Base.Elems}, Off: Const(0), Len: AtomLin(n), IsStr: true})
		}
	case "strings.Repeat", "bytes.Repeat":
		if n, ok := args[1].(Int); ok {
			okk := st.Cons.EntailsGE(n.L)
			precond("count>=0", okk, func() string {
				return fmt.Sprintf("%s with count %s not proven >= 0\n%s", base, n.L.String(), st.Describe(n.L))
			})
			st.AssumeGE(n.L)
			if s := argSlice(0); s != nil && s.Len.IsConst() {
				if r, ok := (Lin{}).AddMul(n.L, s.Len.C); ok {
					return one(&Slice{Base: &Base{ID: a.id(), Desc: "Repeat", Fresh: true}, Off: Const(0), Len: r, IsStr: base == "strings.Repeat"})
				}
			}
		}
		return one(resultUnknown(a, sig, st, base))
	case "fmt.Sprintf":
		return one(a.sprintf(st, sig, args))
	case "fmt.Errorf", "errors.New":
		u := &Unknown{ID: a.id(), Typ: sig.Results().At(0).Type(), Desc: base, Nilness: nilNon, ErrsExact: true}
		if base == "fmt.Errorf" {
			f, _ := args[0].(*Slice)
			if f == nil || f.Base.Str == nil {
				u.ErrsExact = false
			} else if strings.Contains(*f.Base.Str, "%w") {
				// wraps its error-typed operands
				if len(args) > 1 {
					if vs, ok := args[1].(*Slice); ok && vs.Base.Elems != nil {
						for _, e := range vs.Base.Elems {
							a.mergeErrs(u, e)
						}
					} else {
						u.ErrsExact = false
					}
				}
			}
		}
		if len(u.Errs) > 0 {
			u.Desc = base + "(" + strings.Join(shortNames(u.Errs), ",") + ")"
		}
		return one(u)
	case "errors.Is":
		if len(args) == 2 {
			tgt, _ := args[1].(*Unknown)
			if _, isNil := args[0].(NilT); isNil {
				return one(False)
			}
			if eu, ok := args[0].(*Unknown); ok && tgt != nil && tgt.ErrsExact && len(tgt.Errs) == 1 {
				for _, e := range eu.Errs {
					if e == tgt.Errs[0] {
						return one(True)
					}
				}
				if eu.ErrsExact {
					return one(False)
				}
			}
		}
		return one(&Bool{Kind: BUnknown, ID: a.id(), Src: base})
	case "errors.Join":
		u := &Unknown{ID: a.id(), Typ: sig.Results().At(0).Type(), Desc: base}
		if len(args) > 0 {
			if vs, ok := args[0].(*Slice); ok && vs.Base.Elems != nil {
				u.ErrsExact = true
				for _, e := range vs.Base.Elems {
					if nilness(e) == nilNon {
						u.Nilness = nilNon
					}
					a.mergeErrs(u, e)
				}
				u.Desc = "errors.Join(" + strings.Join(shortNames(u.Errs), ",") + ")"
			}
		}
		return one(u)
	case "(*sync.Once).Do":
		// the function runs exactly once per Once value: a "done" mark is kept next to the
		// Once object; when it is unknown (object of unknown history) both cases are explored
		var doneLoc *Loc
		done := 2 // 0 not yet, 1 done, 2 unknown
		if op, ok := args[0].(*Ptr); ok && op.Obj != nil {
			l := Loc{op.Obj.ID, op.Path + "#oncedone"}
			doneLoc = &l
			if v, ok := st.Heap[l]; ok {
				if b, ok := v.(*Bool); ok && b.Kind == BConst {
					if b.Val {
						done = 1
					} else {
						done = 0
					}
				}
			} else if a.freshObjs[op.Obj.ID] {
				done = 0
			}
		}
		var outs []retState
		if done != 0 {
			skip := st
			if done == 2 {
				skip = st.Clone()
			}
			outs = append(outs, retState{skip, nil})
		}
		if done != 1 {
			if doneLoc != nil {
				st.Heap[*doneLoc] = True
			}
			if cl, ok := args[1].(*Closure); ok {
				for _, s := range a.callClosure(fr, site, st, cl, nil) {
					outs = append(outs, retState{s, nil})
				}
			} else {
				outs = append(outs, retState{st, nil})
			}
		}
		return outs
	case "os.Exit", "log.Fatal", "log.Fatalf", "log.Fatalln", "(*log.Logger).Fatal", "(*log.Logger).Fatalf", "(*log.Logger).Fatalln", "runtime.Goexit":
		a.obl("E1.exit", fr.fn, site, "", false, func() string {
			return "call that terminates the process (or goroutine) is reachable: " + base + "\n" + st.Describe()
		})
		return nil
	case "sort.Slice", "sort.SliceStable":
		var rng *Slice
		if ifc, ok := args[0].(*Iface); ok {
			rng, _ = ifc.Val.(*Slice)
		}
		a.callback(fr, site, st, args, rng)
		if rng != nil {
			st.Ver[rng.Base.ID] = a.id()
		}
		return one(nil)
	case "(net.Conn).Read", "(*net.TCPConn).Read", "(io.Reader).Read", "(*net.conn).Read", "io.ReadFull", "(*os.File).Read", "(*bufio.Reader).Read":
		bi := 0
		if base == "io.ReadFull" || strings.HasPrefix(base, "(*") {
			bi = 1
		}
		if base == "(net.Conn).Read" || base == "(io.Reader).Read" {
			bi = 0
		}
		s := argSlice(bi)
		n := a.freshLen("n")
		if s != nil {
			st.AssumeGE(s.Len.Sub(AtomLin(n)))
			st.Ver[s.Base.ID] = a.id()
			a.markReused(s, "buffer handed to "+shortName(base)+" at "+a.P.RelPos(site.Pos())+" (overwritten by the next read)")
		}
		return one(&Tuple{Elems: []Term{Int{AtomLin(n)}, &Unknown{ID: a.id(), Typ: sig.Results().At(1).Type(), Desc: "err"}}})
	}
	// callbacks passed to unknown code
	hasClosure := false
	for _, x := range args {
		if _, ok := x.(*Closure); ok {
			hasClosure = true
		}
	}
	if hasClosure {
		a.callback(fr, site, st, args, nil)
	}
	a.AssumedTotal[name]++
	return one(resultUnknown(a, sig, st, shortName(name)))
}

func (a *Analyzer) indexResult(st *State, s *Slice, name string) Term {
	r := a.freshAtom(shortName(name), nil)
	r.HasLo, r.Lo = true, -1
	if s != nil {
		st.AssumeGE(s.Len.Sub(AtomLin(r)).AddC(-1))
	}
	return Int{AtomLin(r)}
}

func (a *Analyzer) sprintf(st *State, sig *types.Signature, args []Term) Term {
	out := a.unknownOf(sig.Results().At(0).Type(), "Sprintf", st).(*Slice)
	f, ok := args[0].(*Slice)
	if !ok || f.Base.Str == nil {
		return out
	}
	out.Base.Op = "sprintf:" + *f.Base.Str
	var vals []Term
	if len(args) > 1 {
		if vs, ok := args[1].(*Slice); ok && vs.Base.Elems != nil {
			vals = vs.Base.Elems
		}
	}
	out.Base.Elems = vals
	if m := reBinFmt.FindStringSubmatch(*f.Base.Str); m != nil && len(vals) == 1 {
		n, _ := strconv.Atoi(m[1])
		if ifc, ok := vals[0].(*Iface); ok && isUnsigned(ifc.Typ) && typeBits(ifc.Typ) <= n {
			out.Len = Const(int64(n))
			out.Base.Desc = fmt.Sprintf("bits%d(%s)", n, termDesc(ifc.Val))
		}
	}
	return out
}

// callClosure inlines a closure call with unknown (or given) arguments.
func (a *Analyzer) callClosure(fr *frame, site ssa.Instruction, st *State, cl *Closure, args []Term) []*State {
	if !a.P.IsRepoFunc(cl.Fn) || a.inStack(cl.Fn) || fr.depth >= a.MaxDepth {
		return []*State{st}
	}
	savedEnv, savedDefers := st.Env, st.Defers
	a.rootStack = append(a.rootStack, &rootSet{env: savedEnv, defers: savedDefers})
	rets := a.runFunc(cl.Fn, st, args, cl.Bindings, fr.depth+1)
	a.rootStack = a.rootStack[:len(a.rootStack)-1]
	var outs []*State
	for _, r := range rets {
		env := make(map[ssa.Value]Term, len(savedEnv))
		for k, v := range savedEnv {
			env[k] = v
		}
		a.keepGhosts(r.st.Env, env)
		r.st.Env = env
		r.st.Defers = append([]*deferred(nil), savedDefers...)
		outs = append(outs, r.st)
	}
	return outs
}

// callback analyses closures handed to code we do not see: they may run any number of times,
// so the cells they capture are unknown before, between and after the invocations. idxRange,
// when set, bounds integer parameters to valid indices of that slice (sort.Slice contract).
func (a *Analyzer) callback(fr *frame, site ssa.Instruction, st *State, args []Term, idxRange *Slice) {
	for _, x := range args {
		cl, ok := x.(*Closure)
		if !ok || !a.P.IsRepoFunc(cl.Fn) || a.inStack(cl.Fn) {
			continue
		}
		// The unseen caller can only act through the closure, so its effect is that of the
		// closure body run any number of times: a fixpoint over the heap locations (and buffer
		// contents) the body itself modifies.
		dropped := map[Loc]Term{}
		verDropped := map[int]bool{}
		// while a library function drives this closure, the closure's own range-over-func state is the library's
		// responsibility (maps.Keys, slices.Values, … stop calling yield once it returned false)
		if a.extCallback == nil {
			a.extCallback = map[*ssa.Function]int{}
		}
		a.extCallback[cl.Fn]++
		defer func(f *ssa.Function) { a.extCallback[f]-- }(cl.Fn)
		for iter := 0; iter < 12; iter++ {
			S := st.Clone()
			for l, u := range dropped {
				S.Heap[l] = u
			}
			for b := range verDropped {
				S.Ver[b] = a.id()
			}
			var cargs []Term
			for _, p := range cl.Fn.Params {
				v := a.unknownOf(p.Type(), p.Name(), S)
				if idxRange != nil && isInteger(p.Type()) {
					if iv, ok := v.(Int); ok {
						S.AssumeGE(iv.L)
						S.AssumeGE(idxRange.Len.Sub(iv.L).AddC(-1))
					}
				}
				cargs = append(cargs, v)
			}
			before := S.Clone()
			a.pushSink()
			outs := a.callClosure(fr, site, S, cl, cargs)
			sink := a.popSink()
			changed := false
			for _, o := range outs {
				for l, v := range before.Heap {
					if ov, ok := o.Heap[l]; !ok || ov.TKey() != v.TKey() {
						if _, done := dropped[l]; !done {
							dropped[l] = a.havocTerm(l, v)
							changed = true
						}
					}
				}
				for l, ov := range o.Heap {
					if _, ok := before.Heap[l]; !ok && a.freshObjs[l.Obj] && !strings.HasPrefix(l.Path, "[") && !strings.HasPrefix(l.Path, "?[") {
						if _, done := dropped[l]; !done {
							dropped[l] = a.havocTerm(l, ov)
							changed = true
						}
					}
				}
				for b, v := range o.Ver {
					if before.Ver[b] != v && !verDropped[b] {
						verDropped[b] = true
						changed = true
					}
				}
			}
			if !changed || iter == 11 {
				if changed {
					a.Undecided = append(a.Undecided, fmt.Sprintf("%s: callback %s did not stabilise", shortFn(fr.fn), shortFn(cl.Fn)))
				}
				a.commit(sink)
				break
			}
		}
		for l, u := range dropped {
			st.Heap[l] = u
		}
		for b := range verDropped {
			st.Ver[b] = a.id()
		}
	}
}

// havocReach forgets everything stored in memory reachable from the given terms.
func (a *Analyzer) havocReach(st *State, roots []Term) {
	m := &marker{atoms: map[*Atom]bool{}, objs: map[int]bool{}, bases: map[int]bool{}}
	for _, r := range roots {
		m.term(r)
	}
	for changed := true; changed; {
		changed = false
		for loc, t := range st.Heap {
			if m.objs[loc.Obj] && t != nil {
				n0, n1 := len(m.objs), len(m.bases)
				m.term(t)
				if len(m.objs) != n0 || len(m.bases) != n1 {
					changed = true
				}
			}
		}
	}
	for loc := range st.Heap {
		if m.objs[loc.Obj] {
			delete(st.Heap, loc)
		}
	}
	for id := range m.objs {
		if a.freshObjs[id] {
			a.freshObjs[id] = false
		}
	}
	for id := range m.bases {
		st.Ver[id] = a.id()
	}
}

// invokeUnknown resolves a method call on an interface value of unknown dynamic type by
// exploring every repo type that implements the interface (each on its own path, with an
// arbitrary receiver) next to "some implementation outside the repository".
func (a *Analyzer) invokeUnknown(fr *frame, site ssa.Instruction, c *ssa.CallCommon, st *State, u *Unknown, args []Term, res *ssa.Call) ([]*State, bool) {
	impls := a.Impls(c.Value.Type())
	if len(impls) == 0 || len(impls) > 4 {
		return nil, false
	}
	run := func(s *State, t types.Type) []*State {
		bind := func(x *State, v Term) {
			if res != nil {
				if v == nil {
					v = a.unknownOf(res.Type(), res.Name(), x)
				}
				x.Env[res] = v
			}
		}
		if t == nil {
			name := "(" + c.Value.Type().String() + ")." + c.Method.Name()
			outs := a.external(fr, site, name, c.Signature(), s, args, u)
			for _, o := range outs {
				bind(o.st, o.val)
			}
			return statesOf(outs)
		}
		fn := a.P.SSA.LookupMethod(t, c.Method.Pkg(), c.Method.Name())
		if fn == nil || !a.P.IsRepoFunc(fn) || a.inStack(fn) || fr.depth >= a.MaxDepth {
			if fn != nil {
				a.Reach[fn] = true
			}
			outs := a.external(fr, site, "unresolved "+c.Method.Name(), c.Signature(), s, args, u)
			for _, o := range outs {
				bind(o.st, o.val)
			}
			return statesOf(outs)
		}
		key := fmt.Sprintf("%d/%s", u.ID, t.String())
		recv, ok := a.ifaceRecv[key]
		if !ok {
			recv = a.unknownOf(t, u.Desc+".("+t.String()+")", s)
			a.ifaceRecv[key] = recv
		}
		callArgs := append([]Term{recv}, args...)
		savedEnv, savedDefers := s.Env, s.Defers
		a.rootStack = append(a.rootStack, &rootSet{env: savedEnv, defers: savedDefers})
		rets := a.runFunc(fn, s, callArgs, nil, fr.depth+1)
		a.rootStack = a.rootStack[:len(a.rootStack)-1]
		var outs []*State
		for _, r := range rets {
			env := make(map[ssa.Value]Term, len(savedEnv)+1)
			for k, v := range savedEnv {
				env[k] = v
			}
			a.keepGhosts(r.st.Env, env)
			r.st.Env = env
			r.st.Defers = append([]*deferred(nil), savedDefers...)
			bind(r.st, r.val)
			outs = append(outs, r.st)
		}
		return outs
	}
	if t, seen := st.Dyn[u.ID]; seen {
		return run(st, t), true
	}
	var outs []*State
	alts := append([]types.Type{nil}, impls...)
	if a.NoExternalImpl != nil && a.NoExternalImpl(c.Value.Type()) {
		alts = impls // default configuration: only the repository's own implementations
	}
	for i, t := range alts {
		s := st
		if i < len(alts)-1 {
			s = st.Clone()
		}
		if s.Dyn == nil {
			s.Dyn = map[int]types.Type{}
		}
		s.Dyn[u.ID] = t
		if t != nil {
			s.note("dyn:" + shortName(t.String()))
		}
		outs = append(outs, run(s, t)...)
	}
	return outs, true
}

// mergeErrs adds the sentinel provenance of error value e to u.
func (a *Analyzer) mergeErrs(u *Unknown, e Term) {
	if ifc, ok := e.(*Iface); ok {
		e = ifc.Val
	}
	switch v := e.(type) {
	case NilT:
	case *Unknown:
		// only error-typed operands matter for wrapping
		if v.Typ != nil {
			if _, isIface := v.Typ.Underlying().(*types.Interface); !isIface {
				return
			}
		}
		u.Errs = append(u.Errs, v.Errs...)
		if !v.ErrsExact {
			u.ErrsExact = false
		}
	case Int, *Slice, *Bool:
		// non-error operand of a format string
	default:
		u.ErrsExact = false
	}
}

func shortNames(xs []string) []string {
	out := make([]string, len(xs))
	for i, x := range xs {
		out[i] = x[strings.LastIndexAny(x, "./")+1:]
	}
	return out
}

// keepGhosts copies the callee's final ghost values into the restored caller environment.
func (a *Analyzer) keepGhosts(callee, caller map[ssa.Value]Term) {
	for _, g := range a.Ghosts {
		if v, ok := callee[g]; ok {
			caller[g] = v
		}
	}
}

// atomicCell maps a pointer to a sync/atomic typed integer to the location of its value field.
func (a *Analyzer) atomicCell(recv Term, recvT types.Type) (*Ptr, types.Type) {
	p, ok := recv.(*Ptr)
	if !ok || p.Obj == nil {
		return nil, nil
	}
	cell, ct := a.FieldPtr(p, recvT, "v")
	if cell == nil {
		return nil, nil
	}
	et := ct.Underlying().(*types.Pointer).Elem()
	if !isInteger(et) {
		return nil, nil
	}
	return cell, et
}

// AtomicCell is the exported form for clients (entry set-up / reading the cell in a return state).
func (a *Analyzer) AtomicCell(recv Term, recvT types.Type) (*Ptr, types.Type) {
	return a.atomicCell(recv, recvT)
}
