package absint

import (
	"fmt"
	"go/types"
	"sort"
	"strings"

	"golang.org/x/tools/go/ssa"
)

type Loc struct {
	Obj  int
	Path string
}

type deferred struct {
	call *ssa.CallCommon
	fn   Term   // evaluated function value (closure/func) or nil for static/builtin/invoke
	args []Term // evaluated args (incl. receiver for invoke)
	pos  ssa.Instruction
}

// State is one disjunct of the abstract state at a program point.
type State struct {
	Log    []*WriteRec // writes into byte buffers along this path (encoder layout extraction)
	Cons   *ConSet
	Heap   map[Loc]Term
	Env    map[ssa.Value]Term
	Ver    map[int]int // base id -> content version
	Defers []*deferred
	Trace  []string
	Dead   bool
	gcMark int
	// BoolFacts records the outcome taken at branches on opaque booleans (string compares,
	// library predicates) so that clients can ask under which outcomes a state was reached.
	BoolFacts map[int]bool
	// Dyn records, per unknown interface value, the dynamic type assumed on this path
	// (nil = an implementation outside the repository).
	Dyn map[int]types.Type
}

// WriteRec records one write into a byte buffer (kept per path in State.Log when Analyzer.LogWrites is set).
type WriteRec struct {
	Base  *Base
	Off   Lin
	Width int64 // bytes; 0: copy of Src (length N)
	LE    bool
	Val   Term   // integer value written (Width > 0)
	Src   *Slice // copied bytes (Width == 0)
	N     Lin
}

func NewState() *State {
	return &State{Cons: newConSet(), Heap: map[Loc]Term{}, Env: map[ssa.Value]Term{}, Ver: map[int]int{}}
}

func (s *State) Clone() *State {
	n := &State{Cons: s.Cons.clone(), Heap: make(map[Loc]Term, len(s.Heap)), Env: make(map[ssa.Value]Term, len(s.Env)), Ver: make(map[int]int, len(s.Ver))}
	for k, v := range s.Heap {
		n.Heap[k] = v
	}
	for k, v := range s.Env {
		n.Env[k] = v
	}
	for k, v := range s.Ver {
		n.Ver[k] = v
	}
	n.Defers = append([]*deferred(nil), s.Defers...)
	n.Log = append([]*WriteRec(nil), s.Log...)
	n.Trace = append([]string(nil), s.Trace...)
	n.gcMark = s.gcMark
	if s.BoolFacts != nil {
		n.BoolFacts = make(map[int]bool, len(s.BoolFacts))
		for k, v := range s.BoolFacts {
			n.BoolFacts[k] = v
		}
	}
	if s.Dyn != nil {
		n.Dyn = make(map[int]types.Type, len(s.Dyn))
		for k, v := range s.Dyn {
			n.Dyn[k] = v
		}
	}
	return n
}

func (s *State) note(msg string) {
	if len(s.Trace) >= 48 {
		s.Trace = s.Trace[1:]
	}
	s.Trace = append(s.Trace, msg)
}

func (s *State) Assume(c Con) { s.Cons.Add(c) }

func (s *State) AssumeGE(l Lin) { s.Cons.Add(Con{l, GE}) }
func (s *State) AssumeEQ(l Lin) { s.Cons.Add(Con{l, EQ}) }

// killObj forgets everything known about object id (all paths with the given prefix).
func (s *State) killPrefix(obj int, prefix string) {
	for k := range s.Heap {
		if k.Obj == obj && strings.HasPrefix(k.Path, prefix) {
			delete(s.Heap, k)
		}
	}
}

func (s *State) heapKeys() []Loc {
	keys := make([]Loc, 0, len(s.Heap))
	for k := range s.Heap {
		keys = append(keys, k)
	}
	sort.Slice(keys, func(i, j int) bool {
		if keys[i].Obj != keys[j].Obj {
			return keys[i].Obj < keys[j].Obj
		}
		return keys[i].Path < keys[j].Path
	})
	return keys
}

func (s *State) Describe(seed ...Lin) string {
	var b strings.Builder
	fmt.Fprintf(&b, "facts: %s", s.Cons.Relevant(seed...))
	if len(s.Trace) > 0 {
		fmt.Fprintf(&b, "\npath: %s", strings.Join(s.Trace, " → "))
	}
	return b.String()
}

// Feasible reports whether c can hold in st (false only when st refutes it).
func (s *State) Feasible(c Con) bool { return !s.Cons.InfeasibleWith(c) }

// Entails reports whether st implies c.
func (s *State) Entails(c Con) bool { return s.Cons.Entails(c) }
