package absint

import (
	"go/types"

	"golang.org/x/tools/go/ssa"
)

// DefaultEntry analyses fn with arbitrary arguments: every parameter (and, through
// pointers, every field reachable from it) is unconstrained; pointers are non-nil.
func (a *Analyzer) DefaultEntry(fn *ssa.Function) ([]*Obl, []retState) {
	st := NewState()
	var args []Term
	for _, p := range fn.Params {
		args = append(args, a.Unknown(p.Type(), p.Name(), st))
	}
	var binds []Term
	for _, fv := range fn.FreeVars {
		binds = append(binds, a.Unknown(fv.Type(), fv.Name(), st))
	}
	return a.RunEntry(fn, st, args, binds)
}

// RetInfo exposes a return state for clients (layout extraction).
type RetInfo struct {
	St  *State
	Val Term
}

func Rets(rs []retState) []RetInfo {
	out := make([]RetInfo, len(rs))
	for i, r := range rs {
		out[i] = RetInfo{r.st, r.val}
	}
	return out
}

// LoadField loads field `name` of the struct pointed to by p (of pointer type pt).
func (a *Analyzer) LoadField(st *State, p Term, pt types.Type, name string) (Term, types.Type) {
	ptr, ok := p.(*Ptr)
	if !ok {
		return nil, nil
	}
	elem := pt.Underlying().(*types.Pointer).Elem()
	stt, ok := elem.Underlying().(*types.Struct)
	if !ok {
		return nil, nil
	}
	for i := 0; i < stt.NumFields(); i++ {
		if stt.Field(i).Name() == name {
			ft := stt.Field(i).Type()
			return a.load(st, &Ptr{Obj: ptr.Obj, Path: ptr.Path + pathField(stt, elem, i)}, ft), ft
		}
	}
	return nil, nil
}

// Unknown builds an unconstrained value (exported for entry set-up). Pointers and maps made
// this way are entry parameters: non-nil.
func (a *Analyzer) Unknown(t types.Type, desc string, st *State) Term {
	v := a.unknownOf(t, desc, st)
	switch x := v.(type) {
	case *Ptr:
		x.NilUnk = false
	case *MapT:
		x.NilUnk = false
	}
	return v
}

// AssumeRange constrains an integer term.
func AssumeRange(st *State, t Term, lo, hi int64) {
	if iv, ok := t.(Int); ok {
		st.AssumeGE(iv.L.AddC(-lo))
		st.AssumeGE(iv.L.Scale(-1).AddC(hi))
	}
}

// AssumeGE0 constrains an integer term to be non-negative.
func AssumeGE0(st *State, t Term) {
	if iv, ok := t.(Int); ok {
		st.AssumeGE(iv.L)
	}
}

// ByteAt returns the symbolic value of s[idx] in st (no bounds obligation).
func (a *Analyzer) ByteAt(st *State, s *Slice, idx Lin) Lin {
	v := a.load(st, &Ptr{Elem: s.Base, ElemOff: s.Off.Add(idx), ElemTyp: types.Typ[types.Uint8]}, types.Typ[types.Uint8])
	if iv, ok := v.(Int); ok {
		return iv.L
	}
	return Lin{}
}

// StoreField stores v into field `name` of the struct p points to (entry set-up).
func (a *Analyzer) StoreField(st *State, p Term, pt types.Type, name string, v Term) bool {
	ptr, ok := p.(*Ptr)
	if !ok {
		return false
	}
	elem := pt.Underlying().(*types.Pointer).Elem()
	stt, ok := elem.Underlying().(*types.Struct)
	if !ok {
		return false
	}
	for i := 0; i < stt.NumFields(); i++ {
		if stt.Field(i).Name() == name {
			a.store(st, &Ptr{Obj: ptr.Obj, Path: ptr.Path + pathField(stt, elem, i)}, v, stt.Field(i).Type())
			return true
		}
	}
	return false
}

// Nil returns the nil value of a pointer-like type.
func Nil(t types.Type) Term { return NilT{Typ: t} }

// Mark records an opaque fact in st (inherited by all states forked from it); Marked tests it.
func (a *Analyzer) NewMark() int { return a.id() }

func Mark(st *State, id int) {
	if st.BoolFacts == nil {
		st.BoolFacts = map[int]bool{}
	}
	st.BoolFacts[id] = true
}

func Marked(st *State, id int) bool { return st.BoolFacts[id] }

// FieldPtr returns a pointer to field `name` of the struct p points to, with its pointer type.
func (a *Analyzer) FieldPtr(p Term, pt types.Type, name string) (*Ptr, types.Type) {
	ptr, ok := p.(*Ptr)
	if !ok {
		return nil, nil
	}
	elem := pt.Underlying().(*types.Pointer).Elem()
	stt, ok := elem.Underlying().(*types.Struct)
	if !ok {
		return nil, nil
	}
	for i := 0; i < stt.NumFields(); i++ {
		if stt.Field(i).Name() == name {
			return &Ptr{Obj: ptr.Obj, Path: ptr.Path + pathField(stt, elem, i)}, types.NewPointer(stt.Field(i).Type())
		}
	}
	return nil, nil
}

// StoreDeref / LoadDeref access the location a pointer term designates (entry set-up, hooks).
func (a *Analyzer) StoreDeref(st *State, p *Ptr, v Term, t types.Type) { a.store(st, p, v, t) }
func (a *Analyzer) LoadDeref(st *State, p *Ptr, t types.Type) Term     { return a.load(st, p, t) }

// BoolEquivalent reports whether, in st, the boolean b holds exactly when constraint c holds.
func (a *Analyzer) BoolEquivalent(st *State, b *Bool, c Con) bool {
	ts, fs := a.branch(st.Clone(), b)
	if ts != nil && !ts.Entails(c) {
		return false
	}
	if fs != nil && fs.Feasible(c) {
		return false
	}
	return true
}

// KnownNotEqualStr: on the way to st the string s was compared with the constant k and found different
// (a branch on `s == k` / `s != k`, also through a switch, took the "different" side).
func (a *Analyzer) KnownNotEqualStr(st *State, s *Slice, k string) bool {
	for id, pair := range a.strEq {
		eq, decided := st.BoolFacts[id]
		if !decided || eq {
			continue
		}
		x, y := pair[0], pair[1]
		for i := 0; i < 2; i++ {
			if x.Base == s.Base && x.Off.Equal(s.Off) && x.Len.Equal(s.Len) && y.Base.Str != nil && y.Off.IsConst() && y.Off.C == 0 && *y.Base.Str == k {
				return true
			}
			x, y = y, x
		}
	}
	return false
}

// ReadUint is the term binary.{Big,Little}Endian.UintN(s[off:]) evaluates to (same hash-consed atom).
func (a *Analyzer) ReadUint(st *State, s *Slice, off Lin, w int64, le bool) Lin {
	var t types.Type
	switch w {
	case 1:
		t = types.Typ[types.Uint8]
	case 2:
		t = types.Typ[types.Uint16]
	case 4:
		t = types.Typ[types.Uint32]
	default:
		t = types.Typ[types.Uint64]
	}
	op := "rd"
	if le {
		op = "rdle"
	}
	o := s.Off.Add(off)
	at := a.structAtom(op, int64(st.Ver[s.Base.ID]), t, "u(…)", &baseRef{s.Base}, Int{o}, Int{Const(w)})
	return AtomLin(at)
}

// BoolSource: the library predicate an unknown boolean stands for (bytes.HasPrefix(x, y), …), if any.
func (a *Analyzer) BoolSource(b *Bool) *BoolSrc {
	if b == nil {
		return nil
	}
	return a.boolSrc[b.ID]
}
