package absint

import (
	"golang.org/x/tools/go/ssa"
)

// DefaultEntry analyses fn with arbitrary arguments: every parameter (and, through
// pointers, every field reachable from it) is unconstrained; pointers are non-nil.
func (a *Analyzer) DefaultEntry(fn *ssa.Function) ([]*Obl, []retState) {
	st := NewState()
	var args []Term
	for _, p := range fn.Params {
		args = append(args, a.unknownOf(p.Type(), p.Name(), st))
	}
	var binds []Term
	for _, fv := range fn.FreeVars {
		binds = append(binds, a.unknownOf(fv.Type(), fv.Name(), st))
	}
	return a.RunEntry(fn, st, args, binds)
}

// RetInfo exposes a return state for clients (layout extraction).
type RetInfo struct {
	St  *State
	Val Term
}

func Rets(rs []retState) []RetInfo {
	out := make([]RetInfo, len(rs))
	for i, r := range rs {
		out[i] = RetInfo{r.st, r.val}
	}
	return out
}
