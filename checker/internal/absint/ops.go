package absint

import (
	"fmt"
	"go/token"
	"go/types"

	"golang.org/x/tools/go/ssa"
)

// fits reports whether l provably lies in the range of t; unbounded sides (int, int64,
// upper side of uint64) are assumed not to overflow (amd64, documented assumption).
func (a *Analyzer) fits(st *State, l Lin, t types.Type) bool {
	lo, hi, hasLo, hasHi := intRange(t)
	if hasLo && !st.Cons.LowerBoundGE(l, lo) {
		return false
	}
	if hasHi && !st.Cons.UpperBoundLE(l, hi) {
		return false
	}
	return true
}

func (a *Analyzer) wrapAtom(op string, t types.Type, desc string, args ...Term) Int {
	return Int{AtomLin(a.structAtom(op, 0, t, desc, args...))}
}

func (a *Analyzer) binop(fr *frame, x *ssa.BinOp, st *State) Term {
	xv, yv := a.val(st, x.X), a.val(st, x.Y)
	xi, xok := xv.(Int)
	yi, yok := yv.(Int)
	switch x.Op {
	case token.EQL, token.NEQ, token.LSS, token.LEQ, token.GTR, token.GEQ:
		if xok && yok {
			var c Con
			d := xi.L.Sub(yi.L) // x - y
			switch x.Op {
			case token.EQL:
				c = Con{d, EQ}
			case token.NEQ:
				c = Con{d, NE}
			case token.LSS: // x < y  ⇔ y-x-1 >= 0
				c = Con{d.Scale(-1).AddC(-1), GE}
			case token.LEQ:
				c = Con{d.Scale(-1), GE}
			case token.GTR:
				c = Con{d.AddC(-1), GE}
			case token.GEQ:
				c = Con{d, GE}
			}
			if len(c.L.Ts) == 0 {
				holds := false
				switch c.Rel {
				case GE:
					holds = c.L.C >= 0
				case EQ:
					holds = c.L.C == 0
				case NE:
					holds = c.L.C != 0
				}
				if holds {
					return True
				}
				return False
			}
			return &Bool{Kind: BCmp, C: c}
		}
		return a.cmpNonInt(x, xv, yv, st)
	}
	if !xok || !yok {
		// string concatenation
		if xs, ok := xv.(*Slice); ok && x.Op == token.ADD {
			if ys, ok := yv.(*Slice); ok {
				return &Slice{Base: &Base{ID: a.id(), Desc: "concat", Fresh: true, Op: "concat", From: xs, From2: ys}, Off: Const(0), Len: xs.Len.Add(ys.Len), IsStr: true}
			}
		}
		return a.unknownOf(x.Type(), x.Name(), st)
	}
	t := x.Type()
	desc := fmt.Sprintf("(%s%s%s)", xi.L.String(), x.Op.String(), yi.L.String())
	switch x.Op {
	case token.ADD:
		r := xi.L.Add(yi.L)
		if a.fits(st, r, t) {
			return Int{r}
		}
		return a.wrapAtom("add", t, desc, xi, yi)
	case token.SUB:
		r := xi.L.Sub(yi.L)
		if a.fits(st, r, t) {
			return Int{r}
		}
		return a.wrapAtom("sub", t, desc, xi, yi)
	case token.MUL:
		if yi.L.IsConst() || xi.L.IsConst() {
			var r Lin
			var ok bool
			if yi.L.IsConst() {
				r, ok = (Lin{}).AddMul(xi.L, yi.L.C)
			} else {
				r, ok = (Lin{}).AddMul(yi.L, xi.L.C)
			}
			if ok && a.fits(st, r, t) {
				return Int{r}
			}
		}
		at := a.structAtom("mul", 0, t, desc, xi, yi)
		if st.Cons.EntailsGE(xi.L) && st.Cons.EntailsGE(yi.L) {
			st.AssumeGE(AtomLin(at))
		}
		return Int{AtomLin(at)}
	case token.QUO:
		if !yi.L.IsConst() {
			ok := st.Cons.EntailsNE(yi.L)
			a.obl("E1.div", fr.fn, x, "", ok, func() string {
				return fmt.Sprintf("division by %s not proven non-zero\n%s", yi.L.String(), st.Describe(yi.L))
			})
			return Int{AtomLin(a.structAtom("div", 0, t, desc, xi, yi))}
		}
		c := yi.L.C
		if c == 0 {
			a.obl("E1.div", fr.fn, x, "", false, func() string { return "division by constant zero" })
			return a.unknownOf(t, x.Name(), st)
		}
		if c > 0 && st.Cons.EntailsGE(xi.L) {
			return Int{a.divTerm(st, xi.L, c, t)}
		}
		return Int{AtomLin(a.structAtom("div", c, t, desc, xi))}
	case token.REM:
		if !yi.L.IsConst() {
			ok := st.Cons.EntailsNE(yi.L)
			a.obl("E1.div", fr.fn, x, "", ok, func() string {
				return fmt.Sprintf("modulo by %s not proven non-zero\n%s", yi.L.String(), st.Describe(yi.L))
			})
			return Int{AtomLin(a.structAtom("rem", 0, t, desc, xi, yi))}
		}
		c := yi.L.C
		if c == 0 {
			a.obl("E1.div", fr.fn, x, "", false, func() string { return "modulo by constant zero" })
			return a.unknownOf(t, x.Name(), st)
		}
		if c < 0 {
			c = -c
		}
		r := a.structAtom("rem", c, t, desc, xi)
		if st.Cons.EntailsGE(xi.L) {
			// x = c*(x/c) + x%c
			q := a.divTerm(st, xi.L, c, t)
			st.AssumeEQ(xi.L.Sub(q.Scale(c)).Sub(AtomLin(r)))
		}
		if isUnsigned(t) {
			r.HasLo, r.Lo, r.HasHi, r.Hi = true, 0, true, c-1
		} else {
			r.HasLo, r.Lo, r.HasHi, r.Hi = true, -(c - 1), true, c-1
			if st.Cons.EntailsGE(xi.L) {
				st.AssumeGE(AtomLin(r))
			}
		}
		return Int{AtomLin(r)}
	case token.AND:
		at := a.structAtom("and", 0, t, desc, xi, yi)
		var bound int64 = -1
		if yi.L.IsConst() && yi.L.C >= 0 {
			bound = yi.L.C
		} else if xi.L.IsConst() && xi.L.C >= 0 {
			bound = xi.L.C
		}
		if bound >= 0 {
			at.HasLo, at.Lo = true, 0
			if !at.HasHi || at.Hi > bound {
				at.HasHi, at.Hi = true, bound
			}
		}
		return Int{AtomLin(at)}
	case token.SHL:
		if yi.L.IsConst() && yi.L.C >= 0 && yi.L.C < 62 {
			r, ok := (Lin{}).AddMul(xi.L, int64(1)<<uint(yi.L.C))
			if ok && a.fits(st, r, t) {
				return Int{r}
			}
		}
		return a.wrapAtom("shl", t, desc, xi, yi)
	case token.SHR:
		at := a.structAtom("shr", 0, t, desc, xi, yi)
		if yi.L.IsConst() && yi.L.C >= 0 && yi.L.C < 63 {
			if _, hi, hasLo, hasHi := intRange(x.X.Type()); hasLo && hasHi && isUnsigned(x.X.Type()) {
				at.HasLo, at.Lo, at.HasHi, at.Hi = true, 0, true, hi>>uint(yi.L.C)
			}
		}
		return Int{AtomLin(at)}
	case token.OR:
		return a.wrapAtom("or", t, desc, xi, yi)
	case token.XOR:
		return a.wrapAtom("xor", t, desc, xi, yi)
	case token.AND_NOT:
		return a.wrapAtom("andnot", t, desc, xi, yi)
	}
	return a.unknownOf(t, x.Name(), st)
}

func (a *Analyzer) cmpNonInt(x *ssa.BinOp, xv, yv Term, st *State) Term {
	neg := x.Op == token.NEQ
	mk := func(b bool) Term {
		if b != neg {
			return True
		}
		return False
	}
	if x.Op == token.EQL || x.Op == token.NEQ {
		// bool == bool
		if xb, ok := xv.(*Bool); ok {
			if yb, ok := yv.(*Bool); ok {
				if yb.Kind == BConst {
					r := xb
					if !yb.Val {
						r = notB(xb)
					}
					if neg {
						r = notB(r)
					}
					return r
				}
				if xb.Kind == BConst {
					r := yb
					if !xb.Val {
						r = notB(yb)
					}
					if neg {
						r = notB(r)
					}
					return r
				}
			}
		}
		nx, ny := nilness(xv), nilness(yv)
		if nx == nilIs && ny == nilIs {
			return mk(true)
		}
		if (nx == nilIs && ny == nilNon) || (nx == nilNon && ny == nilIs) {
			return mk(false)
		}
		// comparison of one opaque value with nil: the same value always gives the same answer
		// (the decision taken at the first branch is remembered in State.BoolFacts)
		if nx == nilIs || ny == nilIs {
			other := xv
			if nx == nilIs {
				other = yv
			}
			oid := 0
			switch o := other.(type) {
			case *Unknown:
				oid = o.ID
			case *Ptr:
				if o.Obj != nil && o.Path == "" && o.Elem == nil {
					oid = o.Obj.ID
				}
			case *MapT:
				oid = o.Obj.ID
			}
			if oid != 0 {
				bid, ok := a.nilCmp[oid]
				if !ok {
					bid = a.id()
					a.nilCmp[oid] = bid
				}
				b := &Bool{Kind: BUnknown, ID: bid, Src: "isnil"}
				if neg {
					return notB(b)
				}
				return b
			}
		}
		// slices compared with nil: len==0 is implied by nil but not the converse
		// strings: equal constant contents
		if xs, ok := xv.(*Slice); ok && xs.IsStr {
			if ys, ok := yv.(*Slice); ok && ys.IsStr {
				if xs.TKey() == ys.TKey() {
					return mk(true)
				}
				if xs.Len.IsConst() && ys.Len.IsConst() && xs.Len.C != ys.Len.C {
					return mk(false)
				}
				b := &Bool{Kind: BUnknown, ID: a.id(), Src: fmt.Sprintf("streq(%s,%s)", xs.TKey(), ys.TKey())}
				a.strEq[b.ID] = [2]*Slice{xs, ys}
				if neg {
					return notB(b)
				}
				return b
			}
		}
		if xv.TKey() == yv.TKey() {
			if _, isU := xv.(*Unknown); !isU {
				return mk(true)
			}
		}
	}
	return &Bool{Kind: BUnknown, ID: a.id()}
}

func notB(b *Bool) *Bool {
	switch b.Kind {
	case BConst:
		if b.Val {
			return False
		}
		return True
	case BNot:
		return b.X
	}
	return &Bool{Kind: BNot, X: b}
}

func (a *Analyzer) convert(fr *frame, x *ssa.Convert, st *State) Term {
	v := a.val(st, x.X)
	from, to := x.X.Type(), x.Type()
	switch {
	case isInteger(from) && isInteger(to):
		iv, ok := v.(Int)
		if !ok {
			return a.unknownOf(to, x.Name(), st)
		}
		if a.fits(st, iv.L, to) {
			return iv
		}
		// widening of a value whose own type range fits is handled by fits via atom ranges;
		// otherwise truncation/wrap: structural atom
		return Int{AtomLin(a.structAtom("conv", 0, to, fmt.Sprintf("%s(%s)", to.String(), iv.L.String()), iv))}
	case (isString(to) && isSlice(from)) || (isSlice(to) && isString(from)):
		if s, ok := v.(*Slice); ok {
			nb := &Base{ID: a.id(), Desc: fmt.Sprintf("%s(%s)", typeShort(to), s.Base.Desc), Fresh: true, From: s, Op: "conv"}
			ln := s.Len
			if isString(from) && isSlice(to) {
				if et, ok := to.Underlying().(*types.Slice).Elem().Underlying().(*types.Basic); ok && et.Kind() != types.Uint8 {
					// []rune(s): length unknown
					return a.unknownOf(to, x.Name(), st)
				}
			}
			if isSlice(from) {
				if et, ok := from.Underlying().(*types.Slice).Elem().Underlying().(*types.Basic); ok && et.Kind() != types.Uint8 {
					return a.unknownOf(to, x.Name(), st)
				}
			}
			out := &Slice{Base: nb, Off: Const(0), Len: ln, IsStr: isString(to)}
			if !out.IsStr {
				c := ln
				out.Cap = &c
			}
			return out
		}
		if _, ok := v.(NilT); ok {
			return a.zeroOf(to)
		}
	}
	return a.unknownOf(to, x.Name(), st)
}

func typeShort(t types.Type) string {
	if isString(t) {
		return "string"
	}
	return "[]byte"
}

// divTerm returns x / c (c > 0, x >= 0 in st) as a linear term: constant multiples of c are
// split off (so (i+2)/2 is i/2+1) and the quotient atom q is tied to x by c*q <= x <= c*q+c-1.
func (a *Analyzer) divTerm(st *State, x Lin, c int64, t types.Type) Lin {
	m := floorDiv(x.C, c)
	y := x.AddC(-m * c)
	if m != 0 && !st.Cons.EntailsGE(y) {
		m, y = 0, x
	}
	if y.IsConst() {
		return Const(y.C/c + m)
	}
	q := a.structAtom("div", c, nil, fmt.Sprintf("(%s/%d)", y.String(), c), Int{y})
	ql := AtomLin(q)
	st.AssumeGE(y.Sub(ql.Scale(c)))
	st.AssumeGE(ql.Scale(c).AddC(c - 1).Sub(y))
	return ql.AddC(m)
}
