package absint

import (
	"fmt"
	"go/types"
	"sort"
	"strings"
)

// Render gives a canonical, implementation-idiom-independent description of a value in
// terms of the input bytes it was computed from (engine E3: layout extraction).
//
//	u16be(data@6)            big-endian read of 2 bytes at offset 6 of buffer "data"
//	u8(data@14)              single byte
//	bits(X,hi,lo)            bit field of X (from shift/mask forms)
//	bytes(data@8+6)          sub-slice window
//	str(W) / trim(W) / F(W)  string conversion, bytes.Trim*, pure helper F applied to window W
//	123                      constant
//	?                        anything else
func (a *Analyzer) Render(t Term) string {
	switch v := t.(type) {
	case nil:
		return "?"
	case Int:
		return a.renderLin(v.L)
	case *Bool:
		switch v.Kind {
		case BConst:
			return fmt.Sprintf("%v", v.Val)
		case BCmp:
			return "cmp(" + a.renderLin(v.C.L) + [...]string{">=0", "==0", "!=0"}[v.C.Rel] + ")"
		case BNot:
			return "!" + a.Render(v.X)
		}
		if src, ok := a.boolSrc[v.ID]; ok {
			y := "?"
			if src.Y != nil {
				y = a.renderSlice(src.Y)
			}
			return shortName(src.Fn) + "(" + a.renderSlice(src.X) + "," + y + ")"
		}
		if se, ok := a.strEq[v.ID]; ok {
			return "streq(" + a.renderSlice(se[0]) + "," + a.renderSlice(se[1]) + ")"
		}
		return "?"
	case *Slice:
		return a.renderSlice(v)
	case NilT:
		return "nil"
	case *Struct:
		parts := make([]string, len(v.Fields))
		for i, f := range v.Fields {
			parts[i] = a.Render(f)
		}
		return "{" + strings.Join(parts, ",") + "}"
	case *Iface:
		return a.Render(v.Val)
	case *Tuple:
		parts := make([]string, len(v.Elems))
		for i, f := range v.Elems {
			parts[i] = a.Render(f)
		}
		return "(" + strings.Join(parts, ", ") + ")"
	case *Unknown:
		if v.Desc != "" {
			return "?" + v.Desc
		}
	}
	return "?"
}

// BoolFactsRendered lists the opaque predicates decided on the way to st, rendered.
func (a *Analyzer) BoolFactsRendered(st *State) map[string]bool {
	out := map[string]bool{}
	for id, val := range st.BoolFacts {
		out[a.Render(&Bool{Kind: BUnknown, ID: id})] = val
	}
	return out
}

func (a *Analyzer) renderLin(l Lin) string {
	if len(l.Ts) == 0 {
		return fmt.Sprintf("%d", l.C)
	}
	if at := l.SingleAtom(); at != nil {
		return a.renderAtom(at)
	}
	var parts []string
	for _, t := range l.Ts {
		s := a.renderAtom(t.A)
		if t.Coef != 1 {
			s = fmt.Sprintf("%d*%s", t.Coef, s)
		}
		parts = append(parts, s)
	}
	sort.Strings(parts)
	s := strings.Join(parts, "+")
	if l.C != 0 {
		s += fmt.Sprintf("%+d", l.C)
	}
	return "(" + s + ")"
}

func baseName(b *Base) string {
	d := b.Desc
	d = strings.TrimPrefix(d, "*")
	return d
}

func (a *Analyzer) renderAtom(at *Atom) string {
	switch at.Op {
	case "rd", "rdle":
		if len(at.Args) != 3 {
			return "?"
		}
		br, ok := at.Args[0].(*baseRef)
		if !ok {
			return "?"
		}
		off := a.renderLin(at.Args[1].(Int).L)
		w := at.Args[2].(Int).L.C
		name := baseName(br.B)
		if at.Aux != 0 {
			name += "'" // contents modified since entry
		}
		if br.B.Op != "" && br.B.From != nil {
			name = a.renderSlice(&Slice{Base: br.B, Off: Const(0), Len: br.B.From.Len})
		}
		if at.Op == "rdle" {
			return fmt.Sprintf("u%dle(%s@%s)", w*8, name, off)
		}
		if w == 1 {
			return fmt.Sprintf("u8(%s@%s)", name, off)
		}
		return fmt.Sprintf("u%dbe(%s@%s)", w*8, name, off)
	case "and":
		x, y := at.Args[0].(Int), at.Args[1].(Int)
		if y.L.IsConst() {
			return a.bitField(x.L, 0, y.L.C)
		}
		if x.L.IsConst() {
			return a.bitField(y.L, 0, x.L.C)
		}
		return "and(" + a.renderLin(x.L) + "," + a.renderLin(y.L) + ")"
	case "shr":
		x, y := at.Args[0].(Int), at.Args[1].(Int)
		if y.L.IsConst() {
			return a.bitField(x.L, y.L.C, -1)
		}
		return "shr(" + a.renderLin(x.L) + "," + a.renderLin(y.L) + ")"
	case "conv":
		x := at.Args[0].(Int)
		bits := int64(64)
		if at.HasHi {
			for b := int64(8); b <= 32; b *= 2 {
				if at.Hi == (int64(1)<<uint(b))-1 {
					bits = b
				}
			}
		}
		if bits < 64 {
			return a.bitField(x.L, 0, (int64(1)<<uint(bits))-1)
		}
		return "conv(" + a.renderLin(x.L) + ")"
	case "or", "xor", "shl", "mul", "add", "sub", "andnot":
		var parts []string
		for _, x := range at.Args {
			parts = append(parts, a.Render(x))
		}
		return at.Op + "(" + strings.Join(parts, ",") + ")"
	case "div", "rem":
		if len(at.Args) == 1 {
			return fmt.Sprintf("%s(%s,%d)", at.Op, a.Render(at.Args[0]), at.Aux)
		}
	case "len":
		if n, ok := a.AtomNames[at]; ok {
			return "$" + n
		}
		return "len:" + at.Desc
	}
	if n, ok := a.AtomNames[at]; ok {
		return "$" + n
	}
	return "?"
}

// NameFields gives the current values of the fields reachable from p (a pointer to a struct) symbolic
// names, so that Render describes values computed from them ($Field, bits($Field,15,8), len($Body) …).
// Used for writer-side layout extraction (encoders).
func (a *Analyzer) NameFields(st *State, p Term, pt types.Type, prefix string, depth int) {
	ptr, ok := p.(*Ptr)
	if !ok || depth > 3 {
		return
	}
	pp, ok := pt.Underlying().(*types.Pointer)
	if !ok {
		return
	}
	stt, ok := pp.Elem().Underlying().(*types.Struct)
	if !ok {
		return
	}
	if a.AtomNames == nil {
		a.AtomNames = map[*Atom]string{}
		a.BaseNames = map[*Base]string{}
	}
	for i := 0; i < stt.NumFields(); i++ {
		f := stt.Field(i)
		name := prefix + f.Name()
		if _, isStruct := f.Type().Underlying().(*types.Struct); isStruct {
			fp, fpt := a.FieldPtr(ptr, pt, f.Name())
			if fp != nil {
				pre := name + "."
				if f.Embedded() {
					pre = prefix
				}
				a.NameFields(st, fp, fpt, pre, depth+1)
			}
			continue
		}
		v, ft := a.LoadField(st, ptr, pt, f.Name())
		switch x := v.(type) {
		case Int:
			if at := x.L.SingleAtom(); at != nil && x.L.Coef(at) == 1 && x.L.C == 0 {
				a.AtomNames[at] = name
			}
		case *Slice:
			a.BaseNames[x.Base] = name
			x.Base.Desc = "$" + name
			if at := x.Len.SingleAtom(); at != nil {
				a.AtomNames[at] = "len(" + name + ")"
			}
		case *Ptr:
			x.NilUnk = false
			a.NameFields(st, x, ft, name+".", depth+1)
		}
	}
}

// BitPart is one operand of an OR-composition: Val << Shift.
type BitPart struct {
	Val   Term
	Shift int64
}

// OrParts decomposes t = (v1 << s1) | (v2 << s2) | … (conversions stripped); ok=false if t has another shape.
func OrParts(t Term) ([]BitPart, bool) {
	iv, ok := t.(Int)
	if !ok {
		return nil, false
	}
	if iv.L.IsConst() {
		return []BitPart{{Val: iv, Shift: 0}}, true
	}
	if len(iv.L.Ts) == 1 && iv.L.C == 0 {
		at, coef := iv.L.Ts[0].A, iv.L.Ts[0].Coef
		if coef != 1 {
			// linearised shift: coef must be a power of two
			sh := int64(0)
			for c := coef; c > 1; c >>= 1 {
				if c&1 != 0 {
					return nil, false
				}
				sh++
			}
			if coef < 1 {
				return nil, false
			}
			ps, ok := OrParts(Int{AtomLin(at)})
			if !ok {
				return nil, false
			}
			for i := range ps {
				ps[i].Shift += sh
			}
			return ps, true
		}
		switch at.Op {
		case "or":
			var out []BitPart
			for _, x := range at.Args {
				ps, ok := OrParts(x)
				if !ok {
					return nil, false
				}
				out = append(out, ps...)
			}
			return out, true
		case "shl":
			k, isK := at.Args[1].(Int)
			if !isK || !k.L.IsConst() {
				return nil, false
			}
			ps, ok := OrParts(at.Args[0])
			if !ok {
				return nil, false
			}
			for i := range ps {
				ps[i].Shift += k.L.C
			}
			return ps, true
		case "conv":
			// widening conversions keep the value
			if x, isI := at.Args[0].(Int); isI {
				if xa := x.L.SingleAtom(); xa != nil && xa.HasHi && at.HasHi && xa.Hi <= at.Hi && xa.HasLo && xa.Lo >= 0 {
					return OrParts(x)
				}
			}
		}
		return []BitPart{{Val: iv, Shift: 0}}, true
	}
	return nil, false
}

// bitField renders (x >> shift) & mask as bits(X,hi,lo) when mask is a run of ones.
func (a *Analyzer) bitField(x Lin, shift int64, mask int64) string {
	// collapse nested shift/mask
	inner := x
	if at := x.SingleAtom(); at != nil {
		switch at.Op {
		case "shr":
			if y := at.Args[1].(Int); y.L.IsConst() {
				return a.bitFieldOf(at.Args[0].(Int).L, shift+y.L.C, mask)
			}
		case "and":
			xx, yy := at.Args[0].(Int), at.Args[1].(Int)
			if yy.L.IsConst() && shift == 0 && mask >= 0 {
				return a.bitFieldOf(xx.L, 0, mask&yy.L.C)
			}
			if yy.L.IsConst() && mask < 0 {
				// (x & m) >> s
				return a.bitFieldOf(xx.L, shift, yy.L.C>>uint(shift))
			}
			if yy.L.IsConst() && mask >= 0 {
				return a.bitFieldOf(xx.L, shift, (yy.L.C>>uint(shift))&mask)
			}
		}
	}
	return a.bitFieldOf(inner, shift, mask)
}

func (a *Analyzer) bitFieldOf(x Lin, shift int64, mask int64) string {
	xs := a.renderLin(x)
	if mask < 0 {
		return fmt.Sprintf("bits(%s,top,%d)", xs, shift)
	}
	// mask must be 2^n - 1
	n := int64(0)
	for m := mask; m&1 == 1; m >>= 1 {
		n++
	}
	if mask != (int64(1)<<uint(n))-1 || n == 0 {
		return fmt.Sprintf("and(shr(%s,%d),%d)", xs, shift, mask)
	}
	return fmt.Sprintf("bits(%s,%d,%d)", xs, shift+n-1, shift)
}

func (a *Analyzer) renderSlice(s *Slice) string {
	if s == nil {
		return "?"
	}
	if s.Nil {
		return "nil"
	}
	b := s.Base
	if b.Str != nil {
		return fmt.Sprintf("%q", *b.Str)
	}
	switch {
	case b.Op == "conv" && b.From != nil:
		return "str(" + a.renderSlice(b.From) + ")"
	case b.Op == "clone" && b.From != nil:
		return "clone(" + a.renderSlice(b.From) + ")"
	case strings.HasPrefix(b.Op, "call:") && b.From != nil:
		fn := shortName(strings.TrimPrefix(b.Op, "call:"))
		fn = strings.TrimPrefix(fn, "bytes.")
		fn = strings.TrimPrefix(fn, "strings.")
		fn = strings.TrimPrefix(fn, "utils.")
		return fn + "(" + a.renderSlice(b.From) + ")"
	case b.Op == "append" || b.Op == "appendU":
		return "append(…)"
	case strings.HasPrefix(b.Op, "sprintf:"):
		return "sprintf(" + strings.TrimPrefix(b.Op, "sprintf:") + ")"
	case b.Op != "":
		return b.Op + "(…)"
	}
	if n, ok := a.BaseNames[b]; ok && s.Off.IsConst() && s.Off.C == 0 {
		if at := s.Len.SingleAtom(); at != nil && a.AtomNames[at] == "len("+n+")" {
			return "$" + n
		}
	}
	return fmt.Sprintf("bytes(%s@%s+%s)", baseName(b), a.renderLin(s.Off), a.renderLin(s.Len))
}

// LoopCarried reports whether t contains a value that was generalised at a loop head
// (a location or variable whose content differs between iterations), i.e. depends on what
// an earlier iteration left behind. Returns a description of the first such part.
func LoopCarried(t Term) (string, bool) {
	found := ""
	var walk func(t Term)
	lin := func(l Lin) {
		for _, lt := range l.Ts {
			if strings.HasPrefix(lt.A.Desc, "~") || strings.HasPrefix(lt.A.Desc, "len(~") {
				found = lt.A.Desc
			}
		}
	}
	walk = func(t Term) {
		if found != "" {
			return
		}
		switch v := t.(type) {
		case Int:
			lin(v.L)
		case *Slice:
			if strings.HasPrefix(v.Base.Desc, "~") {
				found = v.Base.Desc
			}
			lin(v.Len)
		case *Unknown:
			if strings.HasPrefix(v.Desc, "~") {
				found = v.Desc
			}
		case *MapT:
			if strings.HasPrefix(v.Obj.Desc, "~") {
				found = v.Obj.Desc
			}
		case *Ptr:
			if v.Obj != nil && strings.HasPrefix(v.Obj.Desc, "*~") {
				found = v.Obj.Desc
			}
		case *Struct:
			for _, f := range v.Fields {
				walk(f)
			}
		case *Tuple:
			for _, f := range v.Elems {
				walk(f)
			}
		case *Iface:
			walk(v.Val)
		}
	}
	walk(t)
	return found, found != ""
}
