package absint

import (
	"fmt"
	"go/ast"
	"go/token"
	"go/types"
	"strings"

	"golang.org/x/tools/go/ssa"
)

// Construct renders a stable, line-independent name of the source construct an
// instruction belongs to: the expression text plus its occurrence index in the function.
func (a *Analyzer) Construct(fn *ssa.Function, ins ssa.Instruction) string {
	pos := ins.Pos()
	switch x := ins.(type) {
	case *ssa.Go:
		pos = x.Call.Pos()
	case *ssa.Defer:
		pos = x.Call.Pos()
	}
	syn := fn.Syntax()
	if syn == nil || !pos.IsValid() {
		return a.fallbackConstruct(ins)
	}
	var match func(n ast.Node) bool
	switch ins.(type) {
	case *ssa.IndexAddr, *ssa.Index, *ssa.Lookup:
		match = func(n ast.Node) bool {
			e, ok := n.(*ast.IndexExpr)
			return ok && e.Lbrack == pos
		}
	case *ssa.Slice:
		match = func(n ast.Node) bool {
			e, ok := n.(*ast.SliceExpr)
			return ok && e.Lbrack == pos
		}
	case *ssa.Call, *ssa.Defer, *ssa.Go:
		match = func(n ast.Node) bool {
			e, ok := n.(*ast.CallExpr)
			return ok && e.Lparen == pos
		}
	case *ssa.BinOp:
		match = func(n ast.Node) bool {
			e, ok := n.(*ast.BinaryExpr)
			return ok && e.OpPos == pos
		}
	case *ssa.SliceToArrayPointer, *ssa.Convert, *ssa.MakeSlice, *ssa.TypeAssert:
		match = func(n ast.Node) bool {
			switch e := n.(type) {
			case *ast.CallExpr:
				return e.Lparen == pos || e.Pos() == pos
			case *ast.TypeAssertExpr:
				return e.Lparen == pos
			}
			return false
		}
	default:
		match = func(n ast.Node) bool {
			switch e := n.(type) {
			case *ast.SelectorExpr:
				return e.Sel.Pos() == pos || e.Pos() == pos
			case *ast.StarExpr:
				return e.Star == pos
			case *ast.Ident:
				return e.Pos() == pos
			case *ast.IndexExpr:
				return e.Lbrack == pos
			case *ast.CallExpr:
				return e.Lparen == pos
			case *ast.UnaryExpr:
				return e.OpPos == pos
			case *ast.AssignStmt:
				return e.TokPos == pos
			case *ast.SendStmt:
				return e.Arrow == pos
			}
			return false
		}
	}
	var found ast.Node
	ast.Inspect(syn, func(n ast.Node) bool {
		if n == nil || found != nil {
			return false
		}
		if n.Pos() > pos || n.End() < pos {
			// outside; still descend only if it can contain pos
			return n.Pos() <= pos && pos <= n.End()
		}
		if match(n) {
			found = n
			// keep looking for a tighter match among children? first match in pre-order is the outermost
		}
		return true
	})
	if found == nil {
		return a.fallbackConstruct(ins)
	}
	text := nodeText(found)
	// occurrence index among same-kind nodes with identical text (source order)
	idx, n := 0, 0
	ast.Inspect(syn, func(m ast.Node) bool {
		if m == nil {
			return false
		}
		if sameKind(m, found) && nodeText(m) == text {
			n++
			if m.Pos() < found.Pos() {
				idx++
			}
		}
		return true
	})
	if n > 1 {
		return fmt.Sprintf("%s#%d", text, idx+1)
	}
	return text
}

func sameKind(x, y ast.Node) bool {
	return fmt.Sprintf("%T", x) == fmt.Sprintf("%T", y)
}

func nodeText(n ast.Node) string {
	switch e := n.(type) {
	case ast.Expr:
		s := types.ExprString(e)
		if len(s) > 90 {
			s = s[:90] + "…"
		}
		return s
	case *ast.AssignStmt:
		var l []string
		for _, x := range e.Lhs {
			l = append(l, types.ExprString(x))
		}
		return strings.Join(l, ",") + " " + e.Tok.String() + " …"
	case *ast.SendStmt:
		return types.ExprString(e.Chan) + " <- " + types.ExprString(e.Value)
	}
	return fmt.Sprintf("%T", n)
}

func (a *Analyzer) fallbackConstruct(ins ssa.Instruction) string {
	switch x := ins.(type) {
	case *ssa.Call:
		if c := x.Call.StaticCallee(); c != nil {
			return "call " + shortFn(c)
		}
		if x.Call.IsInvoke() {
			return "invoke " + x.Call.Method.Name()
		}
	case *ssa.FieldAddr:
		st := x.X.Type().Underlying().(*types.Pointer).Elem().Underlying().(*types.Struct)
		return "field ." + st.Field(x.Field).Name()
	case *ssa.UnOp:
		if x.Op == token.MUL {
			return "load " + x.X.Type().String()
		}
	}
	return fmt.Sprintf("%T", ins)
}

// Key is rule / function / construct [/ sub].
func (a *Analyzer) Key(o *Obl) string {
	k := shortFn(o.Fn) + " / " + a.Construct(o.Fn, o.Instr)
	if o.Sub != "" {
		k += " / " + o.Sub
	}
	return k
}
