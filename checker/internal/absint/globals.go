package absint

import (
	"fmt"
	"go/types"
	"os"

	"golang.org/x/tools/go/ssa"
)

// Package-level variables that the repository never writes after initialisation (no store through them, their address
// never handed out) are constants of the program: tables of lengths, masks, markers. Their initial values are taken
// from the package initialiser, interpreted once per analyzer, so that code driven by such a table is as decidable
// as code with the numbers written in place.

// globalImmutable: g is only ever read outside its package initialiser.
func (a *Analyzer) globalImmutable(g *ssa.Global) bool {
	if v, ok := a.globImm[g]; ok {
		return v
	}
	if a.globImm == nil {
		a.globImm = map[*ssa.Global]bool{}
	}
	imm := true
	if g.Pkg == nil || !a.P.IsRepoPkg(g.Pkg) {
		imm = false
	}
	refs := g.Referrers()
	_ = refs
	if imm {
		var check func(fn *ssa.Function)
		seen := map[*ssa.Function]bool{}
		// addrOnlyRead: every use of address value v (g itself or a field/element address derived from it) is a load
		// or a further address computation that is itself only read
		var addrOnlyRead func(v ssa.Value, depth int) bool
		addrOnlyRead = func(v ssa.Value, depth int) bool {
			if depth > 6 {
				return false
			}
			rs := v.Referrers()
			if rs == nil {
				return true
			}
			for _, r := range *rs {
				switch x := r.(type) {
				case *ssa.UnOp: // load
					// a loaded pointer / slice / map value could be written through; only scalar-like and aggregate
					// reads are accepted, and loaded reference values are followed one level for stores
					if !refOnlyRead(x, 0) {
						return false
					}
				case *ssa.FieldAddr:
					if x.X != v || !addrOnlyRead(x, depth+1) {
						return false
					}
				case *ssa.IndexAddr:
					if x.X != v || !addrOnlyRead(x, depth+1) {
						return false
					}
				case *ssa.DebugRef:
				default:
					return false
				}
			}
			return true
		}
		check = func(fn *ssa.Function) {
			if fn == nil || seen[fn] || !imm {
				return
			}
			seen[fn] = true
			isInit := fn.Pkg == g.Pkg && fn.Name() == "init" && fn.Synthetic != ""
			for _, b := range fn.Blocks {
				for _, ins := range b.Instrs {
					var ops []*ssa.Value
					for _, op := range ins.Operands(ops) {
						if *op != ssa.Value(g) {
							continue
						}
						if isInit {
							continue
						}
						switch x := ins.(type) {
						case *ssa.UnOp:
							if !refOnlyRead(x, 0) {
								imm = false
							}
						case *ssa.FieldAddr:
							if !addrOnlyRead(x, 0) {
								imm = false
							}
						case *ssa.IndexAddr:
							if !addrOnlyRead(x, 0) {
								imm = false
							}
						case *ssa.DebugRef:
						default:
							imm = false
						}
					}
				}
			}
			for _, an := range fn.AnonFuncs {
				check(an)
			}
		}
		for _, fn := range a.P.AllRepoFuncs() {
			check(fn)
		}
	}
	a.globImm[g] = imm
	return imm
}

// refOnlyRead: the value loaded by ld is not used to write through (no store / map update / append target / call
// argument when it is a pointer, slice or map).
func refOnlyRead(ld *ssa.UnOp, depth int) bool {
	if !isRefType(ld.Type()) {
		return true
	}
	if depth > 3 || ld.Referrers() == nil {
		return false
	}
	for _, r := range *ld.Referrers() {
		switch x := r.(type) {
		case *ssa.Lookup, *ssa.Range, *ssa.DebugRef, *ssa.Index:
		case *ssa.IndexAddr:
			// element address of a loaded slice: reads only
			if x.Referrers() != nil {
				for _, r2 := range *x.Referrers() {
					if u, isU := r2.(*ssa.UnOp); !isU || isRefType(u.Type()) {
						if _, isDbg := r2.(*ssa.DebugRef); !isDbg {
							return false
						}
					}
				}
			}
		case *ssa.Call:
			if b, isB := x.Call.Value.(*ssa.Builtin); !isB || (b.Name() != "len" && b.Name() != "cap") {
				return false
			}
		default:
			return false
		}
	}
	return true
}

// globalInitValue: the value package initialisation stores at loc of an immutable global (ok=false: unknown).
func (a *Analyzer) globalInitValue(g *ssa.Global, loc Loc) (Term, bool) {
	if !a.globalImmutable(g) {
		if debugGlobals {
			fmt.Printf("GLOBAL %s not immutable\n", g.Name())
		}
		return nil, false
	}
	if a.globInit == nil {
		a.globInit = map[*ssa.Package]map[Loc]Term{}
	}
	heap, done := a.globInit[g.Pkg]
	if !done {
		heap = map[Loc]Term{}
		a.globInit[g.Pkg] = heap // set first: loads during the run below must not recurse
		if init := g.Pkg.Func("init"); init != nil && len(init.Blocks) > 0 && !a.inGlobInit {
			a.inGlobInit = true
			// a private run of the initialiser: its obligations and diagnostics are discarded
			savedSinks, savedUnd, savedStack, savedSteps, savedEntry, savedRoots := a.sinks, a.Undecided, a.stack, a.steps, a.entryFn, a.rootStack
			savedHooks := [...]interface{}{a.OnCall, a.OnStore, a.OnBranch, a.OnRet, a.OnExternal, a.OnExternalResult, a.OnAppend, a.OnMapUpdate, a.OnInlined, a.OnWrite, a.OnAppendUint}
			a.OnCall, a.OnStore, a.OnBranch, a.OnRet, a.OnExternal, a.OnExternalResult, a.OnAppend, a.OnMapUpdate, a.OnInlined, a.OnWrite, a.OnAppendUint = nil, nil, nil, nil, nil, nil, nil, nil, nil, nil, nil
			savedExtra := a.ExtraRoots
			for _, m := range g.Pkg.Members {
				if gg, isG := m.(*ssa.Global); isG {
					a.ExtraRoots = append(a.ExtraRoots, &Ptr{Obj: a.globalObj(gg)}) // keep what is stored into globals alive
				}
			}
			defer func() { a.ExtraRoots = savedExtra }()
			func() {
				defer func() { _ = recover() }()
				st := NewState()
				_, rets := a.RunEntry(init, st, nil, nil)
				// the initialiser has an "already initialised" exit (guard variable) besides the real one: a location
				// keeps a value when every exit that wrote it agrees
				conflict := map[Loc]bool{}
				for _, r := range rets {
					for l, v := range r.st.Heap {
						if old, had := heap[l]; had && old.TKey() != v.TKey() {
							conflict[l] = true
						}
						heap[l] = v
					}
				}
				for l := range conflict {
					delete(heap, l)
				}
			}()
			a.OnCall, _ = savedHooks[0].(func(a *Analyzer, st *State, site ssa.CallInstruction, callee *ssa.Function, args []Term))
			a.OnStore, _ = savedHooks[1].(func(fn *ssa.Function, ins *ssa.Store, st *State, old, val Term))
			a.OnBranch, _ = savedHooks[2].(func(fn *ssa.Function, iff *ssa.If, taken bool, st *State))
			a.OnRet, _ = savedHooks[3].(func(fn *ssa.Function, ret *ssa.Return, st *State, val Term))
			a.OnExternal, _ = savedHooks[4].(func(fn *ssa.Function, site ssa.Instruction, name string, st *State, args []Term))
			a.OnExternalResult, _ = savedHooks[5].(func(fn *ssa.Function, site ssa.Instruction, name string, st *State, args []Term, val Term))
			a.OnAppend, _ = savedHooks[6].(func(fn *ssa.Function, site ssa.Instruction, st *State, dst *Slice, src Term))
			a.OnMapUpdate, _ = savedHooks[7].(func(fn *ssa.Function, ins *ssa.MapUpdate, st *State, m, k, v Term))
			a.OnInlined, _ = savedHooks[8].(func(fn *ssa.Function, args []Term, val Term, st *State))
			a.OnWrite, _ = savedHooks[9].(func(st *State, dst *Slice, width int64, val Term))
			a.OnAppendUint, _ = savedHooks[10].(func(fn *ssa.Function, site ssa.Instruction, st *State, dst *Slice, width int64, val Term, littleEndian bool))
			a.sinks, a.Undecided, a.stack, a.steps, a.entryFn, a.rootStack = savedSinks, savedUnd, savedStack, savedSteps, savedEntry, savedRoots
			a.inGlobInit = false
		}
	}
	v, ok := heap[loc]
	if debugGlobals {
		fmt.Printf("GLOBAL %s loc=%v found=%v heap=%d imm=%v\n", g.Name(), loc, ok, len(heap), a.globImm[g])
	}
	if !ok {
		return nil, false
	}
	// only plain integer constants are propagated (lengths, masks, markers)
	if iv, isI := v.(Int); isI && iv.L.IsConst() {
		return iv, true
	}
	return nil, false
}

func isRefType(t types.Type) bool {
	switch t.Underlying().(type) {
	case *types.Pointer, *types.Slice, *types.Map, *types.Chan, *types.Signature, *types.Interface:
		return true
	}
	return false
}

var debugGlobals = os.Getenv("JTVERIF_DEBUGGLOBALS") != ""
