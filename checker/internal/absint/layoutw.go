package absint

import (
	"fmt"
	"sort"
)

// Seg describes a run of bytes of an encoder's output: Len bytes at offset Off hold Desc.
type Seg struct {
	Off  Lin
	Len  Lin
	Desc string
}

func (s Seg) String() string { return fmt.Sprintf("@%s+%s:%s", s.Off.String(), s.Len.String(), s.Desc) }

// ByteLayout reconstructs what the bytes of s hold, from the provenance of its buffer (appends,
// conversions, helper calls) and the writes logged along the path of st (Analyzer.LogWrites).
// ok=false when some part of the buffer has no description (loop-generalised buffers, unknown calls).
func (a *Analyzer) ByteLayout(st *State, s *Slice) ([]Seg, bool) {
	segs, ok := a.content(st, s, 0)
	sort.SliceStable(segs, func(i, j int) bool {
		d := segs[i].Off.Sub(segs[j].Off)
		if d.IsConst() {
			return d.C < 0
		}
		return segs[i].Off.Key() < segs[j].Off.Key()
	})
	return segs, ok
}

func intDesc(a *Analyzer, width int64, le bool, v Term) string {
	e := "be"
	if le {
		e = "le"
	}
	if width == 1 {
		return "u8(" + a.Render(v) + ")"
	}
	return fmt.Sprintf("u%d%s(%s)", width*8, e, a.Render(v))
}

func (a *Analyzer) content(st *State, s *Slice, depth int) ([]Seg, bool) {
	if s == nil || depth > 24 {
		return nil, false
	}
	if s.Nil || (s.Len.IsConst() && s.Len.C == 0) {
		return nil, true
	}
	b := s.Base
	window := func(segs []Seg) []Seg {
		// shift to the slice's own origin
		var out []Seg
		for _, g := range segs {
			out = append(out, Seg{g.Off.Sub(s.Off), g.Len, g.Desc})
		}
		return out
	}
	if _, named := a.BaseNames[b]; named {
		return []Seg{{Const(0), s.Len, a.renderSlice(s)}}, true
	}
	if b.Str != nil {
		return []Seg{{Const(0), s.Len, fmt.Sprintf("%q", *b.Str)}}, true
	}
	switch {
	case b.Op == "append" && b.From != nil:
		fs, ok1 := a.content(st, b.From, depth+1)
		var gs []Seg
		ok2 := true
		if b.From2 != nil {
			gs, ok2 = a.content(st, b.From2, depth+1)
		} else {
			ok2 = false
		}
		out := append([]Seg{}, fs...)
		for _, g := range gs {
			out = append(out, Seg{g.Off.Add(b.From.Len), g.Len, g.Desc})
		}
		return window(out), ok1 && ok2
	case b.Op == "appendU" && b.From != nil:
		fs, ok1 := a.content(st, b.From, depth+1)
		out := append([]Seg{}, fs...)
		out = append(out, Seg{b.From.Len, Const(b.Aux), intDesc(a, b.Aux, false, b.Val)})
		return window(out), ok1 && b.Val != nil
	case b.Op == "clone" && b.From != nil:
		return a.content(st, b.From, depth+1)
	case b.Op == "conv" && b.From != nil:
		// []byte(string) / string([]byte): same bytes
		inner, ok := a.content(st, b.From, depth+1)
		if ok && len(inner) == 1 {
			return []Seg{{Const(0), s.Len, inner[0].Desc}}, true
		}
		return []Seg{{Const(0), s.Len, a.renderSlice(s)}}, true
	case len(b.Op) > 5 && b.Op[:5] == "call:":
		return []Seg{{Const(0), s.Len, a.renderSlice(s)}}, true
	case b.Op != "":
		return []Seg{{Const(0), s.Len, "?" + b.Op}}, false
	}
	logged := false
	for _, w := range st.Log {
		if w.Base == b {
			logged = true
		}
	}
	if len(b.Elems) > 0 && !logged {
		var out []Seg
		ok := true
		for i, e := range b.Elems {
			if e == nil {
				ok = false
				continue
			}
			out = append(out, Seg{Const(int64(i)), Const(1), intDesc(a, 1, false, e)})
		}
		return window(out), ok
	}
	if !b.Fresh || (len(b.Desc) > 1 && b.Desc[:2] == "φ") || (len(b.Desc) > 0 && b.Desc[0] == '~') {
		// foreign memory, or a buffer generalised at a loop head: content not described
		return []Seg{{Const(0), s.Len, "?" + b.Desc}}, false
	}
	// a buffer made here: the writes logged on this path, later writes shadowing earlier ones at the same offset
	var out []Seg
	ok := true
	seen := map[string]int{}
	for _, w := range st.Log {
		if w.Base != b {
			continue
		}
		if w.Width > 0 {
			g := Seg{w.Off, Const(w.Width), intDesc(a, w.Width, w.LE, w.Val)}
			if i, dup := seen[w.Off.Key()]; dup {
				out[i] = g
			} else {
				seen[w.Off.Key()] = len(out)
				out = append(out, g)
			}
			continue
		}
		inner, iok := a.content(st, w.Src, depth+1)
		if !iok {
			ok = false
		}
		for _, g := range inner {
			// only the copied prefix
			out = append(out, Seg{g.Off.Add(w.Off), g.Len, g.Desc})
		}
	}
	return window(out), ok
}

// ReadAtom decomposes an atom produced by reading a buffer: u{8w}(base@off).
func ReadAtom(at *Atom) (base *Base, off Lin, width int64, le bool, ok bool) {
	if at == nil || (at.Op != "rd" && at.Op != "rdle") || len(at.Args) != 3 {
		return nil, Lin{}, 0, false, false
	}
	br, ok1 := at.Args[0].(*baseRef)
	o, ok2 := at.Args[1].(Int)
	w, ok3 := at.Args[2].(Int)
	if !ok1 || !ok2 || !ok3 {
		return nil, Lin{}, 0, false, false
	}
	return br.B, o.L, w.L.C, at.Op == "rdle", true
}
