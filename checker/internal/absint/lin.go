package absint

import (
	"fmt"
	"math"
	"sort"
	"strconv"
	"strings"
)

// Lin is an integer linear expression  c + Σ coef_i·atom_i  (terms sorted by atom id).
type Lin struct {
	C  int64
	Ts []LinTerm
}

type LinTerm struct {
	A    *Atom
	Coef int64
}

func Const(c int64) Lin { return Lin{C: c} }

func AtomLin(a *Atom) Lin { return Lin{Ts: []LinTerm{{a, 1}}} }

func (l Lin) IsConst() bool { return len(l.Ts) == 0 }

// SingleAtom returns the atom if l == 1*a + 0.
func (l Lin) SingleAtom() *Atom {
	if l.C == 0 && len(l.Ts) == 1 && l.Ts[0].Coef == 1 {
		return l.Ts[0].A
	}
	return nil
}

var errOverflow = fmt.Errorf("overflow")

func mulOK(a, b int64) (int64, bool) {
	if a == 0 || b == 0 {
		return 0, true
	}
	c := a * b
	if c/b != a || (a == -1 && b == math.MinInt64) || (b == -1 && a == math.MinInt64) {
		return 0, false
	}
	return c, true
}

func addOK(a, b int64) (int64, bool) {
	c := a + b
	if (c > a) == (b > 0) {
		return c, true
	}
	if b == 0 {
		return c, true
	}
	return 0, false
}

// Add returns l + k*m.  ok=false on overflow.
func (l Lin) AddMul(m Lin, k int64) (Lin, bool) {
	out := Lin{}
	kc, ok := mulOK(m.C, k)
	if !ok {
		return out, false
	}
	out.C, ok = addOK(l.C, kc)
	if !ok {
		return out, false
	}
	i, j := 0, 0
	for i < len(l.Ts) || j < len(m.Ts) {
		switch {
		case j >= len(m.Ts) || (i < len(l.Ts) && l.Ts[i].A.ID < m.Ts[j].A.ID):
			out.Ts = append(out.Ts, l.Ts[i])
			i++
		case i >= len(l.Ts) || m.Ts[j].A.ID < l.Ts[i].A.ID:
			c, ok := mulOK(m.Ts[j].Coef, k)
			if !ok {
				return out, false
			}
			if c != 0 {
				out.Ts = append(out.Ts, LinTerm{m.Ts[j].A, c})
			}
			j++
		default:
			c, ok := mulOK(m.Ts[j].Coef, k)
			if !ok {
				return out, false
			}
			c, ok = addOK(l.Ts[i].Coef, c)
			if !ok {
				return out, false
			}
			if c != 0 {
				out.Ts = append(out.Ts, LinTerm{l.Ts[i].A, c})
			}
			i++
			j++
		}
	}
	return out, true
}

func (l Lin) Add(m Lin) Lin {
	r, ok := l.AddMul(m, 1)
	if !ok {
		panic(errOverflow)
	}
	return r
}

func (l Lin) Sub(m Lin) Lin {
	r, ok := l.AddMul(m, -1)
	if !ok {
		panic(errOverflow)
	}
	return r
}

func (l Lin) Scale(k int64) Lin {
	r, ok := (Lin{}).AddMul(l, k)
	if !ok {
		panic(errOverflow)
	}
	return r
}

func (l Lin) AddC(c int64) Lin {
	r := Lin{C: l.C + c, Ts: l.Ts}
	return r
}

func (l Lin) Coef(a *Atom) int64 {
	for _, t := range l.Ts {
		if t.A == a {
			return t.Coef
		}
	}
	return 0
}

func (l Lin) Key() string {
	buf := make([]byte, 0, 8+12*len(l.Ts))
	buf = strconv.AppendInt(buf, l.C, 10)
	for _, t := range l.Ts {
		buf = append(buf, ' ')
		buf = strconv.AppendInt(buf, t.Coef, 10)
		buf = append(buf, '*')
		buf = strconv.AppendInt(buf, int64(t.A.ID), 10)
	}
	return string(buf)
}

// String renders with atom descriptions (diagnostics).
func (l Lin) String() string {
	if len(l.Ts) == 0 {
		return fmt.Sprintf("%d", l.C)
	}
	var b strings.Builder
	for i, t := range l.Ts {
		switch {
		case t.Coef == 1:
			if i > 0 {
				b.WriteString("+")
			}
		case t.Coef == -1:
			b.WriteString("-")
		default:
			if i > 0 && t.Coef > 0 {
				b.WriteString("+")
			}
			fmt.Fprintf(&b, "%d*", t.Coef)
		}
		b.WriteString(t.A.String())
	}
	if l.C > 0 {
		fmt.Fprintf(&b, "+%d", l.C)
	} else if l.C < 0 {
		fmt.Fprintf(&b, "%d", l.C)
	}
	return b.String()
}

func (l Lin) Equal(m Lin) bool {
	if l.C != m.C || len(l.Ts) != len(m.Ts) {
		return false
	}
	for i := range l.Ts {
		if l.Ts[i] != m.Ts[i] {
			return false
		}
	}
	return true
}

// Rel of a constraint: L >= 0, L == 0, L != 0.
type Rel uint8

const (
	GE Rel = iota
	EQ
	NE
)

type Con struct {
	L   Lin
	Rel Rel
}

func (c Con) Key() string {
	return [...]string{">=", "==", "!="}[c.Rel] + c.L.Key()
}

func (c Con) String() string {
	return c.L.String() + [...]string{" >= 0", " == 0", " != 0"}[c.Rel]
}

func gcd(a, b int64) int64 {
	if a < 0 {
		a = -a
	}
	if b < 0 {
		b = -b
	}
	for b != 0 {
		a, b = b, a%b
	}
	return a
}

func floorDiv(a, b int64) int64 { // b > 0
	q := a / b
	if a%b != 0 && a < 0 {
		q--
	}
	return q
}

// normGE divides by the gcd of the coefficients and tightens the constant (integers).
func normGE(l Lin) Lin {
	if len(l.Ts) == 0 {
		return l
	}
	g := int64(0)
	for _, t := range l.Ts {
		g = gcd(g, t.Coef)
	}
	if g <= 1 {
		return l
	}
	out := Lin{C: floorDiv(l.C, g), Ts: make([]LinTerm, len(l.Ts))}
	for i, t := range l.Ts {
		out.Ts[i] = LinTerm{t.A, t.Coef / g}
	}
	return out
}

const fmCap = 4000

// unsatGE decides whether the conjunction of ges (each >= 0) and eqs (each == 0) has no
// rational solution (after integer tightening). false means "satisfiable or unknown".
func unsat(ges []Lin, eqs []Lin) bool {
	defer func() { recover() }() // overflow → unknown → false via zero value
	return unsatInner(ges, eqs)
}

func unsatInner(ges []Lin, eqs []Lin) (res bool) {
	eqs = append([]Lin(nil), eqs...)
	// l >= 0 together with -l >= 0 is the equality l == 0: substituting equalities first keeps
	// divisibility information (i == 2k) that pairwise elimination over the rationals loses
	{
		byKey := map[string]int{}
		for i, l := range ges {
			byKey[l.Key()] = i
		}
		used := make([]bool, len(ges))
		var rest []Lin
		for i, l := range ges {
			if used[i] || len(l.Ts) == 0 {
				continue
			}
			if j, ok := byKey[l.Scale(-1).Key()]; ok && j != i && !used[j] {
				used[i], used[j] = true, true
				eqs = append(eqs, l)
			}
		}
		for i, l := range ges {
			if !used[i] {
				rest = append(rest, l)
			}
		}
		ges = rest
	}
	// Gaussian elimination of equalities.
	for len(eqs) > 0 {
		e := eqs[len(eqs)-1]
		eqs = eqs[:len(eqs)-1]
		if len(e.Ts) == 0 {
			if e.C != 0 {
				return true
			}
			continue
		}
		// integer feasibility: gcd of coefficients must divide constant
		g := int64(0)
		for _, t := range e.Ts {
			g = gcd(g, t.Coef)
		}
		if e.C%g != 0 {
			return true
		}
		// choose atom with smallest |coef|
		best := 0
		for i, t := range e.Ts {
			if abs64(t.Coef) < abs64(e.Ts[best].Coef) {
				best = i
			}
		}
		x, a := e.Ts[best].A, e.Ts[best].Coef
		sub := func(l Lin) Lin {
			b := l.Coef(x)
			if b == 0 {
				return l
			}
			// |a|*l - sign(a)*b*e
			s := int64(1)
			if a < 0 {
				s = -1
			}
			r, ok := l.Scale(abs64(a)).AddMul(e, -s*b)
			if !ok {
				panic(errOverflow)
			}
			return r
		}
		for i := range ges {
			ges[i] = sub(ges[i])
		}
		for i := range eqs {
			eqs[i] = sub(eqs[i])
		}
	}
	// Fourier–Motzkin on inequalities.
	cur := map[string]Lin{}
	add := func(m map[string]Lin, l Lin) bool { // returns false if constant-false
		l = normGE(l)
		if len(l.Ts) == 0 {
			return l.C >= 0
		}
		k := coefKey(l)
		if old, ok := m[k]; ok {
			if old.C <= l.C {
				return true
			}
		}
		m[k] = l
		return true
	}
	for _, l := range ges {
		if !add(cur, l) {
			return true
		}
	}
	for {
		if len(cur) == 0 {
			return false
		}
		// count occurrences
		type pn struct{ p, n int }
		occ := map[*Atom]*pn{}
		for _, l := range cur {
			for _, t := range l.Ts {
				o := occ[t.A]
				if o == nil {
					o = &pn{}
					occ[t.A] = o
				}
				if t.Coef > 0 {
					o.p++
				} else {
					o.n++
				}
			}
		}
		if len(occ) == 0 {
			return false
		}
		var x *Atom
		bestCost := math.MaxInt64
		for a, o := range occ {
			cost := o.p*o.n - o.p - o.n
			if cost < bestCost || (cost == bestCost && a.ID < x.ID) {
				bestCost, x = cost, a
			}
		}
		next := map[string]Lin{}
		var pos, neg []Lin
		for _, l := range cur {
			c := l.Coef(x)
			switch {
			case c > 0:
				pos = append(pos, l)
			case c < 0:
				neg = append(neg, l)
			default:
				next[coefKey(l)] = l
			}
		}
		if len(next)+len(pos)*len(neg) > fmCap {
			return false
		}
		for _, p := range pos {
			cp := p.Coef(x)
			for _, n := range neg {
				cn := -n.Coef(x)
				// cn*p + cp*n eliminates x
				r, ok := p.Scale(cn).AddMul(n, cp)
				if !ok {
					panic(errOverflow)
				}
				if !add(next, r) {
					return true
				}
			}
		}
		cur = next
	}
}

func abs64(a int64) int64 {
	if a < 0 {
		return -a
	}
	return a
}

func coefKey(l Lin) string {
	buf := make([]byte, 0, 12*len(l.Ts))
	for _, t := range l.Ts {
		buf = strconv.AppendInt(buf, t.Coef, 10)
		buf = append(buf, '*')
		buf = strconv.AppendInt(buf, int64(t.A.ID), 10)
		buf = append(buf, ' ')
	}
	return string(buf)
}

// ConSet is a conjunction of constraints.
type ConSet struct {
	GEs []Lin
	EQs []Lin
	NEs []Lin
	key map[string]bool
}

func (s *ConSet) clone() *ConSet {
	n := &ConSet{GEs: append([]Lin(nil), s.GEs...), EQs: append([]Lin(nil), s.EQs...), NEs: append([]Lin(nil), s.NEs...), key: make(map[string]bool, len(s.key))}
	for k := range s.key {
		n.key[k] = true
	}
	return n
}

func newConSet() *ConSet { return &ConSet{key: map[string]bool{}} }

func (s *ConSet) Add(c Con) {
	if c.Rel == GE {
		c.L = normGE(c.L)
		if len(c.L.Ts) == 0 && c.L.C >= 0 {
			return
		}
	}
	if c.Rel == NE {
		c.L = canonSign(c.L)
	}
	k := c.Key()
	if s.key[k] {
		return
	}
	s.key[k] = true
	switch c.Rel {
	case GE:
		s.GEs = append(s.GEs, c.L)
	case EQ:
		s.EQs = append(s.EQs, c.L)
	case NE:
		s.NEs = append(s.NEs, c.L)
	}
}

func canonSign(l Lin) Lin {
	if len(l.Ts) > 0 && l.Ts[0].Coef < 0 {
		return l.Scale(-1)
	}
	return l
}

func (s *ConSet) All() []Con {
	var out []Con
	for _, l := range s.GEs {
		out = append(out, Con{l, GE})
	}
	for _, l := range s.EQs {
		out = append(out, Con{l, EQ})
	}
	for _, l := range s.NEs {
		out = append(out, Con{l, NE})
	}
	return out
}

// cone returns the GE/EQ constraints transitively sharing atoms with the seed atoms, plus
// the type-range bounds of every atom in the cone.
func (s *ConSet) cone(seed []Lin) (ges, eqs []Lin) {
	nG := len(s.GEs)
	idx := make(map[*Atom][]int32, 16)
	for i, l := range s.GEs {
		for _, t := range l.Ts {
			idx[t.A] = append(idx[t.A], int32(i))
		}
	}
	for i, l := range s.EQs {
		for _, t := range l.Ts {
			idx[t.A] = append(idx[t.A], int32(nG+i))
		}
	}
	in := map[*Atom]bool{}
	var work []*Atom
	push := func(l Lin) {
		for _, t := range l.Ts {
			if !in[t.A] {
				in[t.A] = true
				work = append(work, t.A)
			}
		}
	}
	for _, l := range seed {
		push(l)
	}
	used := make([]bool, nG+len(s.EQs))
	for len(work) > 0 {
		a := work[len(work)-1]
		work = work[:len(work)-1]
		for _, ci := range idx[a] {
			if used[ci] {
				continue
			}
			used[ci] = true
			if int(ci) < nG {
				ges = append(ges, s.GEs[ci])
				push(s.GEs[ci])
			} else {
				eqs = append(eqs, s.EQs[int(ci)-nG])
				push(s.EQs[int(ci)-nG])
			}
		}
	}
	atoms := make([]*Atom, 0, len(in))
	for a := range in {
		atoms = append(atoms, a)
	}
	sort.Slice(atoms, func(i, j int) bool { return atoms[i].ID < atoms[j].ID })
	for _, a := range atoms {
		if a.HasLo {
			ges = append(ges, AtomLin(a).AddC(-a.Lo))
		}
		if a.HasHi {
			ges = append(ges, AtomLin(a).Scale(-1).AddC(a.Hi))
		}
	}
	return
}

// EntailsGE: does s imply g >= 0 ?
func (s *ConSet) EntailsGE(g Lin) bool {
	if len(g.Ts) == 0 {
		return g.C >= 0
	}
	neg := g.Scale(-1).AddC(-1) // -g-1 >= 0  <=> g <= -1
	ges, eqs := s.cone([]Lin{g})
	return unsat(append(ges, neg), eqs)
}

func (s *ConSet) EntailsEQ(g Lin) bool {
	if len(g.Ts) == 0 {
		return g.C == 0
	}
	return s.EntailsGE(g) && s.EntailsGE(g.Scale(-1))
}

// EntailsNE: g != 0 follows (syntactic NE fact, or g>=1, or g<=-1).
func (s *ConSet) EntailsNE(g Lin) bool {
	if len(g.Ts) == 0 {
		return g.C != 0
	}
	if s.key[Con{canonSign(g), NE}.Key()] {
		return true
	}
	return s.EntailsGE(g.AddC(-1)) || s.EntailsGE(g.Scale(-1).AddC(-1))
}

func (s *ConSet) Entails(c Con) bool {
	switch c.Rel {
	case GE:
		return s.EntailsGE(c.L)
	case EQ:
		return s.EntailsEQ(c.L)
	default:
		return s.EntailsNE(c.L)
	}
}

// Unsat: is the whole set (restricted to the cone of c's atoms, with c added) infeasible?
func (s *ConSet) InfeasibleWith(c Con) bool {
	switch c.Rel {
	case GE:
		// s ∧ c>=0 unsat  <=>  s entails c <= -1
		return s.EntailsGE(c.L.Scale(-1).AddC(-1))
	case EQ:
		if s.EntailsNE(c.L) {
			return true
		}
		return false
	default:
		return s.EntailsEQ(c.L)
	}
}

// Bounds tries to find constant bounds of l under s (only by entailment probes on given candidates).
func (s *ConSet) UpperBoundLE(l Lin, c int64) bool { // l <= c ?
	return s.EntailsGE(l.Scale(-1).AddC(c))
}
func (s *ConSet) LowerBoundGE(l Lin, c int64) bool { // l >= c ?
	return s.EntailsGE(l.AddC(-c))
}

// Project eliminates every atom for which drop(atom) is true and returns the resulting
// GE constraints (EQs are split). Used for loop-invariant candidate generation.
func (s *ConSet) Project(seed []Lin, drop func(*Atom) bool) (out []Lin) {
	defer func() {
		if recover() != nil {
			out = nil
		}
	}()
	ges, eqs := s.cone(seed)
	for _, e := range eqs {
		ges = append(ges, e, e.Scale(-1))
	}
	cur := map[string]Lin{}
	add := func(m map[string]Lin, l Lin) {
		l = normGE(l)
		if len(l.Ts) == 0 {
			return
		}
		k := coefKey(l)
		if old, ok := m[k]; ok && old.C <= l.C {
			return
		}
		m[k] = l
	}
	for _, l := range ges {
		add(cur, l)
	}
	for {
		occ := map[*Atom][2]int{}
		for _, l := range cur {
			for _, t := range l.Ts {
				if drop(t.A) {
					o := occ[t.A]
					if t.Coef > 0 {
						o[0]++
					} else {
						o[1]++
					}
					occ[t.A] = o
				}
			}
		}
		if len(occ) == 0 {
			break
		}
		var x *Atom
		best := math.MaxInt64
		for a, o := range occ {
			cost := o[0]*o[1] - o[0] - o[1]
			if cost < best || (cost == best && a.ID < x.ID) {
				best, x = cost, a
			}
		}
		next := map[string]Lin{}
		var pos, neg []Lin
		for _, l := range cur {
			c := l.Coef(x)
			switch {
			case c > 0:
				pos = append(pos, l)
			case c < 0:
				neg = append(neg, l)
			default:
				next[coefKey(l)] = l
			}
		}
		if len(next)+len(pos)*len(neg) > 600 {
			// too big: drop all constraints mentioning x (sound weakening)
			cur = next
			continue
		}
		for _, p := range pos {
			cp := p.Coef(x)
			for _, n := range neg {
				cn := -n.Coef(x)
				r, ok := p.Scale(cn).AddMul(n, cp)
				if !ok {
					continue
				}
				add(next, r)
			}
		}
		cur = next
	}
	keys := make([]string, 0, len(cur))
	for k := range cur {
		keys = append(keys, k)
	}
	sort.Strings(keys)
	for _, k := range keys {
		out = append(out, cur[k])
	}
	return out
}

// projectAll eliminates the atoms selected by drop from all GE constraints of s.
func (s *ConSet) projectAll(drop func(*Atom) bool) []Lin {
	var seed []Lin
	seed = append(seed, s.GEs...)
	return s.Project(seed, drop)
}

func (s *ConSet) String() string {
	var parts []string
	for _, c := range s.All() {
		parts = append(parts, c.String())
	}
	return strings.Join(parts, " ∧ ")
}

// Relevant renders only the constraints in the cone of the given expressions (diagnostics).
func (s *ConSet) Relevant(seed ...Lin) string {
	ges, eqs := s.cone(seed)
	var parts []string
	for _, e := range eqs {
		parts = append(parts, e.String()+" == 0")
	}
	n := 0
	for _, g := range ges {
		if len(g.Ts) == 1 && (g.Ts[0].A.HasLo || g.Ts[0].A.HasHi) {
			// likely a type bound; keep output short
			if (g.Ts[0].Coef == 1 && g.Ts[0].A.HasLo && g.C == -g.Ts[0].A.Lo) || (g.Ts[0].Coef == -1 && g.Ts[0].A.HasHi && g.C == g.Ts[0].A.Hi) {
				continue
			}
		}
		parts = append(parts, g.String()+" >= 0")
		n++
		if n > 40 {
			parts = append(parts, "…")
			break
		}
	}
	return strings.Join(parts, " ∧ ")
}
