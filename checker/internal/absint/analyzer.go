// Package absint is engine E1: a forward abstract interpreter over go/ssa with a
// disjunctive linear-constraint domain, context-sensitive inlining and Houdini-style
// loop invariants. It never runs the analysed code and never enumerates inputs.
package absint

import (
	"fmt"
	"go/token"
	"go/types"
	"os"
	"sort"
	"strings"
	"time"

	"golang.org/x/tools/go/ssa"

	"jtverif/internal/load"
)

type Obl struct {
	Rule   string
	Fn     *ssa.Function
	Instr  ssa.Instruction
	Sub    string // sub-construct (e.g. "lo>=0")
	OK     bool
	Detail string
	Ctx    string
}

type oblSink struct {
	obls []*Obl
}

type Analyzer struct {
	P        *load.Program
	K        int // disjunct budget per program point
	MaxDepth int
	nextID   int
	atoms    map[string]*Atom
	sinks    []*oblSink
	stack    []*ssa.Function
	finfo    map[*ssa.Function]*funcInfo
	derefObj map[int]*Obj
	elemObj  map[string]*Obj
	globObj  map[*ssa.Global]*Obj
	// Unresolved dynamic calls: possible repo targets that must be analysed as entries.
	Reach map[*ssa.Function]bool
	// GoTargets: functions started with `go`.
	GoTargets map[*ssa.Function]bool
	// AssumedTotal: external callees assumed total (evidence).
	AssumedTotal map[string]int
	Undecided    []string
	// Analysed functions (evidence).
	Analysed map[*ssa.Function]int
	// Hooks
	OnReturn func(fn *ssa.Function, st *State, val Term) // top-level entry returns
	OnCall   func(a *Analyzer, st *State, site ssa.CallInstruction, callee *ssa.Function, args []Term)
	// Recorded reads of input bytes etc. are available through atoms (Op/Args).
	steps    int
	MaxSteps int
	// RangeFuncYieldExempt: do not decide "yield called after the loop exited" (default: decided, E1.rangefunc)
	RangeFuncYieldExempt bool
	// immutable package-level variables and their initial values (globals.go)
	globImm    map[*ssa.Global]bool
	globInit   map[*ssa.Package]map[Loc]Term
	inGlobInit bool
	objGlobal  map[int]*ssa.Global
	// extCallback: closures currently being driven by an external (library) function through the callback model
	extCallback map[*ssa.Function]int
	// StepsUsed: the largest number of interpreted instructions any entry of this analyzer needed (budget calibration)
	StepsUsed       int
	entryFn         *ssa.Function
	strBases        map[string]*Base
	freshObjs       map[int]bool
	lastMergedExtra Term
	locTypes        map[Loc]types.Type
	strEq           map[int][2]*Slice
	boolSrc         map[int]*BoolSrc
	sentinelCache   map[*ssa.Global]bool
	// DynTargets lists possible repo callees of an unresolved dynamic call.
	DynTargets func(c *ssa.CallCommon) []*ssa.Function
	// PureHelpers: repo functions whose results keep a structural description.
	PureHelpers map[string]bool
	// E2 taint tracking
	Track         map[int]bool
	Stored        map[Loc]bool
	taint         map[int]map[Loc]bool
	initTerm      map[Loc]Term
	TaintBranches []TaintBranch
	// Impls lists the repo types implementing an interface (dynamic dispatch alternatives).
	Impls     func(iface types.Type) []types.Type
	ifaceRecv map[string]Term
	mapOrigin map[int]Loc
	// PairedMaps: last path element of a map field -> last path element of its partner field;
	// the client has verified that both maps of one owner always hold the same key set.
	PairedMaps map[string]string
	PairedUsed int
	nilCmp     map[int]int
	// NoExternalImpl: for these interfaces only repo implementations are explored.
	NoExternalImpl func(iface types.Type) bool
	// Opaque selects repo functions that are not inlined (verified separately as entries).
	Opaque          func(fn *ssa.Function) bool
	OpaqueUsed      map[*ssa.Function]int
	Deadline        time.Time
	Peel            bool // analyse the first iteration of loops separately (up to PeelDepth inlining levels)
	PeelDepth       int
	RangeFuncExempt int
	allFuncs        map[*ssa.Function]bool
	live            map[*ssa.Function]*liveInfo
	rootStack       []*rootSet
	// ExtraRoots: terms whose facts clients want to query at return states (kept by GC).
	ExtraRoots []Term
	// OnMapUpdate observes map stores (layout extraction of keyed items).
	OnMapUpdate func(fn *ssa.Function, ins *ssa.MapUpdate, st *State, m, k, v Term)
	// OnAppend observes append calls (dst slice, appended operand).
	OnAppend func(fn *ssa.Function, site ssa.Instruction, st *State, dst *Slice, src Term)
	// OnAppendUint observes binary.{Big,Little}Endian.AppendUintN(dst, val): width bytes of val appended to dst.
	OnAppendUint func(fn *ssa.Function, site ssa.Instruction, st *State, dst *Slice, width int64, val Term, littleEndian bool)
	// Reused: bases whose backing array is overwritten in place (E4), with the reason.
	Reused map[int]string
	// OnExternal observes calls of functions without a repo body (library calls).
	OnExternal func(fn *ssa.Function, site ssa.Instruction, name string, st *State, args []Term)
	// OnInlined observes every return of an inlined repo function.
	OnInlined func(fn *ssa.Function, args []Term, val Term, st *State)
	// OnWrite observes binary.PutUintN writes (layout extraction of encoders).
	OnWrite func(st *State, dst *Slice, width int64, val Term)
	// OpaquePure: pure repo helpers that are not inlined; their result is kept as helper(arg0) with the
	// declared length (>= 0: constant; -2: the second argument; -1: unknown).
	OpaquePure map[string]int64
	// AtomicCells: model sync/atomic typed integers (Load/Store/Add/Swap) as plain memory cells. Sound for the value
	// sequence seen by the one goroutine that advances the cell; not for values other goroutines may interleave.
	AtomicCells bool
	// pooledObj: objects that come from / go back to a sync.Pool; bufBytes: slices handed out by (*bytes.Buffer).Bytes per buffer object
	pooledObj map[int]bool
	bufBytes  map[int][]*Base
	// LogWrites: record writes into byte buffers in State.Log (encoder layout extraction).
	LogWrites bool
	// AtomNames / BaseNames: symbolic names of entry values (NameFields).
	AtomNames map[*Atom]string
	BaseNames map[*Base]string
	// Ghosts are client-owned integer variables threaded through the Env of the entry function
	// (synthetic values the program never defines). They are loop-carried like φ-nodes, so the
	// loop-invariant inference relates them to the program's counters.
	Ghosts   []*ssa.Phi
	ghostSet map[ssa.Value]bool
	// OnExternalResult observes the result of a library call (after its model ran).
	OnExternalResult func(fn *ssa.Function, site ssa.Instruction, name string, st *State, args []Term, val Term)
	// OnStore observes stores of the entry function: the value held before and the value stored.
	OnStore func(fn *ssa.Function, ins *ssa.Store, st *State, old, val Term)
	// OnMake observes every make([]T, len, cap) with the state in which it executes (allocation-size rules).
	OnMake func(fn *ssa.Function, site *ssa.MakeSlice, st *State, length, capacity Lin)
	// OnBranch observes every conditional edge after its condition has been assumed.
	OnBranch func(fn *ssa.Function, iff *ssa.If, taken bool, st *State)
	// OnReturn observes every return of the entry function before return states are merged.
	OnRet func(fn *ssa.Function, ret *ssa.Return, st *State, val Term)
}

// NewGhost creates a ghost integer variable; the client sets it with SetGhost in the entry state.
func (a *Analyzer) NewGhost(name string) *ssa.Phi {
	g := &ssa.Phi{Comment: "ghost:" + name}
	a.Ghosts = append(a.Ghosts, g)
	if a.ghostSet == nil {
		a.ghostSet = map[ssa.Value]bool{}
	}
	a.ghostSet[g] = true
	return g
}

func SetGhost(st *State, g *ssa.Phi, l Lin) { st.Env[g] = Int{l} }

func Ghost(st *State, g *ssa.Phi) (Lin, bool) {
	if v, ok := st.Env[g].(Int); ok {
		return v.L, true
	}
	return Lin{}, false
}

// Val evaluates an SSA value in st (exported for hooks).
func (a *Analyzer) Val(st *State, v ssa.Value) Term { return a.val(st, v) }

// BoolSrc describes an opaque boolean produced by a modelled predicate.
type BoolSrc struct {
	Fn   string
	X, Y *Slice
	Ver  int
}

func New(p *load.Program) *Analyzer {
	return &Analyzer{P: p, K: 48, MaxDepth: 14, atoms: map[string]*Atom{}, finfo: map[*ssa.Function]*funcInfo{},
		derefObj: map[int]*Obj{}, elemObj: map[string]*Obj{}, globObj: map[*ssa.Global]*Obj{},
		Reach: map[*ssa.Function]bool{}, GoTargets: map[*ssa.Function]bool{}, AssumedTotal: map[string]int{},
		Analysed: map[*ssa.Function]int{}, MaxSteps: 40_000_000,
		strBases: map[string]*Base{}, freshObjs: map[int]bool{}, locTypes: map[Loc]types.Type{}, strEq: map[int][2]*Slice{},
		live: map[*ssa.Function]*liveInfo{}, Track: map[int]bool{}, Stored: map[Loc]bool{}, taint: map[int]map[Loc]bool{}, initTerm: map[Loc]Term{}, ifaceRecv: map[string]Term{}, Reused: map[int]string{}, mapOrigin: map[int]Loc{}, nilCmp: map[int]int{}, OpaqueUsed: map[*ssa.Function]int{}, boolSrc: map[int]*BoolSrc{}, sentinelCache: map[*ssa.Global]bool{}, PureHelpers: map[string]bool{}}
}

func (a *Analyzer) id() int { a.nextID++; return a.nextID }

// ---- atoms ----------------------------------------------------------------

func (a *Analyzer) freshAtom(desc string, t types.Type) *Atom {
	at := &Atom{ID: a.id(), Desc: desc, Op: "?"}
	if t != nil {
		at.Lo, at.Hi, at.HasLo, at.HasHi = intRange(t)
	}
	return at
}

func (a *Analyzer) freshRange(desc string, lo, hi int64) *Atom {
	return &Atom{ID: a.id(), Desc: desc, Op: "?", Lo: lo, Hi: hi, HasLo: true, HasHi: true}
}

func (a *Analyzer) freshLen(desc string) *Atom {
	return &Atom{ID: a.id(), Desc: desc, Op: "len", Lo: 0, HasLo: true}
}

// structAtom returns the hash-consed atom for a pure derivation.
func (a *Analyzer) structAtom(op string, aux int64, t types.Type, desc string, args ...Term) *Atom {
	var b strings.Builder
	b.WriteString(op)
	fmt.Fprintf(&b, "#%d(", aux)
	for i, x := range args {
		if i > 0 {
			b.WriteByte(',')
		}
		b.WriteString(x.TKey())
	}
	b.WriteByte(')')
	if t != nil {
		// value range only (named/alias types with the same range share atoms)
		if isUnsigned(t) {
			fmt.Fprintf(&b, "u%d", typeBits(t))
		} else {
			fmt.Fprintf(&b, "i%d", typeBits(t))
		}
	}
	k := b.String()
	if at, ok := a.atoms[k]; ok {
		return at
	}
	at := &Atom{ID: a.id(), Key: k, Desc: desc, Op: op, Args: args, Aux: aux}
	if t != nil {
		at.Lo, at.Hi, at.HasLo, at.HasHi = intRange(t)
	}
	a.atoms[k] = at
	return at
}

// ---- obligations ------------------------------------------------------------

func (a *Analyzer) pushSink() *oblSink {
	s := &oblSink{}
	a.sinks = append(a.sinks, s)
	return s
}

func (a *Analyzer) popSink() *oblSink {
	s := a.sinks[len(a.sinks)-1]
	a.sinks = a.sinks[:len(a.sinks)-1]
	return s
}

func (a *Analyzer) commit(s *oblSink) {
	top := a.sinks[len(a.sinks)-1]
	top.obls = append(top.obls, s.obls...)
}

func (a *Analyzer) obl(rule string, fn *ssa.Function, instr ssa.Instruction, sub string, ok bool, detail func() string) {
	o := &Obl{Rule: rule, Fn: fn, Instr: instr, Sub: sub, OK: ok}
	if !ok {
		o.Detail = detail()
		o.Ctx = a.ctxString()
	}
	top := a.sinks[len(a.sinks)-1]
	top.obls = append(top.obls, o)
}

// Oblige records a client obligation through the same sink mechanism as the built-in rules
// (only the obligations of the converged loop iteration are kept).
func (a *Analyzer) Oblige(rule string, fn *ssa.Function, instr ssa.Instruction, sub string, ok bool, detail string) {
	a.obl(rule, fn, instr, sub, ok, func() string { return detail })
}

func (a *Analyzer) ctxString() string {
	var parts []string
	for _, f := range a.stack {
		parts = append(parts, shortFn(f))
	}
	return strings.Join(parts, " → ")
}

func shortFn(f *ssa.Function) string {
	s := f.String()
	s = strings.ReplaceAll(s, load.ModPrefix, "")
	return s
}

// ---- function info: RPO, loops ------------------------------------------------

type funcInfo struct {
	rpo    []*ssa.BasicBlock
	rpoIdx map[*ssa.BasicBlock]int
	loops  map[*ssa.BasicBlock]map[*ssa.BasicBlock]bool // header -> body (incl. header)
}

func (a *Analyzer) info(fn *ssa.Function) *funcInfo {
	if fi, ok := a.finfo[fn]; ok {
		return fi
	}
	fi := &funcInfo{rpoIdx: map[*ssa.BasicBlock]int{}, loops: map[*ssa.BasicBlock]map[*ssa.BasicBlock]bool{}}
	seen := map[*ssa.BasicBlock]bool{}
	var post []*ssa.BasicBlock
	var dfs func(b *ssa.BasicBlock)
	dfs = func(b *ssa.BasicBlock) {
		seen[b] = true
		for _, s := range b.Succs {
			if !seen[s] {
				dfs(s)
			}
		}
		post = append(post, b)
	}
	if len(fn.Blocks) > 0 {
		dfs(fn.Blocks[0])
	}
	if fn.Recover != nil && !seen[fn.Recover] {
		// recover block unreachable in normal flow; ignore
	}
	for i := len(post) - 1; i >= 0; i-- {
		fi.rpoIdx[post[i]] = len(fi.rpo)
		fi.rpo = append(fi.rpo, post[i])
	}
	// back edges u->h with h dominating u
	for _, u := range fi.rpo {
		for _, h := range u.Succs {
			if h.Dominates(u) {
				body := fi.loops[h]
				if body == nil {
					body = map[*ssa.BasicBlock]bool{h: true}
					fi.loops[h] = body
				}
				// natural loop: nodes that reach u without passing h
				var work []*ssa.BasicBlock
				if !body[u] {
					body[u] = true
					work = append(work, u)
				}
				for len(work) > 0 {
					x := work[len(work)-1]
					work = work[:len(work)-1]
					for _, p := range x.Preds {
						if !body[p] && seen[p] {
							body[p] = true
							work = append(work, p)
						}
					}
				}
			}
		}
	}
	a.finfo[fn] = fi
	return fi
}

// ---- running ---------------------------------------------------------------------

type flow struct {
	to *ssa.BasicBlock
	st *State
}

type retState struct {
	st  *State
	val Term
}

type frame struct {
	fn    *ssa.Function
	fi    *funcInfo
	depth int
}

// RunEntry analyses fn from an initial state with the given parameter terms (receiver first).
// It returns the obligations produced.
func (a *Analyzer) RunEntry(fn *ssa.Function, st *State, args []Term, bindings []Term) ([]*Obl, []retState) {
	a.sinks = nil
	sink := a.pushSink()
	a.stack = nil
	a.steps = 0
	a.entryFn = fn
	// entry arguments stay live so that clients can relate return states to the inputs
	a.rootStack = []*rootSet{{extra: append(append([]Term(nil), args...), bindings...)}}
	var rets []retState
	func() {
		defer func() {
			if r := recover(); r != nil {
				if r == errBudget {
					a.Undecided = append(a.Undecided, fmt.Sprintf("%s: step budget exhausted", shortFn(fn)))
					return
				}
				panic(r)
			}
		}()
		rets = a.runFunc(fn, st, args, bindings, 0)
	}()
	a.sinks = nil
	if a.steps > a.StepsUsed {
		a.StepsUsed = a.steps
	}
	return sink.obls, rets
}

var errBudget = fmt.Errorf("budget")

var debugLoop = os.Getenv("JTVERIF_DEBUGLOOP") != ""

func (a *Analyzer) runFunc(fn *ssa.Function, st *State, args []Term, bindings []Term, depth int) []retState {
	a.Analysed[fn]++
	a.stack = append(a.stack, fn)
	defer func() { a.stack = a.stack[:len(a.stack)-1] }()
	fr := &frame{fn: fn, fi: a.info(fn), depth: depth}
	oldEnv := st.Env
	st.Env = map[ssa.Value]Term{}
	// ghosts thread through calls: the callee sees the caller's values and hands its own back
	for _, g := range a.Ghosts {
		if v, ok := oldEnv[g]; ok {
			st.Env[g] = v
		}
	}
	st.Defers = nil
	for i, p := range fn.Params {
		if i < len(args) && args[i] != nil {
			st.Env[p] = args[i]
		} else {
			st.Env[p] = a.unknownOf(p.Type(), p.Name(), st)
		}
	}
	for i, fv := range fn.FreeVars {
		if i < len(bindings) && bindings[i] != nil {
			st.Env[fv] = bindings[i]
		} else {
			st.Env[fv] = a.unknownOf(fv.Type(), fv.Name(), st)
		}
	}
	if len(fn.Blocks) == 0 {
		return nil
	}
	_, _, rets := a.runRegion(fr, fn.Blocks[0], []*State{st}, nil, false)
	if len(rets) > a.K {
		rets = a.mergeRets(rets)
	}
	return rets
}

// runRegion executes the blocks of region (nil = whole function) starting at head.
func (a *Analyzer) runRegion(fr *frame, head *ssa.BasicBlock, in []*State, region map[*ssa.BasicBlock]bool, isLoop bool) (exits []flow, backs []*State, rets []retState) {
	pending := map[*ssa.BasicBlock][]*State{head: in}
	route := func(fl flow) {
		if isLoop && fl.to == head {
			backs = append(backs, fl.st)
			return
		}
		if region != nil && !region[fl.to] {
			exits = append(exits, fl)
			return
		}
		pending[fl.to] = append(pending[fl.to], fl.st)
	}
	start := fr.fi.rpoIdx[head]
	for idx := start; idx < len(fr.fi.rpo); idx++ {
		b := fr.fi.rpo[idx]
		sts := pending[b]
		if len(sts) == 0 {
			continue
		}
		delete(pending, b)
		if region != nil && !region[b] {
			continue
		}
		for _, st := range sts {
			a.pruneEnv(fr, b, st)
		}
		if len(sts) > a.K && !returnsAtOnce(b) {
			sts = a.mergeStates(sts, nil)
		}
		for _, st := range sts {
			if len(st.Cons.GEs)+len(st.Cons.EQs)+len(st.Cons.NEs) > st.gcMark+24 {
				a.gc(st)
				st.gcMark = len(st.Cons.GEs) + len(st.Cons.EQs) + len(st.Cons.NEs)
			}
		}
		if body, ok := fr.fi.loops[b]; ok && !(isLoop && b == head) {
			ex, rs := a.runLoop(fr, b, body, sts)
			for _, f := range ex {
				route(f)
			}
			rets = append(rets, rs...)
			continue
		}
		for _, st := range sts {
			fls, rs := a.execBlock(fr, b, st)
			for _, f := range fls {
				route(f)
			}
			rets = append(rets, rs...)
		}
	}
	return
}

// takeEdge binds the φ-nodes of `to` for a state arriving from `from`.
func (a *Analyzer) takeEdge(from, to *ssa.BasicBlock, st *State) *State {
	pi := -1
	for i, p := range to.Preds {
		if p == from {
			pi = i
			break
		}
	}
	var phis []*ssa.Phi
	var vals []Term
	for _, ins := range to.Instrs {
		phi, ok := ins.(*ssa.Phi)
		if !ok {
			break
		}
		phis = append(phis, phi)
		vals = append(vals, a.val(st, phi.Edges[pi]))
	}
	for i, phi := range phis {
		st.Env[phi] = vals[i]
	}
	return st
}

// ---- loops ------------------------------------------------------------------------

type phiComp struct {
	phi      *ssa.Phi
	alpha    *Atom // integer φ (or slice length)
	kind     int   // 0 int, 1 slice(len only), 2 other
	base     *Base // slice: stable base or fresh
	offA     *Atom
	entry    Lin // entry value (int: value; slice: len)
	entryOff Lin
	baseVar  bool
}

func (a *Analyzer) runLoop(fr *frame, h *ssa.BasicBlock, body map[*ssa.BasicBlock]bool, entries []*State) (exits []flow, rets []retState) {
	if a.Peel && fr.depth <= a.PeelDepth {
		// peel the first iteration: it is analysed from the concrete entry state, and the
		// states that come round the back edge become the entries of the generalised loop
		// (keeps "initialised during the first iteration" facts such as sync.Once + the field it sets)
		var second []*State
		for _, E := range entries {
			ex, backs, rs := a.runRegion(fr, h, []*State{E}, body, true)
			exits = append(exits, ex...)
			rets = append(rets, rs...)
			second = append(second, backs...)
		}
		if len(second) > a.K {
			second = a.mergeStates(second, nil)
		}
		entries = second
	}
	for _, E := range entries {
		ex, rs := a.runLoop1(fr, h, body, E)
		exits = append(exits, ex...)
		rets = append(rets, rs...)
	}
	return
}

func (a *Analyzer) runLoop1(fr *frame, h *ssa.BasicBlock, body map[*ssa.BasicBlock]bool, E *State) (exits []flow, rets []retState) {
	firstID := a.nextID
	var comps []*phiComp
	for _, ins := range h.Instrs {
		phi, ok := ins.(*ssa.Phi)
		if !ok {
			break
		}
		c := &phiComp{phi: phi, kind: 2}
		switch e := E.Env[phi].(type) {
		case Int:
			c.kind = 0
			c.alpha = a.freshAtom("φ"+phiName(phi), phi.Type())
			c.entry = e.L
		case *Slice:
			c.kind = 1
			c.alpha = a.freshLen("len(φ" + phiName(phi) + ")")
			c.offA = a.freshAtom("off(φ"+phiName(phi)+")", nil)
			c.entry = e.Len
			c.entryOff = e.Off
			c.base = e.Base
		}
		comps = append(comps, c)
	}
	for _, g := range a.Ghosts {
		if e, ok := E.Env[g].(Int); ok {
			comps = append(comps, &phiComp{phi: g, kind: 0, alpha: a.freshAtom("φ"+g.Comment, nil), entry: e.L})
		}
	}
	// the entry values of loop-carried variables appear in the candidate relations: facts about
	// them must survive garbage collection inside the body even when nothing else mentions them
	{
		var keep []Term
		for _, c := range comps {
			if c.kind == 0 || c.kind == 1 {
				keep = append(keep, Int{c.entry})
			}
			if c.kind == 1 {
				keep = append(keep, Int{c.entryOff})
			}
		}
		a.rootStack = append(a.rootStack, &rootSet{extra: keep})
		defer func() { a.rootStack = a.rootStack[:len(a.rootStack)-1] }()
	}
	type cand struct {
		l    Lin
		dead bool
	}
	var cands []*cand
	seenC := map[string]bool{}
	addCand := func(l Lin) bool {
		l = normGE(l)
		if len(l.Ts) == 0 {
			return false
		}
		k := l.Key()
		if seenC[k] {
			return false
		}
		seenC[k] = true
		cands = append(cands, &cand{l: l})
		return true
	}
	var ints []*phiComp
	for _, c := range comps {
		if c.kind == 0 || c.kind == 1 {
			ints = append(ints, c)
			al := AtomLin(c.alpha)
			addCand(al.Sub(c.entry))
			addCand(c.entry.Sub(al))
		}
		if c.kind == 1 {
			ol := AtomLin(c.offA)
			addCand(ol.Sub(c.entryOff))
			addCand(c.entryOff.Sub(ol))
		}
	}
	for i := 0; i < len(ints); i++ {
		for j := i + 1; j < len(ints); j++ {
			d := AtomLin(ints[i].alpha).Sub(AtomLin(ints[j].alpha))
			e := ints[i].entry.Sub(ints[j].entry)
			addCand(d.Sub(e))
			addCand(e.Sub(d))
		}
	}
	newVal := func(c *phiComp, B *State) (Lin, bool) {
		switch v := B.Env[c.phi].(type) {
		case Int:
			if c.kind == 0 {
				return v.L, true
			}
		case *Slice:
			if c.kind == 1 {
				return v.Len, true
			}
		}
		return Lin{}, false
	}
	// subst replaces the α atoms of l by the values the φ-nodes receive on a back edge.
	var subst func(l Lin, B *State, useEntry bool) (Lin, bool)
	subst = func(l Lin, B *State, useEntry bool) (Lin, bool) {
		out := Const(l.C)
		for _, t := range l.Ts {
			rep := AtomLin(t.A)
			if t.A.Op == "div" && t.A.Aux > 0 && len(t.A.Args) == 1 {
				// quotient of a loop-carried value: recompute it for the substituted argument
				if arg, ok := t.A.Args[0].(Int); ok {
					na, ok := subst(arg.L, B, useEntry)
					if !ok {
						return out, false
					}
					if !na.Equal(arg.L) {
						S := B
						if useEntry {
							S = E
						}
						if S == nil || !S.Cons.EntailsGE(na) {
							return out, false
						}
						rep = a.divTerm(S, na, t.A.Aux, nil)
					}
				}
			}
			for _, c := range comps {
				if c.alpha == t.A {
					if useEntry {
						rep = c.entry
					} else {
						v, ok := newVal(c, B)
						if !ok {
							return out, false
						}
						rep = v
					}
				} else if c.offA != nil && c.offA == t.A {
					if useEntry {
						rep = c.entryOff
					} else if v, ok := B.Env[c.phi].(*Slice); ok {
						rep = v.Off
					} else {
						return out, false
					}
				}
			}
			var ok bool
			out, ok = out.AddMul(rep, t.Coef)
			if !ok {
				return out, false
			}
		}
		return out, true
	}
	heapVar := map[Loc]Term{}
	verVar := map[int]bool{}
	otherPhi := map[*ssa.Phi]Term{}
	for iter := 0; ; iter++ {
		S := E.Clone()
		for _, c := range comps {
			switch c.kind {
			case 0:
				S.Env[c.phi] = Int{AtomLin(c.alpha)}
			case 1:
				S.Env[c.phi] = &Slice{Base: c.base, Off: AtomLin(c.offA), Len: AtomLin(c.alpha), IsStr: isString(c.phi.Type())}
				S.AssumeGE(AtomLin(c.offA))
			default:
				if u, ok := otherPhi[c.phi]; ok {
					S.Env[c.phi] = u
				}
			}
		}
		for _, c := range cands {
			if !c.dead {
				S.AssumeGE(c.l)
			}
		}
		for loc, u := range heapVar {
			S.Heap[loc] = u
		}
		for b := range verVar {
			S.Ver[b] = a.id()
		}
		headHeap := make(map[Loc]Term, len(S.Heap))
		for k, v := range S.Heap {
			headHeap[k] = v
		}
		headVer := make(map[int]int, len(S.Ver))
		for k, v := range S.Ver {
			headVer[k] = v
		}
		a.pushSink()
		ex, backs, rs := a.runRegion(fr, h, []*State{S}, body, true)
		sink := a.popSink()
		changed := false
		// taint of loop-carried values: entry and back-edge values
		for _, c := range comps {
			for _, B := range backs {
				switch c.kind {
				case 0:
					a.propagate(Int{AtomLin(c.alpha)}, E.Env[c.phi], B.Env[c.phi])
				case 1:
					a.propagate(&Slice{Base: c.base, Off: AtomLin(c.offA), Len: AtomLin(c.alpha)}, E.Env[c.phi], B.Env[c.phi])
				default:
					if u, ok := otherPhi[c.phi]; ok {
						a.propagate(u, E.Env[c.phi], B.Env[c.phi])
					}
				}
			}
		}
		for loc, u := range heapVar {
			for _, B := range backs {
				if bv, ok := B.Heap[loc]; ok {
					a.propagate(u, bv)
				}
			}
		}
		for _, c := range comps {
			switch c.kind {
			case 2:
				cur := S.Env[c.phi]
				if u, ok := otherPhi[c.phi]; ok {
					cur = u
				} else {
					cur = E.Env[c.phi]
				}
				for _, B := range backs {
					bv := B.Env[c.phi]
					if cur == nil || bv == nil || cur.TKey() != bv.TKey() {
						if _, done := otherPhi[c.phi]; !done {
							u := a.unknownOf(c.phi.Type(), "φ"+phiName(c.phi), nil)
							if uu, ok := u.(*Unknown); ok {
								if nilness(cur) == nilIs || nilness(bv) == nilIs || nilness(cur) == nilMaybe || nilness(bv) == nilMaybe {
									uu.Nilness = nilMaybe
									uu.Why = "loop-carried value that is nil on some path"
								}
							}
							otherPhi[c.phi] = u
							changed = true
						}
						break
					}
				}
			case 1:
				for _, B := range backs {
					if v, ok := B.Env[c.phi].(*Slice); !ok || v.Base != c.base {
						if !c.baseVar {
							c.baseVar = true
							// a buffer that is fresh on entry and on every back edge stays fresh
							fresh := c.base != nil && c.base.Fresh
							for _, B2 := range backs {
								if v2, ok := B2.Env[c.phi].(*Slice); !ok || !v2.Base.Fresh {
									fresh = false
								}
							}
							nb := &Base{ID: a.id(), Desc: "φ" + phiName(c.phi), Fresh: fresh}
							if c.base != nil {
								nb.MayAlias = append(nb.MayAlias, c.base)
							}
							for _, B2 := range backs {
								if v2, ok := B2.Env[c.phi].(*Slice); ok {
									nb.MayAlias = append(nb.MayAlias, v2.Base)
								}
							}
							c.base = nb
							changed = true
						}
						break
					}
				}
			}
		}
		if iter == 0 && len(backs) > 0 {
			// (a) constant deltas → linear relations between counters
			type delta struct {
				c *phiComp
				d int64
			}
			var deltas []delta
			for _, c := range ints {
				var d int64
				okAll := true
				for bi, B := range backs {
					nv, ok := newVal(c, B)
					if !ok {
						okAll = false
						break
					}
					diff := nv.Sub(AtomLin(c.alpha))
					if !diff.IsConst() || (bi > 0 && d != diff.C) {
						okAll = false
						break
					}
					d = diff.C
				}
				if okAll && d != 0 {
					deltas = append(deltas, delta{c, d})
				}
			}
			// counters advancing by a constant stride d >= 2 keep their residue modulo d:
			// α - d*(α/d) == e - d*(e/d)
			for _, dl := range deltas {
				d := dl.d
				if d < 2 || d > 16 || dl.c.kind != 0 || !E.Cons.EntailsGE(dl.c.entry) {
					continue
				}
				S0 := E.Clone()
				S0.AssumeGE(AtomLin(dl.c.alpha))
				qa := a.divTerm(S0, AtomLin(dl.c.alpha), d, nil)
				qe := a.divTerm(E, dl.c.entry, d, nil)
				l := AtomLin(dl.c.alpha).Sub(qa.Scale(d))
				e := dl.c.entry.Sub(qe.Scale(d))
				if addCand(l.Sub(e)) {
					changed = true
				}
				if addCand(e.Sub(l)) {
					changed = true
				}
			}
			for i := 0; i < len(deltas); i++ {
				for j := i + 1; j < len(deltas); j++ {
					l := AtomLin(deltas[i].c.alpha).Scale(deltas[j].d).Sub(AtomLin(deltas[j].c.alpha).Scale(deltas[i].d))
					e := deltas[i].c.entry.Scale(deltas[j].d).Sub(deltas[j].c.entry.Scale(deltas[i].d))
					if addCand(l.Sub(e)) {
						changed = true
					}
					if addCand(e.Sub(l)) {
						changed = true
					}
				}
			}
			// (b) projection of each back-edge state onto (new φ values, outer atoms)
			for _, B := range backs {
				BC := B.Cons.clone()
				betas := map[*Atom]*Atom{}
				var seed []Lin
				for _, c := range ints {
					nv, ok := newVal(c, B)
					if !ok {
						continue
					}
					beta := &Atom{ID: a.id(), Desc: "β"}
					betas[beta] = c.alpha
					BC.Add(Con{AtomLin(beta).Sub(nv), EQ})
					seed = append(seed, AtomLin(beta))
				}
				proj := BC.Project(seed, func(at *Atom) bool {
					if _, ok := betas[at]; ok {
						return false
					}
					return at.ID > firstID
				})
				for _, l := range proj {
					has := false
					out := Const(l.C)
					for _, t := range l.Ts {
						if al, ok := betas[t.A]; ok {
							has = true
							out = out.Add(AtomLin(al).Scale(t.Coef))
						} else {
							out = out.Add(AtomLin(t.A).Scale(t.Coef))
						}
					}
					if !has || len(out.Ts) > 4 {
						continue
					}
					ent, ok := subst(out, nil, true)
					if ok && E.Cons.EntailsGE(ent) {
						if addCand(out) {
							changed = true
						}
					}
				}
			}
		}
		// Houdini filter: drop candidates not re-established on some back edge
		for _, c := range cands {
			if c.dead {
				continue
			}
			for _, B := range backs {
				g, ok := subst(c.l, B, false)
				if !ok || !B.Cons.EntailsGE(g) {
					if debugLoop {
						fmt.Printf("    cand %s >= 0 dies (subst ok=%v: %s)\n", c.l, ok, g)
					}
					c.dead = true
					changed = true
					break
				}
			}
		}
		// heap stability
		for loc, v := range headHeap {
			for _, B := range backs {
				bv, ok := B.Heap[loc]
				if !ok || bv.TKey() != v.TKey() {
					if _, done := heapVar[loc]; !done {
						heapVar[loc] = a.havocTerm(loc, v, bv)
						a.propagate(heapVar[loc], v, bv)
						changed = true
						if debugLoop {
							fmt.Printf("  loop %s iter %d: heap loc o%d%s varies (%s vs %v)\n", a.P.RelPos(h.Instrs[0].Pos()), iter, loc.Obj, loc.Path, v.TKey(), bv)
						}
					}
					break
				}
			}
		}
		// locations first written inside the loop on fresh (zero-initialised) objects
		for _, B := range backs {
			for loc, bv := range B.Heap {
				if _, ok := headHeap[loc]; ok {
					continue
				}
				if strings.HasPrefix(loc.Path, "[") || strings.HasPrefix(loc.Path, "?[") {
					// cached map lookups; updates are tracked through the #nonempty marker
					continue
				}
				if a.freshObjs[loc.Obj] && loc.Obj <= firstID {
					if t, ok := a.locTypes[loc]; ok {
						if z := a.zeroOf(t); sameValue(z, bv) {
							continue // still holds its zero value
						}
					}
					if _, done := heapVar[loc]; !done {
						heapVar[loc] = a.havocTerm(loc, bv)
						a.propagate(heapVar[loc], bv)
						changed = true
						if debugLoop {
							fmt.Printf("  loop %s iter %d: new heap loc o%d%s\n", a.P.RelPos(h.Instrs[0].Pos()), iter, loc.Obj, loc.Path)
						}
					}
				}
			}
		}
		for b, v := range headVer {
			for _, B := range backs {
				if B.Ver[b] != v && !verVar[b] {
					verVar[b] = true
					changed = true
				}
			}
		}
		for _, B := range backs {
			for b, v := range B.Ver {
				if _, ok := headVer[b]; !ok && v != 0 && b <= firstID && !verVar[b] {
					verVar[b] = true
					changed = true
				}
			}
		}
		if debugLoop {
			nd := 0
			for _, c := range cands {
				if !c.dead {
					nd++
				}
			}
			fmt.Printf("  loop %s iter %d: changed=%v cands alive=%d/%d heapVar=%d verVar=%d otherPhi=%d backs=%d\n", a.P.RelPos(h.Instrs[0].Pos()), iter, changed, nd, len(cands), len(heapVar), len(verVar), len(otherPhi), len(backs))
		}
		if !changed || iter > 40 {
			if iter > 40 {
				a.Undecided = append(a.Undecided, fmt.Sprintf("%s: loop at %s did not stabilise", shortFn(fr.fn), a.P.RelPos(h.Instrs[0].Pos())))
			}
			a.commit(sink)
			if iter <= 40 {
				a.progressObl(fr, h, body, comps, backs, newVal)
			}
			return ex, rs
		}
	}
}

// progressObl: a loop whose header guard compares a loop-carried integer with a loop-invariant bound (`for i < n`,
// `for i > 0`) must move that integer towards the bound by at least 1 on every back edge; otherwise an input that
// takes the offending path makes the loop spin for ever. Loops with other guards get no obligation.
func (a *Analyzer) progressObl(fr *frame, h *ssa.BasicBlock, body map[*ssa.BasicBlock]bool, comps []*phiComp, backs []*State, newVal func(c *phiComp, B *State) (Lin, bool)) {
	if len(h.Instrs) == 0 || len(h.Succs) != 2 {
		return
	}
	iff, ok := h.Instrs[len(h.Instrs)-1].(*ssa.If)
	if !ok {
		return
	}
	cmp, ok := iff.Cond.(*ssa.BinOp)
	if !ok {
		return
	}
	inT, inF := body[h.Succs[0]], body[h.Succs[1]]
	if inT == inF {
		return
	}
	op := cmp.Op
	if !inT { // the loop continues while the condition is false
		switch op {
		case token.LSS:
			op = token.GEQ
		case token.LEQ:
			op = token.GTR
		case token.GTR:
			op = token.LEQ
		case token.GEQ:
			op = token.LSS
		default:
			return
		}
	}
	invariant := func(v ssa.Value) bool {
		for depth := 0; depth < 4; depth++ {
			switch x := v.(type) {
			case *ssa.Const, *ssa.Parameter, *ssa.FreeVar, *ssa.Global:
				return true
			case *ssa.Convert:
				v = x.X
				continue
			case *ssa.Call:
				if b, isB := x.Call.Value.(*ssa.Builtin); isB && b.Name() == "len" && len(x.Call.Args) == 1 {
					// the length of a slice or string VALUE never changes; the value must come from outside the loop
					if _, isMap := x.Call.Args[0].Type().Underlying().(*types.Map); isMap {
						return false
					}
					v = x.Call.Args[0]
					continue
				}
				return false
			}
			if ins, isI := v.(ssa.Instruction); isI {
				return !body[ins.Block()] && ins.Block() != h
			}
			return false
		}
		return false
	}
	var comp *phiComp
	up := false
	for _, c := range comps {
		if c.kind != 0 {
			continue
		}
		switch {
		case cmp.X == ssa.Value(c.phi) && invariant(cmp.Y):
			comp, up = c, op == token.LSS || op == token.LEQ
			if op != token.LSS && op != token.LEQ && op != token.GTR && op != token.GEQ {
				comp = nil
			}
		case cmp.Y == ssa.Value(c.phi) && invariant(cmp.X):
			comp, up = c, op == token.GTR || op == token.GEQ
			if op != token.LSS && op != token.LEQ && op != token.GTR && op != token.GEQ {
				comp = nil
			}
		}
	}
	if comp == nil {
		return
	}
	okAll, detail := true, ""
	for _, B := range backs {
		nv, have := newVal(comp, B)
		var need Lin
		if up {
			need = nv.Sub(AtomLin(comp.alpha)).AddC(-1)
		} else {
			need = AtomLin(comp.alpha).Sub(nv).AddC(-1)
		}
		if !have || !B.Cons.EntailsGE(need) {
			okAll = false
			dir := "increase"
			if !up {
				dir = "decrease"
			}
			detail = fmt.Sprintf("the loop guarded by this comparison can take a path back to its head on which %s does not %s (next value %s): for an input that takes this path the loop never ends\n%s",
				phiName(comp.phi), dir, nv.String(), B.Describe(nv))
			break
		}
	}
	a.obl("E1.progress", fr.fn, cmp, "", okAll, func() string { return detail })
}


// havocTerm returns an unconstrained value for a heap location whose value changes.
func (a *Analyzer) havocTerm(loc Loc, old Term, others ...Term) Term {
	t := a.havocTerm0(loc, old, others...)
	if ns, ok := t.(*Slice); ok {
		for _, x := range append([]Term{old}, others...) {
			if xs, ok := x.(*Slice); ok && xs.Base != ns.Base {
				ns.Base.MayAlias = append(ns.Base.MayAlias, xs.Base)
			}
		}
	}
	return t
}

func (a *Analyzer) havocTerm0(loc Loc, old Term, others ...Term) Term {
	maybeNil := false
	for _, x := range append([]Term{old}, others...) {
		if n := nilness(x); n == nilIs || n == nilMaybe {
			maybeNil = true
		}
	}
	if t, ok := a.locTypes[loc]; ok {
		u := a.unknownOf(t, "~"+loc.Path, nil)
		if _, isSlice := t.Underlying().(*types.Slice); maybeNil && isPointerLike(t) && !isSlice {
			// a location that holds nil on some path stays possibly-nil after generalisation
			return &Unknown{ID: a.id(), Typ: t, Desc: "~" + prettyPath(loc.Path), Nilness: nilMaybe, Why: "location that holds nil on some path"}
		}
		return u
	}
	switch v := old.(type) {
	case Int:
		return Int{AtomLin(a.freshAtom("~"+loc.Path, nil))}
	case *Slice:
		return &Slice{Base: &Base{ID: a.id(), Desc: "~" + v.Base.Desc}, Off: Const(0), Len: AtomLin(a.freshLen("len(~" + v.Base.Desc + ")")), IsStr: v.IsStr}
	case *Bool:
		return &Bool{Kind: BUnknown, ID: a.id()}
	case *Unknown:
		return &Unknown{ID: a.id(), Typ: v.Typ, Desc: "~" + v.Desc, Nilness: v.Nilness, Why: v.Why}
	case NilT:
		return &Unknown{ID: a.id(), Typ: v.Typ, Desc: "~nil", Nilness: nilMaybe, Why: "location that holds nil on some path"}
	case *Ptr:
		return &Unknown{ID: a.id(), Desc: "~ptr"}
	}
	return &Unknown{ID: a.id(), Desc: "~"}
}

func phiName(p *ssa.Phi) string {
	if p.Comment != "" {
		return p.Comment
	}
	return p.Name()
}

// ---- merging ------------------------------------------------------------------------

// mergeStates folds the list into a single state (weak join). extra: per-state extra term
// (e.g. return value) merged like an env entry; result returned through mergedExtra.
// selectorGroups partitions states by the values of enum-like heap locations (small integer
// / boolean / nil-ness constants that differ between the states), so that merging keeps the
// correlation between such a selector and the other fields.
func (a *Analyzer) selectorGroups(sts []*State) [][]int {
	type cand struct {
		loc  Loc
		vals map[string]bool
	}
	constKey := func(t Term) (string, bool) {
		switch v := t.(type) {
		case Int:
			if v.L.IsConst() {
				return fmt.Sprintf("i%d", v.L.C), true
			}
		case *Bool:
			if v.Kind == BConst {
				return fmt.Sprintf("b%v", v.Val), true
			}
		case NilT:
			return "nil", true
		case *Ptr:
			if !v.NilUnk {
				return "nonnil", true
			}
		}
		return "", false
	}
	var cands []*cand
	for loc := range sts[0].Heap {
		c := &cand{loc: loc, vals: map[string]bool{}}
		ok := true
		for _, s := range sts {
			v, present := s.Heap[loc]
			if !present {
				ok = false
				break
			}
			k, isC := constKey(v)
			if !isC {
				ok = false
				break
			}
			c.vals[k] = true
		}
		if ok && len(c.vals) > 1 && len(c.vals) <= 12 {
			cands = append(cands, c)
		}
	}
	if len(cands) == 0 {
		return nil
	}
	sort.Slice(cands, func(i, j int) bool {
		if len(cands[i].vals) != len(cands[j].vals) {
			return len(cands[i].vals) > len(cands[j].vals)
		}
		if cands[i].loc.Obj != cands[j].loc.Obj {
			return cands[i].loc.Obj < cands[j].loc.Obj
		}
		return cands[i].loc.Path < cands[j].loc.Path
	})
	if len(cands) > 3 {
		cands = cands[:3]
	}
	groups := map[string][]int{}
	var order []string
	for i, s := range sts {
		var sig []string
		for _, c := range cands {
			k, _ := constKey(s.Heap[c.loc])
			sig = append(sig, k)
		}
		key := strings.Join(sig, "|")
		if _, ok := groups[key]; !ok {
			order = append(order, key)
		}
		groups[key] = append(groups[key], i)
	}
	if len(order) < 2 || len(order) > a.K/2 {
		return nil
	}
	var out [][]int
	for _, k := range order {
		out = append(out, groups[k])
	}
	return out
}

func (a *Analyzer) mergeStates(sts []*State, extra []Term) []*State {
	if len(sts) <= 1 {
		return sts
	}
	if extra == nil {
		if groups := a.selectorGroups(sts); groups != nil {
			var out []*State
			for _, g := range groups {
				sub := make([]*State, len(g))
				for i, idx := range g {
					sub[i] = sts[idx]
				}
				out = append(out, a.mergeAll(sub, nil)...)
			}
			return out
		}
	}
	return a.mergeAll(sts, extra)
}

func (a *Analyzer) mergeAll(sts []*State, extra []Term) []*State {
	if len(sts) <= 1 {
		return sts
	}
	for i, s := range sts {
		if extra != nil {
			a.gc(s, extra[i])
		} else {
			a.gc(s)
		}
	}
	acc := sts[0]
	var accX Term
	if extra != nil {
		accX = extra[0]
	}
	for i := 1; i < len(sts); i++ {
		var x Term
		if extra != nil {
			x = extra[i]
		}
		acc, accX = a.join2(acc, sts[i], accX, x)
	}
	a.lastMergedExtra = accX
	return []*State{acc}
}

// retClass keeps successful and failing returns apart when return states are merged.
func retClass(v Term) string {
	last := v
	if tu, ok := v.(*Tuple); ok && len(tu.Elems) > 0 {
		last = tu.Elems[len(tu.Elems)-1]
	}
	switch x := last.(type) {
	case NilT:
		return "nil"
	case *Bool:
		if x.Kind == BConst {
			if x.Val {
				return "true"
			}
			return "false"
		}
	case *Unknown:
		if x.Nilness == nilNon {
			return "nonnil"
		}
	case *Iface, *Ptr:
		return "nonnil"
	}
	return "?"
}

func (a *Analyzer) mergeRets(rets []retState) []retState {
	groups := map[string][]retState{}
	var order []string
	for _, r := range rets {
		k := retClass(r.val)
		if _, ok := groups[k]; !ok {
			order = append(order, k)
		}
		groups[k] = append(groups[k], r)
	}
	if len(order) > 1 {
		var out []retState
		for _, k := range order {
			g := groups[k]
			if len(g) > a.K/len(order)+1 {
				g = a.mergeRets1(g)
			}
			out = append(out, g...)
		}
		return out
	}
	return a.mergeRets1(rets)
}

func (a *Analyzer) mergeRets1(rets []retState) []retState {
	sts := make([]*State, len(rets))
	xs := make([]Term, len(rets))
	for i, r := range rets {
		sts[i] = r.st
		xs[i] = r.val
	}
	m := a.mergeStates(sts, xs)
	return []retState{{m[0], a.lastMergedExtra}}
}

func (a *Analyzer) joinTerm(x, y Term, t types.Type, eqX, eqY *[]Con, desc string) Term {
	r := a.joinTerm0(x, y, t, eqX, eqY, desc)
	if r != nil && (x == nil || r.TKey() != x.TKey()) {
		a.propagate(r, x, y)
	}
	return r
}

func (a *Analyzer) joinTerm0(x, y Term, t types.Type, eqX, eqY *[]Con, desc string) Term {
	if x == nil || y == nil {
		return nil
	}
	if x.TKey() == y.TKey() {
		return x
	}
	switch xv := x.(type) {
	case Int:
		if yv, ok := y.(Int); ok {
			g := a.freshAtom("⊔"+desc, t)
			// tighten range when both constant
			gl := AtomLin(g)
			*eqX = append(*eqX, Con{gl.Sub(xv.L), EQ})
			*eqY = append(*eqY, Con{gl.Sub(yv.L), EQ})
			return Int{gl}
		}
	case *Slice:
		if yv, ok := y.(*Slice); ok {
			ln := a.freshLen("len(⊔" + desc + ")")
			ll := AtomLin(ln)
			*eqX = append(*eqX, Con{ll.Sub(xv.Len), EQ})
			*eqY = append(*eqY, Con{ll.Sub(yv.Len), EQ})
			out := &Slice{Len: ll, IsStr: xv.IsStr}
			if xv.Base == yv.Base {
				out.Base = xv.Base
				of := a.freshAtom("off(⊔"+desc+")", nil)
				ol := AtomLin(of)
				*eqX = append(*eqX, Con{ol.Sub(xv.Off), EQ})
				*eqY = append(*eqY, Con{ol.Sub(yv.Off), EQ})
				out.Off = ol
			} else {
				out.Base = &Base{ID: a.id(), Desc: "⊔" + desc, Fresh: xv.Base.Fresh && yv.Base.Fresh, MayAlias: []*Base{xv.Base, yv.Base}}
			}
			return out
		}
	case *Struct:
		if yv, ok := y.(*Struct); ok && len(xv.Fields) == len(yv.Fields) {
			out := &Struct{Typ: xv.Typ, Fields: make([]Term, len(xv.Fields))}
			st, _ := xv.Typ.Underlying().(*types.Struct)
			for i := range xv.Fields {
				var ft types.Type
				if st != nil && i < st.NumFields() {
					ft = st.Field(i).Type()
				}
				out.Fields[i] = a.joinTerm(xv.Fields[i], yv.Fields[i], ft, eqX, eqY, desc)
				if out.Fields[i] == nil && ft != nil {
					out.Fields[i] = a.unknownOf(ft, desc, nil)
				}
			}
			return out
		}
	case *Tuple:
		if yv, ok := y.(*Tuple); ok && len(xv.Elems) == len(yv.Elems) {
			out := &Tuple{Elems: make([]Term, len(xv.Elems))}
			tt, _ := t.(*types.Tuple)
			for i := range xv.Elems {
				var et types.Type
				if tt != nil && i < tt.Len() {
					et = tt.At(i).Type()
				}
				out.Elems[i] = a.joinTerm(xv.Elems[i], yv.Elems[i], et, eqX, eqY, desc)
				if out.Elems[i] == nil && et != nil {
					out.Elems[i] = a.unknownOf(et, desc, nil)
				}
			}
			return out
		}
	case *Bool:
		if _, ok := y.(*Bool); ok {
			return &Bool{Kind: BUnknown, ID: a.id()}
		}
	}
	if t == nil {
		return nil
	}
	u := a.unknownOf(t, "⊔"+desc, nil)
	if uu, ok := u.(*Unknown); ok {
		// nil-ness join
		nx, ny := nilness(x), nilness(y)
		switch {
		case nx == nilNon && ny == nilNon:
			uu.Nilness = nilNon
		case nx == nilMaybe || ny == nilMaybe || nx == nilIs || ny == nilIs:
			uu.Nilness = nilMaybe
			uu.Why = "joined with a nil value"
		}
	}
	return u
}

func (a *Analyzer) join2(x, y *State, ex, ey Term) (*State, Term) {
	out := &State{Cons: newConSet(), Heap: map[Loc]Term{}, Env: map[ssa.Value]Term{}, Ver: map[int]int{}}
	var eqX, eqY []Con
	for k, xv := range x.Env {
		yv, ok := y.Env[k]
		if !ok {
			continue
		}
		if t := a.joinTerm(xv, yv, k.Type(), &eqX, &eqY, k.Name()); t != nil {
			out.Env[k] = t
		}
	}
	heapJoins := 0
	peek := func(s *State, k Loc) Term {
		if v, ok := s.Heap[k]; ok {
			return v
		}
		// absent: zero on an untouched fresh object, otherwise unknown
		if a.freshObjs[k.Obj] && !strings.HasPrefix(k.Path, "[") && !strings.HasPrefix(k.Path, "?") && !strings.HasPrefix(k.Path, "#") {
			if t, ok := a.locTypes[k]; ok {
				for q := k.Path; q != ""; {
					i := strings.LastIndexAny(q, ".[")
					if i < 0 {
						break
					}
					q = q[:i]
					if _, ok := s.Heap[Loc{k.Obj, q}]; ok {
						return nil
					}
				}
				return a.zeroOf(t)
			}
		}
		return nil
	}
	joinLoc := func(k Loc, xv, yv Term) {
		if xv == nil || yv == nil {
			if a.freshObjs[k.Obj] {
				// must not fall back to "zero": make it explicitly unknown
				v := xv
				if v == nil {
					v = yv
				}
				if strings.HasPrefix(k.Path, "?") || strings.HasPrefix(k.Path, "#") {
					out.Heap[k] = True
					return
				}
				out.Heap[k] = a.havocTerm(k, v, NilT{})
			}
			return
		}
		if xv.TKey() == yv.TKey() {
			out.Heap[k] = xv
			return
		}
		t := a.locTypes[k]
		if t == nil {
			t = termType(xv)
		}
		heapJoins++
		if heapJoins > 24 {
			// many differing locations: join without relational information
			var dx, dy []Con
			if jt := a.joinTerm(xv, yv, t, &dx, &dy, "heap"); jt != nil {
				out.Heap[k] = jt
			} else if a.freshObjs[k.Obj] {
				out.Heap[k] = a.havocTerm(k, xv)
			}
			return
		}
		if jt := a.joinTerm(xv, yv, t, &eqX, &eqY, "heap"); jt != nil {
			out.Heap[k] = jt
		} else if a.freshObjs[k.Obj] {
			out.Heap[k] = a.havocTerm(k, xv)
		}
	}
	for k, xv := range x.Heap {
		joinLoc(k, xv, peek(y, k))
	}
	for k, yv := range y.Heap {
		if _, ok := x.Heap[k]; !ok {
			joinLoc(k, peek(x, k), yv)
		}
	}
	for b, v := range x.Ver {
		if y.Ver[b] == v {
			out.Ver[b] = v
		} else {
			out.Ver[b] = a.id()
		}
	}
	for b := range y.Ver {
		if _, ok := x.Ver[b]; !ok {
			out.Ver[b] = a.id()
		}
	}
	var ext Term
	if ex != nil && ey != nil {
		ext = a.joinTerm(ex, ey, termType(ex), &eqX, &eqY, "ret")
		if ext == nil {
			ext = ex
			if ex.TKey() != ey.TKey() {
				ext = &Unknown{ID: a.id(), Desc: "⊔ret"}
			}
		}
	}
	// defers: keep x's if same length, else undecided
	if len(x.Defers) == len(y.Defers) {
		out.Defers = append([]*deferred(nil), x.Defers...)
	} else {
		a.Undecided = append(a.Undecided, "merge of states with different defer stacks")
		out.Defers = append([]*deferred(nil), x.Defers...)
	}
	X := x.Cons.clone()
	for _, c := range eqX {
		X.Add(c)
	}
	Y := y.Cons.clone()
	for _, c := range eqY {
		Y.Add(c)
	}
	keep := func(c Con, other *ConSet) {
		if c.Rel == EQ {
			// try as equality, else the two halves
			if other.key[c.Key()] || other.EntailsEQ(c.L) {
				out.Cons.Add(c)
				return
			}
			if other.EntailsGE(c.L) {
				out.Cons.Add(Con{c.L, GE})
			}
			if n := c.L.Scale(-1); other.EntailsGE(n) {
				out.Cons.Add(Con{n, GE})
			}
			return
		}
		if other.key[c.Key()] || other.Entails(c) {
			out.Cons.Add(c)
		}
	}
	for _, c := range X.All() {
		keep(c, Y)
	}
	for _, c := range Y.All() {
		if !out.Cons.key[c.Key()] {
			keep(c, X)
		}
	}
	for k, v := range x.BoolFacts {
		if w, ok := y.BoolFacts[k]; ok && w == v {
			if out.BoolFacts == nil {
				out.BoolFacts = map[int]bool{}
			}
			out.BoolFacts[k] = v
		}
	}
	for k, v := range x.Dyn {
		if w, ok := y.Dyn[k]; ok && w == v {
			if out.Dyn == nil {
				out.Dyn = map[int]types.Type{}
			}
			out.Dyn[k] = v
		}
	}
	out.Trace = []string{"⊔(merged paths)"}
	return out, ext
}

func termType(t Term) types.Type {
	switch v := t.(type) {
	case *Unknown:
		return v.Typ
	case *Struct:
		return v.Typ
	}
	return nil
}

// sortedFuncs helper for deterministic output
func SortedFuncs(m map[*ssa.Function]bool) []*ssa.Function {
	var out []*ssa.Function
	for f := range m {
		out = append(out, f)
	}
	sort.Slice(out, func(i, j int) bool { return out[i].String() < out[j].String() })
	return out
}

// sameValue compares two terms for being the same concrete value (ignores identities of
// freshly made empty bases).
func sameValue(x, y Term) bool {
	if x == nil || y == nil {
		return false
	}
	if x.TKey() == y.TKey() {
		return true
	}
	if xs, ok := x.(*Slice); ok {
		if ys, ok := y.(*Slice); ok {
			return xs.Nil && ys.Nil
		}
	}
	return false
}

// returnsAtOnce: the block only selects the results and returns (the single exit of a function written as
// `err := f(); if err == nil { ... }; return err`). States that arrive here are not folded: the return states are
// merged afterwards by mergeRets, which keeps successful and failing returns apart; folding them here would mix the
// receiver of a failed call into the successful result.
func returnsAtOnce(b *ssa.BasicBlock) bool {
	if len(b.Instrs) == 0 || len(b.Instrs) > 8 {
		return false
	}
	if _, isRet := b.Instrs[len(b.Instrs)-1].(*ssa.Return); !isRet {
		return false
	}
	for _, ins := range b.Instrs[:len(b.Instrs)-1] {
		switch ins.(type) {
		case *ssa.Phi, *ssa.UnOp, *ssa.RunDefers, *ssa.DebugRef:
		default:
			return false
		}
	}
	return true
}
