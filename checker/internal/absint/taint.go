package absint

import (
	"go/types"
	"sort"
	"strings"

	"golang.org/x/tools/go/ssa"
)

// Taint tracking for engine E2 (history independence): values read from the tracked
// receiver object before this call wrote them carry the set of receiver locations they
// were read from. Implicit flows are not propagated; instead every branch on a tainted
// condition is reported to the client.

type TaintBranch struct {
	Fn    *ssa.Function
	Instr ssa.Instruction
	Srcs  []Loc
	Ctx   string
}

// TrackObj marks the object t points to as the receiver whose earlier contents must not
// influence the outcome. All its fields are materialised in st so that every path shares
// one name per initial field value.
func (a *Analyzer) TrackObj(st *State, t Term, pt types.Type) {
	if p, ok := t.(*Ptr); ok && p.Obj != nil {
		a.Track[p.Obj.ID] = true
		if ptr, ok := pt.Underlying().(*types.Pointer); ok {
			a.load(st, p, ptr.Elem())
		}
	}
}

// TrackField additionally tracks the object a pointer field of the receiver points to
// (e.g. Header.Property); returns the pointer term.
func (a *Analyzer) TrackField(st *State, recv Term, pt types.Type, field string) *Ptr {
	v, ft := a.LoadField(st, recv, pt, field)
	p, ok := v.(*Ptr)
	if !ok || ft == nil {
		return nil
	}
	p.NilUnk = false
	a.TrackObj(st, p, ft)
	return p
}

type idCollector struct {
	ids  map[int]bool
	seen map[interface{}]bool
}

func (c *idCollector) lin(l Lin) {
	for _, t := range l.Ts {
		c.atom(t.A)
	}
}

func (c *idCollector) atom(at *Atom) {
	if c.ids[at.ID] {
		return
	}
	c.ids[at.ID] = true
	for _, x := range at.Args {
		c.term(x)
	}
}

func (c *idCollector) base(b *Base) {
	if b == nil || c.ids[b.ID] {
		return
	}
	c.ids[b.ID] = true
	if b.From != nil {
		c.term(b.From)
	}
	if b.From2 != nil {
		c.term(b.From2)
	}
	if b.Val != nil {
		c.term(b.Val)
	}
	if b.Alias != nil {
		c.base(b.Alias)
	}
	for _, e := range b.Elems {
		if e != nil {
			c.term(e)
		}
	}
}

func (c *idCollector) term(t Term) {
	switch v := t.(type) {
	case nil:
	case Int:
		c.lin(v.L)
	case *Bool:
		switch v.Kind {
		case BCmp:
			c.lin(v.C.L)
		case BNot:
			c.term(v.X)
		case BUnknown:
			c.ids[v.ID] = true
		}
	case *Slice:
		c.base(v.Base)
		c.lin(v.Off)
		c.lin(v.Len)
	case *Ptr:
		if v.Obj != nil {
			c.ids[v.Obj.ID] = true
		}
		if v.Elem != nil {
			c.base(v.Elem)
			c.lin(v.ElemOff)
		}
	case *MapT:
		c.ids[v.Obj.ID] = true
	case *Struct:
		for _, f := range v.Fields {
			c.term(f)
		}
	case *Tuple:
		for _, f := range v.Elems {
			c.term(f)
		}
	case *Closure:
		for _, f := range v.Bindings {
			c.term(f)
		}
	case *Iface:
		c.term(v.Val)
	case *Unknown:
		c.ids[v.ID] = true
	case *baseRef:
		c.base(v.B)
	}
}

func idsOf(ts ...Term) map[int]bool {
	c := &idCollector{ids: map[int]bool{}}
	for _, t := range ts {
		c.term(t)
	}
	return c.ids
}

// Sources returns the receiver locations a term's value was derived from.
func (a *Analyzer) Sources(ts ...Term) map[Loc]bool {
	if len(a.taint) == 0 {
		return nil
	}
	var out map[Loc]bool
	for id := range idsOf(ts...) {
		for l := range a.taint[id] {
			if out == nil {
				out = map[Loc]bool{}
			}
			out[l] = true
		}
	}
	return out
}

func (a *Analyzer) taintTerm(t Term, srcs map[Loc]bool) {
	if len(srcs) == 0 || t == nil {
		return
	}
	// only the outermost identities of t (never the arguments of structural atoms or the
	// provenance of a buffer): tainting those would taint unrelated values that share them
	ids := map[int]bool{}
	var outer func(t Term)
	lin := func(l Lin) {
		for _, lt := range l.Ts {
			ids[lt.A.ID] = true
		}
	}
	outer = func(t Term) {
		switch v := t.(type) {
		case Int:
			lin(v.L)
		case *Bool:
			switch v.Kind {
			case BUnknown:
				ids[v.ID] = true
			case BNot:
				outer(v.X)
			}
		case *Slice:
			if v.Base != nil && v.Base.Str == nil {
				ids[v.Base.ID] = true
			}
			lin(v.Len)
		case *Ptr:
			if v.Obj != nil {
				ids[v.Obj.ID] = true
			}
		case *MapT:
			ids[v.Obj.ID] = true
		case *Unknown:
			ids[v.ID] = true
		case *Struct:
			for _, f := range v.Fields {
				outer(f)
			}
		case *Tuple:
			for _, f := range v.Elems {
				outer(f)
			}
		case *Iface:
			outer(v.Val)
		}
	}
	outer(t)
	for id := range ids {
		m := a.taint[id]
		if m == nil {
			m = map[Loc]bool{}
			a.taint[id] = m
		}
		for l := range srcs {
			m[l] = true
		}
	}
}

func (a *Analyzer) propagate(dst Term, from ...Term) {
	if len(a.taint) == 0 {
		return
	}
	a.taintTerm(dst, a.Sources(from...))
}

func (a *Analyzer) noteBranch(fr *frame, ins ssa.Instruction, cond Term) {
	if len(a.taint) == 0 {
		return
	}
	srcs := a.Sources(cond)
	if len(srcs) == 0 {
		return
	}
	var ls []Loc
	for l := range srcs {
		ls = append(ls, l)
	}
	sort.Slice(ls, func(i, j int) bool { return ls[i].Path < ls[j].Path })
	a.TaintBranches = append(a.TaintBranches, TaintBranch{Fn: fr.fn, Instr: ins, Srcs: ls, Ctx: a.ctxString()})
}

// InitTerm returns the value a tracked location held before this call (if it was read).
func (a *Analyzer) InitTerm(loc Loc) (Term, bool) {
	t, ok := a.initTerm[loc]
	return t, ok
}

// Covers reports whether loc (or an enclosing / enclosed location) is in set.
func Covers(set map[Loc]bool, loc Loc) bool {
	for s := range set {
		if s.Obj != loc.Obj {
			continue
		}
		if s.Path == loc.Path || strings.HasPrefix(loc.Path, s.Path+".") || strings.HasPrefix(loc.Path, s.Path+"[") ||
			strings.HasPrefix(s.Path, loc.Path+".") || strings.HasPrefix(s.Path, loc.Path+"[") {
			return true
		}
	}
	return false
}

// HeapValue returns the value held at loc in st (or by an enclosing location).
func HeapValue(st *State, loc Loc) (Term, bool) {
	if v, ok := st.Heap[loc]; ok {
		return v, true
	}
	for q := loc.Path; q != ""; {
		i := strings.LastIndexAny(q, ".[")
		if i < 0 {
			break
		}
		q = q[:i]
		if v, ok := st.Heap[Loc{loc.Obj, q}]; ok {
			return v, true
		}
	}
	return nil, false
}

func PrettyLoc(l Loc) string { return strings.TrimPrefix(prettyPath(l.Path), ".") }
