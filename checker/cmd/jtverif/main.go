package main

import (
	"fmt"
	"go/types"
	"os"
	"runtime/debug"
	"runtime/pprof"
	"sort"
	"strings"
	"time"

	"golang.org/x/tools/go/ssa"

	"jtverif/internal/absint"
	"jtverif/internal/checks"
	"jtverif/internal/load"
	"jtverif/internal/report"
)

func runCheck(args []string) int {
	if len(args) < 1 {
		fmt.Println("usage: jtverif check <Cxx> [--tier quick|thorough]")
		return 2
	}
	id := args[0]
	tier := os.Getenv("VERIF_TIER")
	repo, verif := "/repo", "/verif"
	for i := 1; i < len(args); i++ {
		switch args[i] {
		case "--tier":
			i++
			tier = args[i]
		case "--repo":
			i++
			repo = args[i]
		case "--verif":
			i++
			verif = args[i]
		}
	}
	if tier != "thorough" {
		tier = "quick"
	}
	ck, ok := checks.Registry[id]
	if !ok {
		fmt.Println("unknown property", id)
		return 2
	}
	r := report.New(id, tier, ck.Level, verif)
	r.CheckerCmd = "bin/jtverif check " + id + " --tier " + tier
	r.TrustBase = []string{"go/types and go/ssa (golang.org/x/tools v0.29.0)", "the checker's abstract domain and transfer functions (checker/internal/absint)", load.GoVersion()}
	opts := load.Options{Repo: repo, Verif: verif}
	if tier == "thorough" {
		// additionally cover build-tagged sources
		opts.Tags = []string{"verif"}
	}
	p, err := load.Load(opts)
	if err != nil {
		r.Fatal("cannot load /repo: %v", err)
		return r.Finish()
	}
	r.Notes["packages_loaded"] = len(p.Pkgs)
	c := &checks.Ctx{P: p, R: r, Tier: tier}
	func() {
		defer func() {
			if e := recover(); e != nil {
				r.Fatal("checker panic: %v\n%s", e, debug.Stack())
			}
		}()
		ck.Run(c)
	}()
	return r.Finish()
}

func main() {
	if len(os.Args) < 2 {
		fmt.Println("usage: jtverif check <Cxx> [--tier quick|thorough] | jtverif load | jtverif e1 <pkg> <Type|-> <Func>")
		os.Exit(2)
	}
	if pf := os.Getenv("JTVERIF_CPUPROFILE"); pf != "" {
		f, _ := os.Create(pf)
		pprof.StartCPUProfile(f)
		defer pprof.StopCPUProfile()
	}
	switch os.Args[1] {
	case "check":
		os.Exit(runCheck(os.Args[2:]))
	case "load":
		p, err := load.Load(load.Options{Repo: os.Getenv("JTVERIF_REPO")})
		if err != nil {
			fmt.Println("load error:", err)
			os.Exit(2)
		}
		for _, pk := range p.Pkgs {
			fmt.Println(pk.PkgPath, len(pk.GoFiles))
		}
	case "c07list":
		p, err := load.Load(load.Options{Repo: os.Getenv("JTVERIF_REPO")})
		if err != nil {
			fmt.Println("load error:", err)
			os.Exit(2)
		}
		checks.C07ListDebug(p, os.Args[2])
	case "c07dump":
		p, err := load.Load(load.Options{Repo: os.Getenv("JTVERIF_REPO")})
		if err != nil {
			fmt.Println("load error:", err)
			os.Exit(2)
		}
		checks.C07Dump(p)
	case "e1":
		t0 := time.Now()
		p, err := load.Load(load.Options{Repo: os.Getenv("JTVERIF_REPO")})
		if err != nil {
			fmt.Println("load error:", err)
			os.Exit(2)
		}
		fmt.Printf("loaded in %.1fs\n", time.Since(t0).Seconds())
		pkg, typ, name := os.Args[2], os.Args[3], os.Args[4]
		fn := p.Func(pkg, name)
		if typ != "-" {
			fn = p.Method(pkg, typ, name)
		}
		if fn == nil {
			fmt.Println("no such function")
			os.Exit(2)
		}
		a := absint.New(p)
		nApp := 0
		a.OnAppend = func(f *ssa.Function, site ssa.Instruction, st *absint.State, dst *absint.Slice, src absint.Term) { nApp++ }
		defer func() { fmt.Println("append hook calls:", nApp) }()
		t1 := time.Now()
		obls, rets := a.DefaultEntry(fn)
		fmt.Printf("analysed %s in %.2fs: %d obligations, %d return states, %d steps, undecided=%v\n", fn, time.Since(t1).Seconds(), len(obls), len(rets), a.StepsUsed, a.Undecided)
		for _, o := range obls {
			st := "ok  "
			if !o.OK {
				st = "FAIL"
			}
			fmt.Printf("%s %s / %s  @%s\n", st, o.Rule, a.Key(o), p.RelPos(o.Instr.Pos()))
			if !o.OK {
				fmt.Printf("      ctx: %s\n      %s\n", o.Ctx, strings.ReplaceAll(o.Detail, "\n", "\n      "))
			}
		}
		for _, u := range a.Undecided {
			fmt.Println("UNDECIDED:", u)
		}
	case "seq":
		p, err := load.Load(load.Options{Repo: os.Getenv("JTVERIF_REPO")})
		if err != nil {
			fmt.Println("load error:", err)
			os.Exit(2)
		}
		r := report.New("DBG", "quick", "other", "/tmp")
		c := &checks.Ctx{P: p, R: r, Tier: "quick"}
		res := c.DebugSeq(os.Args[2], os.Args[3], os.Args[4], os.Args[5], len(os.Args) > 6)
		for _, o := range res.Obls {
			if !o.OK {
				fmt.Printf("FAIL %s / %s @%s\n      ctx: %s\n      %s\n", o.Rule, res.A.Key(o), p.RelPos(o.Instr.Pos()), o.Ctx, strings.ReplaceAll(o.Detail, "\n", "\n      "))
			}
		}
		fmt.Printf("obligations=%d undecided=%v wall=%.1fs\n", len(res.Obls), res.Undecided, res.Wall)
	case "layout":
		p, err := load.Load(load.Options{Repo: os.Getenv("JTVERIF_REPO")})
		if err != nil {
			fmt.Println("load error:", err)
			os.Exit(2)
		}
		pkg, typ, name := os.Args[2], os.Args[3], os.Args[4]
		fn := p.Func(pkg, name)
		if typ != "-" {
			fn = p.Method(pkg, typ, name)
		}
		a := absint.New(p)
		a.PureHelpers = map[string]bool{load.ModPrefix + "protocol/utils.BCD2Time": true, load.ModPrefix + "protocol/utils.Bcd2Dec": true}
		st := absint.NewState()
		var args []absint.Term
		for _, prm := range fn.Params {
			args = append(args, a.Unknown(prm.Type(), prm.Name(), st))
		}
		a.TrackObj(st, args[0], fn.Params[0].Type())
		objs := map[int]string{args[0].(*absint.Ptr).Obj.ID: ""}
		for _, f := range os.Args[5:] {
			if fp := a.TrackField(st, args[0], fn.Params[0].Type(), f); fp != nil {
				objs[fp.Obj.ID] = f + "."
			}
		}
		_, rets := a.RunEntry(fn, st, args, nil)
		for i, r := range absint.Rets(rets) {
			fmt.Printf("--- return %d: %s\n", i, a.Render(r.Val))
			var locs []absint.Loc
			for l := range a.Stored {
				if _, ok := objs[l.Obj]; ok {
					locs = append(locs, l)
				}
			}
			sort.Slice(locs, func(i, j int) bool { return objs[locs[i].Obj]+locs[i].Path < objs[locs[j].Obj]+locs[j].Path })
			for _, l := range locs {
				if v, ok := absint.HeapValue(r.St, l); ok {
					fmt.Printf("   %-40s %s\n", objs[l.Obj]+absint.PrettyLoc(l), a.Render(v))
				} else {
					fmt.Printf("   %-40s <unwritten>\n", objs[l.Obj]+absint.PrettyLoc(l))
				}
			}
		}
	case "e1all":
		p, err := load.Load(load.Options{Repo: os.Getenv("JTVERIF_REPO")})
		if err != nil {
			fmt.Println("load error:", err)
			os.Exit(2)
		}
		pkg := os.Args[2]
		names := map[string]bool{}
		for _, n := range os.Args[3:] {
			names[n] = true
		}
		sp := p.Pkg(pkg)
		var fns []*ssa.Function
		for _, m := range sp.Members {
			switch v := m.(type) {
			case *ssa.Function:
				if names[v.Name()] {
					fns = append(fns, v)
				}
			case *ssa.Type:
				ms := p.SSA.MethodSets.MethodSet(types.NewPointer(v.Type()))
				for i := 0; i < ms.Len(); i++ {
					if names[ms.At(i).Obj().Name()] {
						if f := p.SSA.MethodValue(ms.At(i)); f != nil && f.Synthetic == "" {
							fns = append(fns, f)
						}
					}
				}
			}
		}
		sort.Slice(fns, func(i, j int) bool { return fns[i].String() < fns[j].String() })
		type agg struct {
			ok     bool
			detail string
			pos    string
		}
		res := map[string]*agg{}
		var order []string
		tot := time.Now()
		for _, fn := range fns {
			a := absint.New(p)
			a.Deadline = time.Now().Add(120 * time.Second)
			if os.Getenv("JTVERIF_OPAQUE") != "" {
				home := fn.Package()
				a.Opaque = func(f *ssa.Function) bool {
					pk := f.Package()
					for g := f; pk == nil && g != nil; g = g.Parent() {
						pk = g.Package()
					}
					return pk != nil && pk != home
				}
			}
			t1 := time.Now()
			obls, rets := a.DefaultEntry(fn)
			fmt.Printf("== %s: %.2fs, %d obligations, %d return states, undecided=%d\n", fn, time.Since(t1).Seconds(), len(obls), len(rets), len(a.Undecided))
			for _, u := range a.Undecided {
				fmt.Println("   UNDECIDED:", u)
			}
			for _, o := range obls {
				k := o.Rule + " / " + a.Key(o)
				g, ok := res[k]
				if !ok {
					g = &agg{ok: true, pos: p.RelPos(o.Instr.Pos())}
					res[k] = g
					order = append(order, k)
				}
				if !o.OK && g.ok {
					g.ok = false
					g.detail = "ctx: " + o.Ctx + "\n" + o.Detail
				}
			}
		}
		nf := 0
		for _, k := range order {
			if g := res[k]; !g.ok {
				nf++
				fmt.Printf("FAIL %s @%s\n      %s\n", k, g.pos, strings.ReplaceAll(g.detail, "\n", "\n      "))
			}
		}
		fmt.Printf("entries=%d distinct obligations=%d failing=%d total %.1fs\n", len(fns), len(order), nf, time.Since(tot).Seconds())
	default:
		os.Exit(2)
	}
}
