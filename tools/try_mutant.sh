#!/bin/sh
# usage: tools/try_mutant.sh <patch.diff> <property id>...   (applies to /repo, runs checks, reverts)
patch="$1"; shift
cd /verif || exit 2
git -C /repo diff --quiet || { echo "/repo not clean"; exit 2; }
git -C /repo apply "$patch" || { echo "patch does not apply"; exit 2; }
for id in "$@"; do
  out=$(./run.sh "$id" quick 2>&1); rc=$?
  n=$(printf '%s\n' "$out" | grep -c '^VIOLATION')
  echo "== $id exit=$rc violations=$n"
  printf '%s\n' "$out" | grep -E '^  (VIOLATED|UNDECIDED|FATAL)' | cut -c1-260 | head -8
done
git -C /repo checkout -- . 
git -C /repo status --short | head -3
