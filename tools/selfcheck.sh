#!/bin/bash
# usage: tools/selfcheck.sh [ids…] — for every seeded change: does the check of its own property report it? (scratch worktrees; /repo untouched)
export GOFLAGS=-mod=mod GOPROXY=off GOSUMDB=off GOTOOLCHAIN=local GOWORK=off
cd /verif
ids="$@"; [ -z "$ids" ] && ids=$(ls -d seeded/C??-? | xargs -n1 basename)
BIN=${JTVERIF_BIN:-/verif/bin/jtverif}
run1() {
  id=$1; P=${id%-*}
  W=$(mktemp -d /tmp/selfchk.XXXXXX); V=$(mktemp -d /tmp/selfchk-v.XXXXXX); rmdir $W
  git -C /repo worktree add -q --detach $W HEAD || { echo "$id no-worktree"; return; }
  if git -C $W apply /verif/seeded/$id/patch.diff 2>/dev/null; then
    cp -r /verif/spec $V/; cp /verif/known_findings.json $V/
    if $BIN check $P --repo $W --verif $V > $V/out.log 2>&1; then r=MISSED; else r="detected $(grep -E '^  (VIOLATED|UNDECIDED)' $V/out.log | awk '{print $2}' | sort -u | tr '\n' ',' | sed 's/,$//')"; fi
  else r=patch-does-not-apply; fi
  git -C /repo worktree remove --force $W 2>/dev/null; rm -rf $W $V
  echo "$id $r"
}
for id in $ids; do
  run1 $id &
  while [ $(jobs -r | wc -l) -ge ${PAR:-4} ]; do sleep 0.3; done
done
wait
