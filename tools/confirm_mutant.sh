#!/bin/bash
# usage: tools/confirm_mutant.sh <Cxx> <n>
# Confirms a candidate seeded change: applies it in a scratch worktree of /repo (never in /repo itself),
# builds and runs the repository's test suite there, runs the demonstration against the changed tree
# (must fail) and against /repo (must pass), removes the worktree. Prints one RESULT line.
P=$1; N=$2
SRC=/verif/seeded/$P-$N
[ -d "$SRC" ] || SRC=/tmp/mut/$P/mutants/$N
PATCH=$SRC/patch.rebased.diff; [ -f "$PATCH" ] || PATCH=$SRC/patch.diff
export GOFLAGS=-mod=mod GOPROXY=off GOSUMDB=off GOTOOLCHAIN=local GOWORK=off
W=/tmp/confirm/$P-$N
rm -rf "$W"; mkdir -p /tmp/confirm
git -C /repo worktree add -q --detach "$W" HEAD || { echo "RESULT $P-$N worktree-failed"; exit 2; }
cleanup() { git -C /repo worktree remove --force "$W" 2>/dev/null; rm -rf "$W"; }
trap cleanup EXIT
if ! git -C "$W" apply "$PATCH" 2>/tmp/confirm/$P-$N.apply; then
  echo "RESULT $P-$N patch-does-not-apply $(head -1 /tmp/confirm/$P-$N.apply)"; exit 1
fi
tests=pass
for m in shared protocol service attachment terminal; do
  ( cd "$W/$m" && go build ./... && go test -vet=off -count=1 -timeout 20m ./... ) >/tmp/confirm/$P-$N.test.$m 2>&1 &
done
wait
for m in shared protocol service attachment terminal; do
  if grep -qE "^(FAIL|---\s*FAIL|panic:)|build failed|cannot|undefined:" /tmp/confirm/$P-$N.test.$m; then tests="FAIL($m)"; fi
  grep -qE "^ok|no test files" /tmp/confirm/$P-$N.test.$m || tests="FAIL($m:no-ok)"
done
# the service module pins a cached protocol version; tests of dependants on the changed tree
dm=$(TAIL=40 /verif/tools/run_demo.sh $P $N "$W" 2>&1)
dr=$(TAIL=40 /verif/tools/run_demo.sh $P $N /repo 2>&1)
echo "$dm" > /tmp/confirm/$P-$N.demo.mutant; echo "$dr" > /tmp/confirm/$P-$N.demo.repo
mut=pass; echo "$dm" | grep -qE "^(FAIL|--- FAIL|panic:)|\[build failed\]" && mut=fail
echo "$dm" | grep -qE "^ok" || mut=fail
rep=pass; echo "$dr" | grep -qE "^(FAIL|--- FAIL|panic:)|\[build failed\]" && rep=fail
echo "$dr" | grep -qE "^ok" || rep=fail
echo "RESULT $P-$N tests=$tests demo_on_change=$mut demo_on_repo=$rep patch=$(basename $PATCH)"
