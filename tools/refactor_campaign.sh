#!/bin/bash
# usage: tools/refactor_campaign.sh [patches…] — runs every check against each behaviour-preserving patch under
# /verif/refactors (scratch worktrees, /repo untouched) and prints one RESULT line per patch. Expected: "alarms: none"
# except for the rewrites DESIGN.md lists as known unrecognised.
cd /verif
P="$@"; [ -z "$P" ] && P=$(ls refactors/*.diff)
mkdir -p /tmp/refbin && cp bin/jtverif /tmp/refbin/jtverif
for f in $P; do
  JTVERIF_BIN=/tmp/refbin/jtverif PAR=${PAR:-5} tools/try_refactor.sh /verif/$f > /tmp/refc_$(basename $f .diff).log 2>&1
  tail -1 /tmp/refc_$(basename $f .diff).log
done
