#!/bin/bash
# usage: tools/refactor_campaign.sh [patches…] — runs the checks against each behaviour-preserving patch under
# /verif/refactors (scratch worktrees, /repo untouched) and prints one RESULT line per patch. Expected: "alarms: none"
# except for the rewrites DESIGN.md lists as known unrecognised.
# ALL=1 runs all 20 checks per patch; by default only the checks that analyse a package the patch touches
# (entry packages of each check plus the packages its interpretation inlines).
cd /verif
P="$@"; [ -z "$P" ] && P=$(ls refactors/*.diff)
mkdir -p /tmp/refbin && cp bin/jtverif /tmp/refbin/jtverif
ALLIDS=$(seq -f "C%02g" 1 20 | tr '\n' ' ')
for f in $P; do
  ids=""
  if [ -n "$ALL" ]; then ids=$ALLIDS; else
    for pk in $(grep "^+++ b/" $f | sed 's|+++ b/||' | awk -F/ '{ if ($1=="protocol") print $1"/"$2; else print $1}' | sort -u); do
      case $pk in
        service) ids="$ids C04 C05 C06 C09 C10 C11 C12 C13 C14 C18 C20";;
        attachment) ids="$ids C09 C10 C15 C16 C19";;
        protocol/model) ids="$ids C03 C06 C07 C08 C09 C10 C12 C14 C15 C16 C18 C20";;
        protocol/jt1078) ids="$ids C03 C10 C17";;
        terminal) ids="$ids C09 C20";;
        *) ids=$ALLIDS;;
      esac
    done
    ids=$(echo $ids | tr ' ' '\n' | sort -u | tr '\n' ' ')
  fi
  JTVERIF_BIN=/tmp/refbin/jtverif PAR=${PAR:-5} tools/try_refactor.sh /verif/$f $ids > /tmp/refc_$(basename $f .diff).log 2>&1
  echo "$(tail -1 /tmp/refc_$(basename $f .diff).log) [ran: $ids]"
done
