#!/bin/bash
# usage: tools/try_wt.sh <patch> <check ids…> — runs checks against a scratch worktree of /repo with the patch applied (/repo untouched)
export GOFLAGS=-mod=mod GOPROXY=off GOSUMDB=off GOTOOLCHAIN=local GOWORK=off
PATCH=$1; shift
W=$(mktemp -d /tmp/trywt.XXXXXX); V=$(mktemp -d /tmp/trywt-v.XXXXXX); rmdir $W
git -C /repo worktree add -q --detach $W HEAD || exit 2
trap 'git -C /repo worktree remove --force $W 2>/dev/null; rm -rf $W $V' EXIT
git -C $W apply "$PATCH" || { echo "patch does not apply"; exit 1; }
cp -r /verif/spec $V/; cp /verif/known_findings.json $V/
for c in "$@"; do
  /verif/bin/jtverif check $c --repo $W --verif $V 2>&1 | grep -E "^C[0-9]+ |VIOLATED|UNDECIDED|FATAL|^      [a-zA-Z0-9]" | grep -v "entry:\|call path" | cut -c1-${WIDTH:-300}
done
