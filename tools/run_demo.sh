#!/bin/sh
# usage: tools/run_demo.sh <Cxx> <n> [repo dir]  — runs a seeded mutant's demonstration against a repo tree (default /repo)
P=$1; N=$2; REPO=${3:-/repo}
SRC=/verif/seeded/$P-$N/demo
[ -d "$SRC" ] || SRC=/tmp/mut/$P/mutants/$N/demo
FLAGS=""
[ -f "$SRC/../demo.flags" ] && FLAGS=$(cat "$SRC/../demo.flags")
export GOFLAGS=-mod=mod GOPROXY=off GOSUMDB=off GOTOOLCHAIN=local GOWORK=off
W=$(mktemp -d /tmp/demo.XXXXXX)
trap 'rm -rf "$W"' EXIT
if [ -f "$SRC/go.mod" ]; then
  cp -r "$SRC" "$W/demo"
  cd "$W/demo" || exit 2
  sed -i -E "s#=> (\.\./\.\./\.\./|/tmp/mut/$P/|/repo/)#=> $REPO/#" go.mod
  timeout 600 go test $FLAGS -count=1 ./... 2>&1 | tail -${TAIL:-6}
else
  # in-package test file(s): copy into the module the README names (guess from package clause)
  pkg=$(grep -h '^package ' "$SRC"/*.go | head -1 | awk '{print $2}')
  case "$pkg" in service|service_test) mod=service;; attachment|attachment_test) mod=attachment;; terminal|terminal_test) mod=terminal;; *) mod=protocol;; esac
  sub=.
  case "$pkg" in jt808|jt808_test) sub=jt808;; model|model_test) sub=model;; jt1078|jt1078_test) sub=jt1078;; esac
  [ -d "$REPO/$mod/$sub" ] || sub=.
  cp -r "$REPO/$mod" "$W/$mod"; cp "$SRC"/*.go "$W/$mod/$sub/"
  cd "$W/$mod/$sub" || exit 2
  # module deps resolve as in the original module (cached versions) unless replaced
  timeout 600 go test $FLAGS -vet=off -count=1 -run . ./ 2>&1 | tail -${TAIL:-6}
fi
