#!/bin/bash
# usage: tools/try_refactor.sh <patch> [check ids…]  — behaviour-preserving patch: every check must stay silent.
# Applies the patch in a scratch worktree of /repo (removed afterwards) and prints the checks that raise an alarm.
export GOFLAGS=-mod=mod GOPROXY=off GOSUMDB=off GOTOOLCHAIN=local GOWORK=off
PATCH=$1; shift
CHECKS="$@"
[ -z "$CHECKS" ] && CHECKS=$(python3 -c "import json;print(' '.join(c['property_id'] for c in json.load(open('/verif/MANIFEST.json'))['checks']))")
W=$(mktemp -d /tmp/tryref.XXXXXX); V=$(mktemp -d /tmp/tryref-v.XXXXXX); rmdir $W
git -C /repo worktree add -q --detach $W HEAD || exit 2
trap 'git -C /repo worktree remove --force $W 2>/dev/null; rm -rf $W $V' EXIT
git -C $W apply "$PATCH" || { echo "PATCH-DOES-NOT-APPLY $PATCH"; exit 1; }
cp -r /verif/spec $V/; cp /verif/known_findings.json $V/
for c in $CHECKS; do
  ( timeout 1200 ${JTVERIF_BIN:-/verif/bin/jtverif} check $c --repo $W --verif $V > $V/$c.log 2>&1; echo $? > $V/$c.rc ) &
  while [ $(jobs -r | wc -l) -ge ${PAR:-4} ]; do sleep 0.3; done
done
wait
alarms=""
for c in $CHECKS; do
  if [ "$(cat $V/$c.rc)" != "0" ]; then
    alarms="$alarms $c"
    echo "---- ALARM $c on $(basename $(dirname $(dirname $PATCH)))/$(basename $PATCH)"
    grep -E "^  (VIOLATED|UNDECIDED|FATAL)" -A2 $V/$c.log | cut -c1-400 | head -40
  fi
done
echo "RESULT $PATCH alarms:${alarms:- none}"
