#!/usr/bin/env python3
# usage: tools/make_meta.py <Cxx-n> "<RESULT line of confirm_mutant.sh>" — writes seeded/<id>/meta.json
import json,re,sys,subprocess,os
mid,result=sys.argv[1],sys.argv[2]
P=mid.split('-')[0]
d=f'/verif/seeded/{mid}'
readme=open(d+'/README.md').read()
title=readme.split('\n',1)[0].lstrip('# ').strip()
def sec(pat):
    m=re.search(r'## '+pat+r'[^\n]*\n(.*?)(?=\n## |\Z)',readme,re.S)
    return m.group(1).strip() if m else ''
head=subprocess.check_output(['git','-C','/repo','rev-parse','--short','HEAD']).decode().strip()
flags=open(d+'/demo.flags').read().strip() if os.path.exists(d+'/demo.flags') else ''
ok='tests=pass demo_on_change=fail demo_on_repo=pass' in result
meta={'id':mid,'breaks_property':P,'title':title,'clause_broken':sec('(?:Property )?[Cc]lause[s]? broken')[:1500],'needs_to_manifest':sec('What it needs to manifest')[:2000],
 'produced_by':'fresh sub-agent given only the property text and its own scratch worktree','rebased_by_hand':os.path.exists(d+'/patch.orig.diff'),
 'confirmed':{'against_repo_head':head,'ok':ok,'result_line':result,'how':'tools/confirm_mutant.sh %s %s: scratch worktree of /repo at HEAD + patch; go build + go test -vet=off -count=1 ./... in shared, protocol, service, attachment, terminal; demonstration run against the changed worktree and against /repo; worktree removed'%tuple(mid.split('-')),
   'tests_with_change':'pass' if 'tests=pass' in result else 'FAIL','demo_on_changed_tree':'fail' if 'demo_on_change=fail' in result else 'pass','demo_on_unchanged_tree':'pass' if 'demo_on_repo=pass' in result else 'fail','demo_flags':flags},
 'demonstration':'demo/ (run with tools/run_demo.sh %s %s <tree>)'%tuple(mid.split('-'))}
if not meta['clause_broken'] and not meta['needs_to_manifest']:
    # README without the usual section names: keep its text (after the title) so the record is self-contained
    meta['needs_to_manifest']=readme.split('\n',1)[1].strip()[:3000] if '\n' in readme else ''
json.dump(meta,open(d+'/meta.json','w'),indent=1,ensure_ascii=False)
print('meta',mid,'ok' if ok else 'NOT CONFIRMED')
