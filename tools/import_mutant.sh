#!/bin/bash
# usage: tools/import_mutant.sh <Cxx> <n> <dir with patch.diff README.md demo/> [extra check ids…]
# copies a candidate change into seeded/<Cxx>-<n>, normalises the demo's replace paths, confirms it, writes meta.json,
# and runs the property's own check (plus extra ids) against a scratch worktree with the change applied.
P=$1; N=$2; SRC=$3; shift 3
DST=/verif/seeded/$P-$N
rm -rf "$DST"; mkdir -p "$DST"
cp "$SRC/patch.diff" "$SRC/README.md" "$DST/" || exit 2
cp -r "$SRC/demo" "$DST/demo"
[ -f "$SRC/demo.flags" ] && cp "$SRC/demo.flags" "$DST/"
[ -f "$DST/demo/go.mod" ] && sed -i -E 's#=> /tmp/mut[0-9]*/C[0-9]+/#=> /repo/#' "$DST/demo/go.mod"
echo "== $P-$N: $(head -1 $DST/README.md)"
r=$(/verif/tools/confirm_mutant.sh $P $N); echo "$r"
/verif/tools/make_meta.py $P-$N "$r"
WIDTH=${WIDTH:-280} /verif/tools/try_wt.sh $DST/patch.diff $P "$@" | grep -v "^      \(facts\|path\)"
