#!/bin/bash
# usage: tools/determinism.sh [N] [ids…] — runs each check N times (default 3) and reports differing outputs
export GOFLAGS=-mod=mod GOPROXY=off GOSUMDB=off GOTOOLCHAIN=local GOWORK=off
N=${1:-3}; shift
ids=${@:-C01 C02 C03 C04 C05 C06 C07 C08 C09 C10 C11 C12 C13 C14 C15 C16 C17 C18 C19 C20}
D=$(mktemp -d /tmp/determinism.XXXXXX)
for c in $ids; do
  for i in $(seq 1 $N); do
    V=$D/v-$c-$i; mkdir -p $V; cp -r /verif/spec $V/; cp /verif/known_findings.json $V/
    /verif/bin/jtverif check $c --verif $V 2>&1 | grep -v "^WARNING" | sed -E 's/wall=[0-9.]+s//; s#/tmp/determinism[^ ]*##g' | sort > $D/$c.$i.out
  done
  same=yes
  for i in $(seq 2 $N); do cmp -s $D/$c.1.out $D/$c.$i.out || same=NO; done
  echo "$c deterministic=$same lines=$(wc -l < $D/$c.1.out)"
  if [ $same = NO ]; then diff $D/$c.1.out $D/$c.2.out | head -10; fi
done
rm -rf $D
